(* C05 — lemmas, part G: the event index describes the chain. Invariants about the CONTENT of the
   persisted windows, the snapshot and the in-memory filter; their preservation by every batch; and the
   conclusion: a fresh process has no false negatives (index_covers). *)
From Coq Require Import List NArith Bool Lia ZifyN ZifyNat ZifyBool.
From V Require Import C05.Model C05.Proofs_A C05.Proofs_B C05.Proofs_C C05.Proofs_E C05.Proofs_F C05.Proofs_D.
Import ListNotations.
Open Scope N_scope.

(* ---------- columns ---------- *)
Definition ccol (c : cols) (hb : block) : Prop :=
  forall k, In k (b_bloom hb) -> col_has c (b_num hb) k = true.

Lemma ccol_forallb : forall c hb, forallb (fun k => col_has c (b_num hb) k) (b_bloom hb) = true <-> ccol c hb.
Proof. intros. unfold ccol. rewrite forallb_forall. tauto. Qed.

Lemma col_has_cons_same : forall c n bl k, In k bl -> col_has ((n, bl) :: c) n k = true.
Proof.
  intros. unfold col_has. simpl. rewrite N.eqb_refl. simpl.
  assert (existsb (N.eqb k) bl = true) as ->. { apply existsb_exists. exists k. split; auto. apply N.eqb_refl. }
  reflexivity.
Qed.

Lemma col_has_cons_mono : forall c e n k, col_has c n k = true -> col_has (e :: c) n k = true.
Proof. intros. unfold col_has in *. simpl. rewrite H. apply orb_true_r. Qed.

Lemma col_has_clear_other : forall c m n k, n <> m -> col_has (col_clear m c) n k = col_has c n k.
Proof.
  intros c m n k Hn. unfold col_has, col_clear. induction c as [|e c IH]; simpl; auto.
  destruct (fst e =? m) eqn:E; simpl.
  - rewrite IH. apply N.eqb_eq in E. destruct (fst e =? n) eqn:E2; [apply N.eqb_eq in E2; lia|reflexivity].
  - rewrite IH. reflexivity.
Qed.

Lemma ccol_cons_mono : forall c e hb, ccol c hb -> ccol (e :: c) hb.
Proof. unfold ccol. intros. apply col_has_cons_mono. auto. Qed.

Lemma ccol_cons_same : forall c hb, ccol ((b_num hb, b_bloom hb) :: c) hb.
Proof. unfold ccol. intros. apply col_has_cons_same. auto. Qed.

Lemma ccol_clear_other : forall c m hb, b_num hb <> m -> ccol c hb -> ccol (col_clear m c) hb.
Proof. unfold ccol. intros. rewrite col_has_clear_other; auto. Qed.

(* ---------- get_window after window writes ---------- *)
Lemma find_filter_imp : forall {A} (P Q : A -> bool) l, (forall x, P x = true -> Q x = true) ->
  find P (filter Q l) = find P l.
Proof.
  induction l; simpl; intros H; auto. destruct (Q a) eqn:E; simpl.
  - destruct (P a); auto.
  - destruct (P a) eqn:E2; auto. rewrite (H a E2) in E. discriminate.
Qed.

Lemma get_window_ext : forall d1 d2 a, d_windows d1 = d_windows d2 -> get_window d1 a = get_window d2 a.
Proof. intros. unfold get_window. rewrite H. reflexivity. Qed.

Lemma gw_put_same : forall d a c, get_window (apply_batch d [WWindow a (Some c)]) a = Some c.
Proof. intros. unfold get_window. simpl. rewrite N.eqb_refl. reflexivity. Qed.

Lemma gw_put_other : forall d a c a', a' <> a ->
  get_window (apply_batch d [WWindow a (Some c)]) a' = get_window d a'.
Proof.
  intros. unfold get_window. simpl. destruct (a =? a') eqn:E; [apply N.eqb_eq in E; lia|].
  unfold win_del. rewrite find_filter_imp; auto.
  intros x Hx. apply N.eqb_eq in Hx. destruct (fst x =? a) eqn:E2; auto. apply N.eqb_eq in E2. lia.
Qed.

Lemma gw_del_same : forall d a, get_window (apply_batch d [WWindow a None]) a = None.
Proof.
  intros. unfold get_window. simpl. unfold win_del.
  destruct (find (fun e => fst e =? a) (filter (fun e => negb (fst e =? a)) (d_windows d))) eqn:E; auto.
  apply find_some in E as [E1 E2]. apply filter_In in E1 as [_ E1]. rewrite E2 in E1. discriminate.
Qed.

Lemma gw_del_other : forall d a a', a' <> a ->
  get_window (apply_batch d [WWindow a None]) a' = get_window d a'.
Proof.
  intros. unfold get_window. simpl. unfold win_del. rewrite find_filter_imp; auto.
  intros x Hx. apply N.eqb_eq in Hx. destruct (fst x =? a) eqn:E2; auto. apply N.eqb_eq in E2. lia.
Qed.

Lemma gw_below : forall d a0 a, get_window (apply_batch d [WWindowsBelow a0]) a =
  if a0 <=? a then get_window d a else None.
Proof.
  intros. unfold get_window. simpl. destruct (a0 <=? a) eqn:E.
  - rewrite find_filter_imp; auto. intros x Hx. apply N.eqb_eq in Hx. rewrite Hx. exact E.
  - destruct (find (fun e => fst e =? a) (filter (fun e => a0 <=? fst e) (d_windows d))) eqn:F; auto.
    apply find_some in F as [F1 F2]. apply filter_In in F1 as [_ F1]. apply N.eqb_eq in F2. rewrite F2 in F1.
    rewrite F1 in E. discriminate.
Qed.

(* ---------- the retention floor ---------- *)
Definition floorL (l : list block) : option N :=
  match l with [] => None | b :: r => Some (fold_left (fun m x => N.min m (b_num x)) r (b_num b)) end.

Lemma floor_is_floorL : forall d, floor d = floorL (d_fam d FCommit).
Proof. reflexivity. Qed.

Lemma fold_min_le : forall l m y, In y l -> fold_left (fun m x => N.min m (b_num x)) l m <= b_num y.
Proof.
  induction l; simpl; intros m y H; [contradiction|]. destruct H as [->|H].
  - pose proof (floor_fold_le l (N.min m (b_num y))). lia.
  - apply IHl; auto.
Qed.

Lemma floorL_spec : forall l f, floorL l = Some f ->
  (exists y, In y l /\ b_num y = f) /\ (forall y, In y l -> f <= b_num y).
Proof.
  intros l f H. destruct l as [|b r]; [discriminate|]. simpl in H. inversion H. split.
  - destruct (fold_min_attained r (b_num b)) as [E|[y [Hy E]]].
    + exists b. split; [left; auto|]. rewrite E. reflexivity.
    + exists y. split; [right; auto|exact E].
  - intros y [<-|Hy]; [apply floor_fold_le|apply fold_min_le; auto].
Qed.

Definition floor0L (l : list block) : N := match floorL l with Some x => x | None => 0 end.

Lemma floor0_is : forall d, floor0 d = floor0L (d_fam d FCommit).
Proof. reflexivity. Qed.

(* a non-empty sub-list has a floor at least as high *)
Lemma floor0L_incl : forall l l', (forall y, In y l' -> In y l) -> l' <> [] -> floor0L l <= floor0L l'.
Proof.
  intros l l' Hi Hn. unfold floor0L. destruct (floorL l') as [f'|] eqn:F'; [|destruct l'; [contradiction|discriminate]].
  destruct (floorL_spec l' f' F') as [[y [Hy Hf]] _].
  destruct (floorL l) as [f|] eqn:F; [|lia].
  destruct (floorL_spec l f F) as [_ Hle]. specialize (Hle y (Hi y Hy)). lia.
Qed.

(* adding a block above all others does not move the floor *)
Lemma floor0L_cons_above : forall l b, (forall y, In y l -> b_num y <= b_num b) -> l <> [] ->
  floor0L (b :: l) = floor0L l.
Proof.
  intros l b Hle Hn. destruct l as [|b0 r]; [contradiction|]. unfold floor0L. simpl.
  replace (N.min (b_num b) (b_num b0)) with (b_num b0); auto.
  specialize (Hle b0 (or_introl eq_refl)). lia.
Qed.

(* ---------- the invariants ---------- *)
Record IdxD (W : N) (d : disk) : Prop := {
  ix_wc : forall a c hb, get_window d a = Some c -> In hb (d_fam d FHeader) -> floor0 d <= b_num hb ->
          a <= b_num hb -> b_num hb <= a + W - 1 -> ccol c hb;
  ix_wk : forall hb, In hb (d_fam d FHeader) -> floor0 d <= b_num hb ->
          align W (b_num hb) + W - 1 < next_num d -> get_window d (align W (b_num hb)) <> None;
  ix_sn : forall s, d_snap d = Some s -> rf_next s <= next_num d /\
          forall hb, In hb (d_fam d FHeader) -> floor0 d <= b_num hb -> rf_from s <= b_num hb ->
                     b_num hb < rf_next s -> ccol (rf_cols s) hb
}.

Definition MemCover (d : disk) (m : rfilter) : Prop :=
  forall hb, In hb (d_fam d FHeader) -> floor0 d <= b_num hb -> rf_from m <= b_num hb -> ccol (rf_cols m) hb.

(* facts about a state in sync *)
Lemma sync_parts : forall W d m, mem_sync W d m = true ->
  rf_err m = false /\ rf_next m = next_num d /\ rf_from m = align W (next_num d).
Proof.
  unfold mem_sync, next_num. intros W d m H. apply andb_true_iff in H as [He H].
  destruct (rf_err m); [discriminate|].
  destruct (d_height d); apply andb_true_iff in H as [Hn Hf]; apply N.eqb_eq in Hn; apply N.eqb_eq in Hf.
  - auto.
  - repeat split; auto.
Qed.

(* every entry of a consistent disk lies below the next number; windows lie below it too *)
Lemma below_next : forall W d, consistent W d = true ->
  (forall f x, In x (d_fam d f) -> b_num x < next_num d) /\
  (forall a c, get_window d a = Some c -> a mod W = 0 /\ a + W - 1 < next_num d).
Proof.
  intros W d Hc. unfold next_num. destruct (d_height d) as [h|] eqn:Hh.
  - pose proof (proj1 (consistent_some W d h Hh) Hc) as [_ [hb I]].
    destruct I as [_ _ i_ent0 _ _ i_win0]. split.
    + intros f x Hx. destruct (i_ent0 f x Hx). lia.
    + intros a c Hg. apply get_window_In in Hg. destruct (i_win0 a c Hg). split; auto. lia.
  - pose proof (proj1 (consistent_none W d Hh) Hc) as (_ & Hf & _ & Hw). split.
    + intros f x Hx. rewrite Hf in Hx. destruct Hx.
    + intros a c Hg. apply get_window_In in Hg. rewrite Hw in Hg. destruct Hg.
Qed.

Lemma succession_num : forall d b, succession_ok d b = true -> b_num b = next_num d.
Proof.
  unfold succession_ok, next_num. intros d b H. destruct (d_height d) as [h|].
  - destruct (header d h); [|discriminate]. apply andb_true_iff in H as [S1 _]. apply N.eqb_eq in S1. auto.
  - apply andb_true_iff in H as [S1 _]. apply N.eqb_eq in S1. auto.
Qed.

Lemma store_floor : forall W d b ws, consistent W d = true -> succession_ok d b = true ->
  Forall window_only ws -> floor0 (apply_batch d (store_batch b ws)) = floor0 d.
Proof.
  intros W d b ws Hc Hs Hwo. destruct (store_fields d b ws Hwo) as (_ & B & _).
  rewrite !floor0_is, B. destruct (below_next W d Hc) as [Hb _].
  pose proof (succession_num d b Hs) as Hn.
  destruct (d_fam d FCommit) as [|b0 r] eqn:E.
  - (* first block with commitments: the chain was empty *)
    unfold floor0L. simpl. unfold next_num in Hn. destruct (d_height d) as [h|] eqn:Hh; [|lia].
    pose proof (proj1 (consistent_some W d h Hh) Hc) as [_ [hb I]].
    destruct I as [_ i_full0 _ _ _ _]. specialize (i_full0 FCommit). rewrite E in i_full0. destruct i_full0.
  - apply floor0L_cons_above; [|discriminate]. intros y Hy. rewrite <- E in Hy. specialize (Hb FCommit y Hy). lia.
Qed.

Lemma store_idx : forall W d m b ws m', 0 < W ->
  consistent W d = true -> mem_sync W d m = true -> IdxD W d -> MemCover d m ->
  succession_ok d b = true -> rf_insert W m (b_num b) (b_bloom b) = Some (ws, m') ->
  IdxD W (apply_batch d (store_batch b ws)) /\ MemCover (apply_batch d (store_batch b ws)) m'.
Proof.
  intros W d m b ws m' HW Hc Hs [wc wk sn] Hm Hsu Hi.
  pose proof (sync_aligned W d m HW Hs) as Ha.
  destruct (rf_insert_shape W m _ _ _ _ HW Ha Hi) as [_ Hws].
  assert (Hwo : Forall window_only ws). { destruct Hws as [->|[c [-> _]]]; repeat constructor. }
  destruct (store_fields d b ws Hwo) as (A & B & _ & D & E).
  pose proof (store_floor W d b ws Hc Hsu Hwo) as Hfl.
  set (d' := apply_batch d (store_batch b ws)) in *.
  destruct (sync_parts W d m Hs) as (S1 & S2 & S3).
  pose proof (succession_num d b Hsu) as Hn.
  destruct (below_next W d Hc) as [Hlt Hwin].
  assert (Hnext' : next_num d' = b_num b + 1). { unfold next_num. rewrite A. reflexivity. }
  destruct (align_le W (b_num b) HW) as [L1 L2].
  assert (Hfa : rf_from m mod W = 0). { rewrite S3. apply align_mod; auto. }
  unfold rf_insert in Hi. rewrite S1 in Hi. rewrite <- Hn in S3.
  replace ((b_num b <? rf_from m) || (rf_to W m <? b_num b)) with false in Hi
    by (symmetry; apply orb_false_iff; unfold rf_to; split; apply N.ltb_ge; lia).
  unfold rf_to in Hi.
  destruct (b_num b =? rf_from m + W - 1) eqn:Eto; inversion Hi; subst ws m'; clear Hi.
  - (* the window's last block: the window is persisted, memory moves on *)
    apply N.eqb_eq in Eto.
    assert (Hgw : forall a, get_window d' a =
                   get_window (apply_batch d [WWindow (rf_from m) (Some ((b_num b, b_bloom b) :: rf_cols m))]) a).
    { intros a. apply get_window_ext. exact E. }
    split; [constructor|].
    + intros a c hb Hg Hin Hf L3 L4. rewrite Hgw in Hg. rewrite Hfl in Hf. rewrite B in Hin.
      destruct (N.eq_dec a (rf_from m)) as [->|Hne].
      * rewrite gw_put_same in Hg. inversion Hg; subst c.
        destruct Hin as [<-|Hin]; [apply ccol_cons_same|]. apply ccol_cons_mono. apply Hm; auto.
      * rewrite gw_put_other in Hg by auto.
        destruct Hin as [<-|Hin]; [destruct (Hwin a c Hg); lia|]. eapply wc; eauto.
    + intros hb Hin Hf Lk. rewrite Hgw. rewrite Hfl in Hf. rewrite B in Hin. rewrite Hnext' in Lk.
      destruct (N.eq_dec (align W (b_num hb)) (rf_from m)) as [->|Hne]; [rewrite gw_put_same; discriminate|].
      rewrite gw_put_other by auto.
      destruct Hin as [<-|Hin]; [congruence|].
      apply wk; auto. rewrite <- Hn.
      assert (align W (b_num hb) + W - 1 <> b_num b).
      { intros X. apply Hne. rewrite <- (align_end W (align W (b_num hb)) (b_num b) HW (align_mod W _ HW) X). congruence. }
      lia.
    + intros s Hsn. rewrite D in Hsn. destruct (sn s Hsn) as [Ls Cs]. rewrite Hnext'. split; [lia|].
      intros hb Hin Hf L3 L4. rewrite Hfl in Hf. rewrite B in Hin.
      destruct Hin as [<-|Hin]; [lia|]. apply Cs; auto.
    + intros hb Hin Hf L3. simpl in L3. rewrite B in Hin.
      destruct Hin as [<-|Hin]; [lia|]. specialize (Hlt FHeader hb Hin). lia.
  - (* inside the window *)
    apply N.eqb_neq in Eto. simpl in E.
    assert (Hgw : forall a, get_window d' a = get_window d a).
    { intros a. apply get_window_ext. exact E. }
    split; [constructor|].
    + intros a c hb Hg Hin Hf L3 L4. rewrite Hgw in Hg. rewrite Hfl in Hf. rewrite B in Hin.
      destruct Hin as [<-|Hin]; [destruct (Hwin a c Hg); lia|]. eapply wc; eauto.
    + intros hb Hin Hf Lk. rewrite Hgw. rewrite Hfl in Hf. rewrite B in Hin. rewrite Hnext' in Lk.
      assert (Hno : forall x, align W x + W - 1 = b_num b -> False).
      { intros x X. apply Eto. rewrite <- X. f_equal. f_equal. rewrite S3.
        symmetry. apply (align_end W (align W x) (b_num b) HW (align_mod W _ HW) X). }
      destruct Hin as [<-|Hin].
      * exfalso. apply (Hno (b_num b)). lia.
      * apply wk; auto. rewrite <- Hn.
        assert (align W (b_num hb) + W - 1 <> b_num b) by (intros X; exact (Hno _ X)). lia.
    + intros s Hsn. rewrite D in Hsn. destruct (sn s Hsn) as [Ls Cs]. rewrite Hnext'. split; [lia|].
      intros hb Hin Hf L3 L4. rewrite Hfl in Hf. rewrite B in Hin.
      destruct Hin as [<-|Hin]; [lia|]. apply Cs; auto.
    + intros hb Hin Hf L3. simpl in L3. simpl. rewrite Hfl in Hf. rewrite B in Hin.
      destruct Hin as [<-|Hin]; [apply ccol_cons_same|]. apply ccol_cons_mono. apply Hm; auto.
Qed.

(* ---------- revert ---------- *)
Lemma window_end_align : forall W h, 0 < W -> (h + 1) mod W = 0 -> align W h + W - 1 = h.
Proof.
  intros W h HW Hm.
  assert (W <= h + 1).
  { pose proof (mult_gap W (h + 1) 0 HW Hm (N.mod_0_l W ltac:(lia)) ltac:(lia)). lia. }
  rewrite (align_end W (h + 1 - W) h HW); [lia| |lia].
  apply mod0_sub; auto.
Qed.

Lemma revert_idx : forall W d m h hb ws m', 0 < W ->
  consistent W d = true -> mem_sync W d m = true -> IdxD W d -> MemCover d m ->
  d_height d = Some h -> header d h = Some hb ->
  op_env d Revert = true -> op_fresh d Revert = true ->
  rf_reorg W d m = (Some ws, m') ->
  IdxD W (apply_batch d (revert_batch hb ws)) /\ MemCover (apply_batch d (revert_batch hb ws)) m'.
Proof.
  intros W d m h hb ws m' HW Hc Hs [wc wk sn] Hm Hh Hd Henv Hfr Hr.
  pose proof (sync_aligned W d m HW Hs) as Ha.
  destruct (rf_reorg_shape W d m HW Ha) as [_ A2]. rewrite Hr in A2. cbn [fst] in A2.
  assert (Hwo : Forall window_only ws). { destruct (A2 ws eq_refl) as [->|[a ->]]; repeat constructor. }
  destruct (revert_fields d hb ws Hwo) as (A & B & _ & D & E).
  set (d' := apply_batch d (revert_batch hb ws)) in *.
  assert (Hnum : b_num hb = h). { apply find_num_some in Hd. tauto. }
  pose proof (proj1 (consistent_some W d h Hh) Hc) as [_ [hb0 I]].
  destruct I as [i_head0 i_full0 i_ent0 _ _ i_win0]. rewrite Hd in i_head0. inversion i_head0; subst hb0. clear i_head0.
  assert (Hkeep : forall f x, In x (d_fam d' f) -> In x (d_fam d f) /\ b_num x < h).
  { intros f x Hx. rewrite B in Hx. apply filter_In in Hx as [Hx Hq]. split; auto.
    destruct (i_ent0 f x Hx) as [L Ag].
    assert (b_num x <> h).
    { intros X. rewrite X in Ag. specialize (Ag hb Hd). subst x. rewrite !N.eqb_refl in Hq. discriminate. }
    lia. }
  assert (Hnext' : next_num d' = h).
  { unfold next_num. rewrite A, Hnum. destruct (h =? 0) eqn:Z; [apply N.eqb_eq in Z; lia|apply N.eqb_neq in Z; lia]. }
  assert (Hnext : next_num d = h + 1). { unfold next_num. rewrite Hh. reflexivity. }
  (* the floor can only rise (as long as some retained block is left) *)
  assert (Hfl : forall x, In x (d_fam d' FHeader) -> floor0 d <= floor0 d').
  { intros x Hx. destruct (Hkeep _ _ Hx) as [_ Lx].
    rewrite !floor0_is. apply floor0L_incl.
    - intros y Hy. apply (Hkeep FCommit y Hy).
    - unfold op_env in Henv. rewrite Hh in Henv. destruct (h =? 0) eqn:Z; [apply N.eqb_eq in Z; lia|].
      simpl in Henv. unfold block_full in Henv. destruct (header d (h - 1)) as [pb|] eqn:Hpb; [|discriminate].
      rewrite forall_fams in Henv. specialize (Henv FCommit). apply in_fam_In in Henv.
      assert (Hpn : b_num pb = h - 1). { apply find_num_some in Hpb. tauto. }
      intros X. assert (In pb (d_fam d' FCommit)).
      { rewrite B. apply filter_In. split; auto. rewrite Hpn, Hnum.
        destruct (h - 1 =? h) eqn:Y; [apply N.eqb_eq in Y; apply N.eqb_neq in Z; lia|reflexivity]. }
      rewrite X in H. destruct H. }
  destruct (sync_parts W d m Hs) as (S1 & S2 & S3). rewrite Hnext in S2, S3.
  (* the snapshot does not cover the reverted block *)
  assert (Hsn' : forall s, d_snap d' = Some s -> rf_next s <= next_num d' /\
            forall x, In x (d_fam d' FHeader) -> floor0 d' <= b_num x -> rf_from s <= b_num x ->
                      b_num x < rf_next s -> ccol (rf_cols s) x).
  { intros s Hsn. rewrite D in Hsn. destruct (sn s Hsn) as [Ls Cs]. rewrite Hnext'. split.
    - unfold op_fresh in Hfr. rewrite Hh, Hsn in Hfr. apply N.leb_le in Hfr. exact Hfr.
    - intros x Hx Hf L3 L4. destruct (Hkeep _ _ Hx) as [Hx' _]. apply Cs; auto. specialize (Hfl x Hx). lia. }
  unfold rf_reorg in Hr. rewrite S1, S2 in Hr.
  replace (h + 1 =? 0) with false in Hr by (symmetry; apply N.eqb_neq; lia).
  replace (h + 1 - 1) with h in Hr by lia.
  destruct ((0 <? rf_from m) && (h + 1 =? rf_from m)) eqn:Cnd.
  - (* the revert leaves the running window: the previous window is re-loaded and its persisted copy dropped *)
    apply andb_true_iff in Cnd as [C1 C2]. apply N.eqb_eq in C2.
    assert (Hmod : (h + 1) mod W = 0). { rewrite C2, S3. apply align_mod; auto. }
    pose proof (window_end_align W h HW Hmod) as Hend.
    destruct (get_window d (align W h)) as [c|] eqn:Hg; inversion Hr; subst ws m'; clear Hr.
    assert (Hgw : forall a, get_window d' a = get_window (apply_batch d [WWindow (align W h) None]) a).
    { intros a. apply get_window_ext. exact E. }
    split; [constructor|]; auto.
    + intros a c0 x Hg0 Hx Hf L3 L4. rewrite Hgw in Hg0. destruct (Hkeep _ _ Hx) as [Hx' Lx].
      destruct (N.eq_dec a (align W h)) as [->|Hne]; [rewrite gw_del_same in Hg0; discriminate|].
      rewrite gw_del_other in Hg0 by auto. eapply wc; eauto. specialize (Hfl x Hx). lia.
    + intros x Hx Hf Lk. rewrite Hgw. rewrite Hnext' in Lk. destruct (Hkeep _ _ Hx) as [Hx' Lx].
      destruct (N.eq_dec (align W (b_num x)) (align W h)) as [Eq|Hne]; [rewrite Eq in Lk; lia|].
      rewrite gw_del_other by auto. apply wk; auto; [specialize (Hfl x Hx); lia|lia].
    + intros x Hx Hf L3. cbn [rf_from rf_cols] in *. destruct (Hkeep _ _ Hx) as [Hx' Lx].
      apply ccol_clear_other; [lia|]. apply (wc (align W h) c x); auto; [specialize (Hfl x Hx); lia|lia].
  - (* inside the running window *)
    assert (Hle : rf_from m <= h).
    { destruct (align_le W (h + 1) HW). apply andb_false_iff in Cnd as [Cn|Cn].
      - apply N.ltb_ge in Cn. lia.
      - apply N.eqb_neq in Cn. lia. }
    replace ((h <? rf_from m) || (rf_to W m <? h)) with false in Hr.
    2:{ symmetry. apply orb_false_iff. destruct (align_le W (h + 1) HW).
        split; [apply N.ltb_ge; lia|]. unfold rf_to. apply N.ltb_ge. lia. }
    inversion Hr; subst ws m'; clear Hr. simpl in E.
    assert (Hgw : forall a, get_window d' a = get_window d a). { intros a. apply get_window_ext. exact E. }
    split; [constructor|]; auto.
    + intros a c0 x Hg0 Hx Hf L3 L4. rewrite Hgw in Hg0. destruct (Hkeep _ _ Hx) as [Hx' Lx].
      eapply wc; eauto. specialize (Hfl x Hx). lia.
    + intros x Hx Hf Lk. rewrite Hgw. rewrite Hnext' in Lk. destruct (Hkeep _ _ Hx) as [Hx' Lx].
      apply wk; auto; [specialize (Hfl x Hx); lia|lia].
    + intros x Hx Hf L3. cbn [rf_from rf_cols] in *. destruct (Hkeep _ _ Hx) as [Hx' Lx].
      apply ccol_clear_other; [lia|]. apply Hm; auto. specialize (Hfl x Hx). lia.
Qed.

(* ---------- writes that leave the index-relevant fields alone ---------- *)
Lemma idx_fields_eq : forall W d d', d_windows d' = d_windows d ->
  d_fam d' FHeader = d_fam d FHeader -> d_fam d' FCommit = d_fam d FCommit ->
  d_height d' = d_height d -> d_snap d' = d_snap d -> IdxD W d -> IdxD W d'.
Proof.
  intros W d d' Hw Hh Hcm Hht Hs [wc wk sn].
  assert (Hg : forall a, get_window d' a = get_window d a) by (intros; apply get_window_ext; auto).
  assert (Hf : floor0 d' = floor0 d) by (rewrite !floor0_is, Hcm; reflexivity).
  assert (Hn : next_num d' = next_num d) by (unfold next_num; rewrite Hht; reflexivity).
  constructor.
  - intros a c hb. rewrite Hg, Hh, Hf. apply wc.
  - intros hb. rewrite Hg, Hh, Hf, Hn. apply wk.
  - intros s. rewrite Hs, Hn, Hh, Hf. apply sn.
Qed.

Lemma mem_fields_eq : forall d d' m, d_fam d' FHeader = d_fam d FHeader -> d_fam d' FCommit = d_fam d FCommit ->
  MemCover d m -> MemCover d' m.
Proof.
  intros d d' m Hh Hc H hb. rewrite Hh, floor0_is, Hc, <- floor0_is. apply H.
Qed.

Definition hk_only (w : wr) : Prop :=
  match w with WDel f _ _ => f <> FHeader /\ f <> FCommit | _ => False end.

Lemma hk_only_fields : forall b d, Forall hk_only b ->
  let d' := apply_batch d b in
  d_windows d' = d_windows d /\ d_fam d' FHeader = d_fam d FHeader /\ d_fam d' FCommit = d_fam d FCommit /\
  d_height d' = d_height d /\ d_snap d' = d_snap d.
Proof.
  induction b; simpl; intros d H; auto. inversion H; subst.
  destruct (IHb (apply_wr d a) H3) as (A & B & C & D & E). rewrite A, B, C, D, E.
  destruct a; simpl in H2; try contradiction. destruct H2 as [H1 H2]. simpl.
  repeat split; auto; destruct f; try contradiction; reflexivity.
Qed.

Lemma prune_blocks_hk : forall d kh e cnt n carry, Forall hk_only carry ->
  Forall (Forall hk_only) (fst (prune_blocks d kh e n cnt carry)).
Proof.
  induction cnt; simpl; intros n carry Hc; [constructor|].
  destruct (find_num n (d_fam d FSU)) as [sb|]; [|constructor].
  specialize (IHcnt (n + 1) [] ltac:(constructor)).
  destruct (prune_blocks d kh e (n + 1) cnt []) as [r ok]. simpl in *. constructor; auto.
  apply Forall_app. split; auto. apply Forall_app. split.
  - destruct (n + 1 =? e); repeat constructor; discriminate.
  - constructor; [simpl; split; discriminate|]. destruct kh; repeat constructor; discriminate.
Qed.

Lemma prune_plan_shape2 : forall W d kh e,
  Forall (fun b => Forall hk_only b \/ b = prune_data_batch W e) (prune_plan W d kh e).
Proof.
  intros W d kh e. unfold prune_plan. destruct (floor d) as [start|]; [|constructor].
  destruct (e <=? start); [constructor|].
  assert (Hgen : forall cw, Forall hk_only cw ->
     Forall (fun b => Forall hk_only b \/ b = prune_data_batch W e)
       (let (bs, ok) := prune_blocks d kh e start (N.to_nat (e - start)) cw in
        if ok then bs ++ [[]; prune_data_batch W e] else bs)).
  { intros cw Hcw. pose proof (prune_blocks_hk d kh e (N.to_nat (e - start)) start cw Hcw) as P.
    destruct (prune_blocks d kh e start (N.to_nat (e - start)) cw) as [bs ok]. simpl in P.
    assert (P' : Forall (fun b => Forall hk_only b \/ b = prune_data_batch W e) bs).
    { eapply Forall_impl; [|exact P]. intros; left; auto. }
    destruct ok; auto. apply Forall_app. split; auto. }
  destruct (0 <? start).
  - destruct (header d (start - 1)); [|constructor]. apply Hgen. repeat constructor; discriminate.
  - apply Hgen. constructor.
Qed.

(* ---------- the number-keyed prune batch ---------- *)
Lemma align_mono : forall W x y, 0 < W -> x <= y -> align W x <= align W y.
Proof.
  intros W x y HW L. destruct (N.le_gt_cases (align W x) (align W y)) as [X|X]; auto. exfalso.
  pose proof (mult_gap W _ _ HW (align_mod W x HW) (align_mod W y HW) X).
  destruct (align_le W x HW). destruct (align_le W y HW). lia.
Qed.

Lemma prune_data_fields2 : forall W e d,
  let d' := apply_batch d (prune_data_batch W e) in
  d_snap d' = d_snap d /\
  d_windows d' = if e <? W then d_windows d else filter (fun w => align W e <=? fst w) (d_windows d).
Proof.
  intros W e d d'. subst d'. unfold prune_data_batch. rewrite apply_batch_app.
  destruct (e <? W); simpl; auto.
Qed.

Lemma get_window_filter : forall d d' a0 a, d_windows d' = filter (fun w => a0 <=? fst w) (d_windows d) ->
  get_window d' a = if a0 <=? a then get_window d a else None.
Proof.
  intros d d' a0 a H. unfold get_window. rewrite H. destruct (a0 <=? a) eqn:E.
  - rewrite find_filter_imp; auto. intros x Hx. apply N.eqb_eq in Hx. rewrite Hx. exact E.
  - destruct (find (fun e => fst e =? a) (filter (fun e => a0 <=? fst e) (d_windows d))) eqn:F; auto.
    apply find_some in F as [F1 F2]. apply filter_In in F1 as [_ F1]. apply N.eqb_eq in F2. rewrite F2 in F1.
    rewrite F1 in E. discriminate.
Qed.

Lemma prune_data_idx : forall W e d h m, 0 < W -> consistent W d = true -> d_height d = Some h -> e <= h ->
  IdxD W d -> MemCover d m ->
  IdxD W (apply_batch d (prune_data_batch W e)) /\ MemCover (apply_batch d (prune_data_batch W e)) m.
Proof.
  intros W e d h m HW Hc Hh He [wc wk sn] Hm.
  destruct (prune_data_fields W e d) as (A & B & C).
  destruct (prune_data_fields2 W e d) as (D & E).
  set (x0 := if block_hash_lag <? e then e - block_hash_lag else 0) in *.
  set (d' := apply_batch d (prune_data_batch W e)) in *.
  pose proof (proj1 (consistent_some W d h Hh) Hc) as [_ [hb I]].
  destruct I as [i_head0 i_full0 _ _ _ _].
  assert (Hnum : b_num hb = h). { apply find_num_some in i_head0. tauto. }
  assert (HinH : forall x, In x (d_fam d' FHeader) -> In x (d_fam d FHeader)).
  { intros x Hx. rewrite B in Hx. apply filter_In in Hx. tauto. }
  assert (Hfl : floor0 d <= floor0 d' /\ e <= floor0 d').
  { rewrite !floor0_is, C. split.
    - apply floor0L_incl; [intros y Hy; apply filter_In in Hy; tauto|].
      intros X. assert (In hb (filter (fun b => e <=? b_num b) (d_fam d FCommit))).
      { apply filter_In. split; auto. apply N.leb_le. lia. }
      rewrite X in H. destruct H.
    - unfold floor0L. destruct (floorL (filter (fun b => e <=? b_num b) (d_fam d FCommit))) as [f|] eqn:F.
      + destruct (floorL_spec _ _ F) as [[y [Hy Hf]] _]. apply filter_In in Hy as [_ Hy]. apply N.leb_le in Hy. lia.
      + exfalso. assert (In hb (filter (fun b => e <=? b_num b) (d_fam d FCommit))).
        { apply filter_In. split; auto. apply N.leb_le. lia. }
        destruct (filter (fun b => e <=? b_num b) (d_fam d FCommit)); [destruct H|discriminate]. }
  destruct Hfl as [Hfl1 Hfl2].
  assert (Hn : next_num d' = next_num d) by (unfold next_num; rewrite A; reflexivity).
  assert (Hgw : forall a c, get_window d' a = Some c -> get_window d a = Some c).
  { intros a c Hg. destruct (e <? W) eqn:Ew.
    - rewrite <- Hg. symmetry. apply get_window_ext. exact E.
    - rewrite (get_window_filter d d' (align W e) a E) in Hg. destruct (align W e <=? a); [auto|discriminate]. }
  split; [constructor|].
  - intros a c x Hg Hx Hf L3 L4. eapply wc; eauto. lia.
  - intros x Hx Hf Lk. rewrite Hn in Lk.
    pose proof (wk x (HinH x Hx) ltac:(lia) Lk) as Hold.
    destruct (e <? W) eqn:Ew.
    + rewrite (get_window_ext d' d _ E). exact Hold.
    + rewrite (get_window_filter d d' (align W e) _ E).
      assert (align W e <= align W (b_num x)) by (apply align_mono; auto; lia).
      destruct (align W e <=? align W (b_num x)) eqn:X; [exact Hold|apply N.leb_gt in X; lia].
  - intros s Hsn. rewrite D in Hsn. destruct (sn s Hsn) as [Ls Cs]. rewrite Hn. split; auto.
    intros x Hx Hf L3 L4. apply Cs; auto. lia.
  - intros x Hx Hf L3. apply Hm; auto. lia.
Qed.

(* ---------- snapshot ---------- *)
Lemma snap_idx : forall W d m, mem_sync W d m = true -> IdxD W d -> MemCover d m ->
  IdxD W (apply_batch d [WSnap m]).
Proof.
  intros W d m Hs [wc wk sn] Hm. destruct (sync_parts W d m Hs) as (S1 & S2 & S3).
  constructor.
  - intros a c hb Hg. apply (wc a c hb). exact Hg.
  - intros hb. apply (wk hb).
  - intros s Hsn. simpl in Hsn. inversion Hsn; subst s. split.
    + rewrite S2. unfold next_num. simpl. lia.
    + intros hb Hin Hf L3 L4. apply Hm; auto.
Qed.
