(* C05 — lemmas, part H: the two invalidations of the persisted running-filter snapshot.
   (1) it is consumed by the first use of the filter after a restart (/repo 1231538);
   (2) it is deleted by every committed RevertHead, inside the revert's batch
       (findings/C05-snapshot-invalidated-by-revert.patch).
   With (2) the index theorem (Proofs_G.crash_index_covers) needs NO hypothesis about snapshots any more: the
   former ops_fresh / snap_discipline hypotheses are gone (revert_idx no longer uses them). What is left is
   the start hypothesis mem_sync; it is what a FAILED store breaks (witness wit_st below). *)
From Coq Require Import List NArith Bool Lia ZifyN ZifyNat ZifyBool PeanoNat.
From V Require Import C05.Model C05.Proofs_A C05.Proofs_B C05.Proofs_C C05.Proofs_E C05.Proofs_F C05.Proofs_D C05.Proofs_G.
Import ListNotations.
Open Scope N_scope.

(* ---------- the snapshot field through the writes of an initialisation ---------- *)
Lemma init_wrs_snap_none : forall W h ws d, Forall (init_wr W h) ws -> d_snap d = None ->
  d_snap (apply_batches d (map (fun w => [w]) ws)) = None.
Proof.
  induction ws; simpl; intros d H Hn; auto. inversion H; subst. apply IHws; auto.
  destruct H2 as [->|(a0 & c & -> & _)]; simpl; auto.
Qed.

(* after the first use of the filter on a chain with a height no snapshot is left *)
Lemma reinit_consumes : forall W d h, 0 < W -> consistent W d = true -> d_height d = Some h ->
  d_snap (apply_batches d (map (fun w => [w]) (reinit_w W d))) = None.
Proof.
  intros W d h HW Hc Hh. pose proof (reinit_w_ok W d h HW Hc Hh) as F.
  unfold reinit_w, snap_consume_w in *. rewrite Hh in *. destruct (d_snap d) as [s|] eqn:Hs.
  - simpl in *. inversion F; subst. eapply init_wrs_snap_none; eauto.
  - simpl in *. eapply init_wrs_snap_none; eauto.
Qed.

(* every restart (graceful or not) of a process whose chain has a height ends without a snapshot on disk *)
Lemma restart_consumes : forall W d m g h, 0 < W -> consistent W d = true -> mem_sync W d m = true ->
  d_height d = Some h -> d_snap (fst (step W (d, m) (Restart g))) = None.
Proof.
  intros W d m g h HW Hc Hs Hh. unfold step. cbn [plan fst snd].
  set (bs0 := if g && negb (rf_err m) then [[WSnap m]] else []).
  set (d1 := apply_batches d bs0).
  assert (Hd1 : consistent W d1 = true /\ d_height d1 = Some h).
  { subst d1 bs0. destruct (g && negb (rf_err m)); cbn [apply_batches fold_left]; auto.
    split; [apply snap_consistent; auto; eapply sync_wf; eauto|exact Hh]. }
  destruct Hd1 as [Hc1 Hh1]. rewrite apply_batches_app. fold d1.
  apply (reinit_consumes W d1 h HW Hc1 Hh1).
Qed.

(* ---------- a committed revert deletes the snapshot ---------- *)
Lemma revert_invalidates : forall W d m, 0 < W -> mem_sync W d m = true ->
  fst (plan W Revert d m) <> [] -> d_snap (fst (step W (d, m) Revert)) = None.
Proof.
  intros W d m HW Hs Hne. pose proof (sync_aligned W d m HW Hs) as Ha.
  unfold step. cbn [plan fst snd] in *.
  destruct (d_height d) as [h|] eqn:Hh; [|contradiction Hne; reflexivity].
  destruct (find_num h (d_fam d FSU)); [|contradiction Hne; reflexivity].
  destruct (header d h) as [hb|] eqn:Hd; [|contradiction Hne; reflexivity].
  destruct (rf_reorg_shape W d m HW Ha) as [_ A2].
  destruct (rf_reorg W d m) as [[ws|] m'] eqn:Hr; cbn [fst snd apply_batches fold_left] in *;
    [|contradiction Hne; reflexivity].
  assert (Hwo : Forall window_only ws). { destruct (A2 ws eq_refl) as [->|[a ->]]; repeat constructor. }
  destruct (revert_fields d hb ws Hwo) as (_ & _ & _ & D & _). exact D.
Qed.

(* ---------- the start hypothesis mem_sync is needed: the state a failed store leaves ----------
   Store 0, Store 1, then the commit of Store 2 fails: the disk is the one after two stores, the in-memory
   filter already holds block 2's column and next = 3. Every start hypothesis of the index theorem holds
   for this state except mem_sync (Props.C05_index_sync_needed evaluates the rest by vm_compute). *)
Definition wit_blk n id p bl := {| b_num := n; b_id := id; b_parent := p; b_bloom := bl |}.
Definition wit_ops : list op :=
  [Store (wit_blk 0 100 0 [1]); Store (wit_blk 1 101 100 [2]); Store (wit_blk 2 102 101 [1])].
Definition wit_st : disk * rfilter := exec_fault 4 wit_ops 2 (disk0, rf0).

Lemma wit_st_idx : IdxD 4 (fst wit_st) /\ MemCover (fst wit_st) (snd wit_st).
Proof.
  assert (Hh : d_fam (fst wit_st) FHeader = [wit_blk 1 101 100 [2]; wit_blk 0 100 0 [1]]) by (vm_compute; reflexivity).
  assert (Hw : d_windows (fst wit_st) = []) by (vm_compute; reflexivity).
  assert (Hs : d_snap (fst wit_st) = None) by (vm_compute; reflexivity).
  assert (Hn : next_num (fst wit_st) = 2) by (vm_compute; reflexivity).
  assert (Hm : rf_cols (snd wit_st) = [(2, [1]); (1, [2]); (0, [1])]) by (vm_compute; reflexivity).
  generalize dependent wit_st. intros [d m]. cbn [fst snd]. intros Hh Hw Hs Hn Hm.
  split.
  - constructor.
    + intros a c hb Hg. unfold get_window in Hg. rewrite Hw in Hg. discriminate.
    + intros hb Hin _ Hlt. exfalso. rewrite Hh in Hin. rewrite Hn in Hlt.
      destruct Hin as [<-|[<-|[]]]; vm_compute in Hlt; discriminate.
    + intros s Hs'. rewrite Hs in Hs'. discriminate.
  - intros hb Hin _ _. rewrite Hh in Hin. rewrite Hm.
    destruct Hin as [<-|[<-|[]]]; intros k Hk; destruct Hk as [<-|[]]; vm_compute; reflexivity.
Qed.
