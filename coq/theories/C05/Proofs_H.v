(* C05 — lemmas, part H: the persisted running-filter snapshot is consumed by the first use of the filter
   after a restart (code after the repair of the stale-snapshot findings). Hence the semantic hypothesis
   ops_fresh of the index theorem follows from the purely syntactic snapshot discipline of juno's node
   (snap_discipline: no block is reverted between a snapshot and the next restart). *)
From Coq Require Import List NArith Bool Lia ZifyN ZifyNat ZifyBool PeanoNat.
From V Require Import C05.Model C05.Proofs_A C05.Proofs_B C05.Proofs_C C05.Proofs_E C05.Proofs_F C05.Proofs_D C05.Proofs_G.
Import ListNotations.
Open Scope N_scope.

(* a persisted snapshot that describes no block *)
Definition snap_harmless (d : disk) : Prop := forall s, d_snap d = Some s -> rf_next s = 0.

(* [pending] over-approximates "a snapshot written by the running process may be on disk" *)
Definition SnapInv (pending : bool) (d : disk) : Prop :=
  pending = false \/ d_height d = None -> snap_harmless d.

Definition next_pending (o : op) (p : bool) : bool :=
  match o with Snapshot => true | Restart _ => false | _ => p end.

Lemma snap_discipline_cons : forall o r p,
  snap_discipline (o :: r) p =
  (match o with Revert => negb p | _ => true end) && snap_discipline r (next_pending o p).
Proof. intros. destruct o; reflexivity. Qed.

(* ---------- the snapshot field through the writes of an initialisation ---------- *)
Lemma init_wrs_snap_none : forall W h ws d, Forall (init_wr W h) ws -> d_snap d = None ->
  d_snap (apply_batches d (map (fun w => [w]) ws)) = None.
Proof.
  induction ws; simpl; intros d H Hn; auto. inversion H; subst. apply IHws; auto.
  destruct H2 as [->|(a0 & c & -> & _)]; simpl; auto.
Qed.

(* after the first use of the filter on a chain with a height no snapshot is left *)
Lemma reinit_consumes : forall W d h, 0 < W -> consistent W d = true -> d_height d = Some h ->
  d_snap (apply_batches d (map (fun w => [w]) (reinit_w W d))) = None.
Proof.
  intros W d h HW Hc Hh. pose proof (reinit_w_ok W d h HW Hc Hh) as F.
  unfold reinit_w, snap_consume_w in *. rewrite Hh in *. destruct (d_snap d) as [s|] eqn:Hs.
  - simpl in *. inversion F; subst. eapply init_wrs_snap_none; eauto.
  - simpl in *. eapply init_wrs_snap_none; eauto.
Qed.

(* every restart (graceful or not) of a process whose chain has a height ends without a snapshot on disk *)
Lemma restart_consumes : forall W d m g h, 0 < W -> consistent W d = true -> mem_sync W d m = true ->
  d_height d = Some h -> d_snap (fst (step W (d, m) (Restart g))) = None.
Proof.
  intros W d m g h HW Hc Hs Hh. unfold step. cbn [plan fst snd].
  set (bs0 := if g && negb (rf_err m) then [[WSnap m]] else []).
  set (d1 := apply_batches d bs0).
  assert (Hd1 : consistent W d1 = true /\ d_height d1 = Some h).
  { subst d1 bs0. destruct (g && negb (rf_err m)); cbn [apply_batches fold_left]; auto.
    split; [apply snap_consistent; auto; eapply sync_wf; eauto|exact Hh]. }
  destruct Hd1 as [Hc1 Hh1]. rewrite apply_batches_app. fold d1.
  apply (reinit_consumes W d1 h HW Hc1 Hh1).
Qed.

(* ---------- one operation ---------- *)
Lemma step_snap_inv : forall W st o p, 0 < W -> Good W st -> op_env (fst st) o = true ->
  SnapInv p (fst st) -> (o = Revert -> p = false) ->
  SnapInv (next_pending o p) (fst (step W st o)).
Proof.
  intros W [d m] o p HW (Hc & Hk & Hs) Henv Hinv Hrev. cbn [fst snd] in *.
  pose proof (sync_aligned W d m HW Hs) as Ha.
  (* operations that keep the snapshot, and either keep the height or leave a height *)
  assert (Hkeep : forall d', d_snap d' = d_snap d -> (d_height d' = None -> p = false \/ d_height d = None) ->
                  SnapInv p d').
  { intros d' E1 E2 Hp s Hsn. rewrite E1 in Hsn. apply (Hinv ltac:(destruct Hp; auto) s Hsn). }
  unfold step. destruct o; cbn [plan fst snd next_pending].
  - (* Store *)
    destruct (succession_ok d b) eqn:Hsu; [|cbn [fst snd apply_batches fold_left]; apply Hkeep; auto].
    destruct (rf_insert W m (b_num b) (b_bloom b)) as [[ws m']|] eqn:Hi;
      [|cbn [fst snd apply_batches fold_left]; apply Hkeep; auto].
    cbn [fst snd apply_batches fold_left].
    destruct (rf_insert_shape W m _ _ _ _ HW Ha Hi) as [_ Hws].
    assert (Hwo : Forall window_only ws). { destruct Hws as [->|[c [-> _]]]; repeat constructor. }
    destruct (store_fields d b ws Hwo) as (A & _ & _ & D & _).
    apply Hkeep; auto. intros X. rewrite A in X. discriminate.
  - (* Revert: only without a pending snapshot *)
    specialize (Hrev eq_refl). subst p.
    assert (Hh' : forall d', d_snap d' = d_snap d -> SnapInv false d').
    { intros d' E. apply Hkeep; auto. }
    destruct (d_height d) as [h|] eqn:Hh; [|cbn [fst snd apply_batches fold_left]; apply Hh'; auto].
    destruct (find_num h (d_fam d FSU)); [|cbn [fst snd apply_batches fold_left]; apply Hh'; auto].
    destruct (header d h) as [hb|] eqn:Hd; [|cbn [fst snd apply_batches fold_left]; apply Hh'; auto].
    destruct (rf_reorg_shape W d m HW Ha) as [_ A2].
    destruct (rf_reorg W d m) as [[ws|] m'] eqn:Hr; cbn [fst snd apply_batches fold_left] in *; [|apply Hh'; auto].
    assert (Hwo : Forall window_only ws). { destruct (A2 ws eq_refl) as [->|[a ->]]; repeat constructor. }
    destruct (revert_fields d hb ws Hwo) as (_ & _ & _ & D & _). apply Hh'; auto.
  - (* Prune *)
    unfold op_env in Henv. destruct (d_height d) as [h|] eqn:Hh.
    + apply N.leb_le in Henv.
      pose proof (proj1 (consistent_some W d h Hh) Hc) as [_ [hb I]].
      destruct (prune_batches_InvS W h hb (prune_plan W d keep_hist e) d I (prune_plan_wr W d keep_hist e h Henv))
        as (_ & A & B).
      apply Hkeep; auto. intros X. rewrite A, Hh in X. discriminate.
    + pose proof (proj1 (consistent_none W d Hh) Hc) as (_ & Hf & _ & _).
      unfold prune_plan, floor. rewrite Hf. apply Hkeep; auto.
  - (* SetL1 *)
    apply Hkeep; auto.
  - (* Snapshot: the running process's snapshot is pending; on an empty chain it describes no block *)
    destruct (rf_err m) eqn:He; cbn [apply_batches fold_left].
    + intros [X|X]; [discriminate|]. apply Hinv. right. exact X.
    + intros [X|X]; [discriminate|]. intros s Hsn. simpl in Hsn. inversion Hsn; subst s.
      simpl in X. destruct (sync_parts W d m Hs) as (_ & S2 & _). rewrite S2. unfold next_num. rewrite X. reflexivity.
  - (* Restart: consumed if the chain has a height; on an empty chain only a harmless one can be there *)
    set (bs0 := if graceful && negb (rf_err m) then [[WSnap m]] else []).
    set (d1 := apply_batches d bs0).
    assert (Hd1 : consistent W d1 = true /\ d_height d1 = d_height d /\
                  (d_height d = None -> snap_harmless d1)).
    { subst d1 bs0. destruct (graceful && negb (rf_err m)); cbn [apply_batches fold_left].
      - split; [apply snap_consistent; auto; eapply sync_wf; eauto|]. split; [reflexivity|].
        intros X s Hsn. simpl in Hsn. inversion Hsn; subst s.
        destruct (sync_parts W d m Hs) as (_ & S2 & _). rewrite S2. unfold next_num. rewrite X. reflexivity.
      - split; [exact Hc|]. split; [reflexivity|]. intros X. apply Hinv. right. exact X. }
    destruct Hd1 as (Hc1 & Hh1 & Hn1).
    rewrite apply_batches_app. fold d1. intros _.
    destruct (d_height d1) as [h|] eqn:Hh.
    + intros s Hsn. rewrite (reinit_consumes W d1 h HW Hc1 Hh) in Hsn. discriminate.
    + rewrite reinit_w_none by auto. simpl. apply Hn1. congruence.
Qed.

(* ---------- the run ---------- *)
Lemma discipline_fresh : forall W ops st p, 0 < W -> Good W st -> SnapInv p (fst st) ->
  ops_env W ops st = true -> snap_discipline ops p = true -> ops_fresh W ops st = true.
Proof.
  induction ops; intros st p HW HG Hinv He Hd; [reflexivity|].
  rewrite snap_discipline_cons in Hd. apply andb_true_iff in Hd as [D1 D2].
  cbn [ops_env] in He. apply andb_true_iff in He as [E1 E2].
  cbn [ops_fresh]. apply andb_true_iff. split.
  - destruct a; try reflexivity. unfold op_fresh.
    destruct (d_height (fst st)) as [h|] eqn:Hh; auto. destruct (d_snap (fst st)) as [s|] eqn:Hs; auto.
    apply negb_true_iff in D1. rewrite (Hinv (or_introl D1) s Hs). apply N.leb_le. lia.
  - apply (IHops (step W st a) (next_pending a p)); auto.
    + apply step_good; auto.
    + apply step_snap_inv; auto. intros ->. apply negb_true_iff in D1. exact D1.
Qed.

(* the start state: the index invariant bounds the snapshot by the chain *)
Lemma snap_inv_start : forall W d, IdxD W d -> SnapInv (snap_pending d) d.
Proof.
  intros W d [_ _ sn] [Hp|Hn] s Hs.
  - unfold snap_pending in Hp. rewrite Hs in Hp. apply negb_false_iff in Hp. apply N.eqb_eq in Hp. exact Hp.
  - destruct (sn s Hs) as [L _]. unfold next_num in L. rewrite Hn in L. lia.
Qed.

(* no event false negatives after a crash, for every history that respects the snapshot discipline *)
Lemma crash_index_covers_discipline : forall W ops k st, 0 < W -> IdxGood W st ->
  ops_env W ops st = true -> snap_discipline ops (snap_pending (fst st)) = true ->
  index_covers W (fst (exec_crash W ops k st)) = true.
Proof.
  intros W ops k st HW HI He Hd. apply crash_index_covers; auto.
  destruct HI as (HG & Hi & _).
  eapply discipline_fresh; eauto. eapply snap_inv_start; eauto.
Qed.

Lemma discipline_fresh_empty : forall W ops, 0 < W -> ops_env W ops (disk0, rf0) = true ->
  snap_discipline ops false = true -> ops_fresh W ops (disk0, rf0) = true.
Proof.
  intros W ops HW He Hd. apply (discipline_fresh W ops (disk0, rf0) false); auto.
  - apply (proj1 (good_init W HW)).
  - intros _ s Hs. discriminate.
Qed.
