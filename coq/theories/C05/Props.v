(* C05 — property theorems only. Each is closed by [exact] of a lemma from Proofs_*.v and followed by
   Print Assumptions; refutation witnesses are closed by vm_compute. W is the window size
   (core.NumBlocksPerFilter = 8192 in juno; the witnesses use W = 4). *)
From Coq Require Import List NArith Bool.
From V Require Import C05.Model C05.Proofs_A C05.Proofs_B C05.Proofs_C C05.Proofs_E C05.Proofs_F C05.Proofs_D C05.Proofs_G C05.Proofs_H.
Import ListNotations.
Open Scope N_scope.

(* Crash right after ANY number k of committed batches of ANY operation sequence (stores, reverts —
   also across bloom-window ends —, prunes, L1 head, snapshots, graceful and ungraceful restarts with
   their initialisation writes): the surviving disk is consistent (head fully present or fully absent
   across all index families, nothing above it, state tries = head state, persisted windows below the
   head, snapshot well-formed) and continuous (cont: headers contiguous up to the head, every retained
   block has its header). Hypotheses: the start state is such a disk with the in-memory filter in sync
   (e.g. the empty database), and the environment (ops_env) never reverts onto a pruned block and never
   prunes the head. No hypothesis about the in-memory filter along the run: that it stays in sync is
   proved (C05_sync_preserved for every non-Restart operation, reinit_sync for Restart). *)
Theorem C05_crash : forall W ops k st, 0 < W ->
  consistent W (fst st) = true -> cont (fst st) = true -> mem_sync W (fst st) (snd st) = true ->
  ops_env W ops st = true ->
  let d := fst (exec_crash W ops k st) in consistent W d = true /\ cont d = true.
Proof. intros W ops k st HW Hc Hk Hs Hok. exact (crash_consistent W ops k st HW (conj Hc (conj Hk Hs)) Hok). Qed.
Print Assumptions C05_crash.

(* From every consistent, continuous disk — in particular from every crash image of C05_crash — a fresh
   process (initialisation of the running filter, including its direct window writes) ends with a
   consistent, continuous disk and a filter in sync with the head: it is ready for the next block
   (recover_ready), every block that follows the head stores, and the result is again consistent. *)
Theorem C05_recover : forall W d m, 0 < W -> consistent W d = true -> cont d = true ->
  let st' := step W (d, m) (Restart false) in
  consistent W (fst st') = true /\ cont (fst st') = true /\ mem_sync W (fst st') (snd st') = true /\
  snd st' = reinit W d /\ recover_ready W d = true /\
  forall b, succession_ok (fst st') b = true ->
    stores W (fst st') (snd st') b = true /\
    let st'' := step W st' (Store b) in
    d_height (fst st'') = Some (b_num b) /\ consistent W (fst st'') = true /\ cont (fst st'') = true /\
    mem_sync W (fst st'') (snd st'') = true.
Proof. exact recover_next_store. Qed.
Print Assumptions C05_recover.

(* The persisted running-filter snapshot is CONSUMED (code after /repo 1231538): after every restart — graceful or not — followed by the first use of the filter, on a chain
   with a height, no snapshot is left on disk. A later ungraceful restart therefore rebuilds from headers. *)
Theorem C05_snapshot_consumed : forall W d m g h, 0 < W -> consistent W d = true -> mem_sync W d m = true ->
  d_height d = Some h -> d_snap (fst (step W (d, m) (Restart g))) = None.
Proof. exact restart_consumes. Qed.
Print Assumptions C05_snapshot_consumed.

(* A committed RevertHead deletes the persisted running-filter snapshot inside its own batch (repair
   findings/C05-snapshot-invalidated-by-revert.patch): whenever the revert commits anything, no snapshot is
   left on disk, atomically with the disappearance of the block the snapshot covered. *)
Theorem C05_revert_invalidates_snapshot : forall W d m, 0 < W -> mem_sync W d m = true ->
  fst (plan W Revert d m) <> [] -> d_snap (fst (step W (d, m) Revert)) = None.
Proof. exact revert_invalidates. Qed.
Print Assumptions C05_revert_invalidates_snapshot.

(* The event index describes the same chain after a crash: NO HYPOTHESIS ABOUT SNAPSHOTS IS LEFT. The former
   hypotheses (semantic ops_fresh: "no Revert removes a block that a persisted snapshot covers"; then the
   syntactic snap_discipline: "no Revert between a Snapshot operation and the next Restart") are gone: a
   snapshot written at ANY moment of a process's life (Blockchain.WriteRunningEventFilter is exported) is
   deleted by the batch of every later revert (C05_revert_invalidates_snapshot) and consumed by the first use
   after every restart (C05_snapshot_consumed). For every history of stores, reverts, prunes, L1 heads,
   snapshots and restarts that respects the environment (ops_env) and every crash point k, the filter a
   fresh process consults for every retained block — running window or persisted window, after the writes
   of its own initialisation (snapshot delete, window re-writes) — has every bit of that block's bloom: no
   event false negatives (index_covers). IdxD / MemCover (Proofs_G.v) are the content invariants of the
   persisted windows, the snapshot and the in-memory filter; the empty database satisfies them.
   What is left, precisely: the START hypotheses, of which mem_sync (the in-memory filter is in step with
   the head) is the one a FAILED store breaks (the closure mutates the filter before the commit); a mid-life
   snapshot then persists the uncommitted column — the other registered finding
   failed-store:uncommitted-filter-state-persisted-by-snapshot, untouched by this repair. mem_sync is not
   decorative: C05_index_sync_needed. Crash-free runs keep it (C05_sync_preserved, C05_recover).
   The code before the revert repair violates the statement: C05_stale_snapshot_before_fix_refuted. *)
Theorem C05_index : forall W ops k st, 0 < W ->
  consistent W (fst st) = true -> cont (fst st) = true -> mem_sync W (fst st) (snd st) = true ->
  IdxD W (fst st) -> MemCover (fst st) (snd st) ->
  ops_env W ops st = true ->
  index_covers W (fst (exec_crash W ops k st)) = true.
Proof.
  intros W ops k st HW Hc Hk Hs Hi Hm He.
  exact (crash_index_covers W ops k st HW (conj (conj Hc (conj Hk Hs)) (conj Hi Hm)) He).
Qed.
Print Assumptions C05_index.

(* the whole property from the empty database: every crash image of every environment-respecting
   history is consistent and continuous, a fresh process is ready and stores the next block, and its
   event index has no false negatives — no hypothesis about snapshots *)
Theorem C05_from_empty : forall W ops k, 0 < W -> ops_env W ops (disk0, rf0) = true ->
  let d := fst (exec_crash W ops k (disk0, rf0)) in
  consistent W d = true /\ cont d = true /\ recover_ready W d = true /\ index_covers W d = true.
Proof.
  intros W ops k HW He d.
  destruct (crash_consistent W ops k (disk0, rf0) HW (proj1 (good_init W HW)) He) as [C K].
  repeat split; auto.
  - apply (recover_next_store W d rf0 HW C K).
  - exact (crash_index_covers W ops k (disk0, rf0) HW (good_init W HW) He).
Qed.
Print Assumptions C05_from_empty.

(* ... and it is the disk after a prefix of complete operations followed by a prefix of the batches
   of the next one (no hypothesis at all) ... *)
Theorem C05_crash_prefix : forall W ops k st, exists n j,
  let st' := run W (firstn n ops) st in
  fst (exec_crash W ops k st) =
  apply_batches (fst st')
    (firstn j (match nth_error ops n with
               | Some o => fst (plan W o (fst st') (snd st'))
               | None => []
               end)).
Proof. exact crash_prefix. Qed.
Print Assumptions C05_crash_prefix.

(* ... which for store / revert / L1 head / snapshot (single-batch operations) means: the disk after a
   prefix of COMPLETE operations — all or nothing. (A restart is not single-commit: the initialisation
   of the running filter may re-write persisted windows with direct Puts; a crash between them leaves a
   prefix of those writes, which C05_crash covers.) *)
Theorem C05_crash_atomic : forall W ops k st, (forall kh e, ~ In (Prune kh e) ops) ->
  (forall o, In o ops -> is_restart o = false) ->
  exists n, fst (exec_crash W ops k st) = fst (run W (firstn n ops) st).
Proof. exact crash_atomic. Qed.
Print Assumptions C05_crash_atomic.

(* The in-memory filter stays in sync with the head through every operation other than Restart; after a
   Restart it is in sync because the disk is consistent and continuous (part of C05_recover). *)
Theorem C05_sync_preserved : forall W st o, 0 < W -> mem_sync W (fst st) (snd st) = true ->
  is_restart o = false -> mem_sync W (fst (step W st o)) (snd (step W st o)) = true.
Proof. exact sync_step. Qed.
Print Assumptions C05_sync_preserved.

(* A failed commit leaves the disk unchanged (single-batch operations) / exactly at the batches
   committed before it (prune). *)
Theorem C05_fault_disk : forall W o d m, (forall kh e, o <> Prune kh e) -> is_restart o = false ->
  fst (plan W o d m) <> [] -> fst (exec_fault W [o] 0 (d, m)) = d.
Proof. exact fault_disk_single. Qed.
Print Assumptions C05_fault_disk.

Theorem C05_fault_disk_prune : forall W kh e d m k, (k < length (prune_plan W d kh e))%nat ->
  fst (exec_fault W [Prune kh e] k (d, m)) = apply_batches d (firstn k (prune_plan W d kh e)).
Proof. exact fault_disk_prune. Qed.
Print Assumptions C05_fault_disk_prune.

(* Memory after a failed commit. The full statement
     C05_fault_mem : memory after a failed commit is equivalent to reinit disk
   is FALSE (C05_fault_mem_refuted). What holds: after a failed STORE that is not the last block of
   the window, the in-memory filter keeps its window and every bit it had (no false negatives). *)
Theorem C05_fault_mem_superset : forall W d m b r,
  rf_superset m r = true -> negb (b_num b =? rf_to W m) = true ->
  rf_superset (snd (plan W (Store b) d m)) r = true.
Proof. exact fault_store_superset. Qed.
Print Assumptions C05_fault_mem_superset.

(* ---------- witnesses (W = 4) ---------- *)
Definition blk n id p bl := {| b_num := n; b_id := id; b_parent := p; b_bloom := bl |}.
Definition st0 : disk * rfilter := (disk0, rf0).
Definition chain5 : list op :=
  [Store (blk 0 100 0 [1]); Store (blk 1 101 100 [2]); Store (blk 2 102 101 [1]);
   Store (blk 3 103 102 [3]); Store (blk 4 104 103 [1])].

(* failed RevertHead commit: block 4 stays on disk but its column is already cleared in memory —
   not equivalent, not even a superset: a false negative for key 1 in block 4 *)
Example C05_fault_mem_refuted :
  let r := exec_fault 4 (chain5 ++ [Revert]) 5 st0 in
  d_height (fst r) = Some 4 /\ consistent 4 (fst r) = true /\
  rf_equiv (snd r) (reinit 4 (fst r)) = false /\ rf_superset (snd r) (reinit 4 (fst r)) = false /\
  col_has (rf_cols (reinit 4 (fst r))) 4 1 = true /\ col_has (rf_cols (snd r)) 4 1 = false.
Proof. vm_compute. repeat split; reflexivity. Qed.

(* failed Store commit of the LAST block of a window (block 3, W = 4): the in-memory filter already
   moved to the next window; the same process can no longer store block 3, a fresh process can *)
Example C05_fault_store_boundary_refuted :
  let r := exec_fault 4 (firstn 4 chain5) 3 st0 in
  d_height (fst r) = Some 2 /\ consistent 4 (fst r) = true /\
  stores 4 (fst r) (snd r) (blk 3 103 102 [3]) = false /\
  stores 4 (fst r) (reinit 4 (fst r)) (blk 3 103 102 [3]) = true.
Proof. vm_compute. repeat split; reflexivity. Qed.

(* revert across a window end (store 0..4, revert 4, revert 3; 3 is the last block of the persisted
   window [0,3]): with the fixed onReorg the revert batch deletes that window; every crash point is
   consistent, a fresh process is ready and stores the next block 3. (Before /repo 5440575 this was
   the refutation witness C05_crash_refuted: the window stayed persisted, the rebuilt filter started
   at 4 and block 3 could never be stored again.) *)
Example C05_crash_window_revert :
  let ops := chain5 ++ [Revert; Revert] in
  ops_env 4 ops st0 = true /\
  forallb (fun k => let d := fst (exec_crash 4 ops k st0) in consistent 4 d && cont d && recover_ready 4 d && index_covers 4 d)
          (seq 0 9) = true /\
  let d := fst (exec_crash 4 ops 7 st0) in
  d_height d = Some 2 /\ d_windows d = [] /\ stores 4 d (reinit 4 d) (blk 3 203 102 [9]) = true.
Proof. vm_compute. repeat split; reflexivity. Qed.

(* the mem_sync clause is not decorative for the theorem as stated (arbitrary initial memory): with a
   filter that lags behind the head, the revert of the window's last block does not take the
   window-crossing path and the persisted window survives above the head. Such a memory state is what
   a failed store leaves behind (fault runs), not what a crash-free run produces. *)
Example C05_crash_sync_needed :
  let d := fst (run 4 (firstn 4 chain5) st0) in
  let m := {| rf_from := 0; rf_cols := []; rf_next := 3; rf_err := false |} in
  consistent 4 d = true /\ cont d = true /\ rf_wf 4 m = true /\ mem_sync 4 d m = false /\
  consistent 4 (fst (exec_crash 4 [Revert] 1 (d, m))) = false.
Proof. vm_compute. repeat split; reflexivity. Qed.

(* THE CODE BEFORE BOTH REPAIRS (plan_before_fix: the initialisation did not delete the snapshot it read, the
   revert did not delete it either): graceful restart at height 2, revert, store a different block 2, crash:
   all index families are consistent, but the filter a fresh process used was the stale snapshot and missed
   the new block's keys (event false negatives). This was C05_crash_index_refuted (registered finding
   crash:stale-filter-snapshot, shutdown-snapshot form; fixed by /repo 1231538). *)
Example C05_crash_index_refuted_before_fix :
  let ops := firstn 3 chain5 ++ [Restart true; Revert; Store (blk 2 202 101 [7])] in
  let d := crash_disk_before_fix 4 ops 6 st0 in
  ops_env 4 ops st0 = true /\ d_snap d <> None /\
  consistent 4 d = true /\ cont d = true /\ recover_ready 4 d = true /\ index_covers_before_fix 4 d = false.
Proof. vm_compute. repeat split; try reflexivity. discriminate. Qed.

(* ... the same history on today's code: the restart's first use of the filter consumes the snapshot
   (one more commit: [1;1;1;2;1;1]); every crash image is consistent, ready and has no event false
   negatives; the only image that holds a snapshot is the one between the shutdown's snapshot write and
   its consumption *)
Example C05_crash_index_repaired :
  let ops := firstn 3 chain5 ++ [Restart true; Revert; Store (blk 2 202 101 [7])] in
  ops_env 4 ops st0 = true /\
  batch_counts 4 ops st0 = [1; 1; 1; 2; 1; 1]%nat /\
  forallb (fun k => let d := fst (exec_crash 4 ops k st0) in
                    consistent 4 d && cont d && recover_ready 4 d && index_covers 4 d &&
                    Bool.eqb (match d_snap d with Some _ => true | None => false end) (Nat.eqb k 4))
          (seq 0 8) = true.
Proof. vm_compute. repeat split; reflexivity. Qed.

(* THE FIXED FINDING (crash:stale-filter-snapshot:event-false-negatives, mid-life form). The code BEFORE the
   revert repair (plan_revert_before_fix: today's code with the old revert batch, which leaves the snapshot
   alone): a snapshot written in the middle of a process's life (the exported
   Blockchain.WriteRunningEventFilter) at height 2, revert, store a different block 2, crash: the stale
   snapshot is on disk, the fresh process accepts it (next = head + 1) and misses the new block's keys:
   index_covers = false for an environment-respecting history — the statement of C05_index is FALSE for
   that code. (It was C05_crash_index_midlife_snapshot_refuted, the witness that the former hypothesis
   snap_discipline was not decorative.) *)
Example C05_stale_snapshot_before_fix_refuted :
  let ops := firstn 3 chain5 ++ [Snapshot; Revert; Store (blk 2 202 101 [7])] in
  let d := crash_disk_revert_before_fix 4 ops 6 st0 in
  ops_env 4 ops st0 = true /\ d_snap d <> None /\
  consistent 4 d = true /\ cont d = true /\ recover_ready 4 d = true /\ index_covers 4 d = false.
Proof. vm_compute. repeat split; try reflexivity. discriminate. Qed.

(* ... the same history on the repaired code: same batch counts (the delete travels in the revert's batch),
   the snapshot exists only in the image between its write and the revert, every crash image is consistent,
   ready and has no event false negatives; so does the process that restarts afterwards *)
Example C05_stale_snapshot_repaired :
  let ops := firstn 3 chain5 ++ [Snapshot; Revert; Store (blk 2 202 101 [7])] in
  ops_env 4 ops st0 = true /\ batch_counts 4 ops st0 = [1; 1; 1; 1; 1; 1]%nat /\
  forallb (fun k => let d := fst (exec_crash 4 ops k st0) in
                    consistent 4 d && cont d && recover_ready 4 d && index_covers 4 d &&
                    Bool.eqb (match d_snap d with Some _ => true | None => false end) (Nat.eqb k 4))
          (seq 0 8) = true /\
  let r := run 4 (ops ++ [Restart false]) st0 in
  d_snap (fst r) = None /\ mem_covers 4 (fst r) (snd r) = true /\ index_covers 4 (fst r) = true.
Proof. vm_compute. repeat split; reflexivity. Qed.

(* ... before the revert repair the damage was even PERMANENT when the fill from the stale mid-life snapshot
   reached a window end: snapshot at height 1, revert, blocks 1', 2, 3 (3 ends the window: the running
   process persists the correct window), crash: the fresh process consumes the snapshot, fills 2..3 into its
   stale columns, rolls over and Puts the window again — with block 1's OLD keys; the false negatives
   survived every further restart. On the repaired code the same history is clean at every crash point and
   the persisted window keeps block 1' 's key 7. *)
Example C05_stale_snapshot_permanent_before_fix_refuted :
  let ops := [Store (blk 0 100 0 [1]); Store (blk 1 101 100 [2]); Snapshot; Revert; Store (blk 1 201 100 [7]);
              Store (blk 2 202 201 [1]); Store (blk 3 203 202 [3])] in
  let d := crash_disk_revert_before_fix 4 ops 7 st0 in
  ops_env 4 ops st0 = true /\
  consistent 4 d = true /\ get_window d 0 = Some [(3, [3]); (2, [1]); (1, [7]); (0, [1])] /\ index_covers 4 d = false /\
  (let r := fold_left (step_revert_before_fix 4) (ops ++ [Restart false; Restart false; Restart true]) st0 in
   d_snap (fst r) = None /\ get_window (fst r) 0 = Some [(3, [3]); (2, [1]); (1, [2]); (0, [1])] /\
   consistent 4 (fst r) = true /\ mem_covers 4 (fst r) (snd r) = false /\ index_covers 4 (fst r) = false) /\
  forallb (fun k => let d := fst (exec_crash 4 ops k st0) in consistent 4 d && cont d && recover_ready 4 d && index_covers 4 d)
          (seq 0 9) = true /\
  (let r := run 4 (ops ++ [Restart false; Restart false; Restart true]) st0 in
   get_window (fst r) 0 = Some [(3, [3]); (2, [1]); (1, [7]); (0, [1])] /\ mem_covers 4 (fst r) (snd r) = true /\
   index_covers 4 (fst r) = true).
Proof. vm_compute. repeat split; reflexivity. Qed.

(* THE START HYPOTHESIS mem_sync OF C05_index IS NEEDED — this is the registered finding the revert repair
   does NOT touch (failed-store:uncommitted-filter-state-persisted-by-snapshot). Start state = what the
   failed commit of Store 2 leaves behind (disk at height 1, the in-memory filter already holds block 2's
   column, next = 3): it satisfies every start hypothesis of C05_index (consistent, cont, IdxD, MemCover)
   except mem_sync; the environment-respecting history [Snapshot; Store 2'] (no revert at all) crashed after
   both commits leaves a snapshot that a fresh process accepts as-is (next = 3 = head + 1) and that misses
   block 2' 's key 7. *)
Example C05_index_sync_needed :
  let st := wit_st in   (* Proofs_H: wit_st := exec_fault 4 [Store 0; Store 1; Store 2] 2 (disk0, rf0) *)
  let ops := [Snapshot; Store (blk 2 202 101 [7])] in
  st = exec_fault 4 (firstn 3 chain5) 2 st0 /\
  consistent 4 (fst st) = true /\ cont (fst st) = true /\ mem_sync 4 (fst st) (snd st) = false /\
  (IdxD 4 (fst st) /\ MemCover (fst st) (snd st)) /\
  ops_env 4 ops st = true /\ index_covers 4 (fst (exec_crash 4 ops 2 st)) = false.
Proof.
  cbv zeta.
  split; [vm_compute; reflexivity|]. split; [vm_compute; reflexivity|]. split; [vm_compute; reflexivity|].
  split; [vm_compute; reflexivity|]. split; [exact wit_st_idx|]. split; vm_compute; reflexivity.
Qed.

(* the uncommitted-column variant (fault half): the commit of Store 2 fails (its column stays in the
   in-memory filter), a mid-life snapshot persists that column, a different block 2 is stored, ungraceful
   restart: the snapshot is accepted as-is (next = 3 = head + 1): the restarted process misses block 2's key 7.
   With the snapshot taken at shutdown instead (Restart true right after the failed store, or after the
   re-store) the restarted process is correct: the future-dated snapshot is discarded for a rebuild,
   respectively holds a superset column. *)
Example C05_fault_uncommitted_snapshot_refuted :
  let b2' := blk 2 202 101 [7] in
  let r := exec_fault 4 (firstn 3 chain5 ++ [Snapshot; Store b2'; Restart false]) 2 st0 in
  d_height (fst r) = Some 2 /\ consistent 4 (fst r) = true /\ d_snap (fst r) = None /\
  mem_covers 4 (fst r) (snd r) = false /\ index_covers 4 (fst r) = true /\
  (let r1 := exec_fault 4 (firstn 3 chain5 ++ [Restart true; Store b2'; Restart false]) 2 st0 in
   mem_covers 4 (fst r1) (snd r1) = true) /\
  (let r2 := exec_fault 4 (firstn 3 chain5 ++ [Store b2'; Restart true]) 2 st0 in
   mem_covers 4 (fst r2) (snd r2) = true).
Proof. vm_compute. repeat split; reflexivity. Qed.

(* a restart whose filter initialisation writes to the database (snapshot at height 2, block 3 ends the
   window, ungraceful restart: the snapshot is deleted, the fill from it rolls over and re-writes the window
   with a direct Put): two more commits of the Restart; if either FAILS (k = 5: the delete, k = 6: the
   window Put), the initialisation error is sticky: the same process can neither store the next block nor
   answer event queries, a fresh process can *)
Example C05_fault_init_write_refuted :
  let ops := firstn 3 chain5 ++ [Snapshot; Store (blk 3 103 102 [3]); Restart false] in
  batch_counts 4 ops st0 = [1; 1; 1; 1; 1; 2]%nat /\
  forallb (fun k =>
    let r := exec_fault 4 ops k st0 in
    opt_eqb (d_height (fst r)) (Some 3) && consistent 4 (fst r) && rf_err (snd r) &&
    negb (stores 4 (fst r) (snd r) (blk 4 104 103 [1])) && negb (mem_covers 4 (fst r) (snd r)) &&
    stores 4 (fst r) (reinit 4 (fst r)) (blk 4 104 103 [1]) && index_covers 4 (fst r) &&
    Bool.eqb (match d_snap (fst r) with Some _ => true | None => false end) (Nat.eqb k 5)) [5; 6]%nat = true.
Proof. vm_compute. repeat split; reflexivity. Qed.

(* the hypotheses of C05_crash are satisfiable by a non-trivial history (three windows, reverts across
   window ends — also right after restarts —, prune
   with a resumed second call, snapshot, restarts), and every crash point of it is consistent and
   ready to store the next block *)
Definition chain14 : list op :=
  map (fun i => Store (blk (N.of_nat i) (100 + N.of_nat i) (if Nat.eqb i 0 then 0 else 99 + N.of_nat i) [N.of_nat i]))
      (seq 0 14).
Definition history : list op :=
  chain14 ++ [Revert; Revert; Revert; Store (blk 11 211 110 [5]); Snapshot; SetL1 7; Prune false 3; Restart false;
              Prune true 6; Store (blk 12 212 211 [6]); Restart true; Revert; Revert].

Example C05_crash_nonvacuous :
  ops_env 4 history st0 = true /\
  forallb (fun k => let d := fst (exec_crash 4 history k st0) in
                    consistent 4 d && cont d && recover_ready 4 d && index_covers 4 d) (seq 0 45) = true.
Proof. vm_compute. split; reflexivity. Qed.

(* the hypotheses of C05_index are satisfiable by non-trivial histories: [history_fresh] (reverts across a
   window end, snapshot, prunes, restarts with snapshot deletes and a roll-over write during initialisation,
   stores) and [history_midlife] (mid-life snapshots followed by reverts — inside a window and across a
   window end —, different blocks, restarts): every crash point has index_covers *)
Definition history_fresh : list op :=
  chain14 ++ [Revert; Revert; Revert; Store (blk 11 211 110 [5]); Snapshot; SetL1 7; Prune false 3; Restart false;
              Prune true 6; Store (blk 12 212 211 [6]); Restart true; Store (blk 13 213 212 [7]); Restart false;
              Store (blk 14 214 213 [8])].
Definition history_midlife : list op :=
  chain14 ++ [Snapshot; Revert; Store (blk 13 313 112 [40]); Restart false; Snapshot; Revert; Revert;
              Store (blk 12 312 111 [41]); Snapshot; Revert; Revert; Store (blk 11 311 110 [42]);
              Store (blk 12 412 311 [43]); Restart false; Store (blk 13 413 412 [44])].

Example C05_index_nonvacuous :
  ops_env 4 history_fresh st0 = true /\
  batch_counts 4 history_fresh st0 =
    [1; 1; 1; 1; 1; 1; 1; 1; 1; 1; 1; 1; 1; 1; 1; 1; 1; 1; 1; 1; 5; 1; 5; 1; 2; 1; 0; 1]%nat /\
  ops_env 4 history_midlife st0 = true /\ snap_discipline history_midlife false = false /\
  forallb (fun k => let d := fst (exec_crash 4 history_midlife k st0) in
                    consistent 4 d && cont d && recover_ready 4 d && index_covers 4 d) (seq 0 32) = true.
Proof. vm_compute. repeat split; reflexivity. Qed.
