(* C06 — executable model of juno's block synchroniser (sync/sync.go) together with its block source.

   Blocks are abstracted to (number, hash id, parent hash id, passes-SanityCheckNewHeight flag).
   The global state is
     (source chain (may change), every block the source ever had, local chain, in-flight fetched
      blocks as the source served them, verified blocks waiting for storeTask, last latest-header the
      source reported to isReverting, revertTask state, stream-cancelled flag, currReorg accumulator,
      notifications owed / emitted, and a ghost log of chain mutations).
   [step : state -> event -> option state] is the acceptor form of the transition relation: an event
   is enabled in a state iff [step] returns [Some].  Each event is one of the atomic actions the
   code makes visible: a source serve, the isReverting decision, SanityCheckNewHeight, Store,
   one RevertHead inside revertTask, a stream restart, a feed send.  All interleavings = all event lists.

   Transcribed from sync.go:
     fetcherTask / isReverting   FetchOk FetchErr FetchCorrupt FetchLatest FetchStaleHead FetchLatestErr ReorgCheck
     verifierTask                Verify VerifyFail
     storeTask                   StoreOk StoreParentMismatch StoreFail (+ NotifyReorg NotifyNewHead)
     revertTask / revertHead     RevFetchOk RevFetchErr RevertOne RevertStop
     syncBlocks restart branch   Reset
   No proofs in this file. *)
From Coq Require Import List NArith Bool.
Import ListNotations.
Open Scope N_scope.

(* ---------- blocks and chains (head first) ---------- *)
(* okb: passes SanityCheckNewHeight.  stb: its state update applies on the head state, i.e.
   Blockchain.Store accepts it when it extends the head (a copy with a wrong OldRoot passes the
   sanity checks - the block hash does not cover OldRoot - and is rejected only by Store). *)
Record block := mkB { num : N; bid : N; par : N; okb : bool; stb : bool }.

Definition beq (x y : block) : bool :=
  (num x =? num y) && (bid x =? bid y) && (par x =? par y) && Bool.eqb (okb x) (okb y)
  && Bool.eqb (stb x) (stb y).
Definition memb (b : block) (l : list block) : bool := existsb (beq b) l.
(* a served block with a tampered field: same header identifiers, fails SanityCheckNewHeight *)
Definition corrupt (b : block) : block := mkB (num b) (bid b) (par b) false (stb b).
(* a served copy whose state update does not apply (wrong OldRoot): sane, not storable *)
Definition unstor (b : block) : block := mkB (num b) (bid b) (par b) (okb b) false.
(* the source block a served copy stands for *)
Definition gen (b : block) : block := mkB (num b) (bid b) (par b) true true.

(* uint64 arithmetic of [remoteHeight - 1] and [block.Number - 2], wrap written out (numbers < 2^64) *)
Definition W64 : N := 18446744073709551616.
Definition wsub1 (n : N) : N := if n =? 0 then W64 - 1 else n - 1.
Definition wsub2 (n : N) : N := if n =? 0 then W64 - 2 else if n =? 1 then W64 - 1 else n - 2.

(* verifyBlockSuccession: expected number / parent hash from the head (0 / zero hash on an empty DB) *)
Definition extendsb (c : list block) (b : block) : bool :=
  match c with
  | [] => (num b =? 0) && (par b =? 0)
  | h :: _ => (num b =? num h + 1) && (par b =? bid h)
  end.
(* the one failure that is ErrParentDoesNotMatchHead: number is the expected one, parent hash is not *)
Definition mismatchb (c : list block) (b : block) : bool :=
  match c with
  | [] => (num b =? 0) && negb (par b =? 0)
  | h :: _ => (num b =? num h + 1) && negb (par b =? bid h)
  end.

Fixpoint linkedb (c : list block) : bool :=
  match c with
  | [] => true
  | b :: rest => extendsb rest b && linkedb rest
  end.

Definition at_num (c : list block) (n : N) : option block := find (fun b => num b =? n) c.
Definition tip (c : list block) : option block := match c with [] => None | b :: _ => Some b end.

(* ---------- observable outputs and the ghost mutation log ---------- *)
Inductive out := ONewHead (b : block) | OReorg (s e : block).   (* Start = lowest, End = highest reverted *)
Inductive logent := LApp (b : block) | LRev (b : block).

Definition out_eqb (x y : out) : bool :=
  match x, y with
  | ONewHead a, ONewHead b => beq a b
  | OReorg a b, OReorg c d => beq a c && beq b d
  | _, _ => false
  end.
Fixpoint outs_eqb (x y : list out) : bool :=
  match x, y with
  | [], [] => true
  | a :: x', b :: y' => out_eqb a b && outs_eqb x' y'
  | _, _ => false
  end.

(* ---------- revertTask state ---------- *)
Inductive evid :=
| EvLatest (hdr : block) (genuine : bool)   (* isReverting: the latest header the source reported *)
| EvSucc (blk : block).                     (* storeTask: a verified block whose parent hash is not the head *)
Inductive rmode :=
| RIdle
| RRun (lpv : N) (cmp : option (option block)) (why : evid) (fresh : bool).
  (* loop head of revertTask with lastPossiblyValidHeight = lpv; cmp = result of the BlockByNumber
     call made for the hash comparison (None = not made, Some None = failed); fresh (ghost) = no
     block reverted yet by this task *)

Record state := mkS {
  src : list block;            (* the source's current chain *)
  hist : list block;           (* every block that ever was on the source's chain (ghost) *)
  nid : N;                     (* next fresh hash id *)
  loc : list block;            (* the node's chain *)
  infl : list block;           (* blocks served to fetchers in this stream generation, as served *)
  pend : list block;           (* blocks that passed SanityCheckNewHeight, waiting for storeTask *)
  lat : option (block * bool); (* header returned to isReverting by BlockHeaderLatest, genuine? *)
  rv : rmode;
  canc : bool;                 (* stream context cancelled (resetStreams called) *)
  cur : option (block * block);(* currReorg (Start, End) *)
  obox : list out;             (* feed sends of the running storeTask not yet performed *)
  tr : list out;               (* notifications emitted so far, oldest first *)
  log : list logent            (* ghost: chain mutations so far, oldest first *)
}.

Definition init : state := mkS [] [] 1 [] [] [] None RIdle false None [] [] [].

Inductive event :=
| SrcExtend | SrcReorg (d : nat)
| FetchOk (h : N) | FetchErr (h : N) | FetchCorrupt (h : N) | FetchUnstorable (h : N)
| FetchLatest | FetchStaleHead (b : block) | FetchLatestErr
| ReorgCheck (h : N)
| Verify (b : block) | VerifyFail (b : block)
| StoreOk (b : block) | StoreParentMismatch (b : block) | StoreFail (b : block)
| RevFetchOk | RevFetchErr | RevertOne | RevertStop
| Reset
| NotifyReorg | NotifyNewHead.

(* field updates *)
Definition set_source (s : state) (c h : list block) (n : N) : state :=
  mkS c h n (loc s) (infl s) (pend s) (lat s) (rv s) (canc s) (cur s) (obox s) (tr s) (log s).
Definition set_infl (s : state) (x : list block) : state :=
  mkS (src s) (hist s) (nid s) (loc s) x (pend s) (lat s) (rv s) (canc s) (cur s) (obox s) (tr s) (log s).
Definition set_pend (s : state) (x : list block) : state :=
  mkS (src s) (hist s) (nid s) (loc s) (infl s) x (lat s) (rv s) (canc s) (cur s) (obox s) (tr s) (log s).
Definition set_lat (s : state) (x : option (block * bool)) : state :=
  mkS (src s) (hist s) (nid s) (loc s) (infl s) (pend s) x (rv s) (canc s) (cur s) (obox s) (tr s) (log s).
Definition set_rv (s : state) (x : rmode) : state :=
  mkS (src s) (hist s) (nid s) (loc s) (infl s) (pend s) (lat s) x (canc s) (cur s) (obox s) (tr s) (log s).
Definition set_canc (s : state) (x : bool) : state :=
  mkS (src s) (hist s) (nid s) (loc s) (infl s) (pend s) (lat s) (rv s) x (cur s) (obox s) (tr s) (log s).

Definition reorg_out (c : option (block * block)) : list out :=
  match c with Some (st, en) => [OReorg st en] | None => [] end.

(* storeTask success: Store, then reorgFeed.Send(currReorg) if set, then newHeads.Send(block) *)
Definition do_store (s : state) (b : block) : state :=
  mkS (src s) (hist s) (nid s) (b :: loc s) (infl s) (pend s) (lat s) (rv s) (canc s) None
      (reorg_out (cur s) ++ [ONewHead b]) (tr s) (log s ++ [LApp b]).

(* revertHead: RevertHead, then currReorg := first ? [b,b] : [b, End] *)
Definition do_revert (s : state) (b : block) (rest : list block) (r : rmode) (c : bool) : state :=
  mkS (src s) (hist s) (nid s) rest (infl s) (pend s) (lat s) r c
      (match cur s with None => Some (b, b) | Some (_, en) => Some (b, en) end)
      (obox s) (tr s) (log s ++ [LRev b]).

Definition is_idle (r : rmode) : bool := match r with RIdle => true | _ => false end.
Definition obox_empty (s : state) : bool := match obox s with [] => true | _ => false end.

(* ---------- the transition function ---------- *)
Definition new_block (c : list block) (id : N) : block :=
  match c with
  | [] => mkB 0 id 0 true true
  | h :: _ => mkB (num h + 1) id (bid h) true true
  end.

Definition stop_revert (s : state) : state := set_canc (set_rv s RIdle) true.

Definition step (s : state) (e : event) : option state :=
  match e with
  (* --- the source: appends a fresh valid block / drops its last d blocks (a reorg is a drop
         followed by extensions; fresh ids make the replacing blocks different) --- *)
  | SrcExtend =>
      let b := new_block (src s) (nid s) in
      if num b <? W64 - 2 then Some (set_source s (b :: src s) (b :: hist s) (nid s + 1)) else None
  | SrcReorg d => Some (set_source s (skipn d (src s)) (hist s) (nid s))
  (* --- fetcherTask: dataSource.BlockByNumber(height) --- *)
  | FetchOk h =>
      match at_num (src s) h with
      | Some b => Some (set_infl s (b :: infl s))
      | None => None
      end
  | FetchErr _ => Some s                      (* failed request; isReverting follows as separate events *)
  | FetchCorrupt h =>
      match at_num (src s) h with
      | Some b => Some (set_infl s (corrupt b :: infl s))
      | None => None
      end
  | FetchUnstorable h =>
      match at_num (src s) h with
      | Some b => Some (set_infl s (unstor b :: infl s))
      | None => None
      end
  (* --- isReverting: dataSource.BlockHeaderLatest --- *)
  | FetchLatest =>
      match tip (src s) with
      | Some b => Some (set_lat s (Some (b, true)))
      | None => None
      end
  | FetchStaleHead b => if memb b (hist s) then Some (set_lat s (Some (b, false))) else None
  | FetchLatestErr => Some (set_lat s None)
  (* --- isReverting past the fast exit (localHeight+1 = nextHeight), decision --- *)
  | ReorgCheck h =>
      match loc s with
      | [] => None                             (* Height() fails on an empty DB: returns before any hook *)
      | hd :: _ =>
          if negb (num hd + 1 =? h) || negb (is_idle (rv s)) then None
          else match lat s with
               | None => Some s                (* BlockHeaderLatest failed: assume not reverting *)
               | Some (hdr, g) =>
                   if num hd <? num hdr then Some (set_lat s None)        (* remoteHeight > localHeight *)
                   else match at_num (loc s) (num hdr) with               (* header at min(remote, local) *)
                        | None => Some (set_lat s None)
                        | Some a =>
                            if bid a =? bid hdr then Some (set_lat s None)
                            else Some (set_lat (set_rv s (RRun (wsub1 (num hdr)) None (EvLatest hdr g) true)) None)
                        end
               end
      end
  (* --- verifierTask: SanityCheckNewHeight --- *)
  | Verify b => if memb b (infl s) && okb b then Some (set_pend s (b :: pend s)) else None
  | VerifyFail b => if memb b (infl s) && negb (okb b) then Some (set_canc s true) else None
  (* --- storeTask (skipped when the stream context is done) --- *)
  | StoreOk b =>
      if negb (canc s) && is_idle (rv s) && obox_empty s && memb b (pend s) && extendsb (loc s) b && stb b
      then Some (do_store s b) else None
  | StoreParentMismatch b =>               (* ErrParentDoesNotMatchHead => revertTask(block.Number - 2) *)
      if negb (canc s) && is_idle (rv s) && obox_empty s && memb b (pend s) && mismatchb (loc s) b
      then Some (set_rv s (RRun (wsub2 (num b)) None (EvSucc (gen b)) true)) else None
  | StoreFail b =>                         (* any other Store error => resetStreams *)
      (* wrong number, or the state update does not apply; the succession check (and with it
         ErrParentDoesNotMatchHead) comes first: chain, currReorg and feeds are untouched *)
      if negb (canc s) && is_idle (rv s) && memb b (pend s)
         && ((negb (extendsb (loc s) b) && negb (mismatchb (loc s) b))
             || (extendsb (loc s) b && negb (stb b)))
      then Some (set_canc s true) else None
  (* --- revertTask loop: BlockByNumber(localHeader.Number) when head <= lastPossiblyValidHeight --- *)
  | RevFetchOk =>
      match rv s, loc s with
      | RRun lpv None ev f, hd :: _ =>
          if num hd <=? lpv then
            match at_num (src s) (num hd) with
            | Some rb => Some (set_rv s (RRun lpv (Some (Some rb)) ev f))
            | None => None
            end
          else None
      | _, _ => None
      end
  | RevFetchErr =>
      match rv s, loc s with
      | RRun lpv None ev f, hd :: _ =>
          if num hd <=? lpv then Some (set_rv s (RRun lpv (Some None) ev f)) else None
      | _, _ => None
      end
  | RevertOne =>
      match rv s, loc s with
      | RRun lpv cmp ev f, hd :: rest =>
          if negb (obox_empty s) then None
          else if lpv <? num hd then                      (* head newer than lpv: always reverted *)
            match cmp with
            | None => Some (do_revert s hd rest (RRun lpv None ev false) (canc s))
            | Some _ => None
            end
          else
            match cmp with
            | Some (Some rb) =>
                if bid rb =? bid hd then None             (* same hash: break, nothing reverted *)
                else if par rb =? par hd
                     then Some (do_revert s hd rest RIdle true)       (* parents agree: last one; deferred resetStreams *)
                     else Some (do_revert s hd rest (RRun lpv None ev false) (canc s))
            | _ => None
            end
      | _, _ => None
      end
  | RevertStop =>
      match rv s with
      | RRun lpv cmp ev f =>
          match loc s with
          | [] => Some (stop_revert s)                    (* HeadsHeader fails *)
          | hd :: _ =>
              if lpv <? num hd then None
              else match cmp with
                   | Some None => Some (stop_revert s)    (* remote fetch failed *)
                   | Some (Some rb) => if bid rb =? bid hd then Some (stop_revert s) else None
                   | None => None
                   end
          end
      | RIdle => None
      end
  (* --- syncBlocks: streams waited for and re-created; in-flight work is gone --- *)
  | Reset =>
      if is_idle (rv s) && obox_empty s
      then Some (mkS (src s) (hist s) (nid s) (loc s) [] [] None RIdle false (cur s) [] (tr s) (log s))
      else None
  (* --- the two feed sends at the end of storeTask --- *)
  | NotifyReorg =>
      match obox s with
      | OReorg a b :: r =>
          Some (mkS (src s) (hist s) (nid s) (loc s) (infl s) (pend s) (lat s) (rv s) (canc s) (cur s) r
                    (tr s ++ [OReorg a b]) (log s))
      | _ => None
      end
  | NotifyNewHead =>
      match obox s with
      | ONewHead b :: r =>
          Some (mkS (src s) (hist s) (nid s) (loc s) (infl s) (pend s) (lat s) (rv s) (canc s) (cur s) r
                    (tr s ++ [ONewHead b]) (log s))
      | _ => None
      end
  end.

Fixpoint run (s : state) (es : list event) : option state :=
  match es with
  | [] => Some s
  | e :: r => match step s e with Some s' => run s' r | None => None end
  end.

(* ---------- property predicates (also evaluated on the implementation's observations) ---------- *)

(* replaying a mutation log: every append is a verified-valid block extending the head at that
   moment, every revert removes exactly the head *)
Fixpoint replay (c : list block) (l : list logent) : option (list block) :=
  match l with
  | [] => Some c
  | LApp b :: l' => if extendsb c b && okb b && stb b then replay (b :: c) l' else None
  | LRev b :: l' =>
      match c with
      | h :: r => if beq h b then replay r l' else None
      | [] => None
      end
  end.

(* notification spec, independent of currReorg: a run of reverts r1..rk (k>=1) directly before an
   append b yields  Reorg[Start = rk, End = r1]  then  NewHead b ; an append without reverts before
   it yields NewHead b only *)
Definition run_out (r : list block) : list out :=
  match r with
  | [] => []
  | r1 :: _ => [OReorg (last r r1) r1]
  end.
Definition sstep (acc : list out * list block) (e : logent) : list out * list block :=
  match e with
  | LRev b => (fst acc, snd acc ++ [b])
  | LApp b => (fst acc ++ run_out (snd acc) ++ [ONewHead b], [])
  end.
Definition spec_of (l : list logent) : list out * list block := fold_left sstep l ([], []).
Definition expected (l : list logent) : list out := fst (spec_of l).

Definition apps (l : list logent) : list block :=
  flat_map (fun e => match e with LApp b => [b] | LRev _ => [] end) l.
Definition newheads (t : list out) : list block :=
  flat_map (fun o => match o with ONewHead b => [b] | OReorg _ _ => [] end) t.
Fixpoint blocks_eqb (x y : list block) : bool :=
  match x, y with
  | [], [] => true
  | a :: x', b :: y' => beq a b && blocks_eqb x' y'
  | _, _ => false
  end.

(* a maximal run of reverts removes consecutive heights, highest first (the run is kept newest
   first here, so heights ascend along the list) *)
Fixpoint asc (r : list block) : bool :=
  match r with
  | b :: ((a :: _) as r') => (num a =? num b + 1) && asc r'
  | _ => true
  end.
Definition dstep (acc : bool * list block) (e : logent) : bool * list block :=
  match e with
  | LRev b => (fst acc, b :: snd acc)
  | LApp _ => (fst acc && asc (snd acc), [])
  end.
Definition runs_descending (l : list logent) : bool :=
  let r := fold_left dstep l (true, []) in fst r && asc (snd r).

(* verdict on an observed history: final chain, mutation log, notification trace *)
Definition history_ok (final : list block) (l : list logent) (t : list out) : bool :=
  match replay [] l with
  | Some c => blocks_eqb c final && linkedb final && outs_eqb (expected l) t
              && blocks_eqb (newheads t) (apps l) && runs_descending l
  | None => false
  end.

(* ---------- the model's fair scheduler for a frozen, honest source ----------
   One fetcher, every pipeline stage runs to completion, the source neither changes nor lies nor
   fails (other than "no such block").  This is the MODEL's scheduler, used for the convergence
   lemma; it is not a claim about the Go runtime's scheduler. *)
Definition next_h (s : state) : N := match loc s with [] => 0 | h :: _ => num h + 1 end.

Definition converged (s : state) : bool :=
  blocks_eqb (loc s) (src s) && is_idle (rv s) && obox_empty s.

Definition sched (s : state) : option event :=
  match obox s with
  | OReorg _ _ :: _ => Some NotifyReorg
  | ONewHead _ :: _ => Some NotifyNewHead
  | [] =>
    match rv s with
    | RRun lpv cmp _ _ =>
        match loc s with
        | [] => Some RevertStop
        | hd :: _ =>
            if lpv <? num hd then Some RevertOne
            else match cmp with
                 | None => match at_num (src s) (num hd) with
                           | Some _ => Some RevFetchOk
                           | None => Some RevFetchErr
                           end
                 | Some None => Some RevertStop
                 | Some (Some rb) => if bid rb =? bid hd then Some RevertStop else Some RevertOne
                 end
        end
    | RIdle =>
        if canc s then Some Reset
        else
          let h := next_h s in
          match at_num (pend s) h with
          | Some b =>
              if extendsb (loc s) b then (if stb b then Some (StoreOk b) else Some (StoreFail b))
              else if mismatchb (loc s) b then Some (StoreParentMismatch b)
              else Some (StoreFail b)
          | None =>
              match at_num (infl s) h with
              | Some b => Some (Verify b)
              | None =>
                  match at_num (src s) h with
                  | Some _ => Some (FetchOk h)
                  | None => match lat s with
                            | None => match src s with
                                      | [] => Some FetchLatestErr   (* a source without blocks has no latest header *)
                                      | _ :: _ => Some FetchLatest
                                      end
                            | Some _ => Some (ReorgCheck h)
                            end
                  end
              end
          end
    end
  end.

Fixpoint run_fair (n : nat) (s : state) : state :=
  match n with
  | O => s
  | S k =>
      if converged s then s
      else match sched s with
           | Some e => match step s e with Some s' => run_fair k s' | None => s end
           | None => s
           end
  end.

(* ---------- distance to the source (convergence measure) ---------- *)
(* events possible while the source is frozen and serves only what is on its chain (requests may
   still fail or be slow) *)
Definition honest (e : event) : bool :=
  match e with
  | SrcExtend | SrcReorg _ | FetchCorrupt _ | FetchUnstorable _ | FetchStaleHead _ => false
  | _ => true
  end.
Definition bad (s : state) : nat := length (filter (fun b => negb (memb b (src s))) (loc s)).
Definition todo (s : state) : nat := length (filter (fun b => negb (memb b (loc s))) (src s)).
Definition dist (s : state) : nat := (bad s + todo s)%nat.

(* the events the fair scheduler picks (for building witnesses) *)
Fixpoint sched_trace (n : nat) (s : state) : list event :=
  match n with
  | O => []
  | S k =>
      if converged s then []
      else match sched s with
           | Some e => match step s e with Some s' => e :: sched_trace k s' | None => [] end
           | None => []
           end
  end.

(* ---------- measure for the fair scheduler: distance, then pipeline phase, then owed sends ---------- *)
Definition base (s : state) : nat :=
  match rv s with
  | RRun _ cmp _ fresh =>
      match fresh, cmp with
      | true, None => 3 | true, Some _ => 2 | false, None => 10 | false, Some _ => 9
      end
  | RIdle =>
      if canc s then 8
      else match at_num (pend s) (next_h s) with
           | Some _ => 4
           | None => match at_num (infl s) (next_h s) with
                     | Some _ => 5
                     | None => match lat s with Some _ => 6 | None => 7 end
                     end
           end
  end.
Definition fair_measure (s : state) : nat := (dist s * 64 + base s * 4 + length (obox s))%nat.
