(* C06 — lemmas: list/chain facts, the global invariant and its preservation by every event. *)
From Coq Require Import List NArith Bool Lia ZifyN ZifyNat ZifyBool.
From V Require Import C06.Model.
Import ListNotations.
Open Scope N_scope.

(* ---------- booleans / equality ---------- *)
Lemma beq_true : forall x y, beq x y = true -> x = y.
Proof.
  intros [a b c d e] [a' b' c' d' e']; unfold beq; simpl; intro H.
  repeat rewrite andb_true_iff in H. destruct H as [[[[H1 H2] H3] H4] H5].
  apply N.eqb_eq in H1, H2, H3. apply eqb_prop in H4. apply eqb_prop in H5. subst; reflexivity.
Qed.
Lemma beq_refl : forall x, beq x x = true.
Proof.
  intros [a b c d e]; unfold beq; simpl. rewrite !N.eqb_refl, !eqb_reflx. reflexivity.
Qed.
Lemma memb_In : forall b l, memb b l = true -> In b l.
Proof.
  unfold memb; intros b l H. apply existsb_exists in H. destruct H as [x [Hin Hx]].
  apply beq_true in Hx. subst; assumption.
Qed.
Lemma In_memb : forall b l, In b l -> memb b l = true.
Proof. unfold memb; intros. apply existsb_exists. exists b; split; auto using beq_refl. Qed.

Lemma at_num_some : forall c n b, at_num c n = Some b -> In b c /\ num b = n.
Proof.
  unfold at_num; intros c n b H. apply find_some in H. destruct H as [H1 H2].
  apply N.eqb_eq in H2. auto.
Qed.

(* ---------- linked chains ---------- *)
Lemma linked_tail : forall b c, linkedb (b :: c) = true -> linkedb c = true.
Proof. simpl; intros b c H. apply andb_true_iff in H; tauto. Qed.

Lemma linked_skipn : forall d c, linkedb c = true -> linkedb (skipn d c) = true.
Proof.
  induction d; intros c H; simpl; auto. destruct c; auto. apply IHd. eapply linked_tail; eauto.
Qed.

Lemma incl_skipn : forall (A : Type) d (c : list A), incl (skipn d c) c.
Proof.
  induction d; intros c; simpl. apply incl_refl. destruct c. apply incl_refl.
  apply incl_tl. apply IHd.
Qed.

Lemma linked_cons2 : forall b p c, linkedb (b :: p :: c) = true ->
  num b = num p + 1 /\ par b = bid p /\ linkedb (p :: c) = true.
Proof.
  intros b p c H. change (extendsb (p :: c) b && linkedb (p :: c) = true) in H.
  apply andb_true_iff in H. destruct H as [H1 H2]. simpl in H1. apply andb_true_iff in H1.
  destruct H1 as [Hn Hp]. apply N.eqb_eq in Hn, Hp. auto.
Qed.
Lemma linked_single : forall b, linkedb [b] = true -> num b = 0 /\ par b = 0.
Proof.
  intros b H. simpl in H. repeat rewrite andb_true_iff in H. destruct H as [[H0 H1] _].
  apply N.eqb_eq in H0, H1. auto.
Qed.

Lemma linked_lt : forall c b x, linkedb (b :: c) = true -> In x c -> num x < num b.
Proof.
  induction c as [|p c IH]; intros b x H Hin; [inversion Hin|].
  apply linked_cons2 in H. destruct H as [Hn [_ Hl]]. destruct Hin as [->|Hin]; [lia|].
  assert (num x < num p) by (apply IH; auto). lia.
Qed.

Lemma linked_num_uniq : forall c x y, linkedb c = true -> In x c -> In y c -> num x = num y -> x = y.
Proof.
  induction c as [|b c IH]; intros x y H Hx Hy E; [inversion Hx|].
  destruct Hx as [->|Hx], Hy as [->|Hy]; auto.
  - pose proof (linked_lt _ _ _ H Hy). lia.
  - pose proof (linked_lt _ _ _ H Hx). lia.
  - apply IH; auto. eapply linked_tail; eauto.
Qed.

Lemma linked_has : forall c hd n, linkedb (hd :: c) = true -> n <= num hd ->
  exists a, In a (hd :: c) /\ num a = n.
Proof.
  induction c as [|p c IH]; intros hd n H Hn.
  - apply linked_single in H. destruct H as [H0 _]. exists hd; split; [left; auto|lia].
  - destruct (N.eq_dec n (num hd)) as [->|Hne]; [exists hd; split; [left|]; auto|].
    pose proof (linked_cons2 _ _ _ H) as [Hnum [_ Hl]].
    destruct (IH p n) as [a [Ha Hna]]; [exact Hl|lia|]. exists a; split; [right|]; auto.
Qed.

(* the predecessor of a non-genesis block of a linked chain is in the chain, with the parent's hash *)
Lemma linked_pred : forall c b, linkedb c = true -> In b c -> 0 < num b ->
  exists p, In p c /\ num b = num p + 1 /\ par b = bid p.
Proof.
  induction c as [|h c IH]; intros b H Hin Hpos; [inversion Hin|].
  destruct Hin as [->|Hin].
  - destruct c as [|p c].
    + apply linked_single in H. lia.
    + apply linked_cons2 in H. destruct H as [Hn [Hp _]]. exists p; split; [right; left|]; auto.
  - destruct (IH b) as [p [Hp1 Hp2]]; auto. eapply linked_tail; eauto.
    exists p; split; [right|]; auto.
Qed.

Lemma linked_parent : forall c e b, linkedb c = true -> In e c -> In b c ->
  num e = num b + 1 -> par e = bid b.
Proof.
  intros c e b H He Hb Hn.
  destruct (linked_pred c e H He) as [p [Hp [Hpn Hpp]]]; [lia|].
  assert (p = b) by (eapply linked_num_uniq; eauto; lia). subst; auto.
Qed.

Lemma extends_linked : forall c b, linkedb c = true -> extendsb c b = true -> linkedb (b :: c) = true.
Proof. intros; simpl. destruct c; rewrite H0; simpl in *; auto. Qed.

(* ---------- replay / spec folds at the end of the log ---------- *)
Definition rstep (c : list block) (e : logent) : option (list block) := replay c [e].
Arguments rstep : simpl never.
Lemma replay_app : forall l c e, replay c (l ++ [e]) =
  match replay c l with Some c' => rstep c' e | None => None end.
Proof.
  induction l as [|x l IH]; intros c e.
  - reflexivity.
  - destruct x; simpl.
    + destruct (extendsb c b && okb b && stb b); auto.
    + destruct c; auto. destruct (beq b0 b); auto.
Qed.

Lemma spec_of_app : forall l e, spec_of (l ++ [e]) = sstep (spec_of l) e.
Proof. intros; unfold spec_of. rewrite fold_left_app. reflexivity. Qed.

Lemma dfold_app : forall l e, fold_left dstep (l ++ [e]) (true, []) = dstep (fold_left dstep l (true, [])) e.
Proof. intros. rewrite fold_left_app. reflexivity. Qed.

Definition summarize (r : list block) : option (block * block) :=
  match r with [] => None | r1 :: _ => Some (last r r1, r1) end.

Lemma run_out_summarize : forall r, run_out r = reorg_out (summarize r).
Proof. destruct r; reflexivity. Qed.

Lemma summarize_snoc : forall r b,
  summarize (r ++ [b]) = match summarize r with None => Some (b, b) | Some (_, en) => Some (b, en) end.
Proof.
  intros [|r1 r] b; simpl; auto.
  f_equal. f_equal. change (r1 :: r ++ [b]) with ((r1 :: r) ++ [b]).
  destruct (r ++ [b]) eqn:E.
  - destruct r; discriminate.
  - rewrite <- E. change (match r ++ [b] with [] => r1 | _ :: _ => last (r ++ [b]) r1 end) with (last (r1 :: r ++ [b]) r1).
    change (r1 :: r ++ [b]) with ((r1 :: r) ++ [b]). apply last_last.
Qed.

Lemma newheads_app : forall a b, newheads (a ++ b) = newheads a ++ newheads b.
Proof. intros; unfold newheads. apply flat_map_app. Qed.
Lemma apps_app : forall a b, apps (a ++ b) = apps a ++ apps b.
Proof. intros; unfold apps. apply flat_map_app. Qed.
Lemma newheads_run_out : forall r, newheads (run_out r) = [].
Proof. destruct r; reflexivity. Qed.

Lemma newheads_spec : forall l acc,
  newheads (fst (fold_left sstep l acc)) = newheads (fst acc) ++ apps l.
Proof.
  induction l as [|e l IH]; intros acc; simpl.
  - rewrite app_nil_r; auto.
  - rewrite IH. destruct e; simpl.
    + rewrite !newheads_app, newheads_run_out. simpl. rewrite <- app_assoc. reflexivity.
    + reflexivity.
Qed.

Lemma newheads_expected : forall l, newheads (expected l) = apps l.
Proof. intros; unfold expected, spec_of. rewrite newheads_spec. reflexivity. Qed.

(* ---------- breaking a step into its cases ---------- *)
Ltac break_step H :=
  repeat match type of H with
  | context [match ?x with _ => _ end] =>
      let E := fresh "E" in destruct x eqn:E; try discriminate H
  end;
  try (injection H as H; subst).

Ltac split_andb :=
  repeat match goal with
  | H : _ && _ = true |- _ => apply andb_true_iff in H; destruct H
  | H : negb _ = true |- _ => apply negb_true_iff in H
  end.

(* ---------- invariant 1: the source ---------- *)
Definition InvSrc (s : state) : Prop :=
  linkedb (src s) = true /\ incl (src s) (hist s) /\
  (forall b, In b (hist s) -> okb b = true /\ bid b < nid s /\ num b < W64 - 2 /\ stb b = true) /\
  (forall x y, In x (hist s) -> In y (hist s) -> bid x = bid y -> x = y).

Lemma new_block_extends : forall c id, extendsb c (new_block c id) = true.
Proof. destruct c; intros; simpl; rewrite ?N.eqb_refl; reflexivity. Qed.

Lemma InvSrc_step : forall s e s', InvSrc s -> step s e = Some s' -> InvSrc s'.
Proof.
  intros s e s' [Hl [Hi [Hok Hu]]] H. unfold step in H.
  destruct e; break_step H; unfold InvSrc; simpl; auto;
    try (unfold stop_revert, do_store, do_revert; simpl; auto; fail).
  - (* SrcExtend *)
    apply N.ltb_lt in E.
    assert (Hnb : bid (new_block (src s) (nid s)) = nid s) by (destruct (src s); reflexivity).
    assert (Hno : okb (new_block (src s) (nid s)) = true) by (destruct (src s); reflexivity).
    repeat split.
    + rewrite new_block_extends, Hl. reflexivity.
    + intros x [<-|Hx]; [left; auto|right; auto].
    + destruct H as [<-|H]; auto. apply Hok; auto.
    + destruct H as [<-|H]; [lia|]. apply Hok in H. lia.
    + destruct H as [<-|H]; [exact E|]. apply Hok; auto.
    + destruct H as [<-|H]; [destruct (src s); reflexivity|]. apply Hok; auto.
    + intros x y [<-|Hx] [<-|Hy] Eb; auto.
      * apply Hok in Hy. lia.
      * apply Hok in Hx. lia.
  - (* SrcReorg *)
    repeat split; auto.
    + apply linked_skipn; auto.
    + eapply incl_tran; [apply incl_skipn|auto].
    + apply Hok; auto.
    + apply Hok; auto.
    + apply Hok; auto.
    + apply Hok; auto.
Qed.

Lemma hist_mono : forall s e s', step s e = Some s' -> incl (hist s) (hist s').
Proof.
  intros s e s' H. unfold step in H.
  destruct e; break_step H; simpl; try apply incl_refl;
    try (unfold stop_revert, do_store, do_revert; simpl; apply incl_refl).
  apply incl_tl, incl_refl.
Qed.

(* ---------- invariant 2: the local chain and the pipeline ---------- *)
Definition InvLoc (s : state) : Prop :=
  replay [] (log s) = Some (loc s) /\ linkedb (loc s) = true /\ incl (loc s) (hist s) /\
  (forall b, In b (infl s) -> okb b = true -> In (gen b) (hist s)) /\
  (forall b, In b (pend s) -> okb b = true /\ In (gen b) (hist s)) /\
  (forall h g, lat s = Some (h, g) -> In h (hist s)).

Lemma tip_In : forall c b, tip c = Some b -> In b c.
Proof. destruct c; simpl; intros; [discriminate|]. injection H as <-; left; auto. Qed.

Lemma gen_genuine : forall b, okb b = true -> stb b = true -> gen b = b.
Proof. intros [a b c d e]; simpl; intros -> ->; reflexivity. Qed.
Lemma gen_unstor : forall b, gen (unstor b) = gen b.
Proof. intros [a b c d e]; reflexivity. Qed.

Lemma InvLoc_step : forall s e s', InvSrc s -> InvLoc s -> step s e = Some s' -> InvLoc s'.
Proof.
  intros s e s' HS HL H. unfold step in H.
  destruct e; break_step H;
    destruct HS as [_ [Hsh [Hok _]]]; destruct HL as [Hr [Hl [Hlh [Hif [Hp Hla]]]]];
    unfold InvLoc; simpl;
    try (unfold stop_revert; simpl); repeat apply conj; try assumption.
  all: try (intros; discriminate).
  all: try (intros ? F; contradiction).
  all: try (apply incl_tl; assumption).
  all: try (intros; right; eauto; fail).
  all: try (intros x Hx; destruct (Hp _ Hx); split; [|right]; assumption).
  all: try (intros x [<-|Hx] Ho; [|auto]; rewrite ?gen_unstor; apply at_num_some in E; destruct E as [E _];
            apply Hsh in E; rewrite gen_genuine; [assumption|apply Hok; assumption|apply Hok; assumption]).
  all: try (intros x [<-|Hx] Ho; [simpl in Ho; discriminate|auto]; fail).
  all: try (intros h' g Hg; injection Hg as <- _; apply Hsh, tip_In; assumption).
  all: try (intros h' g Hg; injection Hg as <- _; apply memb_In; assumption).
  all: try (intros x [<-|Hx]; [split_andb; split; [|apply Hif; [apply memb_In|]]; assumption
                               | apply Hp; assumption]).
  all: try (rewrite replay_app, Hr; unfold rstep; simpl; split_andb;
            match goal with Hm : memb ?b (pend _) = true |- _ =>
              apply memb_In in Hm; destruct (Hp _ Hm) as [Ho _]; rewrite Ho end;
            match goal with He : extendsb _ _ = true |- _ => rewrite He end;
            match goal with Hs : stb _ = true |- _ => rewrite Hs end; reflexivity).
  all: try (split_andb; apply andb_true_iff; split; assumption).
  all: try (split_andb; intros x [<-|Hx]; [|auto];
            match goal with Hm : memb ?b (pend _) = true |- _ =>
              apply memb_In in Hm; destruct (Hp _ Hm) as [Ho Hg]; rewrite gen_genuine in Hg; assumption end).
  all: try (rewrite replay_app, Hr; unfold rstep; simpl; rewrite E0, beq_refl; reflexivity).
  all: try (rewrite E0 in Hl; eapply linked_tail; eauto; fail).
  all: try (rewrite E0 in Hlh; intros x Hx; apply Hlh; right; assumption).
Qed.

(* ---------- invariant 3: a running revertTask carries its evidence ---------- *)
Definition ev_ok (s : state) (lpv : N) (ev : evid) : Prop :=
  match ev with
  | EvLatest hdr _ =>
      lpv = wsub1 (num hdr) /\ In hdr (hist s) /\
      (forall a, In a (loc s) -> num a = num hdr -> bid a <> bid hdr)
  | EvSucc blk =>
      lpv = wsub2 (num blk) /\ In blk (hist s) /\
      (forall hd rest, loc s = hd :: rest -> lpv < num hd -> num hd + 1 = num blk /\ par blk <> bid hd)
  end.
Definition cmp_ok (s : state) (cmp : option (option block)) : Prop :=
  match cmp with
  | Some (Some rb) => In rb (hist s) /\ exists hd rest, loc s = hd :: rest /\ num rb = num hd
  | _ => True
  end.
Definition rv_ok (s : state) : Prop :=
  match rv s with
  | RIdle => True
  | RRun lpv cmp ev _ => ev_ok s lpv ev /\ cmp_ok s cmp
  end.

Lemma ev_ok_pop : forall s s' lpv ev hd rest,
  InvSrc s -> linkedb (loc s) = true -> incl (loc s) (hist s) ->
  loc s = hd :: rest -> loc s' = rest -> hist s' = hist s ->
  ev_ok s lpv ev -> ev_ok s' lpv ev.
Proof.
  intros s s' lpv ev hd rest [_ [_ [Hok _]]] Hl Hlh E E' Eh Hev.
  destruct ev as [hdr g|blk]; unfold ev_ok in *; rewrite E', Eh.
  - destruct Hev as [H1 [H2 H3]]. repeat split; auto.
    intros a Ha. apply H3. rewrite E; right; auto.
  - destruct Hev as [H1 [H2 H3]]. split; [auto|split; [auto|]].
    intros hd' rest' Er Hlt. exfalso. subst rest. rewrite Er in E. rewrite E in Hl.
    apply linked_cons2 in Hl. destruct Hl as [Hn _].
    assert (Hb : num hd < W64 - 2) by (apply Hok, Hlh; rewrite E; left; auto).
    destruct (N.ltb_spec lpv (num hd)) as [Hc|Hc]; [|lia].
    destruct (H3 hd (hd' :: rest') E Hc) as [Hx _].
    subst lpv. unfold wsub2 in Hlt.
    destruct (num blk =? 0) eqn:E0; [apply N.eqb_eq in E0; lia|].
    destruct (num blk =? 1) eqn:E1; [apply N.eqb_eq in E1; lia|]. lia.
Qed.

Lemma ev_ok_hist : forall s s' lpv ev,
  loc s' = loc s -> incl (hist s) (hist s') -> ev_ok s lpv ev -> ev_ok s' lpv ev.
Proof.
  intros s s' lpv ev El Eh Hev. destruct ev; unfold ev_ok in *; rewrite El;
    destruct Hev as [H1 [H2 H3]]; repeat split; auto; eapply H3; eauto.
Qed.

Lemma cmp_ok_hist : forall s s' cmp,
  loc s' = loc s -> incl (hist s) (hist s') -> cmp_ok s cmp -> cmp_ok s' cmp.
Proof.
  intros s s' cmp El Eh H. destruct cmp as [[rb|]|]; simpl in *; auto.
  rewrite El. destruct H; split; auto.
Qed.

Lemma mismatch_head : forall hd rest b, mismatchb (hd :: rest) b = true ->
  num hd + 1 = num b /\ par b <> bid hd.
Proof.
  intros hd rest b H. simpl in H. apply andb_true_iff in H. destruct H as [H1 H2].
  apply N.eqb_eq in H1. apply negb_true_iff, N.eqb_neq in H2. split; [lia|auto].
Qed.

Lemma InvRv_step : forall s e s', InvSrc s -> InvLoc s -> rv_ok s -> step s e = Some s' -> rv_ok s'.
Proof.
  intros s e s' HS HL HR H. unfold step in H.
  destruct e; break_step H; unfold rv_ok in *; simpl;
    try (unfold stop_revert; simpl); try exact I; try assumption.
  - (* SrcExtend *)
    destruct (rv s); auto.
    destruct HR; split; [apply ev_ok_hist with (s := s)|apply cmp_ok_hist with (s := s)];
      simpl; auto using incl_tl, incl_refl.
  - (* ReorgCheck: evidence recorded *)
    destruct HL as [_ [Hl [_ [_ [_ Hla]]]]].
    split; [|exact I]. split; [reflexivity|]. split; [eapply Hla; eauto|].
    intros a' Ha' Hn. apply at_num_some in E4. destruct E4 as [Ha Hna].
    rewrite E in Ha', Hl.
    assert (a' = b2) by (eapply linked_num_uniq; eauto; lia). subst a'.
    apply N.eqb_neq; assumption.
  - (* StoreOk: only when idle *)
    split_andb. destruct (rv s); [exact I|discriminate].
  - (* StoreParentMismatch *)
    split_andb. destruct HL as [_ [_ [_ [_ [Hp _]]]]].
    split; [|exact I]. split; [reflexivity|]. split; [apply Hp, memb_In; assumption|].
    intros hd rest Eh _. rewrite Eh in *. eapply mismatch_head; eauto.
  - (* RevFetchOk *)
    rewrite E in HR. destruct HR as [Hev _]. split; [exact Hev|].
    apply at_num_some in E3. destruct E3 as [Hin Hnum]. destruct HS as [_ [Hsh _]].
    split; [apply Hsh; assumption|]. eauto.
  - rewrite E in HR. destruct HR as [Hev _]. split; [exact Hev|exact I].
  - (* RevertOne, head newer than lpv *)
    rewrite E in HR. destruct HR as [Hev _]. split; [|exact I].
    destruct HL as [_ [Hl [Hlh _]]]. eapply ev_ok_pop with (s := s); eauto.
  - (* RevertOne, hashes differ, parents differ *)
    rewrite E in HR. destruct HR as [Hev _]. split; [|exact I].
    destruct HL as [_ [Hl [Hlh _]]]. eapply ev_ok_pop with (s := s); eauto.
Qed.

(* ---------- invariant 4: notifications = spec of the mutation log ---------- *)
Definition InvTr (s : state) : Prop :=
  fst (spec_of (log s)) = tr s ++ obox s /\ cur s = summarize (snd (spec_of (log s))).

Lemma obox_empty_nil : forall s, obox_empty s = true -> obox s = [].
Proof. unfold obox_empty; intros s; destruct (obox s); [auto|discriminate]. Qed.

Lemma InvTr_step : forall s e s', InvTr s -> step s e = Some s' -> InvTr s'.
Proof.
  intros s e s' HT H. unfold step in H.
  destruct e; break_step H; unfold InvTr in *; simpl;
    try (unfold stop_revert; simpl); try assumption.
  - (* StoreOk *)
    split_andb. destruct HT as [H5 H6].
    match goal with Hx : obox_empty _ = true |- _ => apply obox_empty_nil in Hx; rewrite Hx in * end.
    rewrite spec_of_app. simpl. rewrite H5, app_nil_r, run_out_summarize, <- H6. auto.
  - rewrite spec_of_app; simpl. destruct HT as [H5 H6]. rewrite summarize_snoc, <- H6. auto.
  - rewrite spec_of_app; simpl. destruct HT as [H5 H6]. rewrite summarize_snoc, <- H6. auto.
  - rewrite spec_of_app; simpl. destruct HT as [H5 H6]. rewrite summarize_snoc, <- H6. auto.
  - (* Reset *)
    split_andb. destruct HT as [H5 H6].
    match goal with Hx : obox_empty _ = true |- _ => apply obox_empty_nil in Hx; rewrite Hx in * end. auto.
  - destruct HT as [H5 H6]. rewrite E in H5. rewrite <- app_assoc. auto.
  - destruct HT as [H5 H6]. rewrite E in H5. rewrite <- app_assoc. auto.
Qed.

(* ---------- invariant 5: a run of reverts removes consecutive heights ---------- *)
Definition drun (s : state) : bool * list block := fold_left dstep (log s) (true, []).
Definition InvRun (s : state) : Prop :=
  fst (drun s) = true /\ asc (snd (drun s)) = true /\
  match snd (drun s) with [] => True | b :: _ => extendsb (loc s) b = true end.

Lemma linked_head_ext : forall b c, linkedb (b :: c) = true -> extendsb c b = true.
Proof. intros b c H. change (extendsb c b && linkedb c = true) in H. apply andb_true_iff in H; tauto. Qed.

Lemma InvRun_pop : forall s b rest d,
  linkedb (loc s) = true -> loc s = b :: rest ->
  fst d = true -> asc (snd d) = true ->
  match snd d with [] => True | x :: _ => extendsb (loc s) x = true end ->
  fst (dstep d (LRev b)) = true /\ asc (snd (dstep d (LRev b))) = true /\ extendsb rest b = true.
Proof.
  intros s b rest d Hl E H1 H2 H3. simpl. rewrite E in *. repeat split; auto.
  - destruct (snd d) as [|a r]; auto. simpl in H3. apply andb_true_iff in H3. destruct H3 as [H3 _].
    change (asc (b :: a :: r)) with ((num a =? num b + 1) && asc (a :: r)). rewrite H3, H2. auto.
  - apply linked_head_ext; auto.
Qed.

Lemma InvRun_step : forall s e s', InvLoc s -> InvRun s -> step s e = Some s' -> InvRun s'.
Proof.
  intros s e s' HL HD H. unfold step in H.
  destruct e; break_step H; unfold InvRun, drun in *; simpl;
    try (unfold stop_revert; simpl); try assumption.
  - (* StoreOk *)
    rewrite dfold_app. simpl. destruct HD as [H1 [H2 _]]. rewrite H1, H2. auto.
  - rewrite dfold_app. destruct HL as [_ [Hl _]]. destruct HD as [H1 [H2 H3]].
    destruct (InvRun_pop s b l _ Hl E0 H1 H2 H3) as [A [B C]]. simpl in *. auto.
  - rewrite dfold_app. destruct HL as [_ [Hl _]]. destruct HD as [H1 [H2 H3]].
    destruct (InvRun_pop s b l _ Hl E0 H1 H2 H3) as [A [B C]]. simpl in *. auto.
  - rewrite dfold_app. destruct HL as [_ [Hl _]]. destruct HD as [H1 [H2 H3]].
    destruct (InvRun_pop s b l _ Hl E0 H1 H2 H3) as [A [B C]]. simpl in *. auto.
Qed.

(* ---------- the whole invariant along runs ---------- *)
Definition Inv (s : state) : Prop := InvSrc s /\ InvLoc s /\ rv_ok s /\ InvTr s /\ InvRun s.

Lemma Inv_init : Inv init.
Proof.
  unfold Inv, InvSrc, InvLoc, rv_ok, InvTr, InvRun, drun, init; simpl.
  repeat split; auto; try (intros; contradiction); try (intros; discriminate); apply incl_refl.
Qed.

Lemma Inv_step : forall s e s', Inv s -> step s e = Some s' -> Inv s'.
Proof.
  intros s e s' [A [B [C [D E]]]] H. unfold Inv.
  eauto 10 using InvSrc_step, InvLoc_step, InvRv_step, InvTr_step, InvRun_step.
Qed.

Lemma Inv_run : forall es s s', Inv s -> run s es = Some s' -> Inv s'.
Proof.
  induction es as [|e es IH]; intros s s' HI H; simpl in H.
  - injection H as <-; auto.
  - destruct (step s e) as [s1|] eqn:E; [|discriminate].
    apply (IH s1 s'); [eapply Inv_step; eauto|exact H].
Qed.

Definition reachable (s : state) : Prop := exists es, run init es = Some s.
Lemma Inv_reachable : forall s, reachable s -> Inv s.
Proof. intros s [es H]. eapply Inv_run; eauto using Inv_init. Qed.
