(* C06 — the safety theorems (all event sequences = all schedules and all source behaviours). *)
From Coq Require Import List NArith Bool Lia ZifyN ZifyNat ZifyBool.
From V Require Import C06.Model C06.Proofs.
Import ListNotations.
Open Scope N_scope.

(* ---------- Inv_chain ---------- *)
Lemma inv_chain_lemma : forall s, reachable s ->
  linkedb (loc s) = true /\ replay [] (log s) = Some (loc s) /\
  Forall (fun b => okb b = true /\ In b (hist s)) (loc s).
Proof.
  intros s R. destruct (Inv_reachable s R) as [[_ [_ [Hok _]]] [[Hr [Hl [Hlh _]]] _]].
  repeat split; auto. apply Forall_forall. intros b Hb. split; [apply Hok|]; auto.
Qed.

Lemma store_needs_verified_lemma : forall s b s', reachable s -> step s (StoreOk b) = Some s' ->
  memb b (pend s) = true /\ okb b = true /\ stb b = true /\ In b (hist s) /\
  extendsb (loc s) b = true /\ loc s' = b :: loc s /\ canc s = false /\ rv s = RIdle.
Proof.
  intros s b s' R H. destruct (Inv_reachable s R) as [_ [[_ [_ [_ [_ [Hp _]]]]] _]].
  simpl in H. destruct (negb (canc s) && is_idle (rv s) && obox_empty s && memb b (pend s) && extendsb (loc s) b && stb b) eqn:E;
    [|discriminate]. injection H as <-. split_andb.
  destruct (Hp b) as [Ho Hh]; [apply memb_In; auto|]. rewrite gen_genuine in Hh; auto.
  repeat split; auto. destruct (rv s); [auto|discriminate].
Qed.

Lemma pend_only_by_verify_lemma : forall s e s' b, step s e = Some s' -> In b (pend s') ->
  In b (pend s) \/ (e = Verify b /\ memb b (infl s) = true /\ okb b = true).
Proof.
  intros s e s' b H Hin. unfold step in H.
  destruct e; break_step H; simpl in Hin; auto;
    try (unfold stop_revert in Hin; simpl in Hin; auto; fail);
    try contradiction.
  split_andb. destruct Hin as [<-|Hin]; auto.
Qed.

Lemma infl_only_by_fetch_lemma : forall s e s' b, step s e = Some s' -> In b (infl s') ->
  In b (infl s) \/ (exists h, (e = FetchOk h /\ at_num (src s) h = Some b) \/
                              (e = FetchCorrupt h /\ okb b = false) \/
                              (e = FetchUnstorable h /\ stb b = false)).
Proof.
  intros s e s' b H Hin. unfold step in H.
  destruct e; break_step H; simpl in Hin; auto;
    try (unfold stop_revert in Hin; simpl in Hin; auto; fail);
    try contradiction.
  - destruct Hin as [<-|Hin]; auto. right; exists h; left; auto.
  - destruct Hin as [<-|Hin]; auto. right; exists h; right; left; auto.
  - destruct Hin as [<-|Hin]; auto. right; exists h; right; right; auto.
Qed.

(* ---------- head_back_only_by_revert ---------- *)
Lemma head_back_lemma : forall s e s', step s e = Some s' ->
  loc s' = loc s \/ (exists b, e = StoreOk b /\ loc s' = b :: loc s)
  \/ (e = RevertOne /\ exists b, loc s = b :: loc s').
Proof.
  intros s e s' H. unfold step in H.
  destruct e; break_step H; simpl; auto; try (unfold stop_revert; simpl; auto; fail).
  - right; left; eauto.
  - right; right; split; auto; exists b; try rewrite E0; reflexivity.
  - right; right; split; auto; exists b; try rewrite E0; reflexivity.
  - right; right; split; auto; exists b; try rewrite E0; reflexivity.
Qed.

(* ---------- reverted_on_evidence ---------- *)
(* e is a block the source had on its chain (and served); it contradicts the local block b *)
Definition contradicts (c : list block) (e b : block) : Prop :=
  (num e = num b /\ bid e <> bid b)                      (* same height, different hash *)
  \/ (num e = num b + 1 /\ par e <> bid b)               (* successor whose parent hash is not b *)
  \/ (exists a, In a c /\ num a = num e /\ bid a <> bid e /\ num a <= num b).
                                  (* reported latest header differs from b's ancestor (or b) at its height *)
Definition justified (s : state) (b : block) : Prop :=
  exists e, In e (hist s) /\ contradicts (loc s) e b.

Lemma reverted_on_evidence_lemma : forall s s', reachable s -> step s RevertOne = Some s' ->
  exists b, loc s = b :: loc s' /\ justified s b.
Proof.
  intros s s' R H. pose proof (Inv_reachable s R) as HI.
  unfold step in H. break_step H; simpl; exists b; (split; [reflexivity|]);
    destruct HI as [[_ [_ [Hok _]]] [[_ [Hl [Hlh _]]] [HR _]]];
    unfold rv_ok in HR; rewrite E in HR; destruct HR as [Hev Hc]; unfold justified.
  - (* head newer than lastPossiblyValidHeight *)
    apply N.ltb_lt in E2.
    assert (Hb : num b < W64 - 2) by (apply Hok, Hlh; rewrite E0; left; auto).
    destruct why as [hdr g|blk]; simpl in Hev; destruct Hev as [H1 [H2 H3]].
    + assert (Hle : num hdr <= num b).
      { subst lpv. unfold wsub1 in E2. destruct (num hdr =? 0) eqn:Ez.
        - apply N.eqb_eq in Ez. lia.
        - lia. }
      rewrite E0 in Hl. destruct (linked_has l b (num hdr) Hl Hle) as [a [Ha Hna]].
      exists hdr; split; auto. right; right. exists a. rewrite E0. repeat split; auto.
      * apply H3; auto. rewrite E0; auto.
      * lia.
    + destruct (H3 b l E0 E2) as [Hn Hp]. exists blk; split; auto. right; left. split; auto.
  - (* hash comparison, parents agree *)
    simpl in Hc. destruct Hc as [Hh [hd [rest [Eh Hn]]]]. rewrite E0 in Eh. injection Eh as <- <-.
    exists b0; split; auto. left. split; auto. apply N.eqb_neq; auto.
  - simpl in Hc. destruct Hc as [Hh [hd [rest [Eh Hn]]]]. rewrite E0 in Eh. injection Eh as <- <-.
    exists b0; split; auto. left. split; auto. apply N.eqb_neq; auto.
Qed.

(* What a contradiction means: no hash-linked chain that contains the evidence block e can contain
   b — unless two different blocks share a hash (explicit collision: same hash id, different parent). *)
Definition nocoll (c l : list block) : Prop :=
  forall x y, In x c -> In y l -> bid x = bid y -> par x = par y.

Lemma shared_ancestor : forall c l a e, linkedb c = true -> linkedb l = true -> nocoll c l ->
  In a l -> In e c -> num a = num e ->
  forall n x y, In x c -> In y l -> num x = num y -> bid x = bid y ->
    num y = num a + N.of_nat n -> bid e = bid a.
Proof.
  intros c l a e Hc Hl Hnc Ha He Hae. induction n as [|n IH]; intros x y Hx Hy Hn Hb Hk.
  - simpl in Hk. rewrite N.add_0_r in Hk.
    assert (y = a) by (apply (linked_num_uniq l); auto).
    assert (x = e) by (apply (linked_num_uniq c); auto; congruence). subst; auto.
  - destruct (linked_pred c x Hc Hx) as [px [Hpx [Hnx Hbx]]]; [lia|].
    destruct (linked_pred l y Hl Hy) as [py [Hpy [Hny Hby]]]; [lia|].
    apply (IH px py); auto.
    + lia.
    + rewrite <- Hbx, <- Hby. apply Hnc; auto.
    + lia.
Qed.

Lemma evidence_sound_lemma : forall l e b c,
  linkedb l = true -> In b l -> contradicts l e b ->
  linkedb c = true -> In e c -> nocoll c l -> ~ In b c.
Proof.
  intros l e b c Hl Hbl Hcon Hc Hec Hnc Hbc.
  destruct Hcon as [[Hn Hd]|[[Hn Hd]|[a [Ha [Hna [Hd Hle]]]]]].
  - assert (e = b) by (eapply linked_num_uniq; eauto). subst; auto.
  - apply Hd. eapply linked_parent; eauto.
  - apply Hd. symmetry.
    apply (shared_ancestor c l a e Hc Hl Hnc Ha Hec Hna (N.to_nat (num b - num a)) b b); auto.
    lia.
Qed.

(* the source's own chain always meets the side conditions of evidence_sound *)
Lemma src_side_conditions : forall s, reachable s -> linkedb (src s) = true /\ nocoll (src s) (loc s).
Proof.
  intros s R. destruct (Inv_reachable s R) as [[Hsl [Hsh [_ Hu]]] [[_ [_ [Hlh _]]] _]].
  split; auto. intros x y Hx Hy E. rewrite (Hu x y); auto.
Qed.

(* corollary in the words of the property: if the evidence block is on the source's chain, the
   reverted block is one the source no longer has *)
Lemma reverted_block_gone_lemma : forall s b e, reachable s ->
  In b (loc s) -> In e (src s) -> contradicts (loc s) e b -> ~ In b (src s).
Proof.
  intros s b e R Hb He Hc. destruct (src_side_conditions s R) as [Hl Hn].
  destruct (Inv_reachable s R) as [_ [[_ [Hll _]] _]].
  eapply evidence_sound_lemma; eauto.
Qed.

(* ---------- trace_spec ---------- *)
Lemma blocks_eqb_refl : forall l, blocks_eqb l l = true.
Proof. induction l; simpl; auto. rewrite beq_refl; auto. Qed.
Lemma outs_eqb_refl : forall l, outs_eqb l l = true.
Proof. induction l as [|o l IH]; simpl; auto. destruct o; simpl; rewrite ?beq_refl, IH; auto. Qed.

Lemma trace_spec_lemma : forall s, reachable s ->
  tr s ++ obox s = expected (log s) /\
  newheads (tr s ++ obox s) = apps (log s) /\
  runs_descending (log s) = true /\
  cur s = summarize (snd (spec_of (log s))).
Proof.
  intros s R. destruct (Inv_reachable s R) as [_ [_ [_ [[HT1 HT2] [HD1 [HD2 _]]]]]].
  repeat split; auto.
  - rewrite <- HT1. apply newheads_expected.
  - unfold runs_descending. unfold drun in *. rewrite HD1, HD2. reflexivity.
Qed.

Lemma history_ok_lemma : forall s, reachable s ->
  history_ok (loc s) (log s) (tr s ++ obox s) = true.
Proof.
  intros s R. destruct (inv_chain_lemma s R) as [Hl [Hr _]].
  destruct (trace_spec_lemma s R) as [H1 [H2 [H3 _]]].
  unfold history_ok. rewrite Hr, Hl, H3, H2, <- H1, blocks_eqb_refl, outs_eqb_refl, blocks_eqb_refl.
  reflexivity.
Qed.
