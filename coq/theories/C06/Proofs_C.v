(* C06 — convergence measure under a frozen honest source. *)
From Coq Require Import List NArith Bool Lia ZifyN ZifyNat ZifyBool.
From V Require Import C06.Model C06.Proofs C06.Proofs_B.
Import ListNotations.
Open Scope N_scope.

(* everything in flight reflects the source's current chain *)
Definition ev_block (ev : evid) : block := match ev with EvLatest h _ => h | EvSucc b => b end.
Definition Fresh (s : state) : Prop :=
  (forall b, In b (infl s) -> In b (src s)) /\
  (forall b, In b (pend s) -> In b (src s)) /\
  (forall h g, lat s = Some (h, g) -> In h (src s)) /\
  match rv s with
  | RIdle => True
  | RRun _ cmp ev _ => In (ev_block ev) (src s) /\ (forall rb, cmp = Some (Some rb) -> In rb (src s))
  end.
Definition Good (s : state) : Prop := Inv s /\ Fresh s.

Lemma Fresh_step : forall s e s', Inv s -> Fresh s -> honest e = true -> step s e = Some s' ->
  Fresh s' /\ src s' = src s.
Proof.
  intros s e s' HI HF Hh H. unfold step in H.
  destruct e; try discriminate Hh; break_step H;
    destruct HI as [[_ [Hsh [Hok _]]] _]; destruct HF as [Hi [Hp [Hl Hr]]]; unfold Fresh; simpl;
    try (unfold stop_revert; simpl); (split; [|reflexivity]); repeat apply conj; try assumption;
    try exact I; try (intros; discriminate); try (intros ? F; contradiction).
  - intros x [<-|Hx]; auto. apply at_num_some in E; tauto.
  - intros h' g Hg. injection Hg as <- _. apply tip_In; auto.
  - eapply Hl; eauto.
  - split_andb. intros x [<-|Hx]; auto. apply Hi, memb_In; auto.
  - split_andb. apply memb_In in H1. apply Hp in H1. rewrite gen_genuine; auto; apply Hok; auto.
  - rewrite E in Hr. tauto.
  - rewrite E in Hr. intros rb Hrb. injection Hrb as <-. apply at_num_some in E3; tauto.
  - rewrite E in Hr. tauto.
  - rewrite E in Hr. tauto.
  - rewrite E in Hr. tauto.
Qed.

Lemma revert_evidence_block : forall s s', Inv s -> step s RevertOne = Some s' ->
  exists b e, loc s = b :: loc s' /\ contradicts (loc s) e b /\
    match rv s with
    | RRun _ cmp ev _ => e = ev_block ev \/ cmp = Some (Some e)
    | RIdle => False
    end.
Proof.
  intros s s' HI H.
  unfold step in H. break_step H; simpl; exists b;
    destruct HI as [[_ [_ [Hok _]]] [[_ [Hl [Hlh _]]] [HR _]]];
    unfold rv_ok in HR; rewrite E in HR; destruct HR as [Hev Hc].
  - apply N.ltb_lt in E2.
    assert (Hb : num b < W64 - 2) by (apply Hok, Hlh; rewrite E0; left; auto).
    destruct why as [hdr g|blk]; simpl in Hev; destruct Hev as [H1 [H2 H3]].
    + assert (Hle : num hdr <= num b).
      { subst lpv. unfold wsub1 in E2. destruct (num hdr =? 0) eqn:Ez.
        - apply N.eqb_eq in Ez. lia.
        - lia. }
      rewrite E0 in Hl. destruct (linked_has l b (num hdr) Hl Hle) as [a [Ha Hna]].
      exists hdr; split; [reflexivity|]. split; [|left; reflexivity].
      right; right. exists a. repeat split; auto.
      * apply H3; auto. rewrite E0; auto.
      * lia.
    + destruct (H3 b l E0 E2) as [Hn Hp]. exists blk; split; [reflexivity|].
      split; [|left; reflexivity]. right; left. split; auto.
  - simpl in Hc. destruct Hc as [Hh [hd [rest [Eh Hn]]]]. rewrite E0 in Eh. injection Eh as <- <-.
    exists b0; split; [reflexivity|]. split; [|right; reflexivity].
    left. split; auto. apply N.eqb_neq; auto.
  - simpl in Hc. destruct Hc as [Hh [hd [rest [Eh Hn]]]]. rewrite E0 in Eh. injection Eh as <- <-.
    exists b0; split; [reflexivity|]. split; [|right; reflexivity].
    left. split; auto. apply N.eqb_neq; auto.
Qed.

Lemma gone : forall s b e, Inv s -> In b (loc s) -> In e (src s) -> contradicts (loc s) e b ->
  ~ In b (src s).
Proof.
  intros s b e [[Hsl [Hsh [_ Hu]]] [[_ [Hl [Hlh _]]] _]] Hb He Hc.
  eapply evidence_sound_lemma; eauto.
  intros x y Hx Hy E. rewrite (Hu x y); auto.
Qed.

Lemma reverted_not_in_src : forall s s', Good s -> step s RevertOne = Some s' ->
  exists b, loc s = b :: loc s' /\ ~ In b (src s).
Proof.
  intros s s' [HI HF] H. destruct (revert_evidence_block s s' HI H) as [b [e [El [Hc Hrv]]]].
  exists b; split; auto. apply (gone s b e); auto.
  - rewrite El; left; auto.
  - destruct HF as [_ [_ [_ Hr]]]. destruct (rv s); [contradiction|].
    destruct Hr as [Hr1 Hr2]. destruct Hrv as [->|Hrv]; auto.
Qed.

(* ---------- counting ---------- *)
Lemma memb_false : forall b l, ~ In b l -> memb b l = false.
Proof.
  intros b l H. destruct (memb b l) eqn:E; auto. apply memb_In in E. contradiction.
Qed.

Lemma filter_ext_in_len : forall (f g : block -> bool) c,
  (forall x, In x c -> f x = g x) -> length (filter f c) = length (filter g c).
Proof.
  induction c as [|a c IH]; intros H; simpl; auto.
  rewrite (H a) by (left; auto). destruct (g a); simpl; rewrite IH; auto; intros; apply H; right; auto.
Qed.

Lemma filter_strict : forall (f g : block -> bool) c b,
  (forall x, f x = true -> g x = true) -> In b c -> g b = true -> f b = false ->
  (length (filter f c) < length (filter g c))%nat.
Proof.
  induction c as [|a c IH]; intros b Hfg Hin Hg Hf; [inversion Hin|].
  assert (Hle : forall c', (length (filter f c') <= length (filter g c'))%nat).
  { induction c' as [|x c' IH']; simpl; auto. destruct (f x) eqn:Ef.
    - rewrite (Hfg x Ef). simpl; lia.
    - destruct (g x); simpl; lia. }
  simpl. destruct Hin as [->|Hin].
  - rewrite Hf, Hg. simpl. specialize (Hle c). lia.
  - specialize (IH b Hfg Hin Hg Hf). destruct (f a) eqn:Ef.
    + rewrite (Hfg a Ef). simpl; lia.
    + destruct (g a); simpl; lia.
Qed.

Lemma beq_false_neq : forall x y, x <> y -> beq x y = false.
Proof. intros x y H. destruct (beq x y) eqn:E; auto. apply beq_true in E. contradiction. Qed.

Lemma dist_revert : forall (srcc rest : list block) b, ~ In b srcc ->
  (length (filter (fun x => negb (memb x srcc)) (b :: rest)) =
   S (length (filter (fun x => negb (memb x srcc)) rest)))%nat /\
  length (filter (fun x => negb (memb x rest)) srcc) =
  length (filter (fun x => negb (memb x (b :: rest))) srcc).
Proof.
  intros srcc rest b Hn. split.
  - simpl. rewrite (memb_false b srcc Hn). reflexivity.
  - apply filter_ext_in_len. intros x Hx. unfold memb; simpl.
    rewrite beq_false_neq; auto. intro; subst; contradiction.
Qed.

Lemma dist_store : forall (srcc l : list block) b, In b srcc -> ~ In b l ->
  length (filter (fun x => negb (memb x srcc)) (b :: l)) =
  length (filter (fun x => negb (memb x srcc)) l) /\
  (length (filter (fun x => negb (memb x (b :: l))) srcc) <
   length (filter (fun x => negb (memb x l)) srcc))%nat.
Proof.
  intros srcc l b Hin Hn. split.
  - simpl. rewrite (In_memb b srcc Hin). reflexivity.
  - apply filter_strict with (b := b); auto.
    + intros x Hx. apply negb_true_iff in Hx. apply negb_true_iff.
      unfold memb in *; simpl in Hx. apply orb_false_iff in Hx; tauto.
    + apply negb_true_iff, memb_false; auto.
    + apply negb_false_iff. unfold memb; simpl. rewrite beq_refl; reflexivity.
Qed.

Lemma extends_not_in : forall c b, linkedb c = true -> extendsb c b = true -> ~ In b c.
Proof.
  intros c b Hl He Hin. destruct c as [|h c]; [inversion Hin|].
  simpl in He. apply andb_true_iff in He. destruct He as [He _]. apply N.eqb_eq in He.
  destruct Hin as [->|Hin]; [lia|]. pose proof (linked_lt _ _ _ Hl Hin). lia.
Qed.

(* measure_decreases: while the source is frozen and honest, under EVERY schedule of the pipeline
   (not only the fair one) the distance |local \ source| + |source \ local| is unchanged by all
   events except StoreOk and RevertOne, each of which decreases it strictly *)
Lemma measure_step : forall s e s', Good s -> honest e = true -> step s e = Some s' ->
  Good s' /\
  match e with
  | StoreOk _ | RevertOne => (dist s' < dist s)%nat
  | _ => dist s' = dist s
  end.
Proof.
  intros s e s' [HI HF] Hh H.
  destruct (Fresh_step s e s' HI HF Hh H) as [HF' Hsrc].
  split; [split; [eapply Inv_step; eauto|auto]|].
  assert (Hsame : loc s' = loc s -> dist s' = dist s).
  { intro El. unfold dist, bad, todo. rewrite El, Hsrc. reflexivity. }
  destruct (head_back_lemma s e s' H) as [El|[[b [-> El]]|[-> [b El]]]].
  - destruct e; auto.
    + (* StoreOk with unchanged chain is impossible *)
      simpl in H. destruct (negb (canc s) && is_idle (rv s) && obox_empty s && memb b (pend s) && extendsb (loc s) b && stb b);
        [|discriminate]. injection H as <-. simpl in El.
      exfalso. assert (length (b :: loc s) = length (loc s)) by (rewrite El; auto). simpl in H; lia.
    + exfalso. destruct (reverted_not_in_src s s' (conj HI HF) H) as [b [Eb _]].
      assert (length (loc s) = length (b :: loc s')) by (rewrite <- Eb; auto). rewrite El in H0. simpl in H0; lia.
  - (* StoreOk b *)
    simpl in H. destruct (negb (canc s) && is_idle (rv s) && obox_empty s && memb b (pend s) && extendsb (loc s) b && stb b) eqn:E;
      [|discriminate]. split_andb.
    destruct HI as [_ [[_ [Hl _]] _]]. destruct HF as [_ [Hp _]].
    assert (Hin : In b (src s)) by (apply Hp, memb_In; auto).
    assert (Hn : ~ In b (loc s)) by (apply extends_not_in; auto).
    destruct (dist_store (src s) (loc s) b Hin Hn) as [A B].
    unfold dist, bad, todo. rewrite El, Hsrc. lia.
  - (* RevertOne *)
    destruct (reverted_not_in_src s s' (conj HI HF) H) as [b' [Eb Hn]].
    rewrite El in Eb. injection Eb as <-.
    destruct (dist_revert (src s) (loc s') b Hn) as [A B].
    unfold dist, bad, todo. rewrite El, Hsrc. lia.
Qed.

(* distance 0 is convergence *)
Lemma linked_same_set_eq : forall a b, linkedb a = true -> linkedb b = true ->
  incl a b -> incl b a -> a = b.
Proof.
  induction a as [|x a IH]; intros b Ha Hb Hab Hba.
  - destruct b as [|y b]; auto. destruct (Hba y); left; auto.
  - destruct b as [|y b]; [destruct (Hab x); left; auto|].
    assert (Exy : x = y).
    { destruct (Hab x (or_introl eq_refl)) as [->|Hx]; auto.
      destruct (Hba y (or_introl eq_refl)) as [->|Hy]; auto.
      pose proof (linked_lt _ _ _ Hb Hx). pose proof (linked_lt _ _ _ Ha Hy). lia. }
    subst y. f_equal. apply IH; try (eapply linked_tail; eauto).
    + intros z Hz. destruct (Hab z (or_intror Hz)) as [->|Hz']; auto.
      pose proof (linked_lt _ _ _ Ha Hz). lia.
    + intros z Hz. destruct (Hba z (or_intror Hz)) as [->|Hz']; auto.
      pose proof (linked_lt _ _ _ Hb Hz). lia.
Qed.

Lemma filter_nil_all : forall (f : block -> bool) l, length (filter f l) = 0%nat ->
  forall x, In x l -> f x = false.
Proof.
  induction l as [|a l IH]; intros H x Hx; [inversion Hx|]. simpl in H.
  destruct (f a) eqn:E; [simpl in H; lia|]. destruct Hx as [->|Hx]; auto.
Qed.

Lemma dist_zero_converged : forall s, Inv s -> dist s = 0%nat -> loc s = src s.
Proof.
  intros s [[Hsl _] [[_ [Hl _]] _]] H. unfold dist in H.
  assert (Hb : bad s = 0%nat) by lia. assert (Ht : todo s = 0%nat) by lia.
  apply linked_same_set_eq; auto.
  - intros x Hx. pose proof (filter_nil_all _ _ Hb x Hx) as E. apply negb_false_iff in E.
    apply memb_In; auto.
  - intros x Hx. pose proof (filter_nil_all _ _ Ht x Hx) as E. apply negb_false_iff in E.
    apply memb_In; auto.
Qed.

(* honest runs keep Good and never increase the distance; each store / revert costs one unit *)
Fixpoint progress_events (es : list event) : nat :=
  match es with
  | [] => 0
  | StoreOk _ :: r | RevertOne :: r => S (progress_events r)
  | _ :: r => progress_events r
  end.

Lemma measure_run : forall es s s', Good s -> forallb honest es = true -> run s es = Some s' ->
  Good s' /\ (dist s' + progress_events es <= dist s)%nat.
Proof.
  induction es as [|e es IH]; intros s s' HG Hh H; simpl in *.
  - injection H as <-. split; auto. lia.
  - apply andb_true_iff in Hh. destruct Hh as [He Hes].
    destruct (step s e) as [s1|] eqn:E; [|discriminate].
    destruct (measure_step s e s1 HG He E) as [HG1 Hd].
    destruct (IH s1 s' HG1 Hes H) as [HG' Hle]. split; auto.
    destruct e; simpl; lia.
Qed.

(* a state right after a stream restart is Good whatever happened before *)
Lemma reset_good : forall s s', reachable s -> step s Reset = Some s' -> Good s'.
Proof.
  intros s s' R H. split; [eapply Inv_step; eauto using Inv_reachable|].
  simpl in H. destruct (is_idle (rv s) && obox_empty s); [|discriminate]. injection H as <-.
  unfold Fresh; simpl. repeat split; try (intros; contradiction); intros; discriminate.
Qed.
