(* C06 — liveness of the model's fair scheduler under a frozen honest source: every scheduler step
   decreases [fair_measure]; hence the fair run reaches local = source within [fair_measure s] steps. *)
From Coq Require Import List NArith Bool Lia ZifyN ZifyNat ZifyBool PeanoNat.
From V Require Import C06.Model C06.Proofs C06.Proofs_B C06.Proofs_C.
Import ListNotations.
Open Scope N_scope.

(* ---------- more chain facts ---------- *)
Lemma at_num_in : forall c p, linkedb c = true -> In p c -> at_num c (num p) = Some p.
Proof.
  induction c as [|x c IH]; intros p Hl Hin; [inversion Hin|].
  unfold at_num; simpl. destruct (num x =? num p) eqn:E.
  - apply N.eqb_eq in E. f_equal. apply (linked_num_uniq (x :: c)); auto. left; auto.
  - destruct Hin as [->|Hin]; [rewrite N.eqb_refl in E; discriminate|].
    apply IH; auto. eapply linked_tail; eauto.
Qed.

Lemma at_num_none : forall c n, at_num c n = None -> forall b, In b c -> num b <> n.
Proof.
  unfold at_num; intros c n H b Hb E. pose proof (find_none _ _ H b Hb) as F. simpl in F.
  apply N.eqb_neq in F. contradiction.
Qed.

Lemma linked_gen_par : forall c b, linkedb c = true -> In b c -> num b = 0 -> par b = 0.
Proof.
  induction c as [|x c IH]; intros b Hl Hin Hn; [inversion Hin|].
  destruct c as [|p c].
  - destruct Hin as [->|[]]. apply linked_single in Hl; tauto.
  - destruct Hin as [->|Hin].
    + apply linked_cons2 in Hl. lia.
    + apply IH; auto. eapply linked_tail; eauto.
Qed.

Lemma linked_length : forall c b, linkedb (b :: c) = true -> N.of_nat (length (b :: c)) = num b + 1.
Proof.
  induction c as [|p c IH]; intros b Hl.
  - apply linked_single in Hl. simpl. lia.
  - pose proof (linked_cons2 _ _ _ Hl) as [Hn [_ Hl']]. specialize (IH p Hl').
    change (length (b :: p :: c)) with (S (length (p :: c))). lia.
Qed.

Lemma linked_NoDup : forall c, linkedb c = true -> NoDup c.
Proof.
  induction c as [|b c IH]; intros Hl; constructor.
  - intro Hin. pose proof (linked_lt _ _ _ Hl Hin). lia.
  - apply IH. eapply linked_tail; eauto.
Qed.

Lemma tip_max : forall c t x, linkedb c = true -> tip c = Some t -> In x c -> num x <= num t.
Proof.
  intros c t x Hl Ht Hx. destruct c as [|b c]; [discriminate|]. injection Ht as ->.
  destruct Hx as [->|Hx]; [lia|]. pose proof (linked_lt _ _ _ Hl Hx). lia.
Qed.

(* a linked chain whose tip lies in another linked chain (no hash collisions) lies in it entirely *)
Lemma chain_incl : forall (U : list block) c2,
  (forall x y, In x U -> In y U -> bid x = bid y -> x = y) ->
  linkedb c2 = true -> incl c2 U ->
  forall c1, linkedb c1 = true -> incl c1 U ->
  (forall t, tip c1 = Some t -> In t c2) -> incl c1 c2.
Proof.
  intros U c2 Hu Hl2 Hi2. induction c1 as [|t c1 IH]; intros Hl1 Hi1 Ht; [intros x []|].
  assert (Ht2 : In t c2) by (apply Ht; reflexivity).
  intros x [<-|Hx]; auto. revert x Hx. apply IH.
  - eapply linked_tail; eauto.
  - intros x Hx; apply Hi1; right; auto.
  - intros p Hp. destruct c1 as [|p' c1]; [discriminate|]. injection Hp as ->.
    apply linked_cons2 in Hl1. destruct Hl1 as [Hn [Hpar _]].
    destruct (linked_pred c2 t Hl2 Ht2) as [q [Hq [Hqn Hqp]]]; [lia|].
    assert (q = p); [|subst; auto].
    apply Hu; [apply Hi2; auto|apply Hi1; right; left; auto|congruence].
Qed.

(* ---------- the liveness hypotheses ---------- *)
Definition strict_prefix (a b : list block) : Prop := incl a b /\ (length a < length b)%nat.
(* NT: the (frozen) source chain is not a strict prefix of the local chain (a rollback without
   replacement is indistinguishable from a stale head) *)
Definition NT (s : state) : Prop := ~ strict_prefix (src s) (loc s).
(* NW: not "source = one block, local >= 2 blocks, different genesis" (remoteHeight-1 wraps) *)
Definition NW (s : state) : Prop :=
  ~ (length (src s) = 1%nat /\ (2 <= length (loc s))%nat /\ at_num (src s) 0 <> at_num (loc s) 0).
(* pipeline consistency under an honest source *)
Definition XL (s : state) : Prop := forall h g, lat s = Some (h, g) -> tip (src s) = Some h.
Definition XR (s : state) : Prop :=
  match rv s with
  | RIdle => True
  | RRun lpv cmp _ fresh =>
      (cmp <> None -> exists hd rest, loc s = hd :: rest /\ num hd <= lpv) /\
      (fresh = true -> exists hd rest, loc s = hd :: rest /\
         (lpv < num hd
          \/ (cmp = None /\ exists rb, at_num (src s) (num hd) = Some rb /\ bid rb <> bid hd)
          \/ (exists rb, cmp = Some (Some rb) /\ bid rb <> bid hd)))
  end.
Definition Live (s : state) : Prop := Good s /\ XL s /\ XR s /\ NT s /\ NW s.

Definition Progress (s : state) : Prop :=
  exists e s', sched s = Some e /\ step s e = Some s' /\ Live s' /\ (fair_measure s' < fair_measure s)%nat.

Lemma base_le : forall s, (base s <= 10)%nat.
Proof.
  intros s. unfold base. destruct (rv s) as [|? [?|] ? []]; try lia.
  destruct (canc s); try lia. destruct (at_num (pend s) (next_h s)); try lia.
  destruct (at_num (infl s) (next_h s)); try lia. destruct (lat s); lia.
Qed.

(* frames *)
Lemma NT_frame : forall s s', src s' = src s -> loc s' = loc s -> NT s -> NT s'.
Proof. unfold NT; intros s s' -> ->; auto. Qed.
Lemma NW_frame : forall s s', src s' = src s -> loc s' = loc s -> NW s -> NW s'.
Proof. unfold NW; intros s s' -> ->; auto. Qed.
Lemma XL_frame : forall s s', src s' = src s -> lat s' = lat s -> XL s -> XL s'.
Proof. unfold XL; intros s s' -> ->; auto. Qed.
Lemma XR_frame : forall s s', src s' = src s -> loc s' = loc s -> rv s' = rv s -> XR s -> XR s'.
Proof. unfold XR; intros s s' -> -> ->; auto. Qed.

(* NT / NW survive a revert (any) and a store of a source block on top of the head *)
Lemma NT_pop : forall s s' b, src s' = src s -> loc s = b :: loc s' -> NT s -> NT s'.
Proof.
  unfold NT, strict_prefix; intros s s' b Es El H [Hi Hlen]. apply H. rewrite Es in *. rewrite El. split.
  - intros x Hx; right; auto.
  - simpl; lia.
Qed.

Lemma NW_pop : forall s s' b, src s' = src s -> loc s = b :: loc s' -> linkedb (loc s) = true ->
  NW s -> NW s'.
Proof.
  unfold NW; intros s s' b Es El Hl H [H1 [H2 H3]]. apply H. rewrite Es in *. rewrite El in *.
  repeat split; auto.
  - simpl; lia.
  - destruct (loc s') as [|p r] eqn:Ep; [simpl in H2; lia|].
    apply linked_cons2 in Hl. destruct Hl as [Hn _].
    unfold at_num in *. simpl. destruct (num b =? 0) eqn:E0; [apply N.eqb_eq in E0; lia|]. exact H3.
Qed.

Lemma NT_push : forall s s' b, src s' = src s -> loc s' = b :: loc s -> In b (src s) ->
  linkedb (src s) = true -> linkedb (b :: loc s) = true -> NT s'.
Proof.
  unfold NT, strict_prefix; intros s s' b Es El Hb Hls Hll [Hi Hlen]. rewrite Es, El in *.
  destruct (src s) as [|t c] eqn:E; [inversion Hb|].
  assert (Ht : In t (b :: loc s)) by (apply Hi; left; auto).
  assert (num t <= num b) by (apply (tip_max (b :: loc s) b t); auto).
  assert (num b <= num t) by (apply (tip_max (t :: c) t b); auto).
  pose proof (linked_length _ _ Hls). pose proof (linked_length _ _ Hll). lia.
Qed.

Lemma NW_push : forall s s' b, src s' = src s -> loc s' = b :: loc s -> In b (src s) ->
  linkedb (src s) = true -> linkedb (b :: loc s) = true -> NW s'.
Proof.
  unfold NW; intros s s' b Es El Hb Hls Hll [H1 [H2 _]]. rewrite Es, El in *.
  destruct (src s) as [|t [|? ?]] eqn:E; simpl in H1; try lia.
  destruct Hb as [->|[]]. apply linked_single in Hls.
  pose proof (linked_length _ _ Hll) as HL. destruct Hls as [Hz _].
  change (length (b :: loc s)) with (S (length (loc s))) in *. lia.
Qed.

Lemma honest_src : forall s e s', honest e = true -> step s e = Some s' -> src s' = src s.
Proof.
  intros s e s' Hh H. unfold step in H.
  destruct e; try discriminate Hh; break_step H; simpl; auto;
    unfold stop_revert, do_store, do_revert; simpl; auto.
Qed.

Lemma sched_honest : forall s e, sched s = Some e -> honest e = true.
Proof.
  intros s e H. unfold sched in H.
  repeat match type of H with
  | context [match ?x with _ => _ end] => destruct x; try discriminate H
  end; injection H as <-; reflexivity.
Qed.

(* a scheduler step that leaves both chains alone and lowers the phase *)
Lemma progress_same : forall s e s',
  Live s -> sched s = Some e -> step s e = Some s' ->
  match e with StoreOk _ | RevertOne => False | _ => True end ->
  loc s' = loc s -> XL s' -> XR s' ->
  (base s' * 4 + length (obox s') < base s * 4 + length (obox s))%nat -> Progress s.
Proof.
  intros s e s' [HG [_ [_ [HNT HNW]]]] Hs Hst He El HXL HXR Hm.
  pose proof (sched_honest s e Hs) as Hh.
  pose proof (honest_src s e s' Hh Hst) as Es.
  destruct (measure_step s e s' HG Hh Hst) as [HG' Hd].
  exists e, s'. split; [auto|]. split; [auto|]. split.
  - split; [exact HG'|]. split; [exact HXL|]. split; [exact HXR|].
    split; [eapply NT_frame; eauto|eapply NW_frame; eauto].
  - unfold fair_measure. destruct e; try contradiction; rewrite Hd; lia.
Qed.

(* a StoreOk / RevertOne chosen by the scheduler *)
Lemma progress_chain : forall s e s',
  Live s -> sched s = Some e -> step s e = Some s' ->
  (exists b, e = StoreOk b) \/ e = RevertOne ->
  XL s' -> XR s' -> NT s' -> NW s' -> (length (obox s') <= 2)%nat -> Progress s.
Proof.
  intros s e s' [HG _] Hs Hst He HXL HXR HNT HNW Ho.
  pose proof (sched_honest s e Hs) as Hh.
  destruct (measure_step s e s' HG Hh Hst) as [HG' Hd].
  exists e, s'. split; [auto|]. split; [auto|]. split; [unfold Live; tauto|].
  unfold fair_measure. pose proof (base_le s').
  destruct He as [[b ->]| ->]; lia.
Qed.

(* ---------- the scheduler's cases ---------- *)
Lemma prog_notify : forall s o r, Live s -> obox s = o :: r -> Progress s.
Proof.
  intros s o r HL Eo. pose proof HL as [_ [HXL [HXR _]]].
  destruct o as [b|a b].
  - eapply progress_same with (e := NotifyNewHead).
    + exact HL.
    + unfold sched; rewrite Eo; reflexivity.
    + simpl; rewrite Eo; reflexivity.
    + exact I.
    + reflexivity.
    + exact HXL.
    + exact HXR.
    + simpl. rewrite Eo. simpl. change (base _) with (base s) at 1. lia.
  - eapply progress_same with (e := NotifyReorg).
    + exact HL.
    + unfold sched; rewrite Eo; reflexivity.
    + simpl; rewrite Eo; reflexivity.
    + exact I.
    + reflexivity.
    + exact HXL.
    + exact HXR.
    + simpl. rewrite Eo. simpl. change (base _) with (base s) at 1. lia.
Qed.

Lemma Live_linked_loc : forall s, Live s -> linkedb (loc s) = true.
Proof. intros s [[[_ [[_ [Hl _]] _]] _] _]. exact Hl. Qed.

Ltac sched_rrun Eo Erv El :=
  unfold sched; rewrite Eo, Erv, ?El.

Lemma prog_rrun : forall s lpv cmp ev fresh, Live s -> obox s = [] ->
  rv s = RRun lpv cmp ev fresh -> Progress s.
Proof.
  intros s lpv cmp ev fresh HL Eo Erv.
  pose proof HL as [HG [HXL [HXR [HNT HNW]]]]. pose proof (Live_linked_loc s HL) as Hll.
  unfold XR in HXR. rewrite Erv in HXR. destruct HXR as [HC HF].
  assert (Hoe : obox_empty s = true) by (unfold obox_empty; rewrite Eo; reflexivity).
  destruct (loc s) as [|hd rest] eqn:El.
  - (* empty chain: HeadsHeader fails *)
    assert (fresh = false) as ->.
    { destruct fresh; auto. destruct (HF eq_refl) as [? [? [E _]]]. discriminate. }
    eapply progress_same with (e := RevertStop).
    + exact HL.
    + unfold sched. rewrite Eo, Erv, El. reflexivity.
    + simpl. rewrite Erv, El. reflexivity.
    + exact I.
    + reflexivity.
    + exact HXL.
    + unfold XR; simpl. exact I.
    + unfold base at 1. simpl. unfold base. rewrite Erv, Eo. destruct cmp; simpl; lia.
  - destruct (lpv <? num hd) eqn:Elt.
    + (* head newer than lpv *)
      assert (cmp = None) as ->.
      { destruct cmp; auto. destruct HC as [hd' [rest' [E Hle]]]; [discriminate|].
        injection E as <- <-. apply N.ltb_lt in Elt. lia. }
      eapply progress_chain with (e := RevertOne).
      * exact HL.
      * unfold sched. rewrite Eo, Erv, El, Elt. reflexivity.
      * simpl. rewrite Erv, El, Hoe, Elt. reflexivity.
      * right; reflexivity.
      * exact HXL.
      * unfold XR; simpl. split; [intros H; contradiction|intros H; discriminate].
      * eapply NT_pop with (s := s) (b := hd); simpl; auto.
      * eapply NW_pop with (s := s) (b := hd); simpl; auto. rewrite El; auto.
      * simpl. rewrite Eo. simpl; lia.
    + assert (Hle : num hd <= lpv) by (apply N.ltb_ge in Elt; lia).
      assert (Hleb : (num hd <=? lpv) = true) by (apply N.leb_le; auto).
      destruct cmp as [[rb|]|].
      * (* comparison made *)
        destruct (bid rb =? bid hd) eqn:Eb.
        -- assert (fresh = false) as ->.
           { destruct fresh; auto. destruct (HF eq_refl) as [hd' [rest' [E [H|[[H _]|[rb' [H Hd]]]]]]];
               injection E as <- <-; try discriminate.
             - apply N.ltb_lt in H. congruence.
             - injection H as <-. apply N.eqb_eq in Eb. contradiction. }
           eapply progress_same with (e := RevertStop).
           ++ exact HL.
           ++ unfold sched. rewrite Eo, Erv, El, Elt, Eb. reflexivity.
           ++ simpl. rewrite Erv, El, Elt, Eb. reflexivity.
           ++ exact I.
           ++ reflexivity.
           ++ exact HXL.
           ++ unfold XR; simpl. exact I.
           ++ unfold base at 1. simpl. unfold base. rewrite Erv, Eo. simpl; lia.
        -- destruct (par rb =? par hd) eqn:Ep.
           ++ eapply progress_chain with (e := RevertOne).
              ** exact HL.
              ** unfold sched. rewrite Eo, Erv, El, Elt, Eb. reflexivity.
              ** simpl. rewrite Erv, El, Hoe, Elt, Eb, Ep. reflexivity.
              ** right; reflexivity.
              ** exact HXL.
              ** unfold XR; simpl. exact I.
              ** eapply NT_pop with (s := s) (b := hd); simpl; auto.
              ** eapply NW_pop with (s := s) (b := hd); simpl; auto. rewrite El; auto.
              ** simpl. rewrite Eo. simpl; lia.
           ++ eapply progress_chain with (e := RevertOne).
              ** exact HL.
              ** unfold sched. rewrite Eo, Erv, El, Elt, Eb. reflexivity.
              ** simpl. rewrite Erv, El, Hoe, Elt, Eb, Ep. reflexivity.
              ** right; reflexivity.
              ** exact HXL.
              ** unfold XR; simpl. split; [intros H; contradiction|intros H; discriminate].
              ** eapply NT_pop with (s := s) (b := hd); simpl; auto.
              ** eapply NW_pop with (s := s) (b := hd); simpl; auto. rewrite El; auto.
              ** simpl. rewrite Eo. simpl; lia.
      * (* comparison fetch failed *)
        assert (fresh = false) as ->.
        { destruct fresh; auto. destruct (HF eq_refl) as [hd' [rest' [E [H|[[H _]|[rb' [H Hd]]]]]]];
            injection E as <- <-; try discriminate. apply N.ltb_lt in H. congruence. }
        eapply progress_same with (e := RevertStop).
        -- exact HL.
        -- unfold sched. rewrite Eo, Erv, El, Elt. reflexivity.
        -- simpl. rewrite Erv, El, Elt. reflexivity.
        -- exact I.
        -- reflexivity.
        -- exact HXL.
        -- unfold XR; simpl. exact I.
        -- unfold base at 1. simpl. unfold base. rewrite Erv, Eo. simpl; lia.
      * (* comparison not made yet *)
        destruct (at_num (src s) (num hd)) as [rb|] eqn:Ea.
        -- eapply progress_same with (e := RevFetchOk).
           ++ exact HL.
           ++ unfold sched. rewrite Eo, Erv, El, Elt, Ea. reflexivity.
           ++ simpl. rewrite Erv, El, Hleb, Ea. reflexivity.
           ++ exact I.
           ++ reflexivity.
           ++ exact HXL.
           ++ unfold XR; simpl. split.
              ** intros _. exists hd, rest. rewrite El. auto.
              ** intros Hf. exists hd, rest. rewrite El. split; auto. right; right.
                 destruct (HF Hf) as [hd' [rest' [E [H|[[_ [rb' [H Hd]]]|[rb' [H _]]]]]]];
                   injection E as <- <-; try discriminate.
                 --- lia.
                 --- rewrite Ea in H. injection H as <-. exists rb; auto.
           ++ unfold base. simpl. rewrite Erv, Eo. destruct fresh; simpl; lia.
        -- eapply progress_same with (e := RevFetchErr).
           ++ exact HL.
           ++ unfold sched. rewrite Eo, Erv, El, Elt, Ea. reflexivity.
           ++ simpl. rewrite Erv, El, Hleb. reflexivity.
           ++ exact I.
           ++ reflexivity.
           ++ exact HXL.
           ++ unfold XR; simpl. split.
              ** intros _. exists hd, rest. rewrite El. auto.
              ** intros Hf. exfalso.
                 destruct (HF Hf) as [hd' [rest' [E [H|[[_ [rb' [H Hd]]]|[rb' [H _]]]]]]];
                   injection E as <- <-; try discriminate.
                 --- lia.
                 --- rewrite Ea in H. discriminate.
           ++ unfold base. simpl. rewrite Erv, Eo. destruct fresh; simpl; lia.
Qed.

Lemma ext_or_mismatch : forall s b, num b = next_h s ->
  extendsb (loc s) b = false -> mismatchb (loc s) b = false -> False.
Proof.
  intros s b Hn He Hm. unfold next_h in Hn. destruct (loc s) as [|hd rest]; simpl in *.
  - rewrite Hn in *. simpl in *. destruct (par b =? 0); simpl in *; discriminate.
  - rewrite Hn, N.eqb_refl in *. simpl in *. destruct (par b =? bid hd); simpl in *; discriminate.
Qed.

Lemma prog_idle_pend : forall s b, Live s -> obox s = [] -> rv s = RIdle -> canc s = false ->
  at_num (pend s) (next_h s) = Some b -> Progress s.
Proof.
  intros s b HL Eo Erv Ec Ea.
  pose proof HL as [[[[Hsl [Hsh [Hok Hu]]] [[_ [Hll [Hlh _]]] _]] [Hfi [Hfp _]]] [HXL [HXR [HNT HNW]]]].
  assert (Hoe : obox_empty s = true) by (unfold obox_empty; rewrite Eo; reflexivity).
  apply at_num_some in Ea as Ea'. destruct Ea' as [Hbp Hbn].
  assert (Hbs : In b (src s)) by auto.
  assert (Hmb : memb b (pend s) = true) by (apply In_memb; auto).
  assert (Hstb : stb b = true) by (apply Hok, Hsh; auto).
  destruct (extendsb (loc s) b) eqn:Ee.
  - (* StoreOk *)
    eapply progress_chain with (e := StoreOk b).
    + exact HL.
    + unfold sched. rewrite Eo, Erv, Ec, Ea, Ee, Hstb. reflexivity.
    + simpl. rewrite Ec, Erv, Hoe, Hmb, Ee, Hstb. reflexivity.
    + left; eauto.
    + exact HXL.
    + unfold XR; simpl. rewrite Erv. exact I.
    + eapply NT_push with (s := s) (b := b); simpl; auto. apply extends_linked; auto.
    + eapply NW_push with (s := s) (b := b); simpl; auto. apply extends_linked; auto.
    + simpl. destruct (cur s) as [[? ?]|]; simpl; lia.
  - destruct (mismatchb (loc s) b) eqn:Em; [|exfalso; eapply ext_or_mismatch; eauto].
    (* ErrParentDoesNotMatchHead *)
    eapply progress_same with (e := StoreParentMismatch b).
    + exact HL.
    + unfold sched. rewrite Eo, Erv, Ec, Ea, Ee, Em. reflexivity.
    + simpl. rewrite Ec, Erv, Hoe, Hmb, Em. reflexivity.
    + exact I.
    + reflexivity.
    + exact HXL.
    + unfold XR; simpl. split; [intros H; contradiction|]. intros _.
      destruct (loc s) as [|hd rest] eqn:El.
      * exfalso. simpl in Em. apply andb_true_iff in Em. destruct Em as [E0 Ep].
        apply N.eqb_eq in E0. apply negb_true_iff, N.eqb_neq in Ep.
        apply Ep. apply (linked_gen_par (src s)); auto.
      * exists hd, rest. split; auto.
        destruct (mismatch_head _ _ _ Em) as [Hn Hp].
        destruct (N.eq_dec (num hd) 0) as [Hz|Hz].
        -- right; left. split; auto.
           destruct (linked_pred (src s) b Hsl Hbs) as [p [Hps [Hpn Hpp]]]; [lia|].
           exists p. split.
           ++ replace (num hd) with (num p) by lia. apply at_num_in; auto.
           ++ rewrite <- Hpp. auto.
        -- left. unfold wsub2.
           destruct (num b =? 0) eqn:E0; [apply N.eqb_eq in E0; lia|].
           destruct (num b =? 1) eqn:E1; [apply N.eqb_eq in E1; lia|]. lia.
    + unfold base. simpl. rewrite Erv, Ec, Ea, Eo. simpl; lia.
Qed.

Lemma prog_idle_reset : forall s, Live s -> obox s = [] -> rv s = RIdle -> canc s = true -> Progress s.
Proof.
  intros s HL Eo Erv Ec. pose proof HL as [_ [HXL [HXR _]]].
  assert (Hoe : obox_empty s = true) by (unfold obox_empty; rewrite Eo; reflexivity).
  eapply progress_same with (e := Reset).
  - exact HL.
  - unfold sched. rewrite Eo, Erv, Ec. reflexivity.
  - simpl. rewrite Erv, Hoe. reflexivity.
  - exact I.
  - reflexivity.
  - unfold XL; simpl. intros; discriminate.
  - unfold XR; simpl. exact I.
  - unfold base. simpl. rewrite Erv, Ec, Eo. simpl; lia.
Qed.

Lemma prog_idle_verify : forall s b, Live s -> obox s = [] -> rv s = RIdle -> canc s = false ->
  at_num (pend s) (next_h s) = None -> at_num (infl s) (next_h s) = Some b -> Progress s.
Proof.
  intros s b HL Eo Erv Ec Eap Eai.
  pose proof HL as [[[[Hsl [Hsh [Hok Hu]]] _] [Hfi _]] [HXL [HXR _]]].
  apply at_num_some in Eai as Ei. destruct Ei as [Hbi Hbn].
  assert (Hokb : okb b = true) by (apply Hok, Hsh, Hfi; auto).
  eapply progress_same with (e := Verify b).
  - exact HL.
  - unfold sched. rewrite Eo, Erv, Ec, Eap, Eai. reflexivity.
  - simpl. rewrite (In_memb b (infl s) Hbi), Hokb. reflexivity.
  - exact I.
  - reflexivity.
  - exact HXL.
  - unfold XR; simpl. rewrite Erv. exact I.
  - unfold base. simpl. rewrite Erv, Ec, Eap, Eai, Eo.
    change (next_h (set_pend s (b :: pend s))) with (next_h s).
    unfold at_num; simpl. rewrite Hbn, N.eqb_refl. simpl; lia.
Qed.

Lemma prog_idle_fetch : forall s b, Live s -> obox s = [] -> rv s = RIdle -> canc s = false ->
  at_num (pend s) (next_h s) = None -> at_num (infl s) (next_h s) = None ->
  at_num (src s) (next_h s) = Some b -> Progress s.
Proof.
  intros s b HL Eo Erv Ec Eap Eai Eas. pose proof HL as [_ [HXL [HXR _]]].
  apply at_num_some in Eas as Es. destruct Es as [_ Hbn].
  eapply progress_same with (e := FetchOk (next_h s)).
  - exact HL.
  - unfold sched. rewrite Eo, Erv, Ec, Eap, Eai, Eas. reflexivity.
  - simpl. rewrite Eas. reflexivity.
  - exact I.
  - reflexivity.
  - exact HXL.
  - unfold XR; simpl. rewrite Erv. exact I.
  - unfold base. simpl. rewrite Erv, Ec, Eap, Eai, Eo.
    change (next_h (set_infl s (b :: infl s))) with (next_h s).
    unfold at_num; simpl. rewrite Hbn, N.eqb_refl. destruct (find _ (pend s)); destruct (lat s); simpl; lia.
Qed.

Lemma converged_intro : forall s, loc s = src s -> rv s = RIdle -> obox s = [] -> converged s = true.
Proof.
  intros s El Erv Eo. unfold converged, obox_empty. rewrite El, Erv, Eo, blocks_eqb_refl. reflexivity.
Qed.

Lemma prog_idle_latest : forall s, Live s -> obox s = [] -> rv s = RIdle -> canc s = false ->
  converged s = false ->
  at_num (pend s) (next_h s) = None -> at_num (infl s) (next_h s) = None ->
  at_num (src s) (next_h s) = None -> lat s = None -> Progress s.
Proof.
  intros s HL Eo Erv Ec Hnc Eap Eai Eas Ela. pose proof HL as [_ [HXL [HXR [HNT _]]]].
  destruct (src s) as [|t c] eqn:Es.
  - exfalso. destruct (loc s) as [|hd rest] eqn:El.
    + rewrite converged_intro in Hnc; [discriminate| | |]; auto. rewrite El, Es; auto.
    + apply HNT. unfold strict_prefix. rewrite Es, El. split; [intros x []|simpl; lia].
  - eapply progress_same with (e := FetchLatest).
    + exact HL.
    + unfold sched. rewrite Eo, Erv, Ec, Eap, Eai, Es, Eas, Ela. reflexivity.
    + simpl. rewrite Es. reflexivity.
    + exact I.
    + reflexivity.
    + unfold XL; simpl. intros h g H. injection H as <- _. rewrite Es. reflexivity.
    + unfold XR; simpl. rewrite Erv. exact I.
    + unfold base. simpl. rewrite Erv, Ec, Eap, Eai, Ela, Eo. change (next_h (set_lat s (Some (t, true)))) with (next_h s). rewrite Eap, Eai. simpl; lia.
Qed.

(* the source's tip is in the local chain, same hash: local = source, or a strict prefix *)
Lemma tip_in_loc_cases : forall s t, Live s -> tip (src s) = Some t -> In t (loc s) ->
  loc s = src s \/ strict_prefix (src s) (loc s).
Proof.
  intros s t HL Ht Hin.
  pose proof HL as [[[[Hsl [Hsh [Hok Hu]]] [[_ [Hll [Hlh _]]] _]] _] _].
  assert (Hincl : incl (src s) (loc s)).
  { apply (chain_incl (hist s) (loc s) Hu Hll Hlh (src s) Hsl Hsh).
    intros t' Ht'. rewrite Ht in Ht'. injection Ht' as <-. exact Hin. }
  pose proof (NoDup_incl_length (linked_NoDup _ Hsl) Hincl) as Hlen.
  destruct (Nat.eq_dec (length (src s)) (length (loc s))) as [E|E].
  - left. apply linked_same_set_eq; auto.
    apply NoDup_length_incl; auto; [apply linked_NoDup; auto|lia].
  - right. split; auto. lia.
Qed.

Lemma prog_idle_check : forall s hdr g, Live s -> obox s = [] -> rv s = RIdle -> canc s = false ->
  converged s = false ->
  at_num (pend s) (next_h s) = None -> at_num (infl s) (next_h s) = None ->
  at_num (src s) (next_h s) = None -> lat s = Some (hdr, g) -> Progress s.
Proof.
  intros s hdr g HL Eo Erv Ec Hnc Eap Eai Eas Ela.
  pose proof HL as [[[[Hsl [Hsh [Hok Hu]]] [[_ [Hll [Hlh _]]] _]] _] [HXL [HXR [HNT HNW]]]].
  pose proof (HXL hdr g Ela) as Htip. pose proof (tip_In _ _ Htip) as Hhs.
  destruct (loc s) as [|hd rest] eqn:El.
  - (* empty local chain: the source has a genesis, so the fetch of 0 cannot have failed *)
    exfalso. destruct (src s) as [|t c] eqn:Es; [inversion Hhs|].
    destruct (linked_has c t 0 Hsl) as [a [Ha Hna]]; [lia|].
    unfold next_h in Eas. rewrite El in Eas.
    apply (at_num_none _ _ Eas a Ha Hna).
  - assert (Hh : next_h s = num hd + 1) by (unfold next_h; rewrite El; reflexivity).
    assert (Hle : num hdr <= num hd).
    { destruct (N.le_gt_cases (num hdr) (num hd)) as [H|H]; auto. exfalso.
      destruct (src s) as [|t c] eqn:Es; [inversion Hhs|]. injection Htip as ->.
      destruct (linked_has c hdr (num hd + 1) Hsl) as [a [Ha Hna]]; [lia|].
      rewrite Hh in Eas. apply (at_num_none _ _ Eas a Ha Hna). }
    destruct (linked_has rest hd (num hdr) Hll Hle) as [a [Ha Hna]].
    assert (Eal : at_num (hd :: rest) (num hdr) = Some a) by (rewrite <- Hna; apply at_num_in; auto).
    assert (Eltb : (num hd <? num hdr) = false) by (apply N.ltb_ge; lia).
    assert (Eguard : negb (num hd + 1 =? next_h s) || negb (is_idle (rv s)) = false)
      by (rewrite Hh, N.eqb_refl, Erv; reflexivity).
    destruct (bid a =? bid hdr) eqn:Eb.
    + (* same hash at that height: local = source (converged) or the source is a strict prefix *)
      exfalso. apply N.eqb_eq in Eb.
      assert (a = hdr) by (apply Hu; auto). subst a.
      assert (Hin : In hdr (loc s)) by (rewrite El; auto).
      destruct (tip_in_loc_cases s hdr HL Htip Hin) as [E|E].
      * rewrite converged_intro in Hnc; auto. discriminate.
      * apply HNT; auto.
    + apply N.eqb_neq in Eb.
      eapply progress_same with (e := ReorgCheck (next_h s)).
      * exact HL.
      * unfold sched. rewrite Eo, Erv, Ec, Eap, Eai, Eas, Ela. reflexivity.
      * simpl. rewrite El, Eguard, Ela, Eltb, Eal. rewrite (proj2 (N.eqb_neq _ _) Eb). reflexivity.
      * exact I.
      * simpl. rewrite El. reflexivity.
      * unfold XL; simpl. intros; discriminate.
      * unfold XR; simpl. split; [intros H; contradiction|]. intros _.
        exists hd, rest. rewrite El. split; auto.
        destruct (N.eq_dec (num hdr) 0) as [Hz|Hz].
        -- (* remote height 0: only a one-block local chain makes progress (NW) *)
           right; left. split; auto.
           destruct (src s) as [|t c] eqn:Es; [inversion Hhs|]. injection Htip as ->.
           assert (c = []) as ->.
           { destruct c as [|p c]; auto. apply linked_cons2 in Hsl. lia. }
           assert (Ehdr : at_num [hdr] 0 = Some hdr) by (unfold at_num; simpl; rewrite Hz; reflexivity).
           assert (rest = []) as ->.
           { destruct rest as [|p r]; auto. exfalso. apply HNW. rewrite Es, El.
             split; [reflexivity|]. split; [simpl; lia|].
             rewrite Ehdr. rewrite Hz in Eal. rewrite Eal. intro H. injection H as ->. auto. }
           destruct Ha as [<-|[]]. exists hdr. rewrite Hna, Hz. split; auto.
        -- left. unfold wsub1. destruct (num hdr =? 0) eqn:E0; [apply N.eqb_eq in E0; lia|]. lia.
      * unfold base. simpl. rewrite Erv, Ec, Eo.
        change (next_h (set_lat (set_rv s (RRun (wsub1 (num hdr)) None (EvLatest hdr g) true)) None)) with (next_h s).
        rewrite Eap, Eai, Ela. simpl; lia.
Qed.

(* ---------- every fair-scheduler step is progress ---------- *)
Lemma sched_progress : forall s, Live s -> converged s = false -> Progress s.
Proof.
  intros s HL Hnc.
  destruct (obox s) as [|o r] eqn:Eo; [|eapply prog_notify; eauto].
  destruct (rv s) as [|lpv cmp ev fresh] eqn:Erv; [|eapply prog_rrun; eauto].
  destruct (canc s) eqn:Ec; [eapply prog_idle_reset; eauto|].
  destruct (at_num (pend s) (next_h s)) as [b|] eqn:Eap; [eapply prog_idle_pend; eauto|].
  destruct (at_num (infl s) (next_h s)) as [b|] eqn:Eai; [eapply prog_idle_verify; eauto|].
  destruct (at_num (src s) (next_h s)) as [b|] eqn:Eas; [eapply prog_idle_fetch; eauto|].
  destruct (lat s) as [[hdr g]|] eqn:Ela; [eapply prog_idle_check; eauto|eapply prog_idle_latest; eauto].
Qed.

Lemma fair_converges : forall n s, Live s -> (fair_measure s <= n)%nat ->
  converged (run_fair n s) = true /\ Live (run_fair n s) /\ src (run_fair n s) = src s.
Proof.
  induction n as [|n IH]; intros s HL Hm.
  - simpl. destruct (converged s) eqn:Ec; [auto|].
    destruct (sched_progress s HL Ec) as [e [s' [_ [_ [_ Hlt]]]]]. lia.
  - simpl. destruct (converged s) eqn:Ec; [auto|].
    destruct (sched_progress s HL Ec) as [e [s' [Hs [Hst [HL' Hlt]]]]].
    rewrite Hs, Hst. destruct (IH s' HL') as [A [B C]]; [lia|].
    split; [auto|]. split; [auto|]. rewrite C. eapply honest_src; eauto using sched_honest.
Qed.

Lemma converged_eq : forall s, converged s = true -> Live s -> loc s = src s.
Proof.
  intros s H HL. pose proof HL as [[HI _] _].
  unfold converged in H. repeat rewrite andb_true_iff in H. destruct H as [[H _] _].
  revert H. generalize (loc s) (src s). induction l as [|a l IH]; intros [|b m] H; simpl in H; try discriminate; auto.
  apply andb_true_iff in H. destruct H as [H1 H2]. apply beq_true in H1. subst. f_equal; auto.
Qed.

(* a state right after a stream restart meets the pipeline-consistency part of Live *)
Lemma reset_live : forall s s', reachable s -> step s Reset = Some s' -> NT s' -> NW s' -> Live s'.
Proof.
  intros s s' R H HNT HNW. pose proof (reset_good s s' R H) as HG.
  simpl in H. destruct (is_idle (rv s) && obox_empty s); [|discriminate]. injection H as <-.
  split; [exact HG|]. split; [unfold XL; simpl; intros; discriminate|].
  split; [unfold XR; simpl; exact I|]. auto.
Qed.

Lemma fair_measure_bound : forall s, (fair_measure s <= 64 * dist s + 40 + length (obox s))%nat.
Proof. intros s. unfold fair_measure. pose proof (base_le s). lia. Qed.

Lemma converges_lemma : forall s, Live s ->
  converged (run_fair (fair_measure s) s) = true /\
  loc (run_fair (fair_measure s) s) = src s /\
  (fair_measure s <= 64 * dist s + 40 + length (obox s))%nat.
Proof.
  intros s HL. destruct (fair_converges (fair_measure s) s HL (le_n _)) as [A [B C]].
  split; [exact A|]. split; [|apply fair_measure_bound].
  rewrite <- C. apply converged_eq; auto.
Qed.

Lemma converges_after_restart_lemma : forall s s', reachable s -> step s Reset = Some s' ->
  NT s' -> NW s' ->
  converged (run_fair (fair_measure s') s') = true /\
  loc (run_fair (fair_measure s') s') = src s' /\
  fair_measure s' = (64 * dist s' + 28)%nat.
Proof.
  intros s s' R H HNT HNW. pose proof (reset_live s s' R H HNT HNW) as HL.
  destruct (converges_lemma s' HL) as [A [B _]]. split; [exact A|]. split; [exact B|].
  simpl in H. destruct (is_idle (rv s) && obox_empty s); [|discriminate]. injection H as <-.
  unfold fair_measure, base. simpl. lia.
Qed.

(* between two StoreOk / RevertOne events the scheduler takes at most 40 + |owed sends| steps:
   every restart cycle reaches one (or convergence) *)
Lemma reachable_step : forall s e s', reachable s -> step s e = Some s' -> reachable s'.
Proof.
  intros s e s' [es H] Hs. exists (es ++ [e]).
  revert H. generalize init. induction es as [|x es IH]; intros s0 H; simpl in *.
  - injection H as ->. rewrite Hs. reflexivity.
  - destruct (step s0 x); [|discriminate]. apply IH; auto.
Qed.

Lemma reachable_run_fair : forall n s, reachable s -> reachable (run_fair n s).
Proof.
  induction n as [|n IH]; intros s R; simpl; auto.
  destruct (converged s); auto. destruct (sched s) as [e|]; auto.
  destruct (step s e) as [s'|] eqn:E; auto. apply IH. eapply reachable_step; eauto.
Qed.

Lemma reachable_run : forall es s s', reachable s -> run s es = Some s' -> reachable s'.
Proof.
  induction es as [|e es IH]; intros s s' R H; simpl in H.
  - injection H as <-; auto.
  - destruct (step s e) as [s1|] eqn:E; [|discriminate].
    apply (IH s1 s'); [eapply reachable_step; eauto|exact H].
Qed.
