(* C06 — liveness of the model's fair scheduler under a frozen honest source: every scheduler step
   decreases [fair_measure]; hence the fair run reaches local = source within [fair_measure s] steps. *)
From Coq Require Import List NArith Bool Lia ZifyN ZifyNat ZifyBool.
From V Require Import C06.Model C06.Proofs C06.Proofs_B C06.Proofs_C.
Import ListNotations.
Open Scope N_scope.

(* ---------- more chain facts ---------- *)
Lemma at_num_in : forall c p, linkedb c = true -> In p c -> at_num c (num p) = Some p.
Proof.
  induction c as [|x c IH]; intros p Hl Hin; [inversion Hin|].
  unfold at_num; simpl. destruct (num x =? num p) eqn:E.
  - apply N.eqb_eq in E. f_equal. apply (linked_num_uniq (x :: c)); auto. left; auto.
  - destruct Hin as [->|Hin]; [rewrite N.eqb_refl in E; discriminate|].
    apply IH; auto. eapply linked_tail; eauto.
Qed.

Lemma at_num_none : forall c n, at_num c n = None -> forall b, In b c -> num b <> n.
Proof.
  unfold at_num; intros c n H b Hb E. pose proof (find_none _ _ H b Hb) as F. simpl in F.
  apply N.eqb_neq in F. contradiction.
Qed.

Lemma linked_gen_par : forall c b, linkedb c = true -> In b c -> num b = 0 -> par b = 0.
Proof.
  induction c as [|x c IH]; intros b Hl Hin Hn; [inversion Hin|].
  destruct c as [|p c].
  - destruct Hin as [->|[]]. apply linked_single in Hl; tauto.
  - destruct Hin as [->|Hin].
    + apply linked_cons2 in Hl. lia.
    + apply IH; auto. eapply linked_tail; eauto.
Qed.

Lemma linked_length : forall c b, linkedb (b :: c) = true -> N.of_nat (length (b :: c)) = num b + 1.
Proof.
  induction c as [|p c IH]; intros b Hl.
  - apply linked_single in Hl. simpl. lia.
  - pose proof (linked_cons2 _ _ _ Hl) as [Hn [_ Hl']]. specialize (IH p Hl').
    change (length (b :: p :: c)) with (S (length (p :: c))). lia.
Qed.

Lemma linked_NoDup : forall c, linkedb c = true -> NoDup c.
Proof.
  induction c as [|b c IH]; intros Hl; constructor.
  - intro Hin. pose proof (linked_lt _ _ _ Hl Hin). lia.
  - apply IH. eapply linked_tail; eauto.
Qed.

Lemma tip_max : forall c t x, linkedb c = true -> tip c = Some t -> In x c -> num x <= num t.
Proof.
  intros c t x Hl Ht Hx. destruct c as [|b c]; [discriminate|]. injection Ht as ->.
  destruct Hx as [->|Hx]; [lia|]. pose proof (linked_lt _ _ _ Hl Hx). lia.
Qed.

(* a linked chain whose tip lies in another linked chain (no hash collisions) lies in it entirely *)
Lemma chain_incl : forall (U : list block) c2,
  (forall x y, In x U -> In y U -> bid x = bid y -> x = y) ->
  linkedb c2 = true -> incl c2 U ->
  forall c1, linkedb c1 = true -> incl c1 U ->
  (forall t, tip c1 = Some t -> In t c2) -> incl c1 c2.
Proof.
  intros U c2 Hu Hl2 Hi2. induction c1 as [|t c1 IH]; intros Hl1 Hi1 Ht; [intros x []|].
  assert (Ht2 : In t c2) by (apply Ht; reflexivity).
  intros x [<-|Hx]; auto. revert x Hx. apply IH.
  - eapply linked_tail; eauto.
  - intros x Hx; apply Hi1; right; auto.
  - intros p Hp. destruct c1 as [|p' c1]; [discriminate|]. injection Hp as ->.
    apply linked_cons2 in Hl1. destruct Hl1 as [Hn [Hpar _]].
    destruct (linked_pred c2 t Hl2 Ht2) as [q [Hq [Hqn Hqp]]]; [lia|].
    assert (q = p); [|subst; auto].
    apply Hu; [apply Hi2; auto|apply Hi1; right; left; auto|congruence].
Qed.

(* ---------- the liveness hypotheses ---------- *)
Definition strict_prefix (a b : list block) : Prop := incl a b /\ (length a < length b)%nat.
(* NT: the (frozen) source chain is not a strict prefix of the local chain (a rollback without
   replacement is indistinguishable from a stale head) *)
Definition NT (s : state) : Prop := ~ strict_prefix (src s) (loc s).
(* NW: not "source = one block, local >= 2 blocks, different genesis" (remoteHeight-1 wraps) *)
Definition NW (s : state) : Prop :=
  ~ (length (src s) = 1%nat /\ (2 <= length (loc s))%nat /\ at_num (src s) 0 <> at_num (loc s) 0).
(* pipeline consistency under an honest source *)
Definition XL (s : state) : Prop := forall h g, lat s = Some (h, g) -> tip (src s) = Some h.
Definition XR (s : state) : Prop :=
  match rv s with
  | RIdle => True
  | RRun lpv cmp _ fresh =>
      (cmp <> None -> exists hd rest, loc s = hd :: rest /\ num hd <= lpv) /\
      (fresh = true -> exists hd rest, loc s = hd :: rest /\
         (lpv < num hd
          \/ (cmp = None /\ exists rb, at_num (src s) (num hd) = Some rb /\ bid rb <> bid hd)
          \/ (exists rb, cmp = Some (Some rb) /\ bid rb <> bid hd)))
  end.
Definition Live (s : state) : Prop := Good s /\ XL s /\ XR s /\ NT s /\ NW s.

Definition Progress (s : state) : Prop :=
  exists e s', sched s = Some e /\ step s e = Some s' /\ Live s' /\ (fair_measure s' < fair_measure s)%nat.

Lemma base_le : forall s, (base s <= 10)%nat.
Proof.
  intros s. unfold base. destruct (rv s) as [|? [?|] ? []]; try lia.
  destruct (canc s); try lia. destruct (at_num (pend s) (next_h s)); try lia.
  destruct (at_num (infl s) (next_h s)); try lia. destruct (lat s); lia.
Qed.

(* frames *)
Lemma NT_frame : forall s s', src s' = src s -> loc s' = loc s -> NT s -> NT s'.
Proof. unfold NT; intros s s' -> ->; auto. Qed.
Lemma NW_frame : forall s s', src s' = src s -> loc s' = loc s -> NW s -> NW s'.
Proof. unfold NW; intros s s' -> ->; auto. Qed.
Lemma XL_frame : forall s s', src s' = src s -> lat s' = lat s -> XL s -> XL s'.
Proof. unfold XL; intros s s' -> ->; auto. Qed.
Lemma XR_frame : forall s s', src s' = src s -> loc s' = loc s -> rv s' = rv s -> XR s -> XR s'.
Proof. unfold XR; intros s s' -> -> ->; auto. Qed.

(* NT / NW survive a revert (any) and a store of a source block on top of the head *)
Lemma NT_pop : forall s s' b, src s' = src s -> loc s = b :: loc s' -> NT s -> NT s'.
Proof.
  unfold NT, strict_prefix; intros s s' b Es El H [Hi Hlen]. apply H. rewrite Es in *. rewrite El. split.
  - intros x Hx; right; auto.
  - simpl; lia.
Qed.

Lemma NW_pop : forall s s' b, src s' = src s -> loc s = b :: loc s' -> linkedb (loc s) = true ->
  NW s -> NW s'.
Proof.
  unfold NW; intros s s' b Es El Hl H [H1 [H2 H3]]. apply H. rewrite Es in *. rewrite El in *.
  repeat split; auto.
  - simpl; lia.
  - destruct (loc s') as [|p r] eqn:Ep; [simpl in H2; lia|].
    apply linked_cons2 in Hl. destruct Hl as [Hn _].
    unfold at_num in *. simpl. destruct (num b =? 0) eqn:E0; [apply N.eqb_eq in E0; lia|]. exact H3.
Qed.

Lemma NT_push : forall s s' b, src s' = src s -> loc s' = b :: loc s -> In b (src s) ->
  linkedb (src s) = true -> linkedb (b :: loc s) = true -> NT s'.
Proof.
  unfold NT, strict_prefix; intros s s' b Es El Hb Hls Hll [Hi Hlen]. rewrite Es, El in *.
  destruct (src s) as [|t c] eqn:E; [inversion Hb|].
  assert (Ht : In t (b :: loc s)) by (apply Hi; left; auto).
  assert (num t <= num b) by (apply (tip_max (b :: loc s) b t); auto).
  assert (num b <= num t) by (apply (tip_max (t :: c) t b); auto).
  pose proof (linked_length _ _ Hls). pose proof (linked_length _ _ Hll). lia.
Qed.

Lemma NW_push : forall s s' b, src s' = src s -> loc s' = b :: loc s -> In b (src s) ->
  linkedb (src s) = true -> linkedb (b :: loc s) = true -> NW s'.
Proof.
  unfold NW; intros s s' b Es El Hb Hls Hll [H1 [H2 _]]. rewrite Es, El in *.
  destruct (src s) as [|t [|? ?]] eqn:E; simpl in H1; try lia.
  destruct Hb as [->|[]]. apply linked_single in Hls.
  pose proof (linked_length _ _ Hll). simpl in H2. lia.
Qed.
