(* C06 — property theorems only. Each is closed by [exact] of a lemma and followed by Print Assumptions.
   All of them quantify over every event sequence accepted by the model from the initial state
   ([reachable]) or over an arbitrary single step: every schedule of the fetch / verify / store /
   revert / restart pipeline and every source behaviour (failures, stale or abandoned-fork heads,
   corrupted blocks, reorgs of any depth at any moment). *)
From Coq Require Import List NArith Bool.
From V Require Import C06.Model C06.Proofs C06.Proofs_B.
Import ListNotations.
Open Scope N_scope.

(* Inv_chain: the local chain is hash-linked, it is exactly what replaying the mutation log gives
   (replay only admits an append of a block that passes verification and extends the head at that
   moment, and a revert of exactly the head), and every block in it is a valid block the source had. *)
Theorem C06_Inv_chain : forall s, reachable s ->
  linkedb (loc s) = true /\ replay [] (log s) = Some (loc s) /\
  Forall (fun b => okb b = true /\ In b (hist s)) (loc s).
Proof. exact inv_chain_lemma. Qed.
Print Assumptions C06_Inv_chain.

(* a Store happens only for a block that went through verifierTask, extends the head, with the
   stream context not cancelled and no revertTask running *)
Theorem C06_store_needs_verified : forall s b s', reachable s -> step s (StoreOk b) = Some s' ->
  memb b (pend s) = true /\ okb b = true /\ In b (hist s) /\
  extendsb (loc s) b = true /\ loc s' = b :: loc s /\ canc s = false /\ rv s = RIdle.
Proof. exact store_needs_verified_lemma. Qed.
Print Assumptions C06_store_needs_verified.

(* ... and the only way into the verified set is SanityCheckNewHeight on a block the source served *)
Theorem C06_pend_only_by_verify : forall s e s' b, step s e = Some s' -> In b (pend s') ->
  In b (pend s) \/ (e = Verify b /\ memb b (infl s) = true /\ okb b = true).
Proof. exact pend_only_by_verify_lemma. Qed.
Print Assumptions C06_pend_only_by_verify.

Theorem C06_infl_only_by_fetch : forall s e s' b, step s e = Some s' -> In b (infl s') ->
  In b (infl s) \/ (exists h, (e = FetchOk h /\ at_num (src s) h = Some b) \/
                              (e = FetchCorrupt h /\ okb b = false)).
Proof. exact infl_only_by_fetch_lemma. Qed.
Print Assumptions C06_infl_only_by_fetch.

(* the head moves by one block at a time: forward by StoreOk, backward only by RevertOne *)
Theorem C06_head_back_only_by_revert : forall s e s', step s e = Some s' ->
  loc s' = loc s \/ (exists b, e = StoreOk b /\ loc s' = b :: loc s)
  \/ (e = RevertOne /\ exists b, loc s = b :: loc s').
Proof. exact head_back_lemma. Qed.
Print Assumptions C06_head_back_only_by_revert.

(* every revert is backed by a block the source had on its chain and served, which contradicts the
   reverted block: same height / different hash, or a successor whose parent hash is different, or
   a reported latest header that differs from the local block at its height at-or-below b *)
Theorem C06_reverted_on_evidence : forall s s', reachable s -> step s RevertOne = Some s' ->
  exists b, loc s = b :: loc s' /\ justified s b.
Proof. exact reverted_on_evidence_lemma. Qed.
Print Assumptions C06_reverted_on_evidence.

(* what the contradiction is worth: no hash-linked chain containing the evidence block can contain
   the reverted block, unless two blocks share a hash id but not the parent (explicit collision,
   excluded by [nocoll]; never assumed away globally) *)
Theorem C06_evidence_sound : forall l e b c,
  linkedb l = true -> In b l -> contradicts l e b ->
  linkedb c = true -> In e c -> nocoll c l -> ~ In b c.
Proof. exact evidence_sound_lemma. Qed.
Print Assumptions C06_evidence_sound.

(* the source's current chain always satisfies those side conditions, hence: when the evidence is
   on the source's chain (as it is at the moment FetchOk / FetchLatest / RevFetchOk produce it), the
   reverted block is one the source no longer has *)
Theorem C06_reverted_block_gone : forall s b e, reachable s ->
  In b (loc s) -> In e (src s) -> contradicts (loc s) e b -> ~ In b (src s).
Proof. exact reverted_block_gone_lemma. Qed.
Print Assumptions C06_reverted_block_gone.

(* trace_spec: emitted ++ owed notifications are exactly the spec of the mutation log: one NewHead
   per append, in order, each once; a Reorg notification directly before the NewHead that follows a
   maximal run of reverts, with Start = last reverted and End = first reverted block of that run;
   the heights of a run are consecutive; currReorg summarises the open run *)
Theorem C06_trace_spec : forall s, reachable s ->
  tr s ++ obox s = expected (log s) /\
  newheads (tr s ++ obox s) = apps (log s) /\
  runs_descending (log s) = true /\
  cur s = summarize (snd (spec_of (log s))).
Proof. exact trace_spec_lemma. Qed.
Print Assumptions C06_trace_spec.

(* the boolean the harness evaluates on the implementation's own history holds of every model history *)
Theorem C06_history_ok : forall s, reachable s -> history_ok (loc s) (log s) (tr s ++ obox s) = true.
Proof. exact history_ok_lemma. Qed.
Print Assumptions C06_history_ok.

(* ---------- convergence (model's scheduler; not a statement about the Go runtime) ---------- *)
From V Require Import C06.Proofs_C.

(* measure_decreases: with the source frozen and honest (requests may still fail), from any state
   whose in-flight data reflects the current source (e.g. any state right after a stream restart,
   C06_reset_good), EVERY pipeline event keeps that property, leaves the distance
   |local \ source| + |source \ local| unchanged — except StoreOk and RevertOne, which decrease it
   strictly.  Holds for every schedule, in particular for the model's fair scheduler [sched]. *)
Theorem C06_measure_decreases : forall s e s', Good s -> honest e = true -> step s e = Some s' ->
  Good s' /\
  match e with
  | StoreOk _ | RevertOne => (dist s' < dist s)%nat
  | _ => dist s' = dist s
  end.
Proof. exact measure_step. Qed.
Print Assumptions C06_measure_decreases.

Theorem C06_measure_run : forall es s s', Good s -> forallb honest es = true -> run s es = Some s' ->
  Good s' /\ (dist s' + progress_events es <= dist s)%nat.
Proof. exact measure_run. Qed.
Print Assumptions C06_measure_run.

Theorem C06_distance_zero_is_convergence : forall s, Inv s -> dist s = 0%nat -> loc s = src s.
Proof. exact dist_zero_converged. Qed.
Print Assumptions C06_distance_zero_is_convergence.

Theorem C06_reset_good : forall s s', reachable s -> step s Reset = Some s' -> Good s'.
Proof. exact reset_good. Qed.
Print Assumptions C06_reset_good.

(* Full liveness — "for every Good, non-converged state outside the two excluded shapes below,
   exists n, converged (run_fair n s) = true" — is NOT proved in general (it needs the case analysis
   that every restart cycle of [sched] reaches a StoreOk or RevertOne).  What is proved: each such
   event is strict progress and nothing else moves the distance (above); the fair scheduler does
   converge on the concrete histories below; and the two excluded shapes really do not converge. *)
Definition after (s : state) (es : list event) : state :=
  match run s es with Some s' => s' | None => s end.
Definition synced5 : state := run_fair 200 (after init [SrcExtend; SrcExtend; SrcExtend; SrcExtend; SrcExtend]).

Example C06_ex_initial_sync : converged synced5 = true /\ length (loc synced5) = 5%nat /\ dist synced5 = 0%nat.
Proof. vm_compute. auto. Qed.

(* reorg of depth 3 replaced by 4 blocks, then a restart: the fair scheduler reverts 3, stores 4 *)
Definition reorged : state := after synced5 [SrcReorg 3; SrcExtend; SrcExtend; SrcExtend; SrcExtend; Reset].
Example C06_ex_fair_converges_after_reorg :
  dist reorged = 7%nat /\ converged (run_fair 300 reorged) = true /\
  history_ok (loc (run_fair 300 reorged)) (log (run_fair 300 reorged)) (tr (run_fair 300 reorged)) = true /\
  newheads (tr (run_fair 300 reorged)) = apps (log (run_fair 300 reorged)) /\
  length (filter (fun o => match o with OReorg _ _ => true | _ => false end) (tr (run_fair 300 reorged))) = 1%nat.
Proof. vm_compute. auto. Qed.

(* whole-chain reorg (new genesis) to a longer chain converges as well *)
Definition regenesis : state :=
  after synced5 [SrcReorg 5; SrcExtend; SrcExtend; SrcExtend; SrcExtend; SrcExtend; SrcExtend; Reset].
Example C06_ex_fair_converges_after_genesis_reorg :
  dist regenesis = 11%nat /\ converged (run_fair 400 regenesis) = true.
Proof. vm_compute. auto. Qed.

(* excluded shape 1 (hypothesis is not decorative): the source rolled back to a strict prefix of the
   local chain and stays there — indistinguishable from a stale head, the node keeps its blocks *)
Definition truncated : state := after synced5 [SrcReorg 2; Reset].
Example C06_convergence_needs_replacement_refuted :
  dist truncated = 2%nat /\ converged (run_fair 2000 truncated) = false /\
  loc (run_fair 2000 truncated) = loc truncated.
Proof. vm_compute. auto. Qed.

(* excluded shape 2: the whole chain replaced by a single foreign genesis block: remoteHeight - 1
   wraps to 2^64-1, revertTask takes the hash-comparison path at the local head, the source has no
   block there, nothing is ever reverted (reproduced on the real Synchronizer, see findings) *)
Definition wrapped : state := after synced5 [SrcReorg 5; SrcExtend; Reset].
Example C06_convergence_refuted_uint64_wrap :
  converged (run_fair 2000 wrapped) = false /\ loc (run_fair 2000 wrapped) = loc wrapped /\
  rv (after wrapped [FetchErr 5; FetchLatest; ReorgCheck 5]) =
    RRun (W64 - 1) None (EvLatest (mkB 0 6 0 true) true) true.
Proof. vm_compute. auto. Qed.
(* ... while one more source block is enough *)
Example C06_ex_wrap_needs_height_zero :
  converged (run_fair 400 (after synced5 [SrcReorg 5; SrcExtend; SrcExtend; Reset])) = true.
Proof. vm_compute. auto. Qed.

(* the strong reading of "only reverts blocks the source no longer has" fails when the source
   reports a stale latest header taken from an abandoned fork (FetchStaleHead): the evidence is
   genuine source data, but not of the current chain (reproduced on the real Synchronizer) *)
Definition five : list event := [SrcExtend; SrcExtend; SrcExtend; SrcExtend; SrcExtend].
Definition live_es : list event :=
  five ++ sched_trace 200 (after init five)
  ++ [SrcReorg 2; SrcExtend; SrcExtend; Reset]
  ++ sched_trace 300 (after synced5 [SrcReorg 2; SrcExtend; SrcExtend; Reset])
  ++ [FetchErr 5; FetchStaleHead (mkB 4 5 4 true); ReorgCheck 5].
Definition live_s : state := after init live_es.
Example C06_revert_of_live_block_refuted :
  exists es s s' b, run init es = Some s /\ step s RevertOne = Some s' /\
    loc s = b :: loc s' /\ In b (src s).
Proof.
  exists live_es, live_s, (after live_s [RevertOne]), (hd (mkB 0 0 0 false) (loc live_s)).
  vm_compute. repeat split; auto.
Qed.
