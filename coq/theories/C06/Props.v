(* C06 — property theorems only. Each is closed by [exact] of a lemma and followed by Print Assumptions.
   All of them quantify over every event sequence accepted by the model from the initial state
   ([reachable]) or over an arbitrary single step: every schedule of the fetch / verify / store /
   revert / restart pipeline and every source behaviour (failures, stale or abandoned-fork heads,
   corrupted blocks, reorgs of any depth at any moment). *)
From Coq Require Import List NArith Bool Lia.
From V Require Import C06.Model C06.Proofs C06.Proofs_B.
Import ListNotations.
Open Scope N_scope.

(* Inv_chain: the local chain is hash-linked, it is exactly what replaying the mutation log gives
   (replay only admits an append of a block that passes verification and extends the head at that
   moment, and a revert of exactly the head), and every block in it is a valid block the source had. *)
Theorem C06_Inv_chain : forall s, reachable s ->
  linkedb (loc s) = true /\ replay [] (log s) = Some (loc s) /\
  Forall (fun b => okb b = true /\ In b (hist s)) (loc s).
Proof. exact inv_chain_lemma. Qed.
Print Assumptions C06_Inv_chain.

(* a Store happens only for a block that went through verifierTask, extends the head, with the
   stream context not cancelled and no revertTask running *)
Theorem C06_store_needs_verified : forall s b s', reachable s -> step s (StoreOk b) = Some s' ->
  memb b (pend s) = true /\ okb b = true /\ stb b = true /\ In b (hist s) /\
  extendsb (loc s) b = true /\ loc s' = b :: loc s /\ canc s = false /\ rv s = RIdle.
Proof. exact store_needs_verified_lemma. Qed.
Print Assumptions C06_store_needs_verified.

(* ... and the only way into the verified set is SanityCheckNewHeight on a block the source served *)
Theorem C06_pend_only_by_verify : forall s e s' b, step s e = Some s' -> In b (pend s') ->
  In b (pend s) \/ (e = Verify b /\ memb b (infl s) = true /\ okb b = true).
Proof. exact pend_only_by_verify_lemma. Qed.
Print Assumptions C06_pend_only_by_verify.

Theorem C06_infl_only_by_fetch : forall s e s' b, step s e = Some s' -> In b (infl s') ->
  In b (infl s) \/ (exists h, (e = FetchOk h /\ at_num (src s) h = Some b) \/
                              (e = FetchCorrupt h /\ okb b = false) \/
                              (e = FetchUnstorable h /\ stb b = false)).
Proof. exact infl_only_by_fetch_lemma. Qed.
Print Assumptions C06_infl_only_by_fetch.

(* a Store that fails for a reason other than the parent hash (wrong number, or a state update that
   does not apply: a copy with a wrong OldRoot passes the sanity checks and is rejected only by
   Store) changes nothing but the stream context: chain, currReorg, owed / emitted notifications and
   the mutation log stay as they are; the block is fetched again after the restart *)
Theorem C06_store_fail_changes_nothing : forall s b s', step s (StoreFail b) = Some s' ->
  loc s' = loc s /\ cur s' = cur s /\ obox s' = obox s /\ tr s' = tr s /\ log s' = log s /\
  rv s' = rv s /\ canc s' = true.
Proof.
  intros s b s' H. simpl in H.
  destruct (negb (canc s) && is_idle (rv s) && memb b (pend s)
            && (negb (extendsb (loc s) b) && negb (mismatchb (loc s) b) || extendsb (loc s) b && negb (stb b)));
    [|discriminate]. injection H as <-. simpl. repeat split.
Qed.
Print Assumptions C06_store_fail_changes_nothing.

Example C06_ex_unstorable_copy :
  (* served with a wrong OldRoot: verified, cannot be stored, StoreFail, restart, refetch, stored *)
  run init [SrcExtend; FetchUnstorable 0; Verify (mkB 0 1 0 true false); StoreOk (mkB 0 1 0 true false)] = None /\
  exists s, run init [SrcExtend; FetchUnstorable 0; Verify (mkB 0 1 0 true false); StoreFail (mkB 0 1 0 true false);
                      Reset; FetchOk 0; Verify (mkB 0 1 0 true true); StoreOk (mkB 0 1 0 true true); NotifyNewHead] = Some s
            /\ loc s = src s /\ tr s = [ONewHead (mkB 0 1 0 true true)].
Proof. split; [vm_compute; reflexivity|]. eexists. vm_compute. auto. Qed.

(* the head moves by one block at a time: forward by StoreOk, backward only by RevertOne *)
Theorem C06_head_back_only_by_revert : forall s e s', step s e = Some s' ->
  loc s' = loc s \/ (exists b, e = StoreOk b /\ loc s' = b :: loc s)
  \/ (e = RevertOne /\ exists b, loc s = b :: loc s').
Proof. exact head_back_lemma. Qed.
Print Assumptions C06_head_back_only_by_revert.

(* every revert is backed by a block the source had on its chain and served, which contradicts the
   reverted block: same height / different hash, or a successor whose parent hash is different, or
   a reported latest header that differs from the local block at its height at-or-below b *)
Theorem C06_reverted_on_evidence : forall s s', reachable s -> step s RevertOne = Some s' ->
  exists b, loc s = b :: loc s' /\ justified s b.
Proof. exact reverted_on_evidence_lemma. Qed.
Print Assumptions C06_reverted_on_evidence.

(* what the contradiction is worth: no hash-linked chain containing the evidence block can contain
   the reverted block, unless two blocks share a hash id but not the parent (explicit collision,
   excluded by [nocoll]; never assumed away globally) *)
Theorem C06_evidence_sound : forall l e b c,
  linkedb l = true -> In b l -> contradicts l e b ->
  linkedb c = true -> In e c -> nocoll c l -> ~ In b c.
Proof. exact evidence_sound_lemma. Qed.
Print Assumptions C06_evidence_sound.

(* the source's current chain always satisfies those side conditions, hence: when the evidence is
   on the source's chain (as it is at the moment FetchOk / FetchLatest / RevFetchOk produce it), the
   reverted block is one the source no longer has *)
Theorem C06_reverted_block_gone : forall s b e, reachable s ->
  In b (loc s) -> In e (src s) -> contradicts (loc s) e b -> ~ In b (src s).
Proof. exact reverted_block_gone_lemma. Qed.
Print Assumptions C06_reverted_block_gone.

(* trace_spec: emitted ++ owed notifications are exactly the spec of the mutation log: one NewHead
   per append, in order, each once; a Reorg notification directly before the NewHead that follows a
   maximal run of reverts, with Start = last reverted and End = first reverted block of that run;
   the heights of a run are consecutive; currReorg summarises the open run *)
Theorem C06_trace_spec : forall s, reachable s ->
  tr s ++ obox s = expected (log s) /\
  newheads (tr s ++ obox s) = apps (log s) /\
  runs_descending (log s) = true /\
  cur s = summarize (snd (spec_of (log s))).
Proof. exact trace_spec_lemma. Qed.
Print Assumptions C06_trace_spec.

(* the boolean the harness evaluates on the implementation's own history holds of every model history *)
Theorem C06_history_ok : forall s, reachable s -> history_ok (loc s) (log s) (tr s ++ obox s) = true.
Proof. exact history_ok_lemma. Qed.
Print Assumptions C06_history_ok.

(* ---------- convergence (model's scheduler; not a statement about the Go runtime) ---------- *)
From V Require Import C06.Proofs_C.

(* measure_decreases: with the source frozen and honest (requests may still fail), from any state
   whose in-flight data reflects the current source (e.g. any state right after a stream restart,
   C06_reset_good), EVERY pipeline event keeps that property, leaves the distance
   |local \ source| + |source \ local| unchanged — except StoreOk and RevertOne, which decrease it
   strictly.  Holds for every schedule, in particular for the model's fair scheduler [sched]. *)
Theorem C06_measure_decreases : forall s e s', Good s -> honest e = true -> step s e = Some s' ->
  Good s' /\
  match e with
  | StoreOk _ | RevertOne => (dist s' < dist s)%nat
  | _ => dist s' = dist s
  end.
Proof. exact measure_step. Qed.
Print Assumptions C06_measure_decreases.

Theorem C06_measure_run : forall es s s', Good s -> forallb honest es = true -> run s es = Some s' ->
  Good s' /\ (dist s' + progress_events es <= dist s)%nat.
Proof. exact measure_run. Qed.
Print Assumptions C06_measure_run.

Theorem C06_distance_zero_is_convergence : forall s, Inv s -> dist s = 0%nat -> loc s = src s.
Proof. exact dist_zero_converged. Qed.
Print Assumptions C06_distance_zero_is_convergence.

Theorem C06_reset_good : forall s s', reachable s -> step s Reset = Some s' -> Good s'.
Proof. exact reset_good. Qed.
Print Assumptions C06_reset_good.

(* Full liveness of the model's fair scheduler is C06_converges below. *)
Definition after (s : state) (es : list event) : state :=
  match run s es with Some s' => s' | None => s end.
Definition synced5 : state := run_fair 200 (after init [SrcExtend; SrcExtend; SrcExtend; SrcExtend; SrcExtend]).

Example C06_ex_initial_sync : converged synced5 = true /\ length (loc synced5) = 5%nat /\ dist synced5 = 0%nat.
Proof. vm_compute. auto. Qed.

(* reorg of depth 3 replaced by 4 blocks, then a restart: the fair scheduler reverts 3, stores 4 *)
Definition reorged : state := after synced5 [SrcReorg 3; SrcExtend; SrcExtend; SrcExtend; SrcExtend; Reset].
Example C06_ex_fair_converges_after_reorg :
  dist reorged = 7%nat /\ converged (run_fair 300 reorged) = true /\
  history_ok (loc (run_fair 300 reorged)) (log (run_fair 300 reorged)) (tr (run_fair 300 reorged)) = true /\
  newheads (tr (run_fair 300 reorged)) = apps (log (run_fair 300 reorged)) /\
  length (filter (fun o => match o with OReorg _ _ => true | _ => false end) (tr (run_fair 300 reorged))) = 1%nat.
Proof. vm_compute. auto. Qed.

(* whole-chain reorg (new genesis) to a longer chain converges as well *)
Definition regenesis : state :=
  after synced5 [SrcReorg 5; SrcExtend; SrcExtend; SrcExtend; SrcExtend; SrcExtend; SrcExtend; Reset].
Example C06_ex_fair_converges_after_genesis_reorg :
  dist regenesis = 11%nat /\ converged (run_fair 400 regenesis) = true.
Proof. vm_compute. auto. Qed.

(* excluded shape 1 (hypothesis is not decorative): the source rolled back to a strict prefix of the
   local chain and stays there — indistinguishable from a stale head, the node keeps its blocks *)
Definition truncated : state := after synced5 [SrcReorg 2; Reset].
Example C06_convergence_needs_replacement_refuted :
  dist truncated = 2%nat /\ converged (run_fair 2000 truncated) = false /\
  loc (run_fair 2000 truncated) = loc truncated.
Proof. vm_compute. auto. Qed.

(* excluded shape 2: the whole chain replaced by a single foreign genesis block: remoteHeight - 1
   wraps to 2^64-1, revertTask takes the hash-comparison path at the local head, the source has no
   block there, nothing is ever reverted (reproduced on the real Synchronizer, see findings) *)
Definition wrapped : state := after synced5 [SrcReorg 5; SrcExtend; Reset].
Example C06_convergence_refuted_uint64_wrap :
  converged (run_fair 2000 wrapped) = false /\ loc (run_fair 2000 wrapped) = loc wrapped /\
  rv (after wrapped [FetchErr 5; FetchLatest; ReorgCheck 5]) =
    RRun (W64 - 1) None (EvLatest (mkB 0 6 0 true true) true) true.
Proof. vm_compute. auto. Qed.
(* ... while one more source block is enough *)
Example C06_ex_wrap_needs_height_zero :
  converged (run_fair 400 (after synced5 [SrcReorg 5; SrcExtend; SrcExtend; Reset])) = true.
Proof. vm_compute. auto. Qed.

(* the strong reading of "only reverts blocks the source no longer has" fails when the source
   reports a stale latest header taken from an abandoned fork (FetchStaleHead): the evidence is
   genuine source data, but not of the current chain (reproduced on the real Synchronizer) *)
Definition five : list event := [SrcExtend; SrcExtend; SrcExtend; SrcExtend; SrcExtend].
Definition live_es : list event :=
  five ++ sched_trace 200 (after init five)
  ++ [SrcReorg 2; SrcExtend; SrcExtend; Reset]
  ++ sched_trace 300 (after synced5 [SrcReorg 2; SrcExtend; SrcExtend; Reset])
  ++ [FetchErr 5; FetchStaleHead (mkB 4 5 4 true true); ReorgCheck 5].
Definition live_s : state := after init live_es.
Example C06_revert_of_live_block_refuted :
  exists es s s' b, run init es = Some s /\ step s RevertOne = Some s' /\
    loc s = b :: loc s' /\ In b (src s).
Proof.
  exists live_es, live_s, (after live_s [RevertOne]), (hd (mkB 0 0 0 false true) (loc live_s)).
  vm_compute. repeat split; auto.
Qed.

(* ---------- liveness of the model's fair scheduler (frozen honest source) ---------- *)
From V Require Import C06.Proofs_D.

(* Live s = Good s (invariant + everything in flight reflects the current source)
          /\ XL s /\ XR s (pipeline consistency: the recorded latest header is the source's tip; a
             comparison result exists only at or below lpv; a revertTask that has not reverted yet
             is about to) — all four hold right after any stream restart (C06_reset_live) —
          /\ NT s : the source chain is not a strict prefix of the local chain (replacement hypothesis)
          /\ NW s : not (source = 1 block, local >= 2 blocks, different genesis)  (registered finding 3).
   Registered findings 1 and 2 (stale header from an abandoned fork; in-flight successor of a
   replaced chain) are excluded by "frozen honest source": [sched] never emits SrcReorg /
   FetchStaleHead, and Good says nothing in flight predates the current source chain. *)

(* every step of the fair scheduler is enabled, keeps Live, and strictly decreases
   fair_measure = 64*dist + 4*phase + owed sends; phase <= 10: between two StoreOk / RevertOne
   events (each of which lowers dist, C06_measure_decreases) there are at most 40 + |owed| steps,
   i.e. every restart cycle reaches a StoreOk or RevertOne (or convergence) *)
Theorem C06_sched_step_progress : forall s, Live s -> converged s = false ->
  exists e s', sched s = Some e /\ step s e = Some s' /\ Live s' /\ (fair_measure s' < fair_measure s)%nat.
Proof. exact sched_progress. Qed.
Print Assumptions C06_sched_step_progress.

(* hence the fair run reaches local = source within a bounded number of steps *)
Theorem C06_converges : forall s, Live s ->
  converged (run_fair (fair_measure s) s) = true /\
  loc (run_fair (fair_measure s) s) = src s /\
  (fair_measure s <= 64 * dist s + 40 + length (obox s))%nat.
Proof. exact converges_lemma. Qed.
Print Assumptions C06_converges.

Theorem C06_reset_live : forall s s', reachable s -> step s Reset = Some s' -> NT s' -> NW s' -> Live s'.
Proof. exact reset_live. Qed.
Print Assumptions C06_reset_live.

(* from ANY reachable state: once the streams have been restarted, with the source frozen and
   honest from then on, the model's fair scheduler makes the local chain equal to the source's *)
Theorem C06_converges_after_restart : forall s s', reachable s -> step s Reset = Some s' ->
  NT s' -> NW s' ->
  converged (run_fair (fair_measure s') s') = true /\
  loc (run_fair (fair_measure s') s') = src s' /\
  fair_measure s' = (64 * dist s' + 28)%nat.
Proof. exact converges_after_restart_lemma. Qed.
Print Assumptions C06_converges_after_restart.

(* the hypotheses are satisfiable by a non-trivial state, and the bound is generous *)
Lemma reach_pre : forall es, reachable (after init es).
Proof.
  intros es. unfold after. destruct (run init es) as [s|] eqn:E.
  - exists es; auto.
  - exists []; reflexivity.
Qed.
Lemma reach_after : forall s es, reachable s -> reachable (after s es).
Proof.
  intros s es R. unfold after. destruct (run s es) as [s'|] eqn:E; auto. eapply reachable_run; eauto.
Qed.
Lemma synced5_reachable : reachable synced5.
Proof. apply reachable_run_fair, reach_pre. Qed.

Definition reorged_pre : state := after synced5 [SrcReorg 3; SrcExtend; SrcExtend; SrcExtend; SrcExtend].
Example C06_ex_live_hypotheses : Live reorged /\ fair_measure reorged = 476%nat /\
  length (sched_trace 476 reorged) = 26%nat.
Proof.
  split; [|vm_compute; auto].
  apply (reset_live reorged_pre).
  - apply reach_after, synced5_reachable.
  - vm_compute. reflexivity.
  - unfold NT, strict_prefix. intros [_ H]. vm_compute in H. lia.
  - unfold NW. intros [H _]. vm_compute in H. discriminate.
Qed.

(* NT is needed: every other hypothesis holds, the fair run does not converge within the bound *)
Definition truncated_pre : state := after synced5 [SrcReorg 2].
Example C06_converges_needs_no_truncation :
  Good truncated /\ XL truncated /\ XR truncated /\ NW truncated /\ ~ NT truncated /\
  converged (run_fair (fair_measure truncated) truncated) = false.
Proof.
  split; [apply (reset_good truncated_pre);
          [apply reach_after, synced5_reachable|vm_compute; reflexivity]|].
  split; [unfold XL; intros h g H; vm_compute in H; discriminate|].
  split; [unfold XR; vm_compute; exact I|].
  split; [unfold NW; intros [H _]; vm_compute in H; discriminate|].
  split; [|vm_compute; reflexivity].
  intro H. apply H. unfold strict_prefix. split; [|vm_compute; lia].
  vm_compute. intros x Hx. intuition.
Qed.

(* NW is needed *)
Definition wrapped_pre : state := after synced5 [SrcReorg 5; SrcExtend].
Example C06_converges_needs_no_wrap :
  Good wrapped /\ XL wrapped /\ XR wrapped /\ NT wrapped /\ ~ NW wrapped /\
  converged (run_fair (fair_measure wrapped) wrapped) = false.
Proof.
  split; [apply (reset_good wrapped_pre);
          [apply reach_after, synced5_reachable|vm_compute; reflexivity]|].
  split; [unfold XL; intros h g H; vm_compute in H; discriminate|].
  split; [unfold XR; vm_compute; exact I|].
  split.
  { unfold NT, strict_prefix. intros [Hi _].
    assert (F : In (mkB 0 6 0 true true) (loc wrapped)) by (apply Hi; vm_compute; auto).
    vm_compute in F. intuition discriminate. }
  split; [|vm_compute; reflexivity].
  intro H. apply H. split; [vm_compute; reflexivity|]. split; [vm_compute; lia|].
  vm_compute. discriminate.
Qed.

(* "everything in flight reflects the current source" (Fresh, part of Good) is needed for the
   per-step measure: a verified block of the replaced chain still waiting for storeTask is stored
   first and INCREASES the distance (this is registered finding 2 seen from the model) *)
Definition stale_pend : state :=
  after synced5 [SrcExtend; FetchOk 5; Verify (mkB 5 6 5 true true); SrcReorg 1; SrcExtend].
Example C06_measure_needs_fresh :
  reachable stale_pend /\ ~ Fresh stale_pend /\
  exists s', step stale_pend (StoreOk (mkB 5 6 5 true true)) = Some s' /\ (dist stale_pend < dist s')%nat.
Proof.
  split; [apply reach_after, synced5_reachable|].
  split.
  - intros [_ [H _]]. specialize (H (mkB 5 6 5 true true)). vm_compute in H.
    assert (F : False); [|exact F]. destruct H as [H|[H|[H|[H|[H|[H|[]]]]]]]; auto; discriminate.
  - eexists. split; [vm_compute; reflexivity|vm_compute; lia].
Qed.

(* ---------- N fetchers, out-of-order completion ---------- *)
(* the in-flight set is unordered and unbounded: any number of fetchers may complete in any order,
   verification may run in any order; only storeTask is ordered (by the head) *)
Definition b0 := mkB 0 1 0 true true.
Definition b1 := mkB 1 2 1 true true.
Definition b2 := mkB 2 3 2 true true.
Definition b3 := mkB 3 4 3 true true.
Example C06_ex_out_of_order_pipeline :
  (exists s, run init [SrcExtend; SrcExtend; SrcExtend; SrcExtend;
                       FetchOk 3; FetchOk 1; FetchOk 0; FetchOk 2;          (* four fetchers, any completion order *)
                       Verify b2; Verify b0; Verify b3; Verify b1;          (* verifiers in any order *)
                       StoreOk b0; NotifyNewHead; StoreOk b1; NotifyNewHead;
                       StoreOk b2; NotifyNewHead; StoreOk b3; NotifyNewHead] = Some s
             /\ loc s = src s /\ newheads (tr s) = [b0; b1; b2; b3]) /\
  (* a later block can never be stored before its predecessor, whatever completed first *)
  run init [SrcExtend; SrcExtend; FetchOk 1; Verify b1; StoreOk b1] = None /\
  run init [SrcExtend; SrcExtend; FetchOk 1; FetchOk 0; Verify b1; Verify b0; StoreOk b0; NotifyNewHead; StoreOk b1] <> None.
Proof. split; [eexists; vm_compute; auto|]. split; vm_compute; [reflexivity|discriminate]. Qed.

Theorem C06_fetch_any_time : forall s h b, at_num (src s) h = Some b ->
  exists s', step s (FetchOk h) = Some s' /\ infl s' = b :: infl s /\ loc s' = loc s /\ rv s' = rv s.
Proof. intros s h b H. simpl. rewrite H. eexists; repeat split. Qed.
Print Assumptions C06_fetch_any_time.

Theorem C06_verify_any_order : forall s b, In b (infl s) -> okb b = true ->
  exists s', step s (Verify b) = Some s' /\ pend s' = b :: pend s /\ infl s' = infl s.
Proof.
  intros s b Hin Hok. simpl. rewrite (In_memb b (infl s) Hin), Hok. eexists; repeat split.
Qed.
Print Assumptions C06_verify_any_order.
