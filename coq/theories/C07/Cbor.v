(* C07 / Cbor — executable model of the CBOR codec juno stores its values with
   (fxamacker/cbor v2 as configured in /repo/encoder/encoder.go):

     encoder  cbor.CanonicalEncOptions(): shortest-form heads, definite lengths only, map keys and
              struct fields sorted "length first" (shorter encoded key first, then bytewise), nil
              pointers / slices / maps / interfaces = null, no tags except those of the registry
              (EncTagRequired) around interface values;
     decoder  cbor.DecOptions{MaxArrayElements: 10485760, MaxMapPairs: 10485760, UTF8DecodeInvalid},
              MaxNestedLevels left at the library default 32.

   [item]    RFC 8949 data items of major types 0-6 and the simple values false / true / null.
   [encode]  the canonical byte string of an item (map pairs in the order given; the typed layer below
             sorts struct fields, Go maps are represented as key-sorted association lists).
   [decode]  a STRICT decoder: it accepts exactly the canonical forms (shortest heads, definite lengths,
             no floats / undefined / other simple values) and enforces the three limits the way
             valid.go:wellformedInternal does (depth is counted per array / map / NESTED tag).
             The Go decoder additionally accepts non-canonical heads, indefinite lengths and floats;
             the harness records those as differences, it is a violation only if the real decoder
             rejects (or decodes differently) something the model accepts.
   [ty/val]  Go value shapes (what reflect + fxamacker's rules see) and their values;
             [to_item] / [of_item] = encoding.Marshal / Unmarshal at the level of items.
   No proofs in this file; it is extracted to OCaml and run against the Go code. *)
From Coq Require Import List NArith ZArith Bool String Ascii.
From V Require Import C07.Storage.
Import ListNotations.
Open Scope N_scope.

(* the limits of encoder.initEncAndDecModes (tied to the source by coq/obligations/C07_consts.v) *)
Definition max_array_elements : N := 10485760.
Definition max_map_pairs : N := 10485760.
Definition max_nested_levels : N := 32.      (* fxamacker default, not set by juno *)

Inductive item : Type :=
| IUInt (n : N)                       (* major 0 *)
| INeg (n : N)                        (* major 1: the integer -1-n *)
| IBytes (b : bytes)                  (* major 2 *)
| IText (b : bytes)                   (* major 3; UTF-8 is NOT validated (UTF8DecodeInvalid) *)
| IArr (l : list item)                (* major 4 *)
| IMap (l : list (item * item))       (* major 5, pairs in wire order *)
| ITag (t : N) (x : item)             (* major 6 *)
| IFalse | ITrue | INull.             (* major 7, simple values 20 21 22 *)

Definition llen {A : Type} (l : list A) : N := N.of_nat (List.length l).

(* ---------------- encoder ---------------- *)
Fixpoint encode (x : item) : bytes :=
  match x with
  | IUInt n => cbor_head 0 n
  | INeg n => cbor_head 1 n
  | IBytes b => cbor_head 2 (blen b) ++ b
  | IText b => cbor_head 3 (blen b) ++ b
  | IArr l => cbor_head 4 (llen l) ++ List.concat (map encode l)
  | IMap l => cbor_head 5 (llen l) ++
              List.concat (map (fun p => match p with (k, v) => encode k ++ encode v end) l)
  | ITag t y => cbor_head 6 t ++ encode y
  | IFalse => [244]
  | ITrue => [245]
  | INull => [246]
  end.

(* ---------------- strict decoder ---------------- *)
(* smallest argument that may legally use the head form with additional information [ai] *)
Definition head_min (ai : N) : N :=
  if ai <? 24 then 0 else if ai =? 24 then 24 else if ai =? 25 then 256
  else if ai =? 26 then 65536 else 4294967296.

(* head in shortest form only: (major, argument, rest). ai 28..31 (reserved / indefinite) = None *)
Definition chead (d : bytes) : option (N * N * bytes) :=
  match d with
  | [] => None
  | h :: _ =>
      if 256 <=? h then None else
      match cbor_head_dec d with
      | Some (m, n, r) => if head_min (h mod 32) <=? n then Some (m, n, r) else None
      | None => None
      end
  end.

(* the first n bytes and the rest; None = fewer than n bytes left *)
Fixpoint takeN (n : N) (d : bytes) {struct d} : option (bytes * bytes) :=
  match d with
  | [] => if n =? 0 then Some ([], []) else None
  | x :: r =>
      if n =? 0 then Some ([], d)
      else match takeN (n - 1) r with
           | Some (a, r') => Some (x :: a, r')
           | None => None
           end
  end.

Definition next_is_tag (d : bytes) : bool :=
  match d with h :: _ => h / 32 =? 6 | [] => false end.

(* [depth] = number of enclosing arrays / maps / nested tags (valid.go: wellformedInternal) *)
Fixpoint dec_item (fuel : nat) (depth : N) (d : bytes) {struct fuel} : option (item * bytes) :=
  match fuel with
  | O => None
  | S f =>
      match chead d with
      | None => None
      | Some (m, n, r) =>
          if m =? 0 then Some (IUInt n, r)
          else if m =? 1 then Some (INeg n, r)
          else if m =? 2 then
            match takeN n r with Some (b, r') => Some (IBytes b, r') | None => None end
          else if m =? 3 then
            match takeN n r with Some (b, r') => Some (IText b, r') | None => None end
          else if m =? 4 then
            if (max_nested_levels <? depth + 1) || (max_array_elements <? n) then None
            else match dec_items f (depth + 1) n r with
                 | Some (l, r') => Some (IArr l, r')
                 | None => None
                 end
          else if m =? 5 then
            if (max_nested_levels <? depth + 1) || (max_map_pairs <? n) then None
            else match dec_pairs f (depth + 1) n r with
                 | Some (l, r') => Some (IMap l, r')
                 | None => None
                 end
          else if m =? 6 then
            let depth' := if next_is_tag r then depth + 1 else depth in
            if max_nested_levels <? depth' then None
            else match dec_item f depth' r with
                 | Some (y, r') => Some (ITag n y, r')
                 | None => None
                 end
          else if n =? 20 then Some (IFalse, r)
          else if n =? 21 then Some (ITrue, r)
          else if n =? 22 then Some (INull, r)
          else None
      end
  end
with dec_items (fuel : nat) (depth : N) (n : N) (d : bytes) {struct fuel} : option (list item * bytes) :=
  match fuel with
  | O => None
  | S f =>
      if n =? 0 then Some ([], d)
      else match dec_item f depth d with
           | None => None
           | Some (x, r) =>
               match dec_items f depth (n - 1) r with
               | Some (l, r') => Some (x :: l, r')
               | None => None
               end
           end
  end
with dec_pairs (fuel : nat) (depth : N) (n : N) (d : bytes) {struct fuel}
  : option (list (item * item) * bytes) :=
  match fuel with
  | O => None
  | S f =>
      if n =? 0 then Some ([], d)
      else match dec_item f depth d with
           | None => None
           | Some (k, r) =>
               match dec_item f depth r with
               | None => None
               | Some (v, r1) =>
                   match dec_pairs f depth (n - 1) r1 with
                   | Some (l, r') => Some ((k, v) :: l, r')
                   | None => None
                   end
               end
           end
  end.

(* decMode.UnmarshalFirst into a generic item: the first data item and the remaining bytes *)
(* every level of nesting costs two units of fuel per byte at most (dec_item -> dec_items -> dec_item) *)
Definition decode (d : bytes) : option (item * bytes) := dec_item (2 * List.length d) 0 d.
(* decMode.Unmarshal: exactly one data item, no trailing bytes *)
Definition decode_all (d : bytes) : option item :=
  match decode d with Some (x, []) => Some x | _ => None end.

(* ---------------- which items the codec is claimed for ---------------- *)
Definition nmax_list {A : Type} (f : A -> N) (l : list A) : N := fold_right (fun y a => N.max (f y) a) 0 l.

(* nesting as the Go decoder counts it: +1 per array / map, +1 per tag directly inside a tag *)
Fixpoint ht (x : item) : N :=
  match x with
  | IArr l => 1 + nmax_list ht l
  | IMap l => 1 + nmax_list (fun p => match p with (k, v) => N.max (ht k) (ht v) end) l
  | ITag _ y => match y with ITag _ _ => 1 + ht y | _ => ht y end
  | _ => 0
  end.

Fixpoint item_ok (x : item) : bool :=
  match x with
  | IUInt n | INeg n => n <? 2 ^ 64
  | IBytes b | IText b => blen b <? 2 ^ 64
  | IArr l => (llen l <=? max_array_elements) && forallb item_ok l
  | IMap l => (llen l <=? max_map_pairs) &&
              forallb (fun p => match p with (k, v) => item_ok k && item_ok v end) l
  | ITag t y => (t <? 2 ^ 64) && item_ok y
  | _ => true
  end.

Definition wf_item (x : item) : bool := item_ok x && (ht x <=? max_nested_levels).

(* ---------------- canonical key order ("length first", RFC 7049 3.9 / SortCanonical) ---------------- *)
Definition key_lt (a b : bytes) : bool :=
  (List.length a <? List.length b)%nat || ((List.length a =? List.length b)%nat && lex_lt a b).

Fixpoint sorted_keys (l : list bytes) : bool :=
  match l with
  | [] => true
  | a :: r => match r with [] => true | b :: _ => key_lt a b && sorted_keys r end
  end.

Fixpoint insert_pair (p : item * item) (l : list (item * item)) : list (item * item) :=
  match l with
  | [] => [p]
  | q :: r => if key_lt (encode (fst q)) (encode (fst p)) then q :: insert_pair p r else p :: l
  end.
Definition sort_pairs (l : list (item * item)) : list (item * item) := fold_right insert_pair [] l.

(* first pair whose encoded key is [kb] *)
Fixpoint find_pair (kb : bytes) (l : list (item * item)) : option item :=
  match l with
  | [] => None
  | (k, v) :: r => if bytes_eqb (encode k) kb then Some v else find_pair kb r
  end.

Fixpoint nodup_bytes (l : list bytes) : bool :=
  match l with
  | [] => true
  | a :: r => negb (existsb (bytes_eqb a) r) && nodup_bytes r
  end.

(* ================= typed layer: Go values as fxamacker sees them ================= *)
(* wire key of a struct field: a text name or (keyasint) an integer. Kept free of Coq strings so that the
   extracted code has none; [fkey_of_ckey] relates it to the keys of the regenerated layout table. *)
Inductive fkey : Type := FText (b : bytes) | FInt (z : Z).

Inductive ty : Type :=
| TUint (bits : N)                        (* uint8 / uint16 / uint32 / uint64 / uint and named types of those *)
| TBool
| TText                                   (* string *)
| TBin                                    (* encoding.BinaryMarshaler (bloom.BloomFilter): opaque byte string *)
| TByteArr (n : N)                        (* [n]byte (eth.Address): byte string of exactly n bytes *)
| TByteSlice                              (* []byte: nil = null *)
| TFelt                                   (* felt.Felt and its named copies: array of the 4 uint64 limbs *)
| TPtr (t : ty)                           (* *T: nil = null *)
| TSlice (t : ty)                         (* []T: nil = null *)
| TMap (k v : ty)                         (* map[K]V: nil = null; pairs sorted by encoded key *)
| TStruct (fs : list (fkey * bool * ty))  (* fields in declaration order: wire key, omitempty, type *)
| TIface (alts : list (N * ty)).          (* interface value: nil = null, else registry tag + concrete struct *)

Inductive val : Type :=
| VUint (n : N) | VBool (b : bool) | VText (b : bytes) | VBin (b : bytes)
| VFelt (l0 l1 l2 l3 : N)
| VNil
| VList (l : list val)
| VMap (l : list (val * val))
| VStruct (l : list val)                  (* positional, declaration order *)
| VIface (tag : N) (v : val).

Definition bytes_of_string (s : string) : bytes := map N_of_ascii (list_ascii_of_string s).

Definition fkey_of_ckey (k : ckey) : fkey :=
  match k with KStr s => FText (bytes_of_string s) | KInt z => FInt z end.

Definition key_item (k : fkey) : item :=
  match k with
  | FText b => IText b
  | FInt z => if (z <? 0)%Z then INeg (Z.to_N (- z - 1)) else IUInt (Z.to_N z)
  end.

(* nil-able Go kinds: their nil is CBOR null, so a pointer to one of them would be ambiguous *)
Definition nilable (t : ty) : bool :=
  match t with
  | TByteSlice | TPtr _ | TSlice _ | TMap _ _ | TIface _ => true
  | _ => false
  end.

(* omitempty: the field is left out when the Go value is "empty": false, 0, "", a nil pointer /
   interface, a nil or zero-length slice / map (a pointer to an empty value is NOT empty) *)
Definition is_empty (t : ty) (v : val) : bool :=
  match t with
  | TUint _ => match v with VUint n => n =? 0 | _ => false end
  | TBool => match v with VBool b => negb b | _ => false end
  | TText => match v with VText [] => true | _ => false end
  | TByteSlice => match v with VNil | VBin [] => true | _ => false end
  | TSlice _ => match v with VNil | VList [] => true | _ => false end
  | TMap _ _ => match v with VNil | VMap [] => true | _ => false end
  | TPtr _ | TIface _ => match v with VNil => true | _ => false end
  | _ => false
  end.

Fixpoint zero_val (t : ty) : val :=
  match t with
  | TUint _ => VUint 0
  | TBool => VBool false
  | TText => VText []
  | TBin => VBin []
  | TByteArr n => VBin (repeat 0 (N.to_nat n))
  | TFelt => VFelt 0 0 0 0
  | TStruct fs => VStruct (map (fun f => match f with (_, _, ft) => zero_val ft end) fs)
  | _ => VNil
  end.

Fixpoint to_item (t : ty) (v : val) {struct t} : item :=
  match t with
  | TUint _ => match v with VUint n => IUInt n | _ => INull end
  | TBool => match v with VBool true => ITrue | VBool false => IFalse | _ => INull end
  | TText => match v with VText b => IText b | _ => INull end
  | TBin => match v with VBin b => IBytes b | _ => INull end
  | TByteArr _ => match v with VBin b => IBytes b | _ => INull end
  | TByteSlice => match v with VBin b => IBytes b | _ => INull end
  | TFelt => match v with VFelt a b c d => IArr [IUInt a; IUInt b; IUInt c; IUInt d] | _ => INull end
  | TPtr t' => match v with VNil => INull | _ => to_item t' v end
  | TSlice t' => match v with VList l => IArr (map (to_item t') l) | _ => INull end
  | TMap tk tv =>
      match v with
      | VMap l => IMap (map (fun p => match p with (k, x) => (to_item tk k, to_item tv x) end) l)
      | _ => INull
      end
  | TStruct fs =>
      match v with
      | VStruct vs =>
          IMap (sort_pairs
            ((fix go (fs : list (fkey * bool * ty)) (vs : list val) {struct fs} : list (item * item) :=
                match fs, vs with
                | (k, oe, ft) :: fs', x :: vs' =>
                    if oe && is_empty ft x then go fs' vs' else (key_item k, to_item ft x) :: go fs' vs'
                | _, _ => []
                end) fs vs))
      | _ => INull
      end
  | TIface alts =>
      match v with
      | VIface tag x =>
          (fix go (alts : list (N * ty)) : item :=
             match alts with
             | (tg, ta) :: r => if tg =? tag then ITag tag (to_item ta x) else go r
             | [] => INull
             end) alts
      | _ => INull
      end
  end.

Fixpoint map_opt {A B : Type} (f : A -> option B) (l : list A) : option (list B) :=
  match l with
  | [] => Some []
  | x :: r => match f x with
              | Some y => match map_opt f r with Some ys => Some (y :: ys) | None => None end
              | None => None
              end
  end.

(* Unmarshal into a fresh Go value of shape t. A missing struct key and null leave the zero value;
   unknown keys are ignored; of duplicate keys the first is used (fxamacker DupMapKeyQuiet decodes
   every occurrence in turn - not modelled, the encoder never emits duplicates). *)
Fixpoint of_item (t : ty) (x : item) {struct t} : option val :=
  match t with
  | TUint bits => match x with
                  | IUInt n => if n <? 2 ^ bits then Some (VUint n) else None
                  | INull => Some (VUint 0)
                  | _ => None
                  end
  | TBool => match x with IFalse => Some (VBool false) | ITrue => Some (VBool true)
             | INull => Some (VBool false) | _ => None end
  | TText => match x with IText b => Some (VText b) | INull => Some (VText []) | _ => None end
  | TBin => match x with IBytes b => Some (VBin b) | _ => None end
  | TByteArr n => match x with
                  | IBytes b => if blen b =? n then Some (VBin b) else None
                  | INull => Some (zero_val (TByteArr n))
                  | _ => None
                  end
  | TByteSlice => match x with IBytes b => Some (VBin b) | INull => Some VNil | _ => None end
  | TFelt => match x with
             | IArr [IUInt a; IUInt b; IUInt c; IUInt d] =>
                 if (a <? 2 ^ 64) && (b <? 2 ^ 64) && (c <? 2 ^ 64) && (d <? 2 ^ 64)
                 then Some (VFelt a b c d) else None
             | INull => Some (VFelt 0 0 0 0)
             | _ => None
             end
  | TPtr t' => match x with INull => Some VNil | _ => of_item t' x end
  | TSlice t' => match x with
                 | INull => Some VNil
                 | IArr l => match map_opt (of_item t') l with Some vs => Some (VList vs) | None => None end
                 | _ => None
                 end
  | TMap tk tv =>
      match x with
      | INull => Some VNil
      | IMap l =>
          match map_opt (fun p => match p with (k, y) =>
                           match of_item tk k, of_item tv y with
                           | Some a, Some b => Some (a, b)
                           | _, _ => None
                           end end) l with
          | Some ps => Some (VMap ps)
          | None => None
          end
      | _ => None
      end
  | TStruct fs =>
      match x with
      | INull => Some (zero_val (TStruct fs))
      | IMap l =>
          match (fix go (fs : list (fkey * bool * ty)) : option (list val) :=
                   match fs with
                   | [] => Some []
                   | (k, _, ft) :: fs' =>
                       match (match find_pair (encode (key_item k)) l with
                              | None => Some (zero_val ft)
                              | Some y => of_item ft y
                              end) with
                       | None => None
                       | Some a => match go fs' with Some r => Some (a :: r) | None => None end
                       end
                   end) fs with
          | Some vs => Some (VStruct vs)
          | None => None
          end
      | _ => None
      end
  | TIface alts =>
      match x with
      | INull => Some VNil
      | ITag tag y =>
          (fix go (alts : list (N * ty)) : option val :=
             match alts with
             | (tg, ta) :: r =>
                 if tg =? tag then match of_item ta y with Some a => Some (VIface tag a) | None => None end
                 else go r
             | [] => None
             end) alts
      | _ => None
      end
  end.

(* v is a Go value of shape t that the codec is claimed for *)
Fixpoint has_type (t : ty) (v : val) {struct t} : bool :=
  match t with
  | TUint bits => match v with VUint n => n <? 2 ^ bits | _ => false end
  | TBool => match v with VBool _ => true | _ => false end
  | TText => match v with VText b => blen b <? 2 ^ 64 | _ => false end
  | TBin => match v with VBin b => blen b <? 2 ^ 64 | _ => false end
  | TByteArr n => match v with VBin b => blen b =? n | _ => false end
  | TByteSlice => match v with VNil => true | VBin b => blen b <? 2 ^ 64 | _ => false end
  | TFelt => match v with
             | VFelt a b c d => (a <? 2 ^ 64) && (b <? 2 ^ 64) && (c <? 2 ^ 64) && (d <? 2 ^ 64)
             | _ => false
             end
  | TPtr t' => match v with VNil => true | _ => has_type t' v end
  | TSlice t' => match v with
                 | VNil => true
                 | VList l => (llen l <=? max_array_elements) && forallb (has_type t') l
                 | _ => false
                 end
  | TMap tk tv =>
      match v with
      | VNil => true
      | VMap l => (llen l <=? max_map_pairs) &&
                  forallb (fun p => match p with (k, x) => has_type tk k && has_type tv x end) l &&
                  sorted_keys (map (fun p => match p with (k, _) => encode (to_item tk k) end) l)
      | _ => false
      end
  | TStruct fs =>
      match v with
      | VStruct vs =>
          (fix go (fs : list (fkey * bool * ty)) (vs : list val) {struct fs} : bool :=
             match fs, vs with
             | [], [] => true
             | (_, oe, ft) :: fs', x :: vs' =>
                 has_type ft x &&
                 (* an omitempty field reads back as the zero value: empty non-nil containers excluded *)
                 negb (oe && match x with VList [] | VMap [] | VBin [] => true | _ => false end) &&
                 go fs' vs'
             | _, _ => false
             end) fs vs
      | _ => false
      end
  | TIface alts =>
      match v with
      | VNil => true
      | VIface tag x =>
          (fix go (alts : list (N * ty)) : bool :=
             match alts with
             | (tg, ta) :: r => if tg =? tag then has_type ta x else go r
             | [] => false
             end) alts
      | _ => false
      end
  end.

(* nesting depth an encoded value of shape t can reach *)
Fixpoint ty_ht (t : ty) : N :=
  match t with
  | TFelt => 1
  | TPtr t' => ty_ht t'
  | TSlice t' => 1 + ty_ht t'
  | TMap tk tv => 1 + N.max (ty_ht tk) (ty_ht tv)
  | TStruct fs => 1 + nmax_list (fun f => match f with (_, _, ft) => ty_ht ft end) fs
  | TIface alts => nmax_list (fun a => match a with (_, ta) => ty_ht ta end) alts
  | _ => 0
  end.

Definition key_ok (k : fkey) : bool :=
  match k with
  | FText b => blen b <? 2 ^ 64
  | FInt z => ((- 2 ^ 64 <=? z) && (z <? 2 ^ 64))%Z
  end.

Definition is_struct (t : ty) : bool := match t with TStruct _ => true | _ => false end.

(* omitempty is only modelled for kinds whose empty value is their zero value *)
Definition omit_ok (t : ty) : bool :=
  match t with
  | TUint _ | TBool | TText | TByteSlice | TPtr _ | TSlice _ | TMap _ _ | TIface _ => true
  | _ => false
  end.

(* shapes the theorems cover *)
Fixpoint ty_ok (t : ty) {struct t} : bool :=
  match t with
  | TUint bits => bits <=? 64
  | TByteArr n => n <? 2 ^ 64
  | TPtr t' => negb (nilable t') && ty_ok t'
  | TSlice t' => ty_ok t'
  | TMap tk tv => ty_ok tk && ty_ok tv
  | TStruct fs =>
      (llen fs <=? max_map_pairs) &&
      nodup_bytes (map (fun f => match f with (k, _, _) => encode (key_item k) end) fs) &&
      (fix go (fs : list (fkey * bool * ty)) : bool :=
         match fs with
         | [] => true
         | (k, oe, ft) :: fs' => key_ok k && (negb oe || omit_ok ft) && ty_ok ft && go fs'
         end) fs
  | TIface alts =>
      nodup_bytes (map (fun a => match a with (tg, _) => cbor_head 6 tg end) alts) &&
      (fix go (alts : list (N * ty)) : bool :=
         match alts with
         | [] => true
         | (tg, ta) :: r => (tg <? 2 ^ 64) && is_struct ta && ty_ok ta && go r
         end) alts
  | _ => true
  end.

Definition shape_ok (t : ty) : bool := ty_ok t && (ty_ht t <=? max_nested_levels).

(* encoder.Marshal / encoder.Unmarshal / encoder.UnmarshalFirst on a value of shape t *)
Definition marshal (t : ty) (v : val) : bytes := encode (to_item t v).
Definition unmarshal (t : ty) (d : bytes) : option val :=
  match decode_all d with Some x => of_item t x | None => None end.
Definition unmarshal_first (t : ty) (d : bytes) : option (val * bytes) :=
  match decode d with
  | Some (x, r) => match of_item t x with Some v => Some (v, r) | None => None end
  | None => None
  end.
