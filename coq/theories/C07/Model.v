(* C07 — the executable models, split by subject; this file only re-exports them so that
   `From V Require Import C07.Model` keeps giving every name (bin/build builds Model.vo first and the
   extraction imports it).
     Storage : indexed blob (core/block_transaction.go, core/indexed), key codecs, projection layouts
     Cbor    : the CBOR item codec as configured in /repo/encoder + the typed layer (Go value shapes)
     Shapes  : the concrete shapes of Header, the five transactions, TransactionReceipt, StateUpdate
   No proofs in these files. *)
From V Require Export C07.Storage C07.Cbor C07.Shapes.
