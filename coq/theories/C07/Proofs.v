(* C07 — lemmas about the storage-layout models (Indexed, Keys, Projection). *)
From Coq Require Import List NArith ZArith Bool String Lia ZifyN ZifyNat ZifyBool.
From V Require Import C07.Model.
Import ListNotations.
Open Scope N_scope.

(* ================= bytes ================= *)
Lemma blen_app : forall a b : bytes, blen (a ++ b) = blen a + blen b.
Proof. intros; unfold blen; rewrite app_length; lia. Qed.

Lemma blen_nil : blen [] = 0.
Proof. reflexivity. Qed.

Lemma slice_mid : forall pre c post : bytes,
  slice (pre ++ c ++ post) (blen pre) (blen pre + blen c) = Some c.
Proof.
  intros. unfold slice.
  assert (H : (blen pre <=? blen pre + blen c) && (blen pre + blen c <=? blen (pre ++ c ++ post)) = true).
  { rewrite !blen_app. apply andb_true_intro; split; apply N.leb_le; lia. }
  rewrite H. f_equal.
  replace (N.to_nat (blen pre)) with (List.length pre) by (unfold blen; lia).
  replace (N.to_nat (blen pre + blen c - blen pre)) with (List.length c) by (unfold blen; lia).
  rewrite skipn_app, skipn_all, Nat.sub_diag. simpl.
  rewrite firstn_app, firstn_all, Nat.sub_diag. simpl. apply app_nil_r.
Qed.

(* ================= Indexed ================= *)
Lemma offsets_length : forall lens s, List.length (offsets s lens) = List.length lens.
Proof. induction lens; simpl; intros; auto. Qed.

Lemma get_bytes_cons : forall o rest d j, get_bytes (o :: rest) d (S j) = get_bytes rest d j.
Proof. reflexivity. Qed.

(* the heart of C07: item i of a lazily indexed region is exactly the i-th chunk written *)
Lemma get_bytes_concat : forall (cs : list bytes) (pre : bytes) (i : nat) (c : bytes),
  nth_error cs i = Some c ->
  get_bytes (offsets (blen pre) (map blen cs)) (pre ++ List.concat cs) i = Ok c.
Proof.
  induction cs as [|c0 r IH]; intros pre i c H.
  - destruct i; discriminate.
  - destruct i as [|j].
    + simpl in H. inversion H; subst c0. simpl map. simpl offsets. simpl List.concat.
      unfold get_bytes. simpl nth_error.
      destruct r as [|c1 r'].
      * simpl. rewrite app_nil_r.
        replace (blen (pre ++ c)) with (blen pre + blen c) by (symmetry; apply blen_app).
        pose proof (slice_mid pre c []) as S. rewrite app_nil_r in S. rewrite S. reflexivity.
      * simpl map. simpl offsets. simpl nth_error. cbv beta iota.
        rewrite (slice_mid pre c (List.concat (c1 :: r'))). reflexivity.
    + simpl in H. simpl map. simpl offsets. rewrite get_bytes_cons.
      simpl List.concat. rewrite app_assoc. rewrite <- blen_app. apply IH. exact H.
Qed.

Lemma get_bytes_oob : forall ix d i, (List.length ix <= i)%nat -> get_bytes ix d i = NotFound.
Proof.
  intros. unfold get_bytes. apply nth_error_None in H. rewrite H. reflexivity.
Qed.

Lemma lazy_get_nat : forall A (dec : bytes -> option A) ix d (i : nat),
  lazy_get dec ix d (Z.of_nat i) = decode_res dec (get_bytes ix d i).
Proof.
  intros. unfold lazy_get.
  destruct (Z.ltb_spec (Z.of_nat i) 0); [lia|]. simpl orb.
  destruct (Z.leb_spec (Z.of_nat (List.length ix)) (Z.of_nat i)).
  - rewrite get_bytes_oob by lia. reflexivity.
  - rewrite Nat2Z.id. reflexivity.
Qed.

Lemma res_all_ok : forall A (l : list A), res_all (map Ok l) = Ok l.
Proof. induction l; simpl; auto. rewrite IHl. reflexivity. Qed.

Lemma map_seq_pointwise : forall A B (g : nat -> B) (h : A -> B) (xs : list A) (s : nat),
  (forall i x, nth_error xs i = Some x -> g (s + i)%nat = h x) ->
  map g (seq s (List.length xs)) = map h xs.
Proof.
  induction xs as [|x r IH]; intros s H; simpl; auto.
  f_equal.
  - specialize (H 0%nat x eq_refl). rewrite Nat.add_0_r in H. exact H.
  - apply IH. intros i y Hy. specialize (H (S i) y Hy). replace (S s + i)%nat with (s + S i)%nat by lia. exact H.
Qed.

Lemma lazy_all_concat : forall A X (enc : X -> bytes) (dec : bytes -> option A) (f : X -> A),
  (forall x, dec (enc x) = Some (f x)) ->
  forall (xs : list X) (pre : bytes),
  lazy_all dec (offsets (blen pre) (map blen (map enc xs))) (pre ++ List.concat (map enc xs))
  = Ok (map f xs).
Proof.
  intros A X enc dec f Hd xs pre. unfold lazy_all.
  rewrite offsets_length, !map_length.
  rewrite (map_seq_pointwise _ _ _ (fun x => Ok (f x)) xs 0).
  - rewrite <- (map_map f Ok). apply res_all_ok.
  - intros i x Hx. simpl.
    rewrite (get_bytes_concat (map enc xs) pre i (enc x)).
    + simpl. rewrite Hd. reflexivity.
    + rewrite nth_error_map, Hx. reflexivity.
Qed.

Section Build.
  Variables (T R : Type) (encT : T -> bytes) (encR : R -> bytes).

  Lemma tx_section_build : forall txs rcs,
    tx_section (build encT encR txs rcs) = Some (List.concat (map encT txs)).
  Proof.
    intros. unfold tx_section, build, build_raw. simpl.
    destruct rcs as [|r rs]; simpl.
    - rewrite app_nil_r. reflexivity.
    - pose proof (slice_mid [] (List.concat (map encT txs)) (encR r ++ List.concat (map encR rs))) as S.
      simpl in S. exact S.
  Qed.

  Lemma get_tx_build_gen : forall A (dec : bytes -> option A) (f : T -> A),
    (forall x, dec (encT x) = Some (f x)) ->
    forall txs rcs i x, nth_error txs i = Some x ->
    get_tx dec (build encT encR txs rcs) (Z.of_nat i) = Ok (f x).
  Proof.
    intros A dec f Hd txs rcs i x Hx. unfold get_tx. rewrite tx_section_build.
    rewrite lazy_get_nat. unfold build, build_raw. simpl.
    pose proof (get_bytes_concat (map encT txs) [] i (encT x)) as G. simpl in G. change (blen []) with 0 in G.
    rewrite G.
    - simpl. rewrite Hd. reflexivity.
    - rewrite nth_error_map, Hx. reflexivity.
  Qed.

  Lemma get_rc_build_gen : forall A (dec : bytes -> option A) (f : R -> A),
    (forall x, dec (encR x) = Some (f x)) ->
    forall txs rcs i x, nth_error rcs i = Some x ->
    get_rc dec (build encT encR txs rcs) (Z.of_nat i) = Ok (f x).
  Proof.
    intros A dec f Hd txs rcs i x Hx. unfold get_rc. rewrite lazy_get_nat.
    unfold build, build_raw. simpl.
    rewrite (get_bytes_concat (map encR rcs) (List.concat (map encT txs)) i (encR x)).
    - simpl. rewrite Hd. reflexivity.
    - rewrite nth_error_map, Hx. reflexivity.
  Qed.

  Lemma all_txs_build_gen : forall A (dec : bytes -> option A) (f : T -> A),
    (forall x, dec (encT x) = Some (f x)) ->
    forall txs rcs, all_txs dec (build encT encR txs rcs) = Ok (map f txs).
  Proof.
    intros A dec f Hd txs rcs. unfold all_txs. rewrite tx_section_build.
    unfold build, build_raw. simpl.
    pose proof (lazy_all_concat A T encT dec f Hd txs []) as L. simpl in L. change (blen []) with 0 in L. exact L.
  Qed.

  Lemma all_rcs_build_gen : forall A (dec : bytes -> option A) (f : R -> A),
    (forall x, dec (encR x) = Some (f x)) ->
    forall txs rcs, all_rcs dec (build encT encR txs rcs) = Ok (map f rcs).
  Proof.
    intros A dec f Hd txs rcs. unfold all_rcs, build, build_raw. simpl.
    apply (lazy_all_concat A R encR dec f Hd rcs).
  Qed.

  Lemma count_build : forall txs rcs, count (build encT encR txs rcs) = List.length txs.
  Proof. intros. unfold count, build, build_raw. simpl. rewrite offsets_length, !map_length. reflexivity. Qed.

  Lemma to_int_small : forall u, u < 2 ^ 63 -> to_int u = Z.of_nat (N.to_nat u).
  Proof. intros. unfold to_int. destruct (N.ltb_spec u (2 ^ 63)); lia. Qed.

  Lemma lazy_get_oob : forall A (dec : bytes -> option A) ix d u,
    u < 2 ^ 64 -> ~ (u < N.of_nat (List.length ix)) -> lazy_get dec ix d (to_int u) = NotFound.
  Proof.
    intros A dec ix d u Hu Hn. unfold lazy_get, to_int.
    destruct (N.ltb_spec u (2 ^ 63)).
    - destruct (Z.ltb_spec (Z.of_N u) 0); [reflexivity|]. simpl orb.
      destruct (Z.leb_spec (Z.of_nat (List.length ix)) (Z.of_N u)); [reflexivity|lia].
    - assert ((Z.of_N u - 2 ^ 64 <? 0)%Z = true) as -> by (apply Z.ltb_lt; lia). reflexivity.
  Qed.

  Lemma get_tx_oob : forall A (dec : bytes -> option A) txs rcs u,
    u < 2 ^ 64 -> ~ (u < N.of_nat (List.length txs)) ->
    get_tx dec (build encT encR txs rcs) (to_int u) = NotFound.
  Proof.
    intros. unfold get_tx. rewrite tx_section_build. apply lazy_get_oob; auto.
    unfold build, build_raw; simpl. rewrite offsets_length, !map_length. auto.
  Qed.

  Lemma get_rc_oob : forall A (dec : bytes -> option A) txs rcs u,
    u < 2 ^ 64 -> ~ (u < N.of_nat (List.length rcs)) ->
    get_rc dec (build encT encR txs rcs) (to_int u) = NotFound.
  Proof.
    intros. unfold get_rc. apply lazy_get_oob; auto.
    unfold build, build_raw; simpl. rewrite offsets_length, !map_length. auto.
  Qed.

  Lemma get_neg : forall A (dec : bytes -> option A) txs rcs i, (i < 0)%Z ->
    get_tx dec (build encT encR txs rcs) i = NotFound /\ get_rc dec (build encT encR txs rcs) i = NotFound.
  Proof.
    intros. unfold get_tx, get_rc. rewrite tx_section_build. unfold lazy_get.
    assert ((i <? 0)%Z = true) as -> by (apply Z.ltb_lt; lia). auto.
  Qed.
End Build.

Lemma parse_serialize : forall hdr_enc hdr_dec,
  (forall h rest, hdr_dec (hdr_enc h ++ rest) = Some (h, rest)) ->
  forall b, parse hdr_dec (serialize hdr_enc b) = Some b.
Proof. intros. unfold parse, serialize. rewrite H. destruct b; reflexivity. Qed.
