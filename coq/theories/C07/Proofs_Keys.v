(* C07 — key codecs: big-endian fixed width, composite keys, CBOR uint keys. *)
From Coq Require Import List NArith ZArith Bool String Lia ZifyN ZifyNat ZifyBool.
From V Require Import C07.Model C07.Proofs.
Import ListNotations.
Open Scope N_scope.

Definition digits_ok (l : bytes) : Prop := Forall (fun d => d < 256) l.

Lemma be_bytes_length : forall k n, List.length (be_bytes k n) = k.
Proof. induction k; simpl; intros; auto. Qed.

Lemma be_bytes_blen : forall k n, blen (be_bytes k n) = N.of_nat k.
Proof. intros. unfold blen. rewrite be_bytes_length. reflexivity. Qed.

Lemma be_bytes_digits : forall k n, digits_ok (be_bytes k n).
Proof.
  induction k; simpl; intros.
  - constructor.
  - constructor; [apply N.mod_lt; lia | apply IHk].
Qed.

Lemma pow256_pos : forall k, 0 < 256 ^ k.
Proof. intros. apply N.neq_0_lt_0. apply N.pow_nonzero. lia. Qed.

Lemma be_val_bytes : forall k n, be_val (be_bytes k n) = n mod 256 ^ N.of_nat k.
Proof.
  induction k; intros.
  - simpl. rewrite N.mod_1_r. reflexivity.
  - simpl be_bytes. simpl be_val. rewrite be_bytes_blen, IHk.
    replace (N.of_nat (S k)) with (N.succ (N.of_nat k)) by lia.
    rewrite N.pow_succ_r'. rewrite (N.mul_comm 256).
    pose proof (pow256_pos (N.of_nat k)).
    rewrite N.mod_mul_r by lia. lia.
Qed.

Lemma be_val_lt : forall l, digits_ok l -> be_val l < 256 ^ blen l.
Proof.
  induction 1.
  - simpl. lia.
  - simpl be_val.
    replace (blen (x :: l)) with (N.succ (blen l)) by (unfold blen; simpl; lia).
    rewrite N.pow_succ_r'. nia.
Qed.

Lemma lex_lt_be_val : forall l1 l2, List.length l1 = List.length l2 -> digits_ok l1 -> digits_ok l2 ->
  (lex_lt l1 l2 = true <-> be_val l1 < be_val l2).
Proof.
  induction l1 as [|x a IH]; intros [|y b] Hl H1 H2; try discriminate.
  - simpl. split; [discriminate|lia].
  - inversion H1; subst. inversion H2; subst. simpl in Hl.
    assert (Hab : blen a = blen b) by (unfold blen; lia).
    pose proof (be_val_lt a H4). pose proof (be_val_lt b H6).
    specialize (IH b ltac:(lia) H4 H6).
    simpl. rewrite Hab in *. set (M := 256 ^ blen b) in *.
    destruct (N.ltb_spec x y); simpl.
    + split; auto. intros _. nia.
    + destruct (N.eqb_spec x y); simpl.
      * subst y. rewrite IH. lia.
      * split; [discriminate|]. intros. nia.
Qed.

Lemma be_lex : forall k a b, a < 256 ^ N.of_nat k -> b < 256 ^ N.of_nat k ->
  (lex_lt (be_bytes k a) (be_bytes k b) = true <-> a < b).
Proof.
  intros. rewrite lex_lt_be_val.
  - rewrite !be_val_bytes, !N.mod_small by assumption. reflexivity.
  - rewrite !be_bytes_length. reflexivity.
  - apply be_bytes_digits.
  - apply be_bytes_digits.
Qed.

Lemma pow_8 : 256 ^ N.of_nat 8 = 2 ^ 64.
Proof. reflexivity. Qed.

Lemma be64_roundtrip_l : forall n, n < 2 ^ 64 -> be64_dec (be64 n) = Some n.
Proof.
  intros. unfold be64_dec, be64. rewrite be_bytes_length. simpl Nat.eqb. cbv iota.
  rewrite be_val_bytes, pow_8, N.mod_small; auto.
Qed.

Lemma be64_monotone_l : forall a b, a < 2 ^ 64 -> b < 2 ^ 64 ->
  (a < b <-> lex_lt (be64 a) (be64 b) = true).
Proof. intros. symmetry. apply be_lex; rewrite pow_8; auto. Qed.

Lemma be64_inj : forall a b, a < 2 ^ 64 -> b < 2 ^ 64 -> be64 a = be64 b -> a = b.
Proof.
  intros a b Ha Hb E. apply (f_equal be64_dec) in E.
  rewrite !be64_roundtrip_l in E by assumption. congruence.
Qed.

Lemma felt_roundtrip_l : forall z, z < 2 ^ 256 -> felt_dec (felt_bytes z) = Some z.
Proof.
  intros. unfold felt_dec, felt_bytes. rewrite be_bytes_length. simpl Nat.eqb. cbv iota.
  rewrite be_val_bytes. change (256 ^ N.of_nat 32) with (2 ^ 256). rewrite N.mod_small; auto.
Qed.

Lemma felt_monotone_l : forall a b, a < 2 ^ 256 -> b < 2 ^ 256 ->
  (a < b <-> lex_lt (felt_bytes a) (felt_bytes b) = true).
Proof. intros. symmetry. apply be_lex; change (256 ^ N.of_nat 32) with (2 ^ 256); auto. Qed.

Lemma firstn_be : forall k n rest, firstn k (be_bytes k n ++ rest) = be_bytes k n.
Proof.
  intros. rewrite firstn_app, be_bytes_length, Nat.sub_diag. simpl. rewrite app_nil_r.
  rewrite <- (be_bytes_length k n) at 1. apply firstn_all.
Qed.

Lemma skipn_be : forall k n rest, skipn k (be_bytes k n ++ rest) = rest.
Proof.
  intros. rewrite skipn_app, be_bytes_length, Nat.sub_diag. simpl.
  rewrite <- (be_bytes_length k n) at 1. rewrite skipn_all. reflexivity.
Qed.

(* ---- composite keys ---- *)
Lemma bni_roundtrip_l : forall n i, n < 2 ^ 64 -> i < 2 ^ 64 -> bni_dec (bni_key n i) = Some (n, i).
Proof.
  intros. unfold bni_dec, bni_key, be64.
  rewrite app_length, !be_bytes_length. simpl Nat.ltb. cbv iota.
  rewrite firstn_be, skipn_be.
  rewrite <- (app_nil_r (be_bytes 8 i)), firstn_be.
  rewrite !be_val_bytes, pow_8, !N.mod_small; auto.
Qed.

Lemma bytes_eqb_eq : forall a b, bytes_eqb a b = true <-> a = b.
Proof.
  induction a; destruct b; simpl; split; intros; try discriminate; auto.
  - apply andb_prop in H as [H1 H2]. apply N.eqb_eq in H1. apply IHa in H2. congruence.
  - inversion H; subst. rewrite N.eqb_refl. simpl. apply IHa. reflexivity.
Qed.

Lemma has_prefix_same_len : forall p q s, List.length p = List.length q ->
  has_prefix p (q ++ s) = bytes_eqb p q.
Proof.
  induction p; destruct q; simpl; intros; try discriminate; auto.
  rewrite IHp by lia. reflexivity.
Qed.

Lemma has_prefix_app : forall p s, has_prefix p (p ++ s) = true.
Proof. induction p; simpl; intros; auto. rewrite N.eqb_refl. simpl. auto. Qed.

Lemma composite_prefix_l : forall n m i, n < 2 ^ 64 -> m < 2 ^ 64 ->
  (has_prefix (be64 n) (bni_key m i) = true <-> m = n).
Proof.
  intros. unfold bni_key. rewrite has_prefix_same_len by (unfold be64; rewrite !be_bytes_length; reflexivity).
  rewrite bytes_eqb_eq. split; intros.
  - symmetry. apply be64_inj; auto.
  - subst; reflexivity.
Qed.

(* the same inside a bucket: prefix = bucket byte ++ be64 n *)
Lemma composite_prefix_bucket_l : forall bk n m i, n < 2 ^ 64 -> m < 2 ^ 64 ->
  (has_prefix (bucket_key bk [be64 n]) (bucket_key bk [bni_key m i]) = true <-> m = n).
Proof.
  intros. unfold bucket_key. cbn [List.concat has_prefix]. rewrite N.eqb_refl, !app_nil_r.
  cbn [andb]. apply composite_prefix_l; auto.
Qed.

(* composite keys sort by (number, index) *)
Lemma lex_lt_app_same : forall p a b, lex_lt (p ++ a) (p ++ b) = lex_lt a b.
Proof. induction p; simpl; intros; auto. rewrite N.ltb_irrefl, N.eqb_refl. simpl. auto. Qed.

Lemma lex_lt_app_lt : forall p q a b, List.length p = List.length q -> lex_lt p q = true ->
  lex_lt (p ++ a) (q ++ b) = true.
Proof.
  induction p as [|x p IHp]; intros [|y q] u v Hl H; simpl in *; try discriminate.
  apply orb_prop in H as [H|H].
  - rewrite H. reflexivity.
  - apply andb_prop in H as [H1 H2]. rewrite H1. rewrite (IHp q u v); auto. apply orb_true_r.
Qed.

Lemma bni_monotone_l : forall n i m j, n < 2 ^ 64 -> i < 2 ^ 64 -> m < 2 ^ 64 -> j < 2 ^ 64 ->
  (n < m \/ (n = m /\ i < j)) -> lex_lt (bni_key n i) (bni_key m j) = true.
Proof.
  intros n i m j Hn Hi Hm Hj [H|[H1 H2]]; unfold bni_key.
  - apply lex_lt_app_lt.
    + unfold be64; rewrite !be_bytes_length; reflexivity.
    + apply be64_monotone_l; auto.
  - subst m. rewrite lex_lt_app_same. apply be64_monotone_l; auto.
Qed.

(* ---- CBOR heads ---- *)
Definition ai_len (ai : N) : option nat :=
  if ai =? 24 then Some 1%nat else if ai =? 25 then Some 2%nat
  else if ai =? 26 then Some 4%nat else if ai =? 27 then Some 8%nat else None.

Lemma head_dec_ext : forall m ai k n rest, m < 8 -> 24 <= ai < 32 -> ai_len ai = Some k ->
  n < 256 ^ N.of_nat k ->
  cbor_head_dec ((m * 32 + ai) :: be_bytes k n ++ rest) = Some (m, n, rest).
Proof.
  intros m ai k n rest Hm Hai Hk Hn. unfold cbor_head_dec.
  replace ((m * 32 + ai) / 32) with m by (apply N.div_unique with ai; lia).
  replace ((m * 32 + ai) mod 32) with ai by (apply N.mod_unique with m; lia).
  destruct (N.ltb_spec ai 24); [lia|].
  unfold ai_len in Hk. rewrite Hk.
  cbv zeta. rewrite firstn_be, be_bytes_length.
  destruct (Nat.ltb_spec k k); [lia|].
  rewrite skipn_be, be_val_bytes, N.mod_small by assumption. reflexivity.
Qed.

Lemma cbor_head_roundtrip : forall m n rest, m < 8 -> n < 2 ^ 64 ->
  cbor_head_dec (cbor_head m n ++ rest) = Some (m, n, rest).
Proof.
  intros m n rest Hm Hn. unfold cbor_head.
  destruct (N.ltb_spec n 24).
  { simpl. replace ((m * 32 + n) / 32) with m by (apply N.div_unique with n; lia).
    replace ((m * 32 + n) mod 32) with n by (apply N.mod_unique with m; lia).
    destruct (N.ltb_spec n 24); [reflexivity|lia]. }
  destruct (N.ltb_spec n 256).
  { change ([m * 32 + 24; n] ++ rest) with ((m * 32 + 24) :: [n] ++ rest).
    replace [n] with (be_bytes 1 n).
    - apply head_dec_ext; [lia | lia | reflexivity | simpl N.of_nat; simpl N.pow; lia].
    - simpl. rewrite N.div_1_r, N.mod_small by lia. reflexivity. }
  destruct (N.ltb_spec n 65536).
  { rewrite <- app_comm_cons. apply head_dec_ext; [lia | lia | reflexivity | simpl N.of_nat; simpl N.pow; lia]. }
  destruct (N.ltb_spec n 4294967296).
  { rewrite <- app_comm_cons. apply head_dec_ext; [lia | lia | reflexivity | simpl N.of_nat; simpl N.pow; lia]. }
  { rewrite <- app_comm_cons. apply head_dec_ext; [lia | lia | reflexivity | simpl N.of_nat; simpl N.pow; lia]. }
Qed.

Lemma cbor_uint_roundtrip : forall n rest, n < 2 ^ 64 ->
  cbor_uint_dec (cbor_uint n ++ rest) = Some (n, rest).
Proof.
  intros. unfold cbor_uint_dec, cbor_uint. rewrite cbor_head_roundtrip by lia. reflexivity.
Qed.

Lemma cbor_uints_roundtrip : forall l rest, Forall (fun n => n < 2 ^ 64) l ->
  cbor_uints_dec (List.length l) (List.concat (map cbor_uint l) ++ rest) = Some (l, rest).
Proof.
  induction l; intros; simpl; auto.
  inversion H; subst. rewrite <- app_assoc. rewrite cbor_uint_roundtrip by auto.
  rewrite IHl by auto. reflexivity.
Qed.

Lemma cbor_uint_array_roundtrip : forall l rest, Forall (fun n => n < 2 ^ 64) l ->
  N.of_nat (List.length l) < 2 ^ 64 ->
  cbor_uint_array_dec (cbor_uint_array l ++ rest) = Some (l, rest).
Proof.
  intros. unfold cbor_uint_array_dec, cbor_uint_array. rewrite <- app_assoc.
  rewrite cbor_head_roundtrip by lia. rewrite Nat2N.id. apply cbor_uints_roundtrip; auto.
Qed.

Definition hdr_ok (h : index_hdr) : Prop :=
  Forall (fun n => n < 2 ^ 64) (ix_tx h) /\ Forall (fun n => n < 2 ^ 64) (ix_rc h) /\
  N.of_nat (List.length (ix_tx h)) < 2 ^ 64 /\ N.of_nat (List.length (ix_rc h)) < 2 ^ 64.

Lemma cbor_hdr_roundtrip : forall h rest, hdr_ok h ->
  cbor_hdr_dec (cbor_hdr_enc h ++ rest) = Some (h, rest).
Proof.
  intros [t r] rest (Ht & Hr & Lt & Lr). cbn [ix_tx ix_rc] in *. unfold cbor_hdr_enc, cbor_hdr_dec. cbn [ix_tx ix_rc].
  destruct t as [|t0 t'], r as [|r0 r']; cbv beta iota.
  - change (0 + 0) with 0. rewrite !app_nil_r. rewrite cbor_head_roundtrip by lia. reflexivity.
  - change (0 + 1) with 1. rewrite app_nil_l. rewrite <- !app_assoc. rewrite cbor_head_roundtrip by lia.
    rewrite cbor_uint_roundtrip by lia.
    rewrite cbor_uint_array_roundtrip by auto. reflexivity.
  - change (1 + 0) with 1. rewrite app_nil_r. rewrite <- !app_assoc. rewrite cbor_head_roundtrip by lia.
    rewrite cbor_uint_roundtrip by lia.
    rewrite cbor_uint_array_roundtrip by auto. reflexivity.
  - change (1 + 1) with 2. rewrite <- !app_assoc. rewrite cbor_head_roundtrip by lia.
    rewrite cbor_uint_roundtrip by lia.
    rewrite cbor_uint_array_roundtrip by auto.
    rewrite cbor_uint_roundtrip by lia.
    rewrite cbor_uint_array_roundtrip by auto. reflexivity.
Qed.

(* ---- CBOR uint keys (the BlockTransactions bucket) sort numerically and are prefix-free ---- *)
Lemma lex_single : forall a b, lex_lt [a] [b] = (a <? b).
Proof. intros. simpl. rewrite andb_false_r, orb_false_r. reflexivity. Qed.

Lemma lex_cons_same : forall h a b, lex_lt (h :: a) (h :: b) = lex_lt a b.
Proof. intros. simpl. rewrite N.ltb_irrefl, N.eqb_refl. reflexivity. Qed.

Lemma lex_cons_lt : forall h1 h2 a b, h1 < h2 -> lex_lt (h1 :: a) (h2 :: b) = true.
Proof. intros. simpl. apply N.ltb_lt in H. rewrite H. reflexivity. Qed.

Lemma lex_cons_gt : forall h1 h2 a b, h2 < h1 -> lex_lt (h1 :: a) (h2 :: b) = false.
Proof.
  intros. simpl. destruct (N.ltb_spec h1 h2); [lia|]. destruct (N.eqb_spec h1 h2); [lia|]. reflexivity.
Qed.

Lemma cbor_uint_monotone_l : forall a b, a < 2 ^ 64 -> b < 2 ^ 64 ->
  (a < b <-> lex_lt (cbor_uint a) (cbor_uint b) = true).
Proof.
  intros a b Ha Hb. unfold cbor_uint, cbor_head. change (0 * 32) with 0. cbn [N.add].
  destruct (N.ltb_spec a 24); [|destruct (N.ltb_spec a 256); [|destruct (N.ltb_spec a 65536); [|destruct (N.ltb_spec a 4294967296)]]];
  (destruct (N.ltb_spec b 24); [|destruct (N.ltb_spec b 256); [|destruct (N.ltb_spec b 65536); [|destruct (N.ltb_spec b 4294967296)]]]);
  try (rewrite lex_cons_lt by lia; lia);
  try (rewrite lex_cons_gt by lia; split; [lia|discriminate]).
  all: try (rewrite lex_cons_same; rewrite be_lex by (simpl N.of_nat; simpl N.pow; lia); reflexivity).
  - rewrite lex_single, N.ltb_lt. reflexivity.
  - rewrite lex_cons_same, lex_single, N.ltb_lt. reflexivity.
Qed.

Lemma be_bytes_inj : forall k a b, a < 256 ^ N.of_nat k -> b < 256 ^ N.of_nat k ->
  be_bytes k a = be_bytes k b -> a = b.
Proof.
  intros k a b Ha Hb E. apply (f_equal be_val) in E. rewrite !be_val_bytes, !N.mod_small in E; auto.
Qed.

Lemma has_prefix_cons_ne : forall h1 h2 a b, h1 <> h2 -> has_prefix (h1 :: a) (h2 :: b) = false.
Proof. intros. simpl. destruct (N.eqb_spec h1 h2); [contradiction|reflexivity]. Qed.

Lemma has_prefix_be : forall k a b, a < 256 ^ N.of_nat k -> b < 256 ^ N.of_nat k ->
  has_prefix (be_bytes k a) (be_bytes k b) = true -> a = b.
Proof.
  intros k a b Ha Hb H. rewrite <- (app_nil_r (be_bytes k b)) in H.
  rewrite has_prefix_same_len in H by (rewrite !be_bytes_length; reflexivity).
  apply bytes_eqb_eq in H. eapply be_bytes_inj; eauto.
Qed.

Lemma cbor_uint_prefix_free_l : forall a b, a < 2 ^ 64 -> b < 2 ^ 64 ->
  has_prefix (cbor_uint a) (cbor_uint b) = true -> a = b.
Proof.
  intros a b Ha Hb. unfold cbor_uint, cbor_head. change (0 * 32) with 0. cbn [N.add].
  destruct (N.ltb_spec a 24); [|destruct (N.ltb_spec a 256); [|destruct (N.ltb_spec a 65536); [|destruct (N.ltb_spec a 4294967296)]]];
  (destruct (N.ltb_spec b 24); [|destruct (N.ltb_spec b 256); [|destruct (N.ltb_spec b 65536); [|destruct (N.ltb_spec b 4294967296)]]]);
  try (rewrite has_prefix_cons_ne by lia; discriminate).
  all: try (cbn [has_prefix]; rewrite N.eqb_refl; cbn [andb]; apply has_prefix_be; simpl N.of_nat; simpl N.pow; lia).
  - cbn [has_prefix]. rewrite andb_true_r. intros E. apply N.eqb_eq in E. exact E.
  - cbn [has_prefix]. rewrite N.eqb_refl, andb_true_r. cbn [andb]. intros E. apply N.eqb_eq in E. exact E.
Qed.

(* ---- a built blob has a header the concrete CBOR codec round-trips ---- *)
Fixpoint sum_N (l : list N) : N := match l with [] => 0 | x :: r => x + sum_N r end.

Lemma offsets_bound : forall lens s, Forall (fun o => o <= s + sum_N lens) (offsets s lens).
Proof.
  induction lens; simpl; intros; constructor.
  - lia.
  - eapply Forall_impl; [|apply IHlens]. simpl. intros. lia.
Qed.

Lemma sum_blen_concat : forall cs : list bytes, sum_N (map blen cs) = blen (List.concat cs).
Proof. induction cs; simpl; auto. rewrite blen_app. lia. Qed.

Lemma build_raw_hdr_ok : forall te re,
  blen (b_data (build_raw te re)) < 2 ^ 64 ->
  N.of_nat (List.length te) < 2 ^ 64 -> N.of_nat (List.length re) < 2 ^ 64 ->
  hdr_ok (b_idx (build_raw te re)).
Proof.
  intros te re Hd Ht Hr. unfold build_raw in *. simpl in *. rewrite blen_app in Hd.
  unfold hdr_ok. simpl. rewrite !offsets_length, !map_length. repeat split; auto.
  - eapply Forall_impl; [|apply offsets_bound]. simpl. intros a Ha. rewrite sum_blen_concat in Ha. lia.
  - eapply Forall_impl; [|apply offsets_bound]. simpl. intros a Ha. rewrite sum_blen_concat in Ha. lia.
Qed.

Lemma stored_parse : forall te re,
  blen (b_data (build_raw te re)) < 2 ^ 64 ->
  N.of_nat (List.length te) < 2 ^ 64 -> N.of_nat (List.length re) < 2 ^ 64 ->
  parse cbor_hdr_dec (serialize cbor_hdr_enc (build_raw te re)) = Some (build_raw te re).
Proof.
  intros. unfold parse, serialize. rewrite cbor_hdr_roundtrip by (apply build_raw_hdr_ok; auto).
  destruct (build_raw te re); reflexivity.
Qed.
