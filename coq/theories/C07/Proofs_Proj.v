(* C07 — a projection struct that passes [check_wanted] decodes to the projection of the full decode. *)
From Coq Require Import List NArith ZArith Bool String Lia.
From V Require Import C07.Model.
Import ListNotations.

Lemma ckey_eqb_refl : forall k, ckey_eqb k k = true.
Proof. destruct k; simpl; [apply String.eqb_refl | apply Z.eqb_refl]. Qed.

Lemma ckey_eqb_eq : forall a b, ckey_eqb a b = true -> a = b.
Proof.
  destruct a, b; simpl; intros; try discriminate.
  - apply String.eqb_eq in H. congruence.
  - apply Z.eqb_eq in H. congruence.
Qed.

Lemma find_field_in : forall k L g, find_field k L = Some g -> In g L /\ f_key g = k.
Proof.
  induction L as [|h t IH]; simpl; intros g H; [discriminate|].
  destruct (ckey_eqb k (f_key h)) eqn:E.
  - inversion H; subst. split; [left; reflexivity|]. symmetry. apply ckey_eqb_eq. exact E.
  - destruct (IH g H). split; [right|]; assumption.
Qed.

Lemma has_go_in : forall L g, In g L -> has_go (f_go g) L = true.
Proof.
  induction L as [|h t IH]; simpl; intros g H; [contradiction|].
  destruct H as [H|H].
  - subst. rewrite String.eqb_refl. reflexivity.
  - rewrite (IH g H). apply orb_true_r.
Qed.

Section Sound.
  Variables (V D : Type) (dec : string -> V -> option D).

  (* the full decode records, under each materialised field's Go name, what that field decodes to *)
  Lemma decode_lookup : forall (full : layout) (m : wire V) (s : sval D) (g : field),
    nodup_go full = true ->
    decode_struct V D dec full m = Some s ->
    In g full -> f_wanted g = true ->
    exists x, dec_field V D dec g m = Some x /\ lookup D (f_go g) s = x.
  Proof.
    induction full as [|f r IH]; intros m s g Hn Hd Hi Hw.
    - contradiction.
    - simpl in Hn. apply andb_prop in Hn as [Hn1 Hn2]. simpl in Hd.
      destruct Hi as [Hi|Hi].
      + subst g. rewrite Hw in Hd.
        destruct (dec_field V D dec f m) as [x|] eqn:Ex; [|discriminate].
        destruct (decode_struct V D dec r m) as [s'|]; [|discriminate].
        inversion Hd; subst s. exists x. split; auto. simpl. rewrite String.eqb_refl. reflexivity.
      + assert (Hne : String.eqb (f_go g) (f_go f) = false).
        { destruct (String.eqb (f_go g) (f_go f)) eqn:E; auto.
          apply String.eqb_eq in E. rewrite <- E in Hn1. rewrite (has_go_in r g Hi) in Hn1. discriminate. }
        destruct (f_wanted f).
        * destruct (dec_field V D dec f m) as [x|]; [|discriminate].
          destruct (decode_struct V D dec r m) as [s'|] eqn:Es; [|discriminate].
          inversion Hd; subst s. simpl. rewrite Hne. eapply IH; eauto.
        * eapply IH; eauto.
  Qed.

  Lemma dec_field_same : forall f g m, f_key f = f_key g -> f_type f = f_type g ->
    dec_field V D dec f m = dec_field V D dec g m.
  Proof. intros. unfold dec_field. rewrite H, H0. reflexivity. Qed.

  Lemma projection_sound_l : forall (full proj : layout) (m : wire V) (s : sval D),
    nodup_go full = true ->
    check_wanted full proj = true ->
    decode_struct V D dec full m = Some s ->
    decode_struct V D dec proj m = Some (project D proj s).
  Proof.
    intros full proj m s Hn Hc Hd. unfold check_wanted in Hc.
    induction proj as [|f r IH]; simpl; auto.
    simpl in Hc. apply andb_prop in Hc as [Hf Hr]. specialize (IH Hr).
    destruct (f_wanted f) eqn:Ew.
    - unfold wanted_ok in Hf. rewrite Ew in Hf. simpl in Hf.
      destruct (find_field (f_key f) full) as [g|] eqn:Eg; [|discriminate].
      apply andb_prop in Hf as [Hf Hnest]. apply andb_prop in Hf as [Hf Hk].
      apply andb_prop in Hf as [Hf Ht]. apply andb_prop in Hf as [Hw Hgo].
      apply String.eqb_eq in Ht. apply String.eqb_eq in Hgo.
      destruct (find_field_in _ _ _ Eg) as [Hin Hkey].
      destruct (decode_lookup full m s g Hn Hd Hin Hw) as [x [Hx Hl]].
      rewrite (dec_field_same f g m) by congruence.
      rewrite Hx, IH, Hgo, Hl. reflexivity.
    - exact IH.
  Qed.
End Sound.

Lemma check_projection_parts : forall full proj, check_projection full proj = true ->
  nodup_go full = true /\ check_wanted full proj = true.
Proof.
  intros. unfold check_projection in H.
  repeat (apply andb_prop in H as [H ?]). split; assumption.
Qed.
