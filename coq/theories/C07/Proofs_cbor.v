(* C07 — the CBOR item codec: decode (encode x ++ rest) = Some (x, rest) for every item within the
   decoder's limits, injectivity / prefix-freeness of encode, and the behaviour at the limits. *)
From Coq Require Import List NArith ZArith Bool String Lia ZifyN ZifyNat ZifyBool.
From V Require Import C07.Storage C07.Cbor C07.Proofs C07.Proofs_Keys.
Import ListNotations.
Open Scope N_scope.

(* ---------- induction principle for the nested type ---------- *)
Section ItemInd.
  Variable P : item -> Prop.
  Hypothesis HU : forall n, P (IUInt n).
  Hypothesis HN : forall n, P (INeg n).
  Hypothesis HB : forall b, P (IBytes b).
  Hypothesis HS : forall b, P (IText b).
  Hypothesis HA : forall l, Forall P l -> P (IArr l).
  Hypothesis HM : forall l, Forall (fun p => P (fst p) /\ P (snd p)) l -> P (IMap l).
  Hypothesis HT : forall t y, P y -> P (ITag t y).
  Hypothesis HF : P IFalse.
  Hypothesis HTr : P ITrue.
  Hypothesis HNu : P INull.

  Fixpoint item_ind' (x : item) : P x :=
    match x with
    | IUInt n => HU n
    | INeg n => HN n
    | IBytes b => HB b
    | IText b => HS b
    | IArr l => HA l ((fix go (l : list item) : Forall P l :=
                         match l with
                         | [] => Forall_nil _
                         | y :: r => Forall_cons y (item_ind' y) (go r)
                         end) l)
    | IMap l => HM l ((fix go (l : list (item * item)) : Forall (fun p => P (fst p) /\ P (snd p)) l :=
                         match l with
                         | [] => Forall_nil _
                         | (k, v) :: r => Forall_cons (k, v) (conj (item_ind' k) (item_ind' v)) (go r)
                         end) l)
    | ITag t y => HT t y (item_ind' y)
    | IFalse => HF
    | ITrue => HTr
    | INull => HNu
    end.
End ItemInd.

(* ---------- heads ---------- *)
Definition head_ai (n : N) : N :=
  if n <? 24 then n else if n <? 256 then 24 else if n <? 65536 then 25
  else if n <? 4294967296 then 26 else 27.

Lemma head_ai_lt : forall n, head_ai n < 32.
Proof.
  intros. unfold head_ai.
  destruct (N.ltb_spec n 24); [lia|]. destruct (N.ltb_spec n 256); [lia|].
  destruct (N.ltb_spec n 65536); [lia|]. destruct (N.ltb_spec n 4294967296); lia.
Qed.

Lemma cbor_head_first : forall m n, exists t, cbor_head m n = (m * 32 + head_ai n) :: t.
Proof.
  intros. unfold cbor_head, head_ai.
  destruct (N.ltb_spec n 24); [eexists; reflexivity|].
  destruct (N.ltb_spec n 256); [eexists; reflexivity|].
  destruct (N.ltb_spec n 65536); [eexists; reflexivity|].
  destruct (N.ltb_spec n 4294967296); eexists; reflexivity.
Qed.

Lemma head_min_ai : forall n, head_min (head_ai n) <= n.
Proof.
  intros. unfold head_min, head_ai.
  destruct (N.ltb_spec n 24).
  { destruct (N.ltb_spec n 24); lia. }
  destruct (N.ltb_spec n 256); [cbn; lia|].
  destruct (N.ltb_spec n 65536); [cbn; lia|].
  destruct (N.ltb_spec n 4294967296); cbn; lia.
Qed.

Lemma chead_roundtrip : forall m n rest, m < 8 -> n < 2 ^ 64 ->
  chead (cbor_head m n ++ rest) = Some (m, n, rest).
Proof.
  intros m n rest Hm Hn.
  pose proof (cbor_head_roundtrip m n rest Hm Hn) as R.
  destruct (cbor_head_first m n) as [t E]. pose proof (head_ai_lt n) as A.
  unfold chead. rewrite E in *. rewrite <- app_comm_cons in *.
  destruct (N.leb_spec 256 (m * 32 + head_ai n)); [lia|].
  rewrite R.
  replace ((m * 32 + head_ai n) mod 32) with (head_ai n) by (apply N.mod_unique with m; lia).
  pose proof (head_min_ai n). destruct (N.leb_spec (head_min (head_ai n)) n); [reflexivity|lia].
Qed.

Lemma cbor_head_len : forall m n, (1 <= List.length (cbor_head m n))%nat.
Proof. intros. destruct (cbor_head_first m n) as [t E]. rewrite E. simpl. lia. Qed.

Lemma takeN_cons : forall n x r, takeN n (x :: r) =
  if n =? 0 then Some ([], x :: r)
  else match takeN (n - 1) r with Some (a, r') => Some (x :: a, r') | None => None end.
Proof. reflexivity. Qed.

Lemma takeN_app : forall b rest, takeN (blen b) (b ++ rest) = Some (b, rest).
Proof.
  induction b as [|x b IH]; intros.
  - simpl. destruct rest; reflexivity.
  - simpl app. rewrite takeN_cons.
    destruct (N.eqb_spec (blen (x :: b)) 0) as [E|_]; [unfold blen in E; cbn [List.length] in E; lia|].
    replace (blen (x :: b) - 1) with (blen b) by (unfold blen; cbn [List.length]; lia).
    rewrite IH. reflexivity.
Qed.

Definition is_tag (x : item) : bool := match x with ITag _ _ => true | _ => false end.

Lemma div32 : forall m a, a < 32 -> (m * 32 + a) / 32 = m.
Proof. intros. symmetry. apply N.div_unique with a; lia. Qed.

Lemma next_is_tag_head : forall m n t, m < 8 -> next_is_tag (cbor_head m n ++ t) = (m =? 6).
Proof.
  intros. destruct (cbor_head_first m n) as [t' E]. rewrite E. pose proof (head_ai_lt n).
  rewrite <- app_comm_cons. unfold next_is_tag. rewrite div32 by assumption. reflexivity.
Qed.

Lemma next_is_tag_encode : forall y rest, next_is_tag (encode y ++ rest) = is_tag y.
Proof.
  intros. destruct y; simpl encode; rewrite <- ?app_assoc; rewrite ?next_is_tag_head by lia; reflexivity.
Qed.

(* ---------- unfolding of the mutual fixpoint ---------- *)
Lemma dec_item_S : forall f depth d,
  dec_item (S f) depth d =
  match chead d with
  | None => None
  | Some (m, n, r) =>
      if m =? 0 then Some (IUInt n, r)
      else if m =? 1 then Some (INeg n, r)
      else if m =? 2 then
        match takeN n r with Some (b, r') => Some (IBytes b, r') | None => None end
      else if m =? 3 then
        match takeN n r with Some (b, r') => Some (IText b, r') | None => None end
      else if m =? 4 then
        if (max_nested_levels <? depth + 1) || (max_array_elements <? n) then None
        else match dec_items f (depth + 1) n r with
             | Some (l, r') => Some (IArr l, r')
             | None => None
             end
      else if m =? 5 then
        if (max_nested_levels <? depth + 1) || (max_map_pairs <? n) then None
        else match dec_pairs f (depth + 1) n r with
             | Some (l, r') => Some (IMap l, r')
             | None => None
             end
      else if m =? 6 then
        let depth' := if next_is_tag r then depth + 1 else depth in
        if max_nested_levels <? depth' then None
        else match dec_item f depth' r with
             | Some (y, r') => Some (ITag n y, r')
             | None => None
             end
      else if n =? 20 then Some (IFalse, r)
      else if n =? 21 then Some (ITrue, r)
      else if n =? 22 then Some (INull, r)
      else None
  end.
Proof. reflexivity. Qed.

Lemma dec_items_S : forall f depth n d,
  dec_items (S f) depth n d =
  if n =? 0 then Some ([], d)
  else match dec_item f depth d with
       | None => None
       | Some (x, r) =>
           match dec_items f depth (n - 1) r with
           | Some (l, r') => Some (x :: l, r')
           | None => None
           end
       end.
Proof. reflexivity. Qed.

Lemma dec_pairs_S : forall f depth n d,
  dec_pairs (S f) depth n d =
  if n =? 0 then Some ([], d)
  else match dec_item f depth d with
       | None => None
       | Some (k, r) =>
           match dec_item f depth r with
           | None => None
           | Some (v, r1) =>
               match dec_pairs f depth (n - 1) r1 with
               | Some (l, r') => Some ((k, v) :: l, r')
               | None => None
               end
           end
       end.
Proof. reflexivity. Qed.

(* ---------- fuel ---------- *)
Definition need_list {A : Type} (f : A -> nat) (l : list A) : nat :=
  fold_right (fun y a => S (Nat.max (f y) a)) 1%nat l.

Fixpoint need (x : item) : nat :=
  match x with
  | IArr l => S (need_list need l)
  | IMap l => S (need_list (fun p => match p with (k, v) => Nat.max (need k) (need v) end) l)
  | ITag _ y => S (need y)
  | _ => 1%nat
  end.

Definition pair_enc (p : item * item) : bytes := match p with (k, v) => encode k ++ encode v end.

Lemma encode_arr : forall l, encode (IArr l) = cbor_head 4 (llen l) ++ List.concat (map encode l).
Proof. reflexivity. Qed.
Lemma encode_map : forall l, encode (IMap l) = cbor_head 5 (llen l) ++ List.concat (map pair_enc l).
Proof. reflexivity. Qed.

Lemma encode_len_pos : forall x, (1 <= List.length (encode x))%nat.
Proof.
  destruct x; simpl; rewrite ?app_length;
    try (match goal with |- context [cbor_head ?m ?n] => pose proof (cbor_head_len m n) end); lia.
Qed.

Lemma need_list_bound : forall (A : Type) (f : A -> nat) (enc : A -> bytes) l,
  Forall (fun y => (f y <= 2 * List.length (enc y))%nat /\ (1 <= List.length (enc y))%nat) l ->
  (need_list f l <= 2 * List.length (List.concat (map enc l)) + 1)%nat.
Proof.
  induction 1 as [|y l [Hy Hp] Hl IH]; simpl; [lia|].
  rewrite app_length. fold (need_list f l). lia.
Qed.

Lemma need_bound : forall x, (need x <= 2 * List.length (encode x))%nat.
Proof.
  induction x using item_ind'; try (simpl; lia);
    try (simpl encode; rewrite app_length; pose proof (cbor_head_len 2 (blen b));
         pose proof (cbor_head_len 3 (blen b)); simpl need; lia);
    try (simpl encode; pose proof (cbor_head_len 0 n); pose proof (cbor_head_len 1 n); simpl need; lia).
  - (* array *)
    rewrite encode_arr, app_length. pose proof (cbor_head_len 4 (llen l)). simpl need.
    assert (need_list need l <= 2 * List.length (List.concat (map encode l)) + 1)%nat; [|lia].
    apply need_list_bound. eapply Forall_impl; [|exact H]. intros y Hy. split; [exact Hy|apply encode_len_pos].
  - (* map *)
    rewrite encode_map, app_length. pose proof (cbor_head_len 5 (llen l)). simpl need.
    set (g := fun p : item * item => match p with (k, v) => Nat.max (need k) (need v) end).
    assert (need_list g l <= 2 * List.length (List.concat (map pair_enc l)) + 1)%nat; [|lia].
    apply need_list_bound. eapply Forall_impl; [|exact H]. intros [k v] [Hk Hv]. simpl in Hk, Hv.
    unfold g, pair_enc. rewrite app_length. pose proof (encode_len_pos k). pose proof (encode_len_pos v). lia.
  - (* tag *)
    simpl encode. rewrite app_length. pose proof (cbor_head_len 6 t). simpl need. lia.
Qed.

(* ---------- the round trip ---------- *)
Definition rt (y : item) : Prop :=
  forall fuel depth rest, item_ok y = true -> depth + ht y <= max_nested_levels -> (need y <= fuel)%nat ->
    dec_item fuel depth (encode y ++ rest) = Some (y, rest).

Lemma llen_cons : forall A (x : A) l, llen (x :: l) - 1 = llen l.
Proof. intros. unfold llen. cbn [List.length]. lia. Qed.
Lemma llen_cons_ne : forall A (x : A) l, (llen (x :: l) =? 0) = false.
Proof. intros. unfold llen. cbn [List.length]. apply N.eqb_neq. lia. Qed.

Lemma dec_items_encode : forall l, Forall rt l ->
  forall fuel depth rest, forallb item_ok l = true -> depth + nmax_list ht l <= max_nested_levels ->
  (need_list need l <= fuel)%nat ->
  dec_items fuel depth (llen l) (List.concat (map encode l) ++ rest) = Some (l, rest).
Proof.
  induction 1 as [|y l Hy Hl IH]; intros fuel depth rest Hok Hd Hf.
  - destruct fuel; [simpl in Hf; lia|]. rewrite dec_items_S. reflexivity.
  - simpl in Hf. fold (need_list need l) in Hf. destruct fuel; [lia|].
    simpl in Hok. apply andb_true_iff in Hok. destruct Hok as [Ho1 Ho2].
    simpl in Hd.
    rewrite dec_items_S, llen_cons_ne, llen_cons. simpl map. simpl List.concat. rewrite <- app_assoc.
    rewrite Hy by (try assumption; lia).
    rewrite IH by (try assumption; lia). reflexivity.
Qed.

Definition pair_ok (p : item * item) : bool := match p with (k, v) => item_ok k && item_ok v end.
Definition pair_ht (p : item * item) : N := match p with (k, v) => N.max (ht k) (ht v) end.
Definition pair_need (p : item * item) : nat := match p with (k, v) => Nat.max (need k) (need v) end.

Lemma dec_pairs_encode : forall l, Forall (fun p => rt (fst p) /\ rt (snd p)) l ->
  forall fuel depth rest, forallb pair_ok l = true -> depth + nmax_list pair_ht l <= max_nested_levels ->
  (need_list pair_need l <= fuel)%nat ->
  dec_pairs fuel depth (llen l) (List.concat (map pair_enc l) ++ rest) = Some (l, rest).
Proof.
  induction 1 as [|[k v] l [Hk Hv] Hl IH]; intros fuel depth rest Hok Hd Hf.
  - destruct fuel; [simpl in Hf; lia|]. rewrite dec_pairs_S. reflexivity.
  - simpl in Hf. fold (need_list pair_need l) in Hf. destruct fuel; [lia|].
    simpl in Hok. apply andb_true_iff in Hok. destruct Hok as [Ho1 Ho2].
    apply andb_true_iff in Ho1. destruct Ho1 as [Ok Ov].
    simpl in Hd. simpl fst in *. simpl snd in *.
    rewrite dec_pairs_S, llen_cons_ne, llen_cons. simpl map. simpl List.concat. unfold pair_enc at 1.
    rewrite <- !app_assoc.
    rewrite Hk by (try assumption; lia).
    rewrite Hv by (try assumption; lia).
    rewrite IH by (try assumption; lia). reflexivity.
Qed.

Lemma ht_arr : forall l, ht (IArr l) = 1 + nmax_list ht l.
Proof. reflexivity. Qed.
Lemma ht_map : forall l, ht (IMap l) = 1 + nmax_list pair_ht l.
Proof. reflexivity. Qed.
Lemma ht_tag : forall t x, ht (ITag t x) = if is_tag x then 1 + ht x else ht x.
Proof. intros. destruct x; reflexivity. Qed.
Lemma max_nest_val : max_nested_levels = 32. Proof. reflexivity. Qed.

Lemma max_arr_lt : max_array_elements < 2 ^ 64. Proof. reflexivity. Qed.
Lemma max_map_lt : max_map_pairs < 2 ^ 64. Proof. reflexivity. Qed.

Lemma item_ok_uint : forall n, item_ok (IUInt n) = true -> n < 2 ^ 64.
Proof. intros n H. apply N.ltb_lt. exact H. Qed.
Lemma item_ok_neg : forall n, item_ok (INeg n) = true -> n < 2 ^ 64.
Proof. intros n H. apply N.ltb_lt. exact H. Qed.
Lemma item_ok_bytes : forall b, item_ok (IBytes b) = true -> blen b < 2 ^ 64.
Proof. intros n H. apply N.ltb_lt. exact H. Qed.
Lemma item_ok_text : forall b, item_ok (IText b) = true -> blen b < 2 ^ 64.
Proof. intros n H. apply N.ltb_lt. exact H. Qed.
Lemma item_ok_tag : forall t y, item_ok (ITag t y) = true -> t < 2 ^ 64 /\ item_ok y = true.
Proof.
  intros t y H. change (item_ok (ITag t y)) with ((t <? 2 ^ 64) && item_ok y) in H.
  apply andb_true_iff in H. destruct H as [A B]. apply N.ltb_lt in A. auto.
Qed.

Lemma dec_item_encode : forall x, rt x.
Proof.
  induction x using item_ind'; unfold rt; intros fuel depth rest Hok Hd Hf;
    (destruct fuel; [simpl in Hf; lia|]); rewrite dec_item_S.
  - apply item_ok_uint in Hok. simpl encode. rewrite chead_roundtrip by lia. reflexivity.
  - apply item_ok_neg in Hok. simpl encode. rewrite chead_roundtrip by lia. reflexivity.
  - apply item_ok_bytes in Hok. simpl encode. rewrite <- app_assoc, chead_roundtrip by lia.
    cbn [N.eqb Pos.eqb]. rewrite takeN_app. reflexivity.
  - apply item_ok_text in Hok. simpl encode. rewrite <- app_assoc, chead_roundtrip by lia.
    cbn [N.eqb Pos.eqb]. rewrite takeN_app. reflexivity.
  - (* array *)
    simpl in Hok. apply andb_true_iff in Hok. destruct Hok as [Hlen Hall]. apply N.leb_le in Hlen.
    pose proof max_arr_lt. rewrite ht_arr in Hd. simpl in Hf.
    rewrite encode_arr, <- app_assoc, chead_roundtrip by lia. cbn [N.eqb Pos.eqb].
    destruct (N.ltb_spec max_nested_levels (depth + 1)); [lia|].
    destruct (N.ltb_spec max_array_elements (llen l)); [lia|]. cbn [orb].
    rewrite dec_items_encode; auto; try lia.
  - (* map *)
    simpl in Hok. apply andb_true_iff in Hok. destruct Hok as [Hlen Hall]. apply N.leb_le in Hlen.
    pose proof max_map_lt. rewrite ht_map in Hd. simpl in Hf.
    rewrite encode_map, <- app_assoc, chead_roundtrip by lia. cbn [N.eqb Pos.eqb].
    destruct (N.ltb_spec max_nested_levels (depth + 1)); [lia|].
    destruct (N.ltb_spec max_map_pairs (llen l)); [lia|]. cbn [orb].
    rewrite dec_pairs_encode; auto; try lia.
    unfold pair_need. lia.
  - (* tag *)
    apply item_ok_tag in Hok. destruct Hok as [Ht Hy].
    simpl encode. rewrite <- app_assoc, chead_roundtrip by lia. cbn [N.eqb Pos.eqb]. cbv zeta.
    rewrite next_is_tag_encode. simpl in Hf.
    assert (Hd' : (if is_tag x then depth + 1 else depth) + ht x <= max_nested_levels).
    { rewrite ht_tag in Hd. destruct (is_tag x); lia. }
    destruct (N.ltb_spec max_nested_levels (if is_tag x then depth + 1 else depth)); [lia|].
    rewrite IHx by (try assumption; lia). reflexivity.
  - simpl encode. simpl app. reflexivity.
  - simpl encode. simpl app. reflexivity.
  - simpl encode. simpl app. reflexivity.
Qed.

Lemma wf_item_parts : forall x, wf_item x = true -> item_ok x = true /\ ht x <= max_nested_levels.
Proof. intros x H. unfold wf_item in H. apply andb_true_iff in H. destruct H as [A B]. apply N.leb_le in B. auto. Qed.

Theorem decode_encode : forall x rest, wf_item x = true -> decode (encode x ++ rest) = Some (x, rest).
Proof.
  intros x rest H. destruct (wf_item_parts x H) as [A B]. unfold decode.
  apply dec_item_encode; auto; try lia.
  pose proof (need_bound x). rewrite app_length. lia.
Qed.

Corollary decode_all_encode : forall x, wf_item x = true -> decode_all (encode x) = Some x.
Proof.
  intros. unfold decode_all. rewrite <- (app_nil_r (encode x)). rewrite decode_encode by assumption. reflexivity.
Qed.

(* prefix-freeness, hence injectivity: no canonical encoding is a proper prefix of another *)
Theorem encode_prefix_free : forall x y r1 r2, wf_item x = true -> wf_item y = true ->
  encode x ++ r1 = encode y ++ r2 -> x = y /\ r1 = r2.
Proof.
  intros x y r1 r2 Hx Hy E.
  pose proof (decode_encode x r1 Hx) as D1. pose proof (decode_encode y r2 Hy) as D2.
  rewrite E in D1. rewrite D1 in D2. inversion D2. auto.
Qed.

Corollary encode_injective : forall x y, wf_item x = true -> wf_item y = true -> encode x = encode y -> x = y.
Proof.
  intros x y Hx Hy E. apply (encode_prefix_free x y [] [] Hx Hy). rewrite E. reflexivity.
Qed.

(* ---------- at the limits ---------- *)
(* an array (map) longer than the configured limit is rejected, whatever it contains and whatever
   fuel / depth: the length in the head alone decides *)
Lemma dec_item_array_over : forall l rest fuel depth, llen l < 2 ^ 64 -> max_array_elements < llen l ->
  dec_item fuel depth (encode (IArr l) ++ rest) = None.
Proof.
  intros. destruct fuel; [reflexivity|]. rewrite dec_item_S.
  rewrite encode_arr, <- app_assoc, chead_roundtrip by lia. cbn [N.eqb Pos.eqb].
  destruct (N.ltb_spec max_array_elements (llen l)); [|lia]. rewrite orb_true_r. reflexivity.
Qed.

Lemma dec_item_map_over : forall l rest fuel depth, llen l < 2 ^ 64 -> max_map_pairs < llen l ->
  dec_item fuel depth (encode (IMap l) ++ rest) = None.
Proof.
  intros. destruct fuel; [reflexivity|]. rewrite dec_item_S.
  rewrite encode_map, <- app_assoc, chead_roundtrip by lia. cbn [N.eqb Pos.eqb].
  destruct (N.ltb_spec max_map_pairs (llen l)); [|lia]. rewrite orb_true_r. reflexivity.
Qed.

(* nesting: k arrays around an item; at the limit accepted, one deeper rejected *)
Fixpoint nest (k : nat) (x : item) : item := match k with O => x | S k' => IArr [nest k' x] end.

Lemma ht_nest : forall k x, ht (nest k x) = N.of_nat k + ht x.
Proof.
  induction k; intros.
  - simpl nest. lia.
  - change (nest (S k) x) with (IArr [nest k x]). rewrite ht_arr. unfold nmax_list. simpl fold_right.
    rewrite IHk. lia.
Qed.

Lemma item_ok_nest : forall k x, item_ok x = true -> item_ok (nest k x) = true.
Proof. induction k; intros; simpl; auto. rewrite IHk by assumption. reflexivity. Qed.

(* any item placed below more arrays than MaxNestedLevels is rejected, for every fuel *)
Lemma dec_item_too_deep : forall k x rest fuel depth,
  max_nested_levels < depth + N.of_nat k -> (0 < k)%nat ->
  dec_item fuel depth (encode (nest k x) ++ rest) = None.
Proof.
  induction k as [|k IH]; intros x rest fuel depth Hd Hk; [lia|].
  destruct fuel; [reflexivity|]. rewrite dec_item_S. simpl nest.
  rewrite encode_arr, <- app_assoc, chead_roundtrip by (unfold llen; cbn [List.length]; lia). cbn [N.eqb Pos.eqb].
  destruct (N.ltb_spec max_nested_levels (depth + 1)); [reflexivity|]. cbn [orb].
  destruct (N.ltb_spec max_array_elements (llen [nest k x])); [reflexivity|].
  destruct fuel; [reflexivity|]. rewrite dec_items_S.
  change (llen [nest k x] =? 0) with false. cbv iota.
  simpl map. simpl List.concat. rewrite app_nil_r.
  destruct k as [|k'].
  - lia.
  - rewrite IH by lia. reflexivity.
Qed.
