(* C07 — the indexed-blob theorems with the modelled CBOR codec as the item codec: no hypothesis about
   the codec is left, only that the stored values have the shape they are marshalled with. *)
From Coq Require Import List NArith ZArith Bool String Lia ZifyN ZifyNat ZifyBool.
From V Require Import C07.Storage C07.Cbor C07.Shapes C07.Proofs C07.Proofs_cbor C07.Proofs_cbor_ty.
Import ListNotations.
Open Scope N_scope.

Section Guarded.
  (* an item codec that round-trips on the values satisfying P *)
  Variables (T R : Type) (encT : T -> bytes) (encR : R -> bytes).
  Variables (decT : bytes -> option T) (decR : bytes -> option R) (PT : T -> Prop) (PR : R -> Prop).
  Hypothesis HT : forall x, PT x -> decT (encT x) = Some x.
  Hypothesis HR : forall x, PR x -> decR (encR x) = Some x.

  Lemma get_tx_build_guarded : forall txs rcs i x, nth_error txs i = Some x -> PT x ->
    get_tx decT (build encT encR txs rcs) (Z.of_nat i) = Ok x.
  Proof.
    intros txs rcs i x Hx Px. unfold get_tx. rewrite tx_section_build.
    rewrite lazy_get_nat. unfold build, build_raw. simpl.
    pose proof (get_bytes_concat (map encT txs) [] i (encT x)) as G. simpl in G. change (blen []) with 0 in G.
    rewrite G.
    - simpl. rewrite HT by assumption. reflexivity.
    - rewrite nth_error_map, Hx. reflexivity.
  Qed.

  Lemma get_rc_build_guarded : forall txs rcs i x, nth_error rcs i = Some x -> PR x ->
    get_rc decR (build encT encR txs rcs) (Z.of_nat i) = Ok x.
  Proof.
    intros txs rcs i x Hx Px. unfold get_rc. rewrite lazy_get_nat.
    unfold build, build_raw. simpl.
    rewrite (get_bytes_concat (map encR rcs) (List.concat (map encT txs)) i (encR x)).
    - simpl. rewrite HR by assumption. reflexivity.
    - rewrite nth_error_map, Hx. reflexivity.
  Qed.
End Guarded.

Lemma lazy_all_concat_guarded : forall X (enc : X -> bytes) (dec : bytes -> option X) (P : X -> Prop),
  (forall x, P x -> dec (enc x) = Some x) ->
  forall (xs : list X) (pre : bytes), Forall P xs ->
  lazy_all dec (offsets (blen pre) (map blen (map enc xs))) (pre ++ List.concat (map enc xs)) = Ok xs.
Proof.
  intros X enc dec P Hd xs pre HP. unfold lazy_all.
  rewrite offsets_length, !map_length.
  rewrite (map_seq_pointwise _ _ _ (fun x => Ok x) xs 0).
  - apply res_all_ok.
  - intros i x Hx. simpl.
    rewrite (get_bytes_concat (map enc xs) pre i (enc x)).
    + simpl. rewrite Hd; [reflexivity|]. rewrite Forall_forall in HP. apply HP. eapply nth_error_In; eauto.
    + rewrite nth_error_map, Hx. reflexivity.
Qed.

Lemma all_build_guarded : forall (T R : Type) (encT : T -> bytes) (encR : R -> bytes)
  (decT : bytes -> option T) (decR : bytes -> option R) (PT : T -> Prop) (PR : R -> Prop),
  (forall x, PT x -> decT (encT x) = Some x) -> (forall x, PR x -> decR (encR x) = Some x) ->
  forall txs rcs, Forall PT txs -> Forall PR rcs ->
  all_txs decT (build encT encR txs rcs) = Ok txs /\ all_rcs decR (build encT encR txs rcs) = Ok rcs.
Proof.
  intros T R encT encR decT decR PT PR HT HR txs rcs FT FR. split.
  - unfold all_txs. rewrite tx_section_build. unfold build, build_raw. simpl.
    pose proof (lazy_all_concat_guarded T encT decT PT HT txs [] FT) as L. simpl in L. change (blen []) with 0 in L.
    exact L.
  - unfold all_rcs, build, build_raw. simpl. apply (lazy_all_concat_guarded R encR decR PR HR rcs); assumption.
Qed.

Definition typed (t : ty) (v : val) : Prop := has_type t v = true.

Theorem cbor_get_build : forall tT tR, shape_ok tT = true -> shape_ok tR = true ->
  forall (txs rcs : list val) (i : nat),
  (forall x, nth_error txs i = Some x -> has_type tT x = true ->
     get_tx (unmarshal tT) (build (marshal tT) (marshal tR) txs rcs) (Z.of_nat i) = Ok x) /\
  (forall r, nth_error rcs i = Some r -> has_type tR r = true ->
     get_rc (unmarshal tR) (build (marshal tT) (marshal tR) txs rcs) (Z.of_nat i) = Ok r).
Proof.
  intros tT tR HT HR txs rcs i. split; intros x Hx Hty.
  - apply (get_tx_build_guarded val val (marshal tT) (marshal tR) (unmarshal tT) (typed tT)); auto.
    intros y Hy. apply unmarshal_marshal; assumption.
  - apply (get_rc_build_guarded val val (marshal tT) (marshal tR) (unmarshal tR) (typed tR)); auto.
    intros y Hy. apply unmarshal_marshal; assumption.
Qed.

Theorem cbor_all_build : forall tT tR, shape_ok tT = true -> shape_ok tR = true ->
  forall (txs rcs : list val), Forall (typed tT) txs -> Forall (typed tR) rcs ->
  all_txs (unmarshal tT) (build (marshal tT) (marshal tR) txs rcs) = Ok txs /\
  all_rcs (unmarshal tR) (build (marshal tT) (marshal tR) txs rcs) = Ok rcs.
Proof.
  intros tT tR HT HR txs rcs FT FR.
  apply (all_build_guarded val val (marshal tT) (marshal tR) (unmarshal tT) (unmarshal tR) (typed tT) (typed tR)); auto.
  - intros y Hy. apply unmarshal_marshal; assumption.
  - intros y Hy. apply unmarshal_marshal; assumption.
Qed.

Lemma shapes_all_ok : forallb (fun p => shape_ok (snd p)) shapes = true.
Proof. vm_compute. reflexivity. Qed.

Lemma shape_in_ok : forall n t, In (n, t) shapes -> shape_ok t = true.
Proof.
  intros n t H. pose proof shapes_all_ok as A. rewrite forallb_forall in A. apply (A (n, t) H).
Qed.
