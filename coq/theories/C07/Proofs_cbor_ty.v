(* C07 — the typed layer over the CBOR item codec: for every Go value shape [t] accepted by [ty_ok] and
   every value of that shape, of_item t (to_item t v) = Some v, the item is within the decoder's limits,
   hence unmarshal t (marshal t v) = Some v without any hypothesis about the codec. *)
From Coq Require Import List NArith ZArith Bool String Lia ZifyN ZifyNat ZifyBool.
From V Require Import C07.Storage C07.Cbor C07.Proofs C07.Proofs_Keys C07.Proofs_cbor.
Import ListNotations.
Open Scope N_scope.

(* ---------- induction principle for shapes ---------- *)
Section TyInd.
  Variable P : ty -> Prop.
  Hypothesis HUint : forall b, P (TUint b).
  Hypothesis HBool : P TBool.
  Hypothesis HText : P TText.
  Hypothesis HBin : P TBin.
  Hypothesis HByteArr : forall n, P (TByteArr n).
  Hypothesis HByteSlice : P TByteSlice.
  Hypothesis HFelt : P TFelt.
  Hypothesis HPtr : forall t, P t -> P (TPtr t).
  Hypothesis HSlice : forall t, P t -> P (TSlice t).
  Hypothesis HMap : forall k v, P k -> P v -> P (TMap k v).
  Hypothesis HStruct : forall fs, Forall (fun f => P (snd f)) fs -> P (TStruct fs).
  Hypothesis HIface : forall alts, Forall (fun a => P (snd a)) alts -> P (TIface alts).

  Fixpoint ty_ind' (t : ty) : P t :=
    match t with
    | TUint b => HUint b
    | TBool => HBool
    | TText => HText
    | TBin => HBin
    | TByteArr n => HByteArr n
    | TByteSlice => HByteSlice
    | TFelt => HFelt
    | TPtr t' => HPtr t' (ty_ind' t')
    | TSlice t' => HSlice t' (ty_ind' t')
    | TMap k v => HMap k v (ty_ind' k) (ty_ind' v)
    | TStruct fs => HStruct fs ((fix go (fs : list (fkey * bool * ty)) : Forall (fun f => P (snd f)) fs :=
                                   match fs with
                                   | [] => Forall_nil _
                                   | (k, oe, ft) :: r => Forall_cons (k, oe, ft) (ty_ind' ft) (go r)
                                   end) fs)
    | TIface alts => HIface alts ((fix go (alts : list (N * ty)) : Forall (fun a => P (snd a)) alts :=
                                     match alts with
                                     | [] => Forall_nil _
                                     | (tg, ta) :: r => Forall_cons (tg, ta) (ty_ind' ta) (go r)
                                     end) alts)
    end.
End TyInd.

(* ---------- the nested fixpoints of Cbor.v as stand-alone functions ---------- *)
Fixpoint struct_pairs (fs : list (fkey * bool * ty)) (vs : list val) {struct fs} : list (item * item) :=
  match fs, vs with
  | (k, oe, ft) :: fs', x :: vs' =>
      if oe && is_empty ft x then struct_pairs fs' vs' else (key_item k, to_item ft x) :: struct_pairs fs' vs'
  | _, _ => []
  end.

Definition struct_vals (l : list (item * item)) : list (fkey * bool * ty) -> option (list val) :=
  fix go (fs : list (fkey * bool * ty)) : option (list val) :=
    match fs with
    | [] => Some []
    | (k, _, ft) :: fs' =>
        match (match find_pair (encode (key_item k)) l with
               | None => Some (zero_val ft)
               | Some y => of_item ft y
               end) with
        | None => None
        | Some a => match go fs' with Some r => Some (a :: r) | None => None end
        end
    end.

Definition bad_empty (x : val) : bool := match x with VList [] | VMap [] | VBin [] => true | _ => false end.

Fixpoint struct_typed (fs : list (fkey * bool * ty)) (vs : list val) {struct fs} : bool :=
  match fs, vs with
  | [], [] => true
  | (_, oe, ft) :: fs', x :: vs' => has_type ft x && negb (oe && bad_empty x) && struct_typed fs' vs'
  | _, _ => false
  end.

Fixpoint fields_ok (fs : list (fkey * bool * ty)) : bool :=
  match fs with
  | [] => true
  | (k, oe, ft) :: fs' => key_ok k && (negb oe || omit_ok ft) && ty_ok ft && fields_ok fs'
  end.

Definition field_kb (f : fkey * bool * ty) : bytes := match f with (k, _, _) => encode (key_item k) end.

Definition iface_item (tag : N) (x : val) : list (N * ty) -> item :=
  fix go (alts : list (N * ty)) : item :=
    match alts with
    | (tg, ta) :: r => if tg =? tag then ITag tag (to_item ta x) else go r
    | [] => INull
    end.

Definition iface_val (tag : N) (y : item) : list (N * ty) -> option val :=
  fix go (alts : list (N * ty)) : option val :=
    match alts with
    | (tg, ta) :: r =>
        if tg =? tag then match of_item ta y with Some a => Some (VIface tag a) | None => None end
        else go r
    | [] => None
    end.

Definition iface_typed (tag : N) (x : val) : list (N * ty) -> bool :=
  fix go (alts : list (N * ty)) : bool :=
    match alts with
    | (tg, ta) :: r => if tg =? tag then has_type ta x else go r
    | [] => false
    end.

Fixpoint alts_ok (alts : list (N * ty)) : bool :=
  match alts with
  | [] => true
  | (tg, ta) :: r => (tg <? 2 ^ 64) && is_struct ta && ty_ok ta && alts_ok r
  end.

Lemma to_item_struct : forall fs vs, to_item (TStruct fs) (VStruct vs) = IMap (sort_pairs (struct_pairs fs vs)).
Proof. reflexivity. Qed.
Lemma of_item_struct : forall fs l, of_item (TStruct fs) (IMap l) =
  match struct_vals l fs with Some vs => Some (VStruct vs) | None => None end.
Proof. reflexivity. Qed.
Lemma has_type_struct : forall fs vs, has_type (TStruct fs) (VStruct vs) = struct_typed fs vs.
Proof. reflexivity. Qed.
Lemma ty_ok_struct : forall fs, ty_ok (TStruct fs) =
  (llen fs <=? max_map_pairs) && nodup_bytes (map field_kb fs) && fields_ok fs.
Proof. reflexivity. Qed.
Lemma to_item_iface : forall alts tag x, to_item (TIface alts) (VIface tag x) = iface_item tag x alts.
Proof. reflexivity. Qed.
Lemma of_item_iface : forall alts tag y, of_item (TIface alts) (ITag tag y) = iface_val tag y alts.
Proof. reflexivity. Qed.
Lemma has_type_iface : forall alts tag x, has_type (TIface alts) (VIface tag x) = iface_typed tag x alts.
Proof. reflexivity. Qed.
Lemma ty_ok_iface : forall alts, ty_ok (TIface alts) =
  nodup_bytes (map (fun a => match a with (tg, _) => cbor_head 6 tg end) alts) && alts_ok alts.
Proof. reflexivity. Qed.

Lemma struct_vals_cons : forall l k oe ft fs',
  struct_vals l ((k, oe, ft) :: fs') =
  match (match find_pair (encode (key_item k)) l with
         | None => Some (zero_val ft)
         | Some y => of_item ft y
         end) with
  | None => None
  | Some a => match struct_vals l fs' with Some r => Some (a :: r) | None => None end
  end.
Proof. reflexivity. Qed.

(* ---------- insertion sort of pairs: what it preserves ---------- *)
Definition ek (p : item * item) : bytes := encode (fst p).

Lemma insert_pair_in_keys : forall p l x,
  In x (map ek (insert_pair p l)) <-> x = ek p \/ In x (map ek l).
Proof.
  induction l as [|q r IH]; intros; simpl.
  - intuition.
  - destruct (key_lt (encode (fst q)) (encode (fst p))); simpl.
    + rewrite IH. intuition.
    + intuition.
Qed.

Lemma sort_pairs_in_keys : forall l x, In x (map ek (sort_pairs l)) <-> In x (map ek l).
Proof.
  induction l as [|p l IH]; intros; simpl; [tauto|].
  unfold sort_pairs in *. simpl fold_right. rewrite insert_pair_in_keys, IH. intuition.
Qed.

Lemma find_pair_cons : forall kb k v r,
  find_pair kb ((k, v) :: r) = if bytes_eqb (encode k) kb then Some v else find_pair kb r.
Proof. reflexivity. Qed.

Lemma find_pair_notin : forall kb l, ~ In kb (map ek l) -> find_pair kb l = None.
Proof.
  induction l as [|[k v] r IH]; intros H; [reflexivity|].
  rewrite find_pair_cons. simpl in H.
  destruct (bytes_eqb (encode k) kb) eqn:E.
  - apply bytes_eqb_eq in E. exfalso. apply H. left. exact E.
  - apply IH. intro. apply H. right. assumption.
Qed.

Lemma bytes_eqb_refl : forall a, bytes_eqb a a = true.
Proof. intros. apply bytes_eqb_eq. reflexivity. Qed.

Lemma bytes_eqb_neq : forall a b, a <> b -> bytes_eqb a b = false.
Proof. intros. destruct (bytes_eqb a b) eqn:E; auto. apply bytes_eqb_eq in E. contradiction. Qed.

Lemma find_pair_insert : forall kb p l, ~ In (ek p) (map ek l) ->
  find_pair kb (insert_pair p l) = find_pair kb (p :: l).
Proof.
  induction l as [|[k v] r IH]; intros H; [reflexivity|].
  simpl insert_pair. destruct (key_lt (encode k) (encode (fst p))); [|reflexivity].
  destruct p as [pk pv]. simpl in H. unfold ek in H at 1 2. simpl fst in *.
  rewrite !find_pair_cons. rewrite IH by (intro; apply H; right; assumption).
  rewrite find_pair_cons.
  destruct (bytes_eqb (encode k) kb) eqn:E1; destruct (bytes_eqb (encode pk) kb) eqn:E2; auto.
  apply bytes_eqb_eq in E1. apply bytes_eqb_eq in E2. exfalso. apply H. left. congruence.
Qed.

Lemma find_pair_sort : forall kb l, NoDup (map ek l) ->
  find_pair kb (sort_pairs l) = find_pair kb l.
Proof.
  induction l as [|p l IH]; intros H; [reflexivity|].
  inversion H; subst. unfold sort_pairs. simpl fold_right. fold (sort_pairs l).
  rewrite find_pair_insert by (rewrite sort_pairs_in_keys; assumption).
  destruct p as [k v]. rewrite !find_pair_cons. rewrite IH by assumption. reflexivity.
Qed.

Lemma forallb_insert : forall (P : item * item -> bool) p l,
  forallb P (insert_pair p l) = P p && forallb P l.
Proof.
  induction l as [|q r IH]; simpl; [reflexivity|].
  destruct (key_lt (encode (fst q)) (encode (fst p))); simpl; [|reflexivity].
  rewrite IH. destruct (P q), (P p); reflexivity.
Qed.

Lemma forallb_sort : forall (P : item * item -> bool) l, forallb P (sort_pairs l) = forallb P l.
Proof.
  induction l as [|p l IH]; [reflexivity|].
  unfold sort_pairs. simpl fold_right. fold (sort_pairs l). rewrite forallb_insert, IH. reflexivity.
Qed.

Lemma length_insert : forall p l, List.length (insert_pair p l) = S (List.length l).
Proof.
  induction l as [|q r IH]; simpl; [reflexivity|].
  destruct (key_lt (encode (fst q)) (encode (fst p))); simpl; [rewrite IH|]; reflexivity.
Qed.

Lemma length_sort : forall l, List.length (sort_pairs l) = List.length l.
Proof.
  induction l as [|p l IH]; [reflexivity|].
  unfold sort_pairs. simpl fold_right. fold (sort_pairs l). rewrite length_insert, IH. reflexivity.
Qed.

Lemma nmax_list_le : forall (A : Type) (f : A -> N) (B : N) l,
  forallb (fun y => f y <=? B) l = true -> nmax_list f l <= B.
Proof.
  induction l as [|y l IH]; intros H; simpl; [lia|].
  simpl in H. apply andb_true_iff in H. destruct H as [H1 H2]. apply N.leb_le in H1.
  specialize (IH H2). lia.
Qed.

Lemma nmax_list_in : forall (A : Type) (f : A -> N) l y, In y l -> f y <= nmax_list f l.
Proof.
  induction l as [|z l IH]; intros y H; [inversion H|].
  simpl. destruct H as [->|H]; [lia|]. specialize (IH y H). lia.
Qed.

Lemma nodup_bytes_NoDup : forall l, nodup_bytes l = true -> NoDup l.
Proof.
  induction l as [|a r IH]; intros H; [constructor|].
  simpl in H. apply andb_true_iff in H. destruct H as [H1 H2]. constructor; [|auto].
  intro Hin. apply negb_true_iff in H1.
  assert (existsb (bytes_eqb a) r = true); [|congruence].
  apply existsb_exists. exists a. split; [assumption|apply bytes_eqb_refl].
Qed.

(* ---------- small facts ---------- *)
Lemma struct_pairs_cons : forall k oe ft fs' x vs',
  struct_pairs ((k, oe, ft) :: fs') (x :: vs') =
  if oe && is_empty ft x then struct_pairs fs' vs' else (key_item k, to_item ft x) :: struct_pairs fs' vs'.
Proof. reflexivity. Qed.

Lemma struct_pairs_keys : forall fs vs x, In x (map ek (struct_pairs fs vs)) -> In x (map field_kb fs).
Proof.
  induction fs as [|[[k oe] ft] fs' IH]; intros vs x H; [destruct vs; inversion H|].
  destruct vs as [|v vs']; [inversion H|].
  rewrite struct_pairs_cons in H. simpl map.
  destruct (oe && is_empty ft v).
  - right. eapply IH; eauto.
  - simpl in H. destruct H as [H|H]; [left; exact H|right; eapply IH; eauto].
Qed.

Lemma struct_pairs_nodup : forall fs vs, NoDup (map field_kb fs) -> NoDup (map ek (struct_pairs fs vs)).
Proof.
  induction fs as [|[[k oe] ft] fs' IH]; intros vs H; [destruct vs; constructor|].
  destruct vs as [|v vs']; [constructor|].
  inversion H; subst. rewrite struct_pairs_cons.
  destruct (oe && is_empty ft v); [apply IH; assumption|].
  simpl map. constructor; [|apply IH; assumption].
  intro Hin. apply struct_pairs_keys in Hin. contradiction.
Qed.

Lemma struct_pairs_length : forall fs vs, (List.length (struct_pairs fs vs) <= List.length fs)%nat.
Proof.
  induction fs as [|[[k oe] ft] fs' IH]; intros vs; [destruct vs; simpl; lia|].
  destruct vs as [|v vs']; [simpl; lia|].
  rewrite struct_pairs_cons. specialize (IH vs'). destruct (oe && is_empty ft v); simpl; lia.
Qed.

Lemma find_pair_app_notin : forall kb pre l, ~ In kb (map ek pre) -> find_pair kb (pre ++ l) = find_pair kb l.
Proof.
  induction pre as [|[k v] r IH]; intros l H; [reflexivity|].
  simpl app. rewrite find_pair_cons. simpl in H.
  rewrite bytes_eqb_neq by (intro E; apply H; left; exact E).
  apply IH. intro. apply H. right. assumption.
Qed.

Lemma empty_is_zero : forall t x, omit_ok t = true -> has_type t x = true -> is_empty t x = true ->
  bad_empty x = false -> x = zero_val t.
Proof.
  intros t x Ho Ht He Hb.
  destruct t; try discriminate Ho; simpl in He; destruct x; try discriminate He; try reflexivity;
    try (destruct l; try discriminate He; discriminate Hb);
    try (destruct b; try discriminate He; try discriminate Hb; reflexivity).
  apply N.eqb_eq in He. subst. reflexivity.
Qed.

Lemma val_nil_dec : forall v, v = VNil \/ v <> VNil.
Proof. destruct v; try (right; discriminate). left. reflexivity. Qed.

Lemma to_item_ptr : forall t v, v <> VNil -> to_item (TPtr t) v = to_item t v.
Proof. intros. destruct v; try reflexivity. contradiction. Qed.
Lemma has_type_ptr : forall t v, v <> VNil -> has_type (TPtr t) v = has_type t v.
Proof. intros. destruct v; try reflexivity. contradiction. Qed.
Lemma of_item_ptr : forall t x, x <> INull -> of_item (TPtr t) x = of_item t x.
Proof. intros. destruct x; try reflexivity. contradiction. Qed.

Lemma alts_ok_cons : forall tg ta r,
  alts_ok ((tg, ta) :: r) = (tg <? 2 ^ 64) && is_struct ta && ty_ok ta && alts_ok r.
Proof. reflexivity. Qed.
Lemma iface_item_cons : forall tag x tg ta r,
  iface_item tag x ((tg, ta) :: r) = if tg =? tag then ITag tag (to_item ta x) else iface_item tag x r.
Proof. reflexivity. Qed.
Lemma iface_val_cons : forall tag y tg ta r,
  iface_val tag y ((tg, ta) :: r) =
  if tg =? tag then match of_item ta y with Some a => Some (VIface tag a) | None => None end
  else iface_val tag y r.
Proof. reflexivity. Qed.
Lemma iface_typed_cons : forall tag x tg ta r,
  iface_typed tag x ((tg, ta) :: r) = if tg =? tag then has_type ta x else iface_typed tag x r.
Proof. reflexivity. Qed.

Lemma iface_item_shape : forall tag x alts, alts_ok alts = true -> iface_typed tag x alts = true ->
  exists ta, In (tag, ta) alts /\ is_struct ta = true /\ ty_ok ta = true /\ has_type ta x = true /\
             iface_item tag x alts = ITag tag (to_item ta x) /\ tag < 2 ^ 64.
Proof.
  induction alts as [|[tg ta] r IH]; intros Hok Hty; [discriminate|].
  rewrite alts_ok_cons in Hok. apply andb_true_iff in Hok. destruct Hok as [Hok Hr].
  apply andb_true_iff in Hok. destruct Hok as [Hok Hta].
  apply andb_true_iff in Hok. destruct Hok as [Htg Hst]. apply N.ltb_lt in Htg.
  rewrite iface_typed_cons in Hty. rewrite iface_item_cons. destruct (N.eqb_spec tg tag) as [->|Hne].
  - exists ta. repeat split; auto. left. reflexivity.
  - destruct (IH Hr Hty) as [ta' (A & B & C & D & E & F)]. exists ta'. repeat split; auto. right. exact A.
Qed.

Lemma struct_item_is_map : forall t v, is_struct t = true -> has_type t v = true ->
  exists l, to_item t v = IMap l.
Proof.
  intros t v Hs Ht. destruct t; try discriminate Hs. destruct v; try discriminate Ht.
  rewrite to_item_struct. eexists. reflexivity.
Qed.

(* a non-nilable shape never encodes a value as null, so a pointer to it is unambiguous *)
Lemma to_item_not_null : forall t v, nilable t = false -> has_type t v = true -> to_item t v <> INull.
Proof.
  intros t v Hn Ht. destruct t; try discriminate Hn; destruct v; try discriminate Ht;
    try (rewrite to_item_struct; discriminate);
    try (simpl; discriminate); try (destruct b; simpl; discriminate).
Qed.

Lemma map_opt_map : forall (A B : Type) (f : B -> option A) (g : A -> B) l,
  Forall (fun y => f (g y) = Some y) l -> map_opt f (map g l) = Some l.
Proof.
  induction 1 as [|y l Hy Hl IH]; [reflexivity|]. simpl. rewrite Hy, IH. reflexivity.
Qed.

(* ---------- of_item (to_item v) = Some v ---------- *)
Definition rt_ty (t : ty) : Prop :=
  ty_ok t = true -> forall v, has_type t v = true -> of_item t (to_item t v) = Some v.

Lemma struct_roundtrip : forall fs, Forall (fun f => rt_ty (snd f)) fs ->
  fields_ok fs = true -> NoDup (map field_kb fs) ->
  forall vs pre, struct_typed fs vs = true ->
  (forall f, In f fs -> ~ In (field_kb f) (map ek pre)) ->
  struct_vals (pre ++ struct_pairs fs vs) fs = Some vs.
Proof.
  induction 1 as [|[[k oe] ft] fs' Hf Hfs IH]; intros Hok Hnd vs pre Hty Hpre.
  - destruct vs; [reflexivity|discriminate].
  - destruct vs as [|x vs']; [discriminate|].
    simpl in Hty. apply andb_true_iff in Hty. destruct Hty as [Hty Hty'].
    apply andb_true_iff in Hty. destruct Hty as [Hx Hbad]. apply negb_true_iff in Hbad.
    simpl in Hok. apply andb_true_iff in Hok. destruct Hok as [Hok Hok'].
    apply andb_true_iff in Hok. destruct Hok as [Hok Hft].
    apply andb_true_iff in Hok. destruct Hok as [Hk Hom].
    simpl map in Hnd. inversion Hnd as [|? ? Hnotin Hnd']; subst.
    simpl snd in Hf. unfold field_kb at 1 in Hnotin.
    assert (Hkpre : ~ In (encode (key_item k)) (map ek pre)).
    { apply (Hpre (k, oe, ft)). left. reflexivity. }
    rewrite struct_vals_cons, struct_pairs_cons.
    destruct (oe && is_empty ft x) eqn:E.
    + apply andb_true_iff in E. destruct E as [Eo Ee]. subst oe. simpl in Hom, Hbad.
      rewrite find_pair_notin.
      2:{ rewrite map_app, in_app_iff. intros [A|A]; [contradiction|].
          apply struct_pairs_keys in A. contradiction. }
      rewrite IH; auto.
      * rewrite (empty_is_zero ft x Hom Hx Ee Hbad). reflexivity.
      * intros f Hin. apply Hpre. right. assumption.
    + rewrite find_pair_app_notin by assumption. rewrite find_pair_cons, bytes_eqb_refl.
      rewrite (Hf Hft x Hx).
      change (pre ++ (key_item k, to_item ft x) :: struct_pairs fs' vs')
        with (pre ++ [(key_item k, to_item ft x)] ++ struct_pairs fs' vs').
      rewrite app_assoc. rewrite IH; auto.
      intros f Hin. rewrite map_app, in_app_iff. intros [A|A].
      * revert A. apply Hpre. right. assumption.
      * simpl in A. destruct A as [A|[]]. unfold ek in A. simpl fst in A.
        apply Hnotin. rewrite A. apply in_map. assumption.
Qed.

Lemma iface_roundtrip : forall tag x alts, Forall (fun a => rt_ty (snd a)) alts ->
  alts_ok alts = true -> iface_typed tag x alts = true ->
  iface_val tag (match iface_item tag x alts with ITag _ y => y | _ => INull end) alts = Some (VIface tag x) /\
  exists y, iface_item tag x alts = ITag tag y.
Proof.
  induction 1 as [|[tg ta] r Ha Hr IH]; intros Hok Hty; [discriminate|].
  rewrite alts_ok_cons in Hok. apply andb_true_iff in Hok. destruct Hok as [Hok Hr'].
  apply andb_true_iff in Hok. destruct Hok as [Hok Hta].
  rewrite iface_typed_cons in Hty. rewrite iface_item_cons, iface_val_cons.
  destruct (N.eqb_spec tg tag) as [->|Hne].
  - simpl snd in Ha. rewrite (Ha Hta x Hty). split; [reflexivity|eexists; reflexivity].
  - destruct (IH Hr' Hty) as [A [y B]]. split; [exact A|exists y; exact B].
Qed.

Theorem of_to_item : forall t, rt_ty t.
Proof.
  induction t using ty_ind'; unfold rt_ty; intros Hok v Hty.
  - destruct v; try discriminate Hty. simpl in Hty |- *. rewrite Hty. reflexivity.
  - destruct v; try discriminate Hty. destruct b; reflexivity.
  - destruct v; try discriminate Hty. reflexivity.
  - destruct v; try discriminate Hty. reflexivity.
  - destruct v; try discriminate Hty. simpl in Hty |- *. rewrite Hty. reflexivity.
  - destruct v; try discriminate Hty; reflexivity.
  - destruct v; try discriminate Hty.
    change (has_type TFelt (VFelt l0 l1 l2 l3))
      with ((l0 <? 2 ^ 64) && (l1 <? 2 ^ 64) && (l2 <? 2 ^ 64) && (l3 <? 2 ^ 64)) in Hty.
    change (of_item TFelt (to_item TFelt (VFelt l0 l1 l2 l3)))
      with (if (l0 <? 2 ^ 64) && (l1 <? 2 ^ 64) && (l2 <? 2 ^ 64) && (l3 <? 2 ^ 64)
            then Some (VFelt l0 l1 l2 l3) else None).
    rewrite Hty. reflexivity.
  - (* pointer *)
    change (ty_ok (TPtr t)) with (negb (nilable t) && ty_ok t) in Hok.
    apply andb_true_iff in Hok. destruct Hok as [Hn Hok]. apply negb_true_iff in Hn.
    destruct (val_nil_dec v) as [->|Hnn]; [reflexivity|].
    {       rewrite has_type_ptr in Hty by assumption. rewrite to_item_ptr by assumption.
      rewrite of_item_ptr by (apply to_item_not_null; assumption). apply IHt; assumption. }
  - (* slice *)
    change (ty_ok (TSlice t)) with (ty_ok t) in Hok.
    destruct v; try discriminate Hty; [reflexivity|].
    change (has_type (TSlice t) (VList l)) with ((llen l <=? max_array_elements) && forallb (has_type t) l) in Hty.
    apply andb_true_iff in Hty. destruct Hty as [_ Hall].
    change (of_item (TSlice t) (to_item (TSlice t) (VList l)))
      with (match map_opt (of_item t) (map (to_item t) l) with Some vs => Some (VList vs) | None => None end).
    rewrite map_opt_map; [reflexivity|].
    rewrite forallb_forall in Hall. apply Forall_forall. intros y Hy. apply IHt; auto.
  - (* map *)
    change (ty_ok (TMap t1 t2)) with (ty_ok t1 && ty_ok t2) in Hok.
    apply andb_true_iff in Hok. destruct Hok as [Hk Hv].
    destruct v; try discriminate Hty; [reflexivity|].
    set (tp := fun p : val * val => match p with (k, x) => (to_item t1 k, to_item t2 x) end).
    set (op := fun p : item * item => match p with (k, y) =>
                  match of_item t1 k, of_item t2 y with Some a, Some b => Some (a, b) | _, _ => None end end).
    change (of_item (TMap t1 t2) (to_item (TMap t1 t2) (VMap l)))
      with (match map_opt op (map tp l) with Some ps => Some (VMap ps) | None => None end).
    change (has_type (TMap t1 t2) (VMap l))
      with ((llen l <=? max_map_pairs) &&
            forallb (fun p => match p with (k, x) => has_type t1 k && has_type t2 x end) l &&
            sorted_keys (map (fun p => match p with (k, _) => encode (to_item t1 k) end) l)) in Hty.
    apply andb_true_iff in Hty. destruct Hty as [Hty _].
    apply andb_true_iff in Hty. destruct Hty as [_ Hall].
    rewrite map_opt_map; [reflexivity|].
    rewrite forallb_forall in Hall. apply Forall_forall. intros [k x] Hy.
    specialize (Hall _ Hy). simpl in Hall. apply andb_true_iff in Hall. destruct Hall as [A B].
    unfold tp, op. rewrite (IHt1 Hk k A), (IHt2 Hv x B). reflexivity.
  - (* struct *)
    rewrite ty_ok_struct in Hok. apply andb_true_iff in Hok. destruct Hok as [Hok Hfs].
    apply andb_true_iff in Hok. destruct Hok as [_ Hnd]. apply nodup_bytes_NoDup in Hnd.
    destruct v; try discriminate Hty. rewrite has_type_struct in Hty.
    rewrite to_item_struct, of_item_struct.
    assert (E : struct_vals (sort_pairs (struct_pairs fs l)) fs = struct_vals ([] ++ struct_pairs fs l) fs).
    { simpl app. generalize fs at 2 4. intros gs. induction gs as [|[[k oe] ft] gs' IHg]; [reflexivity|].
      rewrite !struct_vals_cons. rewrite find_pair_sort by (apply struct_pairs_nodup; assumption).
      rewrite IHg. reflexivity. }
    rewrite E. rewrite (struct_roundtrip fs H Hfs Hnd l []); auto.
  - (* interface *)
    rewrite ty_ok_iface in Hok. apply andb_true_iff in Hok. destruct Hok as [_ Hal].
    destruct v; try discriminate Hty; [reflexivity|].
    rewrite has_type_iface in Hty. rewrite to_item_iface.
    destruct (iface_roundtrip tag v alts H Hal Hty) as [A [y B]].
    rewrite B in A |- *. rewrite of_item_iface. exact A.
Qed.

(* ---------- the item of a typed value is within the decoder's limits ---------- *)
Lemma insert_pair_in : forall p l x, In x (insert_pair p l) <-> x = p \/ In x l.
Proof.
  induction l as [|q r IH]; intros; simpl.
  - intuition.
  - destruct (key_lt (encode (fst q)) (encode (fst p))); simpl.
    + rewrite IH. intuition.
    + intuition.
Qed.

Lemma sort_pairs_in : forall l x, In x (sort_pairs l) <-> In x l.
Proof.
  induction l as [|p l IH]; intros; [simpl; tauto|].
  unfold sort_pairs. simpl fold_right. fold (sort_pairs l). rewrite insert_pair_in, IH. simpl. intuition.
Qed.

Lemma nmax_list_bound : forall (A : Type) (f : A -> N) (B : N) l,
  (forall y, In y l -> f y <= B) -> nmax_list f l <= B.
Proof.
  induction l as [|y l IH]; intros H; simpl; [lia|].
  assert (f y <= B) by (apply H; left; reflexivity).
  assert (nmax_list f l <= B) by (apply IH; intros; apply H; right; assumption). lia.
Qed.

Lemma struct_pairs_forall : forall (Q : item * item -> Prop) fs,
  forall vs, struct_typed fs vs = true ->
  (forall k oe ft x, In (k, oe, ft) fs -> has_type ft x = true -> Q (key_item k, to_item ft x)) ->
  Forall Q (struct_pairs fs vs).
Proof.
  induction fs as [|[[k oe] ft] fs' IH]; intros vs Hty HQ; [destruct vs; constructor|].
  destruct vs as [|x vs']; [constructor|].
  simpl in Hty. apply andb_true_iff in Hty. destruct Hty as [Hty Hty'].
  apply andb_true_iff in Hty. destruct Hty as [Hx _].
  rewrite struct_pairs_cons.
  assert (Forall Q (struct_pairs fs' vs')).
  { apply IH; auto. intros. eapply HQ; eauto. right. eassumption. }
  destruct (oe && is_empty ft x); [assumption|]. constructor; [|assumption].
  eapply HQ; eauto. left. reflexivity.
Qed.

Lemma fields_ok_in : forall fs k oe ft, fields_ok fs = true -> In (k, oe, ft) fs ->
  key_ok k = true /\ ty_ok ft = true.
Proof.
  induction fs as [|[[k' oe'] ft'] fs' IH]; intros k oe ft Hok Hin; [inversion Hin|].
  simpl in Hok. apply andb_true_iff in Hok. destruct Hok as [Hok Hok'].
  apply andb_true_iff in Hok. destruct Hok as [Hok Hft].
  apply andb_true_iff in Hok. destruct Hok as [Hk _].
  destruct Hin as [E|Hin]; [inversion E; subst; auto|eapply IH; eauto].
Qed.

Lemma pow_le_64 : forall b n, b <= 64 -> n < 2 ^ b -> n < 2 ^ 64.
Proof.
  intros b n Hb Hn. apply N.lt_le_trans with (2 ^ b); [assumption|].
  apply N.pow_le_mono_r; lia.
Qed.

Lemma item_ok_uint_iff : forall n, item_ok (IUInt n) = (n <? 2 ^ 64). Proof. reflexivity. Qed.
Lemma item_ok_neg_iff : forall n, item_ok (INeg n) = (n <? 2 ^ 64). Proof. reflexivity. Qed.
Lemma item_ok_bytes_iff : forall b, item_ok (IBytes b) = (blen b <? 2 ^ 64). Proof. reflexivity. Qed.
Lemma item_ok_text_iff : forall b, item_ok (IText b) = (blen b <? 2 ^ 64). Proof. reflexivity. Qed.
Lemma item_ok_arr_iff : forall l, item_ok (IArr l) = (llen l <=? max_array_elements) && forallb item_ok l.
Proof. reflexivity. Qed.
Lemma item_ok_map_iff : forall l, item_ok (IMap l) = (llen l <=? max_map_pairs) && forallb pair_ok l.
Proof. reflexivity. Qed.
Lemma item_ok_tag_iff : forall t y, item_ok (ITag t y) = (t <? 2 ^ 64) && item_ok y. Proof. reflexivity. Qed.

Lemma key_item_ok : forall k, key_ok k = true -> item_ok (key_item k) = true.
Proof.
  intros [s|z] H; unfold key_ok in H; unfold key_item.
  - rewrite item_ok_text_iff. exact H.
  - apply andb_true_iff in H. destruct H as [A B]. apply Z.leb_le in A. apply Z.ltb_lt in B.
    destruct (Z.ltb_spec z 0).
    + rewrite item_ok_neg_iff. apply N.ltb_lt.
      assert (Z.of_N (Z.to_N (- z - 1)) < 2 ^ 64)%Z by (rewrite Z2N.id; lia).
      change (2 ^ 64)%Z with (Z.of_N (2 ^ 64)) in H0. lia.
    + rewrite item_ok_uint_iff. apply N.ltb_lt.
      assert (Z.of_N (Z.to_N z) < 2 ^ 64)%Z by (rewrite Z2N.id; lia).
      change (2 ^ 64)%Z with (Z.of_N (2 ^ 64)) in H0. lia.
Qed.

Lemma key_item_ht : forall k, ht (key_item k) = 0.
Proof. intros [s|z]; unfold key_item; [reflexivity|]. destruct (z <? 0)%Z; reflexivity. Qed.

Lemma llen_map : forall (A B : Type) (f : A -> B) l, llen (map f l) = llen l.
Proof. intros. unfold llen. rewrite map_length. reflexivity. Qed.

Lemma Forall_forallb : forall (A : Type) (P : A -> bool) l, Forall (fun x => P x = true) l -> forallb P l = true.
Proof. intros. apply forallb_forall. apply Forall_forall. assumption. Qed.

Definition ok_ty (t : ty) : Prop :=
  ty_ok t = true -> forall v, has_type t v = true ->
  item_ok (to_item t v) = true /\ ht (to_item t v) <= ty_ht t.

Lemma Forall_in_snd : forall (A B : Type) (P : B -> Prop) (l : list (A * B)) a b,
  Forall (fun p => P (snd p)) l -> In (a, b) l -> P b.
Proof. intros. rewrite Forall_forall in H. apply (H (a, b)). assumption. Qed.

Theorem to_item_within_limits : forall t, ok_ty t.
Proof.
  induction t using ty_ind'; unfold ok_ty; intros Hok v Hty.
  - (* uint *)
    destruct v; try discriminate Hty. change (ty_ok (TUint b)) with (b <=? 64) in Hok.
    change (has_type (TUint b) (VUint n)) with (n <? 2 ^ b) in Hty.
    apply N.leb_le in Hok. apply N.ltb_lt in Hty. split; [|simpl; lia].
    change (to_item (TUint b) (VUint n)) with (IUInt n). rewrite item_ok_uint_iff. apply N.ltb_lt.
    eapply pow_le_64; eauto.
  - destruct v; try discriminate Hty. destruct b; split; try reflexivity; simpl; lia.
  - destruct v; try discriminate Hty. split; [exact Hty|simpl; lia].
  - destruct v; try discriminate Hty. split; [exact Hty|simpl; lia].
  - destruct v; try discriminate Hty. change (ty_ok (TByteArr n)) with (n <? 2 ^ 64) in Hok.
    change (has_type (TByteArr n) (VBin b)) with (blen b =? n) in Hty. apply N.eqb_eq in Hty. subst n.
    split; [exact Hok|simpl; lia].
  - destruct v; try discriminate Hty; (split; [first [exact Hty|reflexivity]|simpl; lia]).
  - (* felt *)
    destruct v; try discriminate Hty.
    change (has_type TFelt (VFelt l0 l1 l2 l3))
      with ((l0 <? 2 ^ 64) && (l1 <? 2 ^ 64) && (l2 <? 2 ^ 64) && (l3 <? 2 ^ 64)) in Hty.
    apply andb_true_iff in Hty. destruct Hty as [Hty H3].
    apply andb_true_iff in Hty. destruct Hty as [Hty H2].
    apply andb_true_iff in Hty. destruct Hty as [H0 H1].
    change (to_item TFelt (VFelt l0 l1 l2 l3)) with (IArr [IUInt l0; IUInt l1; IUInt l2; IUInt l3]).
    split.
    + rewrite item_ok_arr_iff. apply andb_true_iff. split; [reflexivity|].
      apply Forall_forallb. repeat constructor; rewrite item_ok_uint_iff; assumption.
    + rewrite ht_arr. unfold nmax_list. simpl fold_right. simpl ht. change (ty_ht TFelt) with 1. lia.
  - (* pointer *)
    change (ty_ok (TPtr t)) with (negb (nilable t) && ty_ok t) in Hok.
    apply andb_true_iff in Hok. destruct Hok as [_ Hok].
    destruct (val_nil_dec v) as [->|Hnn]; [split; [reflexivity|simpl; lia]|].
    rewrite has_type_ptr in Hty by assumption. rewrite to_item_ptr by assumption.
    change (ty_ht (TPtr t)) with (ty_ht t). apply IHt; assumption.
  - (* slice *)
    change (ty_ok (TSlice t)) with (ty_ok t) in Hok.
    destruct v; try discriminate Hty; [split; [reflexivity|simpl; lia]|].
    change (has_type (TSlice t) (VList l)) with ((llen l <=? max_array_elements) && forallb (has_type t) l) in Hty.
    apply andb_true_iff in Hty. destruct Hty as [Hlen Hall]. rewrite forallb_forall in Hall.
    change (to_item (TSlice t) (VList l)) with (IArr (map (to_item t) l)).
    change (ty_ht (TSlice t)) with (1 + ty_ht t). split.
    + rewrite item_ok_arr_iff, llen_map, Hlen. apply Forall_forallb. apply Forall_forall.
      intros y Hy. apply in_map_iff in Hy. destruct Hy as [x [<- Hx]]. apply IHt; auto.
    + rewrite ht_arr. assert (nmax_list ht (map (to_item t) l) <= ty_ht t); [|lia].
      apply nmax_list_bound. intros y Hy. apply in_map_iff in Hy. destruct Hy as [x [<- Hx]].
      apply IHt; auto.
  - (* map *)
    change (ty_ok (TMap t1 t2)) with (ty_ok t1 && ty_ok t2) in Hok.
    apply andb_true_iff in Hok. destruct Hok as [Hk Hv].
    destruct v; try discriminate Hty; [split; [reflexivity|simpl; lia]|].
    set (tp := fun p : val * val => match p with (k, x) => (to_item t1 k, to_item t2 x) end).
    change (to_item (TMap t1 t2) (VMap l)) with (IMap (map tp l)).
    change (has_type (TMap t1 t2) (VMap l))
      with ((llen l <=? max_map_pairs) &&
            forallb (fun p => match p with (k, x) => has_type t1 k && has_type t2 x end) l &&
            sorted_keys (map (fun p => match p with (k, _) => encode (to_item t1 k) end) l)) in Hty.
    apply andb_true_iff in Hty. destruct Hty as [Hty _].
    apply andb_true_iff in Hty. destruct Hty as [Hlen Hall]. rewrite forallb_forall in Hall.
    change (ty_ht (TMap t1 t2)) with (1 + N.max (ty_ht t1) (ty_ht t2)). split.
    + rewrite item_ok_map_iff, llen_map, Hlen. apply Forall_forallb. apply Forall_forall.
      intros y Hy. apply in_map_iff in Hy. destruct Hy as [[k x] [<- Hx]].
      specialize (Hall _ Hx). simpl in Hall. apply andb_true_iff in Hall. destruct Hall as [A B].
      unfold tp, pair_ok. destruct (IHt1 Hk k A) as [-> _]. destruct (IHt2 Hv x B) as [-> _]. reflexivity.
    + rewrite ht_map. assert (nmax_list pair_ht (map tp l) <= N.max (ty_ht t1) (ty_ht t2)); [|lia].
      apply nmax_list_bound. intros y Hy. apply in_map_iff in Hy. destruct Hy as [[k x] [<- Hx]].
      specialize (Hall _ Hx). simpl in Hall. apply andb_true_iff in Hall. destruct Hall as [A B].
      unfold tp, pair_ht. destruct (IHt1 Hk k A) as [_ ?]. destruct (IHt2 Hv x B) as [_ ?]. lia.
  - (* struct *)
    rewrite ty_ok_struct in Hok. apply andb_true_iff in Hok. destruct Hok as [Hok Hfs].
    apply andb_true_iff in Hok. destruct Hok as [Hlen _]. apply N.leb_le in Hlen.
    destruct v; try discriminate Hty. rewrite has_type_struct in Hty. rewrite to_item_struct.
    set (g := fun f : fkey * bool * ty => match f with (_, _, ft) => ty_ht ft end).
    change (ty_ht (TStruct fs)) with (1 + nmax_list g fs).
    assert (HQ : Forall (fun p => pair_ok p = true /\ pair_ht p <= nmax_list g fs) (struct_pairs fs l)).
    { apply struct_pairs_forall; [assumption|]. intros k oe ft x Hin Hx.
      destruct (fields_ok_in fs k oe ft Hfs Hin) as [Hk Hft].
      assert (P : ok_ty ft) by (apply (Forall_in_snd _ _ ok_ty fs (k, oe) ft); assumption).
      destruct (P Hft x Hx) as [A B].
      unfold pair_ok, pair_ht. rewrite (key_item_ok k Hk), A, key_item_ht. split; [reflexivity|].
      pose proof (nmax_list_in _ g fs (k, oe, ft) Hin) as M. unfold g at 1 in M. lia. }
    rewrite Forall_forall in HQ. split.
    + rewrite item_ok_map_iff. apply andb_true_iff. split.
      * apply N.leb_le. unfold llen in *. rewrite length_sort. pose proof (struct_pairs_length fs l). lia.
      * apply Forall_forallb. apply Forall_forall. intros p Hp. rewrite sort_pairs_in in Hp.
        destruct (HQ p Hp) as [Q1 _]. exact Q1.
    + rewrite ht_map. assert (nmax_list pair_ht (sort_pairs (struct_pairs fs l)) <= nmax_list g fs); [|lia].
      apply nmax_list_bound. intros p Hp. rewrite sort_pairs_in in Hp. destruct (HQ p Hp) as [_ Q2]. exact Q2.
  - (* interface *)
    rewrite ty_ok_iface in Hok. apply andb_true_iff in Hok. destruct Hok as [_ Hal].
    destruct v; try discriminate Hty; [split; [reflexivity|simpl; lia]|].
    rewrite has_type_iface in Hty. rewrite to_item_iface.
    destruct (iface_item_shape tag v alts Hal Hty) as [ta (Hin & Hst & Hta & Hx & E & Htag)].
    rewrite E.
    assert (P : ok_ty ta) by (apply (Forall_in_snd _ _ ok_ty alts tag ta); assumption).
    destruct (P Hta v Hx) as [A B].
    set (g := fun a : N * ty => match a with (_, ta) => ty_ht ta end).
    change (ty_ht (TIface alts)) with (nmax_list g alts).
    pose proof (nmax_list_in _ g alts (tag, ta) Hin) as M. unfold g at 1 in M.
    destruct (struct_item_is_map ta v Hst Hx) as [m Em]. split.
    + rewrite item_ok_tag_iff, A. apply N.ltb_lt in Htag. rewrite Htag. reflexivity.
    + rewrite ht_tag. rewrite Em in *. simpl is_tag. cbv iota. lia.
Qed.

(* ---------- Marshal / Unmarshal ---------- *)
Lemma shape_ok_parts : forall t, shape_ok t = true -> ty_ok t = true /\ ty_ht t <= max_nested_levels.
Proof. intros t H. unfold shape_ok in H. apply andb_true_iff in H. destruct H as [A B]. apply N.leb_le in B. auto. Qed.

Lemma to_item_wf : forall t v, shape_ok t = true -> has_type t v = true -> wf_item (to_item t v) = true.
Proof.
  intros t v Hs Hv. destruct (shape_ok_parts t Hs) as [A B].
  destruct (to_item_within_limits t A v Hv) as [C D].
  unfold wf_item. rewrite C. apply N.leb_le. lia.
Qed.

Theorem unmarshal_first_marshal : forall t v rest, shape_ok t = true -> has_type t v = true ->
  unmarshal_first t (marshal t v ++ rest) = Some (v, rest).
Proof.
  intros t v rest Hs Hv. unfold unmarshal_first, marshal.
  rewrite decode_encode by (apply to_item_wf; assumption).
  destruct (shape_ok_parts t Hs) as [A _]. rewrite (of_to_item t A v Hv). reflexivity.
Qed.

Theorem unmarshal_marshal : forall t v, shape_ok t = true -> has_type t v = true ->
  unmarshal t (marshal t v) = Some v.
Proof.
  intros t v Hs Hv. unfold unmarshal, marshal.
  rewrite decode_all_encode by (apply to_item_wf; assumption).
  destruct (shape_ok_parts t Hs) as [A _]. apply (of_to_item t A v Hv).
Qed.

(* two values of the same shape with the same bytes are the same value *)
Theorem marshal_injective : forall t v w, shape_ok t = true -> has_type t v = true -> has_type t w = true ->
  marshal t v = marshal t w -> v = w.
Proof.
  intros t v w Hs Hv Hw E.
  pose proof (unmarshal_marshal t v Hs Hv) as A. pose proof (unmarshal_marshal t w Hs Hw) as B.
  rewrite E in A. rewrite A in B. inversion B. reflexivity.
Qed.
