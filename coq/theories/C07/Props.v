(* C07 — property theorems only. Each is closed by [exact]/[apply] of a lemma from Proofs*.v and
   followed by Print Assumptions. In the first part the item codec (fxamacker CBOR on transactions /
   receipts / their projections) is a hypothesis that appears in the statements: dec (enc x) = Some x.
   The last part (theorems named C07_cbor_...) models the codec itself (Cbor.v) and discharges that hypothesis for the
   value shapes of Shapes.v. *)
From Coq Require Import List NArith ZArith Bool String Lia.
From V Require Import C07.Model C07.Proofs C07.Proofs_Keys C07.Proofs_Proj Gen.C07_Layouts.
From V Require Import C07.Proofs_cbor C07.Proofs_cbor_ty C07.Proofs_cbor_inst.
Import ListNotations.
Open Scope string_scope.
Open Scope N_scope.
Open Scope list_scope.

(* ---------- the indexed blob: every item written is the item read, at every position ---------- *)

(* get_tx / get_rc of a built blob at any in-range index (first, last, single element are instances),
   for every item codec that round-trips. *)
Theorem C07_get_build :
  forall (T R : Type) (encT : T -> bytes) (encR : R -> bytes)
         (decT : bytes -> option T) (decR : bytes -> option R),
  (forall x, decT (encT x) = Some x) -> (forall r, decR (encR r) = Some r) ->
  forall (txs : list T) (rcs : list R) (i : nat),
    (forall x, nth_error txs i = Some x -> get_tx decT (build encT encR txs rcs) (Z.of_nat i) = Ok x) /\
    (forall r, nth_error rcs i = Some r -> get_rc decR (build encT encR txs rcs) (Z.of_nat i) = Ok r).
Proof.
  intros T R encT encR decT decR HT HR txs rcs i. split; intros.
  - exact (get_tx_build_gen T R encT encR T decT (fun x => x) HT txs rcs i x H).
  - exact (get_rc_build_gen T R encT encR R decR (fun x => x) HR txs rcs i r H).
Qed.
Print Assumptions C07_get_build.

(* the same through the uint64 -> int conversion of core.GetTransactionByBlockAndIndex *)
Theorem C07_get_build_u64 :
  forall (T R : Type) (encT : T -> bytes) (encR : R -> bytes)
         (decT : bytes -> option T) (decR : bytes -> option R),
  (forall x, decT (encT x) = Some x) -> (forall r, decR (encR r) = Some r) ->
  forall (txs : list T) (rcs : list R) (u : N), u < 2 ^ 63 ->
    (forall x, nth_error txs (N.to_nat u) = Some x -> get_tx decT (build encT encR txs rcs) (to_int u) = Ok x) /\
    (forall r, nth_error rcs (N.to_nat u) = Some r -> get_rc decR (build encT encR txs rcs) (to_int u) = Ok r).
Proof.
  intros T R encT encR decT decR HT HR txs rcs u Hu. rewrite to_int_small by exact Hu.
  apply C07_get_build; auto.
Qed.
Print Assumptions C07_get_build_u64.

(* partial decoders: reading item i with ANY decoder that computes a function f of the stored item
   (execution status, events, transaction hash projections) yields f of the item written *)
Theorem C07_get_build_projected :
  forall (T R A B : Type) (encT : T -> bytes) (encR : R -> bytes)
         (decA : bytes -> option A) (fA : T -> A) (decB : bytes -> option B) (fB : R -> B),
  (forall x, decA (encT x) = Some (fA x)) -> (forall r, decB (encR r) = Some (fB r)) ->
  forall (txs : list T) (rcs : list R) (i : nat),
    (forall x, nth_error txs i = Some x -> get_tx decA (build encT encR txs rcs) (Z.of_nat i) = Ok (fA x)) /\
    (forall r, nth_error rcs i = Some r -> get_rc decB (build encT encR txs rcs) (Z.of_nat i) = Ok (fB r)) /\
    all_txs decA (build encT encR txs rcs) = Ok (map fA txs) /\
    all_rcs decB (build encT encR txs rcs) = Ok (map fB rcs).
Proof.
  intros T R A B encT encR decA fA decB fB HA HB txs rcs i. repeat split; intros.
  - exact (get_tx_build_gen T R encT encR A decA fA HA txs rcs i x H).
  - exact (get_rc_build_gen T R encT encR B decB fB HB txs rcs i r H).
  - exact (all_txs_build_gen T R encT encR A decA fA HA txs rcs).
  - exact (all_rcs_build_gen T R encT encR B decB fB HB txs rcs).
Qed.
Print Assumptions C07_get_build_projected.

(* All(): the whole lists, in order; count *)
Theorem C07_all_build :
  forall (T R : Type) (encT : T -> bytes) (encR : R -> bytes)
         (decT : bytes -> option T) (decR : bytes -> option R),
  (forall x, decT (encT x) = Some x) -> (forall r, decR (encR r) = Some r) ->
  forall (txs : list T) (rcs : list R),
    all_txs decT (build encT encR txs rcs) = Ok txs /\
    all_rcs decR (build encT encR txs rcs) = Ok rcs /\
    count (build encT encR txs rcs) = List.length txs.
Proof.
  intros T R encT encR decT decR HT HR txs rcs. repeat split.
  - rewrite <- (map_id txs) at 2. exact (all_txs_build_gen T R encT encR T decT (fun x => x) HT txs rcs).
  - rewrite <- (map_id rcs) at 2. exact (all_rcs_build_gen T R encT encR R decR (fun x => x) HR txs rcs).
  - apply count_build.
Qed.
Print Assumptions C07_all_build.

(* out of range (including the indices that become negative as a Go int) => ErrKeyNotFound, never
   somebody else's bytes; no codec hypothesis needed *)
Theorem C07_out_of_range_notfound :
  forall (T R A B : Type) (encT : T -> bytes) (encR : R -> bytes)
         (decA : bytes -> option A) (decB : bytes -> option B) (txs : list T) (rcs : list R) (u : N),
  u < 2 ^ 64 ->
  (~ u < N.of_nat (List.length txs) -> get_tx decA (build encT encR txs rcs) (to_int u) = NotFound) /\
  (~ u < N.of_nat (List.length rcs) -> get_rc decB (build encT encR txs rcs) (to_int u) = NotFound).
Proof.
  intros. split; intros.
  - apply get_tx_oob; auto.
  - apply get_rc_oob; auto.
Qed.
Print Assumptions C07_out_of_range_notfound.

(* the empty block *)
Theorem C07_empty_block :
  forall (T R : Type) (encT : T -> bytes) (encR : R -> bytes)
         (decT : bytes -> option T) (decR : bytes -> option R) (i : Z),
    get_tx decT (build encT encR [] []) i = NotFound /\
    get_rc decR (build encT encR [] []) i = NotFound /\
    all_txs decT (build encT encR [] []) = Ok [] /\
    all_rcs decR (build encT encR [] []) = Ok [] /\
    cbor_hdr_enc (b_idx (build encT encR [] [])) = [160].
Proof.
  intros. unfold get_tx, get_rc, all_txs, all_rcs, lazy_get. simpl.
  destruct (i <? 0)%Z eqn:E; simpl.
  - repeat split; reflexivity.
  - assert ((0 <=? i)%Z = true) as -> by (apply Z.leb_le; apply Z.ltb_ge; exact E). repeat split; reflexivity.
Qed.
Print Assumptions C07_empty_block.

(* the database value: header item followed by the data, parsed back by UnmarshalFirst.
   Generic in the header codec (library hypothesis) ... *)
Theorem C07_parse_serialize :
  forall (hdr_enc : index_hdr -> bytes) (hdr_dec : bytes -> option (index_hdr * bytes)),
  (forall h rest, hdr_dec (hdr_enc h ++ rest) = Some (h, rest)) ->
  forall b, parse hdr_dec (serialize hdr_enc b) = Some b.
Proof. exact parse_serialize. Qed.
Print Assumptions C07_parse_serialize.

(* ... and discharged for the concrete canonical-CBOR header {1: txOffsets, 2: receiptOffsets}
   (both omitempty) whenever the offsets fit uint64 *)
Theorem C07_hdr_roundtrip : forall h rest, hdr_ok h ->
  cbor_hdr_dec (cbor_hdr_enc h ++ rest) = Some (h, rest).
Proof. exact cbor_hdr_roundtrip. Qed.
Print Assumptions C07_hdr_roundtrip.

Theorem C07_stored_blob_parses :
  forall (T R : Type) (encT : T -> bytes) (encR : R -> bytes) (txs : list T) (rcs : list R),
  blen (b_data (build encT encR txs rcs)) < 2 ^ 64 ->
  N.of_nat (List.length txs) < 2 ^ 64 -> N.of_nat (List.length rcs) < 2 ^ 64 ->
  parse cbor_hdr_dec (serialize cbor_hdr_enc (build encT encR txs rcs)) = Some (build encT encR txs rcs).
Proof.
  intros. unfold build in *. apply stored_parse; rewrite ?map_length; auto.
Qed.
Print Assumptions C07_stored_blob_parses.

(* ---------- key codecs ---------- *)
Theorem C07_be64_roundtrip : forall n, n < 2 ^ 64 -> be64_dec (be64 n) = Some n.
Proof. exact be64_roundtrip_l. Qed.
Print Assumptions C07_be64_roundtrip.

(* what range scans and DeleteRange(0, n) rely on *)
Theorem C07_be64_monotone : forall a b, a < 2 ^ 64 -> b < 2 ^ 64 ->
  (a < b <-> lex_lt (be64 a) (be64 b) = true).
Proof. exact be64_monotone_l. Qed.
Print Assumptions C07_be64_monotone.

Theorem C07_felt_key_roundtrip : forall z, z < 2 ^ 256 -> felt_dec (felt_bytes z) = Some z.
Proof. exact felt_roundtrip_l. Qed.
Print Assumptions C07_felt_key_roundtrip.

Theorem C07_bni_roundtrip : forall n i, n < 2 ^ 64 -> i < 2 ^ 64 -> bni_dec (bni_key n i) = Some (n, i).
Proof. exact bni_roundtrip_l. Qed.
Print Assumptions C07_bni_roundtrip.

(* among composite (number, index) keys of one bucket, those of block n are exactly those with
   prefix bucket ++ be64 n *)
Theorem C07_composite_prefix : forall bk n m i, n < 2 ^ 64 -> m < 2 ^ 64 ->
  (has_prefix (bucket_key bk [be64 n]) (bucket_key bk [bni_key m i]) = true <-> m = n).
Proof. exact composite_prefix_bucket_l. Qed.
Print Assumptions C07_composite_prefix.

Theorem C07_composite_order : forall n i m j, n < 2 ^ 64 -> i < 2 ^ 64 -> m < 2 ^ 64 -> j < 2 ^ 64 ->
  (n < m \/ (n = m /\ i < j)) -> lex_lt (bni_key n i) (bni_key m j) = true.
Proof. exact bni_monotone_l. Qed.
Print Assumptions C07_composite_order.

(* the BlockTransactions bucket keys on the CBOR encoding of the block number (key.Cbor[uint64]),
   not on be64: it is still order preserving and prefix free, which pruner DeleteRange(0, n) needs *)
Theorem C07_cbor_key_roundtrip : forall n rest, n < 2 ^ 64 ->
  cbor_uint_dec (cbor_uint n ++ rest) = Some (n, rest).
Proof. exact cbor_uint_roundtrip. Qed.
Print Assumptions C07_cbor_key_roundtrip.

Theorem C07_cbor_key_monotone : forall a b, a < 2 ^ 64 -> b < 2 ^ 64 ->
  (a < b <-> lex_lt (cbor_uint a) (cbor_uint b) = true).
Proof. exact cbor_uint_monotone_l. Qed.
Print Assumptions C07_cbor_key_monotone.

Theorem C07_cbor_key_prefix_free : forall a b, a < 2 ^ 64 -> b < 2 ^ 64 ->
  has_prefix (cbor_uint a) (cbor_uint b) = true -> a = b.
Proof. exact cbor_uint_prefix_free_l. Qed.
Print Assumptions C07_cbor_key_prefix_free.

(* ---------- projections ---------- *)

(* generic: if every materialised field of the projection struct has, in the full struct, the same
   wire key and type, decoding a record into the projection = projecting the full decode; the decoder
   of individual items [dec] is the library (any function) *)
Theorem C07_projection_sound :
  forall (V D : Type) (dec : string -> V -> option D) (full proj : layout) (m : wire V) (s : sval D),
  check_projection full proj = true ->
  decode_struct V D dec full m = Some s ->
  decode_struct V D dec proj m = Some (project D proj s).
Proof.
  intros. destruct (check_projection_parts _ _ H). eapply projection_sound_l; eauto.
Qed.
Print Assumptions C07_projection_sound.

(* the regenerated obligation: every projection struct of core/partial_cbor.go (table rebuilt from the
   working tree by reflection on every run) passes the checker against every full struct it is decoded
   from. A renamed / added field, a forgotten or changed tag, a changed field type breaks this. *)
Theorem C07_layouts_ok : forallb check_entry projections = true.
Proof. vm_compute. reflexivity. Qed.
Print Assumptions C07_layouts_ok.

Theorem C07_skeletons_ok : forallb check_skeleton skeletons = true.
Proof. vm_compute. reflexivity. Qed.
Print Assumptions C07_skeletons_ok.

(* ---------- the statements are not vacuous ---------- *)
Definition idb (b : bytes) : bytes := b.

Example build_concrete :
  let b := build idb idb [[1; 2]; []; [3; 4; 5; 6]] [[7]; [8; 9]; [10]] in
  b_idx b = mkHdr [0; 2; 2] [6; 7; 9] /\
  serialize cbor_hdr_enc b = [162; 1; 131; 0; 2; 2; 2; 131; 6; 7; 9; 1; 2; 3; 4; 5; 6; 7; 8; 9; 10] /\
  get_tx id_dec b 2 = Ok [3; 4; 5; 6] /\ get_tx id_dec b 1 = Ok [] /\ get_rc id_dec b 0 = Ok [7] /\
  get_rc id_dec b 2 = Ok [10] /\ get_tx id_dec b 3 = NotFound /\ get_rc id_dec b (-1) = NotFound /\
  get_tx id_dec b (to_int (2 ^ 64 - 1)) = NotFound.
Proof. vm_compute. repeat split; reflexivity. Qed.

(* transactions without receipts: the transaction section is the whole data *)
Example build_no_receipts :
  get_tx id_dec (build idb idb [[1]; [2; 3]] []) 1 = Ok [2; 3] /\
  serialize cbor_hdr_enc (build idb idb [[1]; [2; 3]] []) = [161; 1; 130; 0; 1; 1; 2; 3].
Proof. vm_compute. split; reflexivity. Qed.

(* a corrupted index is an error, not a wrong item *)
Example corrupt_is_error :
  get_rc id_dec (mkBlob (mkHdr [0] [5; 3]) [1; 2; 3; 4; 5; 6]) 0 = Err.
Proof. vm_compute. reflexivity. Qed.

Example keys_concrete :
  be64 258 = [0; 0; 0; 0; 0; 0; 1; 2] /\ cbor_uint 258 = [25; 1; 2] /\ cbor_uint 23 = [23] /\
  block_txs_key 40 1000000 = [40; 26; 0; 15; 66; 64] /\
  lex_lt (cbor_uint 255) (cbor_uint 256) = true /\ lex_lt (be64 255) (be64 256) = true.
Proof. vm_compute. repeat split; reflexivity. Qed.

(* the checker rejects the drifts it is meant to catch *)
Definition retag (old new : string) (L : layout) : layout :=
  map (fun f => if ckey_eqb (f_key f) (KStr old)
                then mkField (f_go f) (KStr new) (f_kind f) (f_type f) (f_ptr f) (f_nested f) (f_wanted f)
                else f) L.
Definition retype (key ty : string) (L : layout) : layout :=
  map (fun f => if ckey_eqb (f_key f) (KStr key)
                then mkField (f_go f) (f_key f) (f_kind f) ty (f_ptr f) (f_nested f) (f_wanted f)
                else f) L.

(* a shadowing field that forgot to repeat the tag `cbor:"gasprice"` *)
Example forgotten_tag_rejected :
  check_entry (mkP "p" (retag "gasprice" "L1GasPriceETH" L_headerHashProjection) [("Header", L_Header)]) = false.
Proof. vm_compute. reflexivity. Qed.

(* a field renamed in the full struct only *)
Example renamed_field_rejected :
  check_entry (mkP "p" L_headerHashProjection [("Header", retag "Hash" "BlockHash" L_Header)]) = false.
Proof. vm_compute. reflexivity. Qed.

(* a field added to a transaction type but not to the union projection *)
Example added_field_rejected :
  check_entry (mkP "p" L_transactionHashProjection
    [("InvokeTransaction", L_InvokeTransaction ++ [mkField "New" (KStr "New") "uint64" "uint64" false false true])]) = false.
Proof. vm_compute. reflexivity. Qed.

(* a wanted field whose type drifted from the stored one *)
Example retyped_field_rejected :
  check_entry (mkP "p" (retype "Reverted" "string" L_receiptExecutionStatusProjection)
                       [("TransactionReceipt", L_TransactionReceipt)]) = false.
Proof. vm_compute. reflexivity. Qed.

(* projection_sound's hypothesis is not decorative: a shadowing field that keys on its Go name instead
   of the tag decodes nothing where the full struct has a value; a retyped field decodes differently *)
Example projection_needed :
  let full := [mkField "A" (KStr "a") "uint64" "uint64" false false true] in
  let proj1 := [mkField "A" (KStr "A") "uint64" "uint64" false false true] in
  let proj2 := [mkField "A" (KStr "a") "string" "string" false false true] in
  let m := [(KStr "a", 7%N)] in
  let dec := fun (ty : string) (v : N) => if String.eqb ty "uint64" then Some v else Some (v + 1) in
  check_projection full proj1 = false /\ check_projection full proj2 = false /\
  decode_struct N N dec proj1 m <> option_map (project N proj1) (decode_struct N N dec full m) /\
  decode_struct N N dec proj2 m <> option_map (project N proj2) (decode_struct N N dec full m).
Proof. vm_compute. repeat split; try reflexivity; intro H; discriminate H. Qed.


(* ====================== the CBOR codec itself (Cbor.v) ====================== *)

(* decoding the canonical encoding of any item within the decoder's limits (arguments below 2^64,
   arrays / maps not longer than MaxArrayElements / MaxMapPairs, nesting not deeper than
   MaxNestedLevels) gives the item back and leaves exactly the bytes that followed it *)
Theorem C07_cbor_roundtrip : forall x rest, wf_item x = true ->
  decode (encode x ++ rest) = Some (x, rest).
Proof. exact decode_encode. Qed.
Print Assumptions C07_cbor_roundtrip.

(* encode is injective, even prefix-free: concatenated items (the blob's data section) split uniquely *)
Theorem C07_cbor_encode_injective : forall x y r1 r2, wf_item x = true -> wf_item y = true ->
  encode x ++ r1 = encode y ++ r2 -> x = y /\ r1 = r2.
Proof. exact encode_prefix_free. Qed.
Print Assumptions C07_cbor_encode_injective.

(* at the limits: an array / map one longer than the configured limit (or any longer one) is rejected
   whatever it contains ... *)
Theorem C07_cbor_array_limit : forall l rest, llen l < 2 ^ 64 -> max_array_elements < llen l ->
  decode (encode (IArr l) ++ rest) = None.
Proof. intros. apply dec_item_array_over; assumption. Qed.
Print Assumptions C07_cbor_array_limit.

Theorem C07_cbor_map_limit : forall l rest, llen l < 2 ^ 64 -> max_map_pairs < llen l ->
  decode (encode (IMap l) ++ rest) = None.
Proof. intros. apply dec_item_map_over; assumption. Qed.
Print Assumptions C07_cbor_map_limit.

(* ... and so is anything below more than MaxNestedLevels arrays, while exactly at the limit it is read *)
Theorem C07_cbor_nesting_limit : forall k x rest,
  (max_nested_levels < N.of_nat k -> decode (encode (nest k x) ++ rest) = None) /\
  (item_ok x = true -> N.of_nat k + ht x <= max_nested_levels ->
   decode (encode (nest k x) ++ rest) = Some (nest k x, rest)).
Proof.
  intros. split; intros.
  - apply dec_item_too_deep; lia.
  - apply decode_encode. unfold wf_item. rewrite item_ok_nest by assumption. rewrite ht_nest.
    apply N.leb_le. assumption.
Qed.
Print Assumptions C07_cbor_nesting_limit.

(* encoder.Unmarshal (encoder.Marshal v) = v for every Go value shape the typed layer covers (structs
   with sorted keys and omitempty, nil-able pointers / slices / maps / byte slices, felts, byte arrays,
   opaque BinaryMarshalers, interface values behind registry tags) and every value of that shape:
   NO hypothesis about the codec is left *)
Theorem C07_cbor_value_roundtrip : forall t v rest, shape_ok t = true -> has_type t v = true ->
  unmarshal t (marshal t v) = Some v /\ unmarshal_first t (marshal t v ++ rest) = Some (v, rest).
Proof. intros. split; [apply unmarshal_marshal|apply unmarshal_first_marshal]; assumption. Qed.
Print Assumptions C07_cbor_value_roundtrip.

Theorem C07_cbor_marshal_injective : forall t v w, shape_ok t = true -> has_type t v = true ->
  has_type t w = true -> marshal t v = marshal t w -> v = w.
Proof. exact marshal_injective. Qed.
Print Assumptions C07_cbor_marshal_injective.

(* the shapes of Shapes.v (Header, the five transactions and the Transaction interface, receipt with
   events / resources / messages, StateUpdate / StateDiff) are covered ... *)
Theorem C07_cbor_shapes_ok : forallb (fun p => shape_ok (snd p)) shapes = true.
Proof. vm_compute. reflexivity. Qed.
Print Assumptions C07_cbor_shapes_ok.

(* ... and are the shapes the regenerated layout table records: same wire keys in the same order,
   same pointer-ness and kind for every field of every full struct *)
Theorem C07_cbor_shapes_match_layouts : shapes_match_layouts fulls = true.
Proof. vm_compute. reflexivity. Qed.
Print Assumptions C07_cbor_shapes_match_layouts.

Theorem C07_cbor_stored_values_roundtrip : forall v,
  (has_type S_Header v = true -> unmarshal S_Header (marshal S_Header v) = Some v) /\
  (has_type S_Transaction v = true -> unmarshal S_Transaction (marshal S_Transaction v) = Some v) /\
  (has_type S_TransactionReceipt v = true -> unmarshal S_TransactionReceipt (marshal S_TransactionReceipt v) = Some v) /\
  (has_type S_StateUpdate v = true -> unmarshal S_StateUpdate (marshal S_StateUpdate v) = Some v).
Proof.
  intros v. repeat split; intros H; apply unmarshal_marshal; try assumption;
    eapply shape_in_ok; unfold shapes; simpl; eauto 20.
Qed.
Print Assumptions C07_cbor_stored_values_roundtrip.

(* the indexed blob with the modelled codec as item codec: C07_get_build / C07_all_build without the
   codec hypothesis, for stored values of the stated shapes *)
Theorem C07_cbor_get_build : forall tT tR, shape_ok tT = true -> shape_ok tR = true ->
  forall (txs rcs : list val) (i : nat),
  (forall x, nth_error txs i = Some x -> has_type tT x = true ->
     get_tx (unmarshal tT) (build (marshal tT) (marshal tR) txs rcs) (Z.of_nat i) = Ok x) /\
  (forall r, nth_error rcs i = Some r -> has_type tR r = true ->
     get_rc (unmarshal tR) (build (marshal tT) (marshal tR) txs rcs) (Z.of_nat i) = Ok r).
Proof. exact cbor_get_build. Qed.
Print Assumptions C07_cbor_get_build.

Theorem C07_cbor_all_build : forall tT tR, shape_ok tT = true -> shape_ok tR = true ->
  forall (txs rcs : list val),
  Forall (fun x => has_type tT x = true) txs -> Forall (fun r => has_type tR r = true) rcs ->
  all_txs (unmarshal tT) (build (marshal tT) (marshal tR) txs rcs) = Ok txs /\
  all_rcs (unmarshal tR) (build (marshal tT) (marshal tR) txs rcs) = Ok rcs.
Proof. exact cbor_all_build. Qed.
Print Assumptions C07_cbor_all_build.

(* a block's transactions and receipts as juno stores them: interface values behind registry tags and
   receipts, read back at every position *)
Theorem C07_cbor_block_transactions : forall (txs rcs : list val) (i : nat),
  (forall x, nth_error txs i = Some x -> has_type S_Transaction x = true ->
     get_tx (unmarshal S_Transaction) (build (marshal S_Transaction) (marshal S_TransactionReceipt) txs rcs) (Z.of_nat i) = Ok x) /\
  (forall r, nth_error rcs i = Some r -> has_type S_TransactionReceipt r = true ->
     get_rc (unmarshal S_TransactionReceipt) (build (marshal S_Transaction) (marshal S_TransactionReceipt) txs rcs) (Z.of_nat i) = Ok r).
Proof.
  apply cbor_get_build; eapply shape_in_ok; unfold shapes; simpl; eauto 20.
Qed.
Print Assumptions C07_cbor_block_transactions.

(* ---------- non-vacuity and witnesses ---------- *)
(* byte-exact: core.GasPrice{} (fields sorted: PriceInFri before PriceInWei), a felt with limbs of every
   width, a nil interface, an L1-handler transaction behind tag 65539 *)
Example cbor_concrete :
  marshal S_GasPrice (VStruct [VNil; VNil]) =
    [162; 106; 80; 114; 105; 99; 101; 73; 110; 70; 114; 105; 246; 106; 80; 114; 105; 99; 101; 73; 110; 87; 101; 105; 246] /\
  marshal TFelt (VFelt 1 300 70000 1099511627776) =
    [132; 1; 25; 1; 44; 26; 0; 1; 17; 112; 27; 0; 0; 1; 0; 0; 0; 0; 0] /\
  marshal S_Transaction VNil = [246] /\
  firstn 6 (marshal S_Transaction (VIface 65539 (VStruct [VNil; VNil; VNil; VNil; VNil; VNil]))) = [218; 0; 1; 0; 3; 166] /\
  has_type S_Transaction (VIface 65539 (VStruct [VNil; VNil; VNil; VNil; VNil; VNil])) = true /\
  unmarshal S_GasPrice [162; 106; 80; 114; 105; 99; 101; 73; 110; 70; 114; 105; 246; 106; 80; 114; 105; 99; 101; 73; 110; 87; 101; 105; 246]
    = Some (VStruct [VNil; VNil]).
Proof. vm_compute. repeat split; reflexivity. Qed.

(* the strict decoder: non-canonical heads, indefinite lengths, floats, truncated input are rejected;
   33 nested arrays are rejected, 32 are read *)
Example cbor_rejects :
  decode [24; 5] = None /\ decode [25; 0; 5] = None /\ decode [159; 1; 255] = None /\
  decode [249; 60; 0] = None /\ decode [130; 1] = None /\ decode [] = None /\
  decode (encode (nest 33 (IUInt 0))) = None /\
  decode (encode (nest 32 (IUInt 0))) = Some (nest 32 (IUInt 0), []) /\
  decode [1; 2] = Some (IUInt 1, [2]) /\ decode_all [1; 2] = None.
Proof. vm_compute. repeat split; reflexivity. Qed.

(* has_type's exclusion of an empty non-nil container in an omitempty field is not decorative: the
   field is left out and reads back nil (InvokeTransaction.ProofFacts, see findings) *)
Example cbor_omitempty_needed :
  let t := TStruct [(FText [80], true, TSlice TFelt)] in
  has_type t (VStruct [VList []]) = false /\
  unmarshal t (marshal t (VStruct [VList []])) = Some (VStruct [VNil]) /\
  unmarshal t (marshal t (VStruct [VNil])) = Some (VStruct [VNil]).
Proof. vm_compute. repeat split; reflexivity. Qed.

(* a pointer to a nil-able kind would be ambiguous (nil pointer and pointer to nil both null):
   ty_ok refuses it, and the round trip really fails there *)
Example cbor_ptr_needed :
  ty_ok (TPtr (TSlice TFelt)) = false /\
  to_item (TPtr (TSlice TFelt)) VNil = INull /\ to_item (TSlice TFelt) VNil = INull.
Proof. vm_compute. repeat split; reflexivity. Qed.
