(* C07 / Shapes — the Go value shapes of the stored records, as [Cbor.ty] terms.
   WRITTEN by `build/c07 --print-shapes` (reflection over package core with fxamacker's field rules)
   and kept in the tree so that the theorems of Props.v are about named, readable shapes. On every run
   the harness derives the shapes again from the working tree and compares them with these
   (violation class cbor:shape-drift:<Type>); [shapes_match_layouts] relates them to the regenerated
   table Gen/C07_Layouts.v (wire keys, pointer-ness, kind of every field of every full struct).
   Text keys are byte lists (no Coq strings in extracted code); the comment gives the name.
   No proofs in this file. *)
From Coq Require Import List NArith ZArith Bool String.
From V Require Import C07.Storage C07.Cbor.
Import ListNotations.
Open Scope N_scope.

Definition S_GasPrice : ty :=
  TStruct [
    (FText [80; 114; 105; 99; 101; 73; 110; 87; 101; 105] (* PriceInWei *), false, TPtr (TFelt));
    (FText [80; 114; 105; 99; 101; 73; 110; 70; 114; 105] (* PriceInFri *), false, TPtr (TFelt)) ].

Definition S_Header : ty :=
  TStruct [
    (FText [72; 97; 115; 104] (* Hash *), false, TPtr (TFelt));
    (FText [80; 97; 114; 101; 110; 116; 72; 97; 115; 104] (* ParentHash *), false, TPtr (TFelt));
    (FText [78; 117; 109; 98; 101; 114] (* Number *), false, TUint 64);
    (FText [71; 108; 111; 98; 97; 108; 83; 116; 97; 116; 101; 82; 111; 111; 116] (* GlobalStateRoot *), false, TPtr (TFelt));
    (FText [83; 101; 113; 117; 101; 110; 99; 101; 114; 65; 100; 100; 114; 101; 115; 115] (* SequencerAddress *), false, TPtr (TFelt));
    (FText [84; 114; 97; 110; 115; 97; 99; 116; 105; 111; 110; 67; 111; 117; 110; 116] (* TransactionCount *), false, TUint 64);
    (FText [69; 118; 101; 110; 116; 67; 111; 117; 110; 116] (* EventCount *), false, TUint 64);
    (FText [84; 105; 109; 101; 115; 116; 97; 109; 112] (* Timestamp *), false, TUint 64);
    (FText [80; 114; 111; 116; 111; 99; 111; 108; 86; 101; 114; 115; 105; 111; 110] (* ProtocolVersion *), false, TText);
    (FText [69; 118; 101; 110; 116; 115; 66; 108; 111; 111; 109] (* EventsBloom *), false, TPtr (TBin));
    (FText [103; 97; 115; 112; 114; 105; 99; 101] (* gasprice *), false, TPtr (TFelt));
    (FText [83; 105; 103; 110; 97; 116; 117; 114; 101; 115] (* Signatures *), false, TSlice (TSlice (TPtr (TFelt))));
    (FText [103; 97; 115; 112; 114; 105; 99; 101; 115; 116; 114; 107] (* gaspricestrk *), false, TPtr (TFelt));
    (FText [76; 49; 68; 65; 77; 111; 100; 101] (* L1DAMode *), false, TUint 64);
    (FText [76; 49; 68; 97; 116; 97; 71; 97; 115; 80; 114; 105; 99; 101] (* L1DataGasPrice *), false, TPtr (S_GasPrice));
    (FText [76; 50; 71; 97; 115; 80; 114; 105; 99; 101] (* L2GasPrice *), false, TPtr (S_GasPrice)) ].

Definition S_ResourceBounds : ty :=
  TStruct [
    (FText [77; 97; 120; 65; 109; 111; 117; 110; 116] (* MaxAmount *), false, TUint 64);
    (FText [77; 97; 120; 80; 114; 105; 99; 101; 80; 101; 114; 85; 110; 105; 116] (* MaxPricePerUnit *), false, TPtr (TFelt)) ].

Definition S_DeclareTransaction : ty :=
  TStruct [
    (FText [84; 114; 97; 110; 115; 97; 99; 116; 105; 111; 110; 72; 97; 115; 104] (* TransactionHash *), false, TPtr (TFelt));
    (FText [67; 108; 97; 115; 115; 72; 97; 115; 104] (* ClassHash *), false, TPtr (TFelt));
    (FText [83; 101; 110; 100; 101; 114; 65; 100; 100; 114; 101; 115; 115] (* SenderAddress *), false, TPtr (TFelt));
    (FText [77; 97; 120; 70; 101; 101] (* MaxFee *), false, TPtr (TFelt));
    (FText [84; 114; 97; 110; 115; 97; 99; 116; 105; 111; 110; 83; 105; 103; 110; 97; 116; 117; 114; 101] (* TransactionSignature *), false, TSlice (TFelt));
    (FText [78; 111; 110; 99; 101] (* Nonce *), false, TPtr (TFelt));
    (FText [86; 101; 114; 115; 105; 111; 110] (* Version *), false, TPtr (TFelt));
    (FText [67; 111; 109; 112; 105; 108; 101; 100; 67; 108; 97; 115; 115; 72; 97; 115; 104] (* CompiledClassHash *), false, TPtr (TFelt));
    (FText [82; 101; 115; 111; 117; 114; 99; 101; 66; 111; 117; 110; 100; 115] (* ResourceBounds *), false, TMap (TUint 32) (S_ResourceBounds));
    (FText [84; 105; 112] (* Tip *), false, TUint 64);
    (FText [80; 97; 121; 109; 97; 115; 116; 101; 114; 68; 97; 116; 97] (* PaymasterData *), false, TSlice (TFelt));
    (FText [65; 99; 99; 111; 117; 110; 116; 68; 101; 112; 108; 111; 121; 109; 101; 110; 116; 68; 97; 116; 97] (* AccountDeploymentData *), false, TSlice (TFelt));
    (FText [78; 111; 110; 99; 101; 68; 65; 77; 111; 100; 101] (* NonceDAMode *), false, TUint 32);
    (FText [70; 101; 101; 68; 65; 77; 111; 100; 101] (* FeeDAMode *), false, TUint 32) ].

Definition S_DeployTransaction : ty :=
  TStruct [
    (FText [84; 114; 97; 110; 115; 97; 99; 116; 105; 111; 110; 72; 97; 115; 104] (* TransactionHash *), false, TPtr (TFelt));
    (FText [67; 111; 110; 116; 114; 97; 99; 116; 65; 100; 100; 114; 101; 115; 115; 83; 97; 108; 116] (* ContractAddressSalt *), false, TPtr (TFelt));
    (FText [67; 111; 110; 116; 114; 97; 99; 116; 65; 100; 100; 114; 101; 115; 115] (* ContractAddress *), false, TPtr (TFelt));
    (FText [67; 108; 97; 115; 115; 72; 97; 115; 104] (* ClassHash *), false, TPtr (TFelt));
    (FText [67; 111; 110; 115; 116; 114; 117; 99; 116; 111; 114; 67; 97; 108; 108; 68; 97; 116; 97] (* ConstructorCallData *), false, TSlice (TFelt));
    (FText [86; 101; 114; 115; 105; 111; 110] (* Version *), false, TPtr (TFelt)) ].

Definition S_InvokeTransaction : ty :=
  TStruct [
    (FText [84; 114; 97; 110; 115; 97; 99; 116; 105; 111; 110; 72; 97; 115; 104] (* TransactionHash *), false, TPtr (TFelt));
    (FText [67; 97; 108; 108; 68; 97; 116; 97] (* CallData *), false, TSlice (TFelt));
    (FText [84; 114; 97; 110; 115; 97; 99; 116; 105; 111; 110; 83; 105; 103; 110; 97; 116; 117; 114; 101] (* TransactionSignature *), false, TSlice (TFelt));
    (FText [77; 97; 120; 70; 101; 101] (* MaxFee *), false, TPtr (TFelt));
    (FText [67; 111; 110; 116; 114; 97; 99; 116; 65; 100; 100; 114; 101; 115; 115] (* ContractAddress *), false, TPtr (TFelt));
    (FText [86; 101; 114; 115; 105; 111; 110] (* Version *), false, TPtr (TFelt));
    (FText [69; 110; 116; 114; 121; 80; 111; 105; 110; 116; 83; 101; 108; 101; 99; 116; 111; 114] (* EntryPointSelector *), false, TPtr (TFelt));
    (FText [78; 111; 110; 99; 101] (* Nonce *), false, TPtr (TFelt));
    (FText [83; 101; 110; 100; 101; 114; 65; 100; 100; 114; 101; 115; 115] (* SenderAddress *), false, TPtr (TFelt));
    (FText [82; 101; 115; 111; 117; 114; 99; 101; 66; 111; 117; 110; 100; 115] (* ResourceBounds *), false, TMap (TUint 32) (S_ResourceBounds));
    (FText [84; 105; 112] (* Tip *), false, TUint 64);
    (FText [80; 97; 121; 109; 97; 115; 116; 101; 114; 68; 97; 116; 97] (* PaymasterData *), false, TSlice (TFelt));
    (FText [65; 99; 99; 111; 117; 110; 116; 68; 101; 112; 108; 111; 121; 109; 101; 110; 116; 68; 97; 116; 97] (* AccountDeploymentData *), false, TSlice (TFelt));
    (FText [78; 111; 110; 99; 101; 68; 65; 77; 111; 100; 101] (* NonceDAMode *), false, TUint 32);
    (FText [70; 101; 101; 68; 65; 77; 111; 100; 101] (* FeeDAMode *), false, TUint 32);
    (FText [80; 114; 111; 111; 102; 70; 97; 99; 116; 115] (* ProofFacts *), true, TSlice (TFelt)) ].

Definition S_L1HandlerTransaction : ty :=
  TStruct [
    (FText [84; 114; 97; 110; 115; 97; 99; 116; 105; 111; 110; 72; 97; 115; 104] (* TransactionHash *), false, TPtr (TFelt));
    (FText [67; 111; 110; 116; 114; 97; 99; 116; 65; 100; 100; 114; 101; 115; 115] (* ContractAddress *), false, TPtr (TFelt));
    (FText [69; 110; 116; 114; 121; 80; 111; 105; 110; 116; 83; 101; 108; 101; 99; 116; 111; 114] (* EntryPointSelector *), false, TPtr (TFelt));
    (FText [78; 111; 110; 99; 101] (* Nonce *), false, TPtr (TFelt));
    (FText [67; 97; 108; 108; 68; 97; 116; 97] (* CallData *), false, TSlice (TFelt));
    (FText [86; 101; 114; 115; 105; 111; 110] (* Version *), false, TPtr (TFelt)) ].

Definition S_DeployAccountTransaction : ty :=
  TStruct [
    (FText [84; 114; 97; 110; 115; 97; 99; 116; 105; 111; 110; 72; 97; 115; 104] (* TransactionHash *), false, TPtr (TFelt));
    (FText [67; 111; 110; 116; 114; 97; 99; 116; 65; 100; 100; 114; 101; 115; 115; 83; 97; 108; 116] (* ContractAddressSalt *), false, TPtr (TFelt));
    (FText [67; 111; 110; 116; 114; 97; 99; 116; 65; 100; 100; 114; 101; 115; 115] (* ContractAddress *), false, TPtr (TFelt));
    (FText [67; 108; 97; 115; 115; 72; 97; 115; 104] (* ClassHash *), false, TPtr (TFelt));
    (FText [67; 111; 110; 115; 116; 114; 117; 99; 116; 111; 114; 67; 97; 108; 108; 68; 97; 116; 97] (* ConstructorCallData *), false, TSlice (TFelt));
    (FText [86; 101; 114; 115; 105; 111; 110] (* Version *), false, TPtr (TFelt));
    (FText [77; 97; 120; 70; 101; 101] (* MaxFee *), false, TPtr (TFelt));
    (FText [84; 114; 97; 110; 115; 97; 99; 116; 105; 111; 110; 83; 105; 103; 110; 97; 116; 117; 114; 101] (* TransactionSignature *), false, TSlice (TFelt));
    (FText [78; 111; 110; 99; 101] (* Nonce *), false, TPtr (TFelt));
    (FText [82; 101; 115; 111; 117; 114; 99; 101; 66; 111; 117; 110; 100; 115] (* ResourceBounds *), false, TMap (TUint 32) (S_ResourceBounds));
    (FText [84; 105; 112] (* Tip *), false, TUint 64);
    (FText [80; 97; 121; 109; 97; 115; 116; 101; 114; 68; 97; 116; 97] (* PaymasterData *), false, TSlice (TFelt));
    (FText [78; 111; 110; 99; 101; 68; 65; 77; 111; 100; 101] (* NonceDAMode *), false, TUint 32);
    (FText [70; 101; 101; 68; 65; 77; 111; 100; 101] (* FeeDAMode *), false, TUint 32) ].

Definition S_Transaction : ty :=
  TIface [
    (65536, S_DeclareTransaction);
    (65537, S_DeployTransaction);
    (65538, S_InvokeTransaction);
    (65539, S_L1HandlerTransaction);
    (65540, S_DeployAccountTransaction) ].

Definition S_Event : ty :=
  TStruct [
    (FText [70; 114; 111; 109] (* From *), false, TPtr (TFelt));
    (FText [75; 101; 121; 115] (* Keys *), false, TSlice (TFelt));
    (FText [68; 97; 116; 97] (* Data *), false, TSlice (TFelt)) ].

Definition S_ExecutionResources : ty :=
  TStruct [
    (FText [66; 117; 105; 108; 116; 105; 110; 73; 110; 115; 116; 97; 110; 99; 101; 67; 111; 117; 110; 116; 101; 114] (* BuiltinInstanceCounter *), false, TStruct [
    (FText [80; 101; 100; 101; 114; 115; 101; 110] (* Pedersen *), false, TUint 64);
    (FText [82; 97; 110; 103; 101; 67; 104; 101; 99; 107] (* RangeCheck *), false, TUint 64);
    (FText [66; 105; 116; 119; 105; 115; 101] (* Bitwise *), false, TUint 64);
    (FText [79; 117; 116; 112; 117; 116] (* Output *), false, TUint 64);
    (FText [69; 99; 115; 100; 97] (* Ecsda *), false, TUint 64);
    (FText [69; 99; 79; 112] (* EcOp *), false, TUint 64);
    (FText [75; 101; 99; 99; 97; 107] (* Keccak *), false, TUint 64);
    (FText [80; 111; 115; 101; 105; 100; 111; 110] (* Poseidon *), false, TUint 64);
    (FText [83; 101; 103; 109; 101; 110; 116; 65; 114; 101; 110; 97] (* SegmentArena *), false, TUint 64);
    (FText [65; 100; 100; 77; 111; 100] (* AddMod *), false, TUint 64);
    (FText [77; 117; 108; 77; 111; 100] (* MulMod *), false, TUint 64);
    (FText [82; 97; 110; 103; 101; 67; 104; 101; 99; 107; 57; 54] (* RangeCheck96 *), false, TUint 64) ]);
    (FText [77; 101; 109; 111; 114; 121; 72; 111; 108; 101; 115] (* MemoryHoles *), false, TUint 64);
    (FText [83; 116; 101; 112; 115] (* Steps *), false, TUint 64);
    (FText [68; 97; 116; 97; 65; 118; 97; 105; 108; 97; 98; 105; 108; 105; 116; 121] (* DataAvailability *), false, TPtr (TStruct [
    (FText [76; 49; 71; 97; 115] (* L1Gas *), false, TUint 64);
    (FText [76; 49; 68; 97; 116; 97; 71; 97; 115] (* L1DataGas *), false, TUint 64) ]));
    (FText [84; 111; 116; 97; 108; 71; 97; 115; 67; 111; 110; 115; 117; 109; 101; 100] (* TotalGasConsumed *), false, TPtr (TStruct [
    (FText [76; 49; 71; 97; 115] (* L1Gas *), false, TUint 64);
    (FText [76; 49; 68; 97; 116; 97; 71; 97; 115] (* L1DataGas *), false, TUint 64);
    (FText [76; 50; 71; 97; 115] (* L2Gas *), false, TUint 64) ])) ].

Definition S_L1ToL2Message : ty :=
  TStruct [
    (FText [70; 114; 111; 109] (* From *), false, TByteArr 20);
    (FText [78; 111; 110; 99; 101] (* Nonce *), false, TPtr (TFelt));
    (FText [80; 97; 121; 108; 111; 97; 100] (* Payload *), false, TSlice (TFelt));
    (FText [83; 101; 108; 101; 99; 116; 111; 114] (* Selector *), false, TPtr (TFelt));
    (FText [84; 111] (* To *), false, TPtr (TFelt)) ].

Definition S_L2ToL1Message : ty :=
  TStruct [
    (FText [70; 114; 111; 109] (* From *), false, TPtr (TFelt));
    (FText [80; 97; 121; 108; 111; 97; 100] (* Payload *), false, TSlice (TFelt));
    (FText [84; 111] (* To *), false, TByteArr 20) ].

Definition S_TransactionReceipt : ty :=
  TStruct [
    (FText [70; 101; 101] (* Fee *), false, TPtr (TFelt));
    (FText [70; 101; 101; 85; 110; 105; 116] (* FeeUnit *), false, TUint 8);
    (FText [69; 118; 101; 110; 116; 115] (* Events *), false, TSlice (TPtr (S_Event)));
    (FText [69; 120; 101; 99; 117; 116; 105; 111; 110; 82; 101; 115; 111; 117; 114; 99; 101; 115] (* ExecutionResources *), false, TPtr (S_ExecutionResources));
    (FText [76; 49; 84; 111; 76; 50; 77; 101; 115; 115; 97; 103; 101] (* L1ToL2Message *), false, TPtr (S_L1ToL2Message));
    (FText [76; 50; 84; 111; 76; 49; 77; 101; 115; 115; 97; 103; 101] (* L2ToL1Message *), false, TSlice (TPtr (S_L2ToL1Message)));
    (FText [84; 114; 97; 110; 115; 97; 99; 116; 105; 111; 110; 72; 97; 115; 104] (* TransactionHash *), false, TPtr (TFelt));
    (FText [82; 101; 118; 101; 114; 116; 101; 100] (* Reverted *), false, TBool);
    (FText [82; 101; 118; 101; 114; 116; 82; 101; 97; 115; 111; 110] (* RevertReason *), false, TText) ].

Definition S_StateDiff : ty :=
  TStruct [
    (FText [83; 116; 111; 114; 97; 103; 101; 68; 105; 102; 102; 115] (* StorageDiffs *), false, TMap (TFelt) (TMap (TFelt) (TPtr (TFelt))));
    (FText [78; 111; 110; 99; 101; 115] (* Nonces *), false, TMap (TFelt) (TPtr (TFelt)));
    (FText [68; 101; 112; 108; 111; 121; 101; 100; 67; 111; 110; 116; 114; 97; 99; 116; 115] (* DeployedContracts *), false, TMap (TFelt) (TPtr (TFelt)));
    (FText [68; 101; 99; 108; 97; 114; 101; 100; 86; 48; 67; 108; 97; 115; 115; 101; 115] (* DeclaredV0Classes *), false, TSlice (TPtr (TFelt)));
    (FText [68; 101; 99; 108; 97; 114; 101; 100; 86; 49; 67; 108; 97; 115; 115; 101; 115] (* DeclaredV1Classes *), false, TMap (TFelt) (TPtr (TFelt)));
    (FText [82; 101; 112; 108; 97; 99; 101; 100; 67; 108; 97; 115; 115; 101; 115] (* ReplacedClasses *), false, TMap (TFelt) (TPtr (TFelt)));
    (FText [77; 105; 103; 114; 97; 116; 101; 100; 67; 108; 97; 115; 115; 101; 115] (* MigratedClasses *), false, TMap (TFelt) (TFelt)) ].

Definition S_StateUpdate : ty :=
  TStruct [
    (FText [66; 108; 111; 99; 107; 72; 97; 115; 104] (* BlockHash *), false, TPtr (TFelt));
    (FText [78; 101; 119; 82; 111; 111; 116] (* NewRoot *), false, TPtr (TFelt));
    (FText [79; 108; 100; 82; 111; 111; 116] (* OldRoot *), false, TPtr (TFelt));
    (FText [83; 116; 97; 116; 101; 68; 105; 102; 102] (* StateDiff *), false, TPtr (S_StateDiff)) ].

Definition shapes : list (bytes * ty) := [
  ([71; 97; 115; 80; 114; 105; 99; 101] (* GasPrice *), S_GasPrice);
  ([72; 101; 97; 100; 101; 114] (* Header *), S_Header);
  ([82; 101; 115; 111; 117; 114; 99; 101; 66; 111; 117; 110; 100; 115] (* ResourceBounds *), S_ResourceBounds);
  ([68; 101; 99; 108; 97; 114; 101; 84; 114; 97; 110; 115; 97; 99; 116; 105; 111; 110] (* DeclareTransaction *), S_DeclareTransaction);
  ([68; 101; 112; 108; 111; 121; 84; 114; 97; 110; 115; 97; 99; 116; 105; 111; 110] (* DeployTransaction *), S_DeployTransaction);
  ([73; 110; 118; 111; 107; 101; 84; 114; 97; 110; 115; 97; 99; 116; 105; 111; 110] (* InvokeTransaction *), S_InvokeTransaction);
  ([76; 49; 72; 97; 110; 100; 108; 101; 114; 84; 114; 97; 110; 115; 97; 99; 116; 105; 111; 110] (* L1HandlerTransaction *), S_L1HandlerTransaction);
  ([68; 101; 112; 108; 111; 121; 65; 99; 99; 111; 117; 110; 116; 84; 114; 97; 110; 115; 97; 99; 116; 105; 111; 110] (* DeployAccountTransaction *), S_DeployAccountTransaction);
  ([84; 114; 97; 110; 115; 97; 99; 116; 105; 111; 110] (* Transaction *), S_Transaction);
  ([69; 118; 101; 110; 116] (* Event *), S_Event);
  ([69; 120; 101; 99; 117; 116; 105; 111; 110; 82; 101; 115; 111; 117; 114; 99; 101; 115] (* ExecutionResources *), S_ExecutionResources);
  ([76; 49; 84; 111; 76; 50; 77; 101; 115; 115; 97; 103; 101] (* L1ToL2Message *), S_L1ToL2Message);
  ([76; 50; 84; 111; 76; 49; 77; 101; 115; 115; 97; 103; 101] (* L2ToL1Message *), S_L2ToL1Message);
  ([84; 114; 97; 110; 115; 97; 99; 116; 105; 111; 110; 82; 101; 99; 101; 105; 112; 116] (* TransactionReceipt *), S_TransactionReceipt);
  ([83; 116; 97; 116; 101; 68; 105; 102; 102] (* StateDiff *), S_StateDiff);
  ([83; 116; 97; 116; 101; 85; 112; 100; 97; 116; 101] (* StateUpdate *), S_StateUpdate)
].

Fixpoint assoc_bytes {A : Type} (k : bytes) (l : list (bytes * A)) : option A :=
  match l with
  | [] => None
  | (n, x) :: r => if bytes_eqb n k then Some x else assoc_bytes k r
  end.

Definition shape_by_name (n : bytes) : option ty := assoc_bytes n shapes.

(* ---------- relation to the regenerated layout table (not extracted: uses Coq strings) ---------- *)
Definition fkey_eqb (a b : fkey) : bool :=
  match a, b with
  | FText x, FText y => bytes_eqb x y
  | FInt x, FInt y => Z.eqb x y
  | _, _ => false
  end.

Definition strip_ptr (t : ty) : bool * ty := match t with TPtr t' => (true, t') | _ => (false, t) end.

(* reflect.Kind of the field's type behind pointers, as recorded by the translator *)
Definition kind_matches (kind : string) (t : ty) : bool :=
  match t with
  | TUint b => ((b =? 8) && String.eqb kind "uint8") || ((b =? 16) && String.eqb kind "uint16") ||
               ((b =? 32) && String.eqb kind "uint32") ||
               ((b =? 64) && (String.eqb kind "uint64" || String.eqb kind "uint"))
  | TBool => String.eqb kind "bool"
  | TText => String.eqb kind "string"
  | TBin | TStruct _ => String.eqb kind "struct"
  | TByteArr _ | TFelt => String.eqb kind "array"
  | TByteSlice | TSlice _ => String.eqb kind "slice"
  | TMap _ _ => String.eqb kind "map"
  | TIface _ => String.eqb kind "interface"
  | TPtr _ => false
  end.

Definition field_matches (f : field) (sf : fkey * bool * ty) : bool :=
  match sf with
  | (k, _, t) =>
      fkey_eqb (fkey_of_ckey (f_key f)) k && f_wanted f &&
      (let (p, b) := strip_ptr t in Bool.eqb p (f_ptr f) && kind_matches (f_kind f) b)
  end.

Fixpoint forallb2 {A B : Type} (f : A -> B -> bool) (l : list A) (m : list B) : bool :=
  match l, m with
  | [], [] => true
  | x :: l', y :: m' => f x y && forallb2 f l' m'
  | _, _ => false
  end.

Definition shape_matches_layout (t : ty) (L : layout) : bool :=
  match t with TStruct fs => forallb2 field_matches L fs | _ => false end.

(* the index header {1: [..], 2: [..]} has its own codec and theorem (C07_hdr_roundtrip) *)
Definition layout_exempt (name : string) : bool := String.eqb name "BlockTransactionsIndexes".

Definition shapes_match_layouts (fulls : list (string * layout)) : bool :=
  forallb (fun nl => match shape_by_name (bytes_of_string (fst nl)) with
                     | Some t => shape_matches_layout t (snd nl)
                     | None => layout_exempt (fst nl)
                     end) fulls.
