(* C07 / Storage — executable models of juno's block storage layout (was Model.v; Model.v now re-exports
   Storage, Cbor and Shapes).
   [Indexed]     : core/block_transaction.go + core/indexed/{indexed,lazy_slice}.go +
                   core/block_transaction_serializer.go (one blob per block: index header, then the
                   concatenated transactions, then the concatenated receipts; receipts carry absolute
                   offsets; the transaction section ends at Receipts[0]).
   [Keys]        : db/typed/key, db/schema.go, db/buckets.go (big-endian uint64, felt bytes, composite
                   (number,index) keys, bucket prefixes, CBOR uint keys of the BlockTransactions bucket).
   [Projection]  : "decode a CBOR map into a struct" and the checker that a partial (projection) struct
                   of core/partial_cbor.go agrees with the full struct it shadows.
   No proofs in this file; it is extracted to OCaml and run against the Go code. *)
From Coq Require Import List NArith ZArith Bool String Ascii.
Import ListNotations.
Open Scope N_scope.

Definition byte := N.                 (* a byte is an N below 256 (see [bytes_ok]) *)
Definition bytes := list byte.
Definition blen (b : bytes) : N := N.of_nat (List.length b).
Definition bytes_ok (b : bytes) : bool := forallb (fun x => x <? 256) b.

(* Go result of an accessor: value / db.ErrKeyNotFound / anything else (decode error, slice panic) *)
Inductive res (A : Type) : Type := Ok (a : A) | NotFound | Err.
Arguments Ok {A} a.
Arguments NotFound {A}.
Arguments Err {A}.

(* ================= Indexed ================= *)

(* indexed.Write: indexes[i] = writer.Len() before item i is encoded *)
Fixpoint offsets (start : N) (lens : list N) : list N :=
  match lens with
  | [] => []
  | l :: r => start :: offsets (start + l) r
  end.

Record index_hdr := mkHdr { ix_tx : list N; ix_rc : list N }.   (* BlockTransactionsIndexes *)
Record blob := mkBlob { b_idx : index_hdr; b_data : bytes }.     (* BlockTransactions *)

(* Go d[s:e]; None = the slice expression panics *)
Definition slice (d : bytes) (s e : N) : option bytes :=
  if (s <=? e) && (e <=? blen d)
  then Some (firstn (N.to_nat (e - s)) (skipn (N.to_nat s) d))
  else None.

(* LazySlice.getInto without the decoding: start = indexes[i]; end = indexes[i+1] or len(data) *)
Definition get_bytes (ix : list N) (d : bytes) (i : nat) : res bytes :=
  match nth_error ix i with
  | None => NotFound
  | Some s =>
      let e := match nth_error ix (S i) with Some e => e | None => blen d end in
      match slice d s e with Some b => Ok b | None => Err end
  end.

Definition decode_res {A} (dec : bytes -> option A) (r : res bytes) : res A :=
  match r with
  | Ok b => match dec b with Some x => Ok x | None => Err end
  | NotFound => NotFound
  | Err => Err
  end.

(* LazySlice.Get: index is a Go int *)
Definition lazy_get {A} (dec : bytes -> option A) (ix : list N) (d : bytes) (i : Z) : res A :=
  if ((i <? 0) || (Z.of_nat (List.length ix) <=? i))%Z then NotFound
  else decode_res dec (get_bytes ix d (Z.to_nat i)).

Fixpoint res_all {A} (l : list (res A)) : res (list A) :=
  match l with
  | [] => Ok []
  | Ok x :: r => match res_all r with Ok xs => Ok (x :: xs) | _ => Err end
  | _ :: _ => Err
  end.

(* LazySlice.All / AllMapped with a pure extractor (decoding into a fresh value each time) *)
Definition lazy_all {A} (dec : bytes -> option A) (ix : list N) (d : bytes) : res (list A) :=
  res_all (map (fun i => decode_res dec (get_bytes ix d i)) (seq 0 (List.length ix))).

Definition res_map {A B} (f : A -> B) (r : res A) : res B :=
  match r with Ok x => Ok (f x) | NotFound => NotFound | Err => Err end.

Definition lazy_all_mapped {A B} (dec : bytes -> option A) (f : A -> B) ix d : res (list B) :=
  res_map (map f) (lazy_all dec ix d).

(* transactionsSection: Data[:Receipts[0]] when there are receipts, else Data *)
Definition tx_section (b : blob) : option bytes :=
  match ix_rc (b_idx b) with
  | r0 :: _ => slice (b_data b) 0 r0
  | [] => Some (b_data b)
  end.

(* int(index) of a uint64 argument, as in core.GetTransactionByBlockAndIndex *)
Definition to_int (u : N) : Z :=
  if u <? 2 ^ 63 then Z.of_N u else (Z.of_N u - 2 ^ 64)%Z.

Definition get_tx {A} (dec : bytes -> option A) (b : blob) (i : Z) : res A :=
  match tx_section b with
  | None => Err
  | Some s => lazy_get dec (ix_tx (b_idx b)) s i
  end.

Definition get_rc {A} (dec : bytes -> option A) (b : blob) (i : Z) : res A :=
  lazy_get dec (ix_rc (b_idx b)) (b_data b) i.

Definition all_txs {A} (dec : bytes -> option A) (b : blob) : res (list A) :=
  match tx_section b with
  | None => Err
  | Some s => lazy_all dec (ix_tx (b_idx b)) s
  end.

Definition all_rcs {A} (dec : bytes -> option A) (b : blob) : res (list A) :=
  lazy_all dec (ix_rc (b_idx b)) (b_data b).

(* extractTransactionAndReceipt *)
Definition get_pair {A B} (decT : bytes -> option A) (decR : bytes -> option B) (b : blob) (i : Z)
  : res (A * B) :=
  match get_tx decT b i with
  | Ok t => match get_rc decR b i with Ok r => Ok (t, r) | NotFound => NotFound | Err => Err end
  | NotFound => NotFound
  | Err => Err
  end.

Definition count (b : blob) : nat := List.length (ix_tx (b_idx b)).

(* NewBlockTransactions: transactions first, then receipts, into one buffer *)
Definition build_raw (te re : list bytes) : blob :=
  let td := List.concat te in
  mkBlob (mkHdr (offsets 0 (map blen te)) (offsets (blen td) (map blen re))) (td ++ List.concat re).

Definition build {T R} (encT : T -> bytes) (encR : R -> bytes) (txs : list T) (rcs : list R) : blob :=
  build_raw (map encT txs) (map encR rcs).

(* BlockTransactionsSerializer.Marshal / UnmarshalPartial: header item, then the data verbatim *)
Definition serialize (hdr_enc : index_hdr -> bytes) (b : blob) : bytes :=
  hdr_enc (b_idx b) ++ b_data b.

Definition parse (hdr_dec : bytes -> option (index_hdr * bytes)) (raw : bytes) : option blob :=
  match hdr_dec raw with
  | Some (h, rest) => Some (mkBlob h rest)
  | None => None
  end.

(* ================= Keys ================= *)

(* k big-endian base-256 digits of n, most significant first (binary.BigEndian.PutUint64 for k = 8,
   felt.Marshal for k = 32) *)
Fixpoint be_bytes (k : nat) (n : N) : bytes :=
  match k with
  | O => []
  | S k' => (n / 256 ^ N.of_nat k') mod 256 :: be_bytes k' n
  end.

Fixpoint be_val (l : bytes) : N :=
  match l with
  | [] => 0
  | d :: r => d * 256 ^ blen r + be_val r
  end.

Definition be64 (n : N) : bytes := be_bytes 8 n.
Definition be64_dec (l : bytes) : option N :=
  if (List.length l =? 8)%nat then Some (be_val l) else None.

Definition felt_bytes (z : N) : bytes := be_bytes 32 z.
Definition felt_dec (l : bytes) : option N :=
  if (List.length l =? 32)%nat then Some (be_val l) else None.

(* db.BlockNumIndexKey.Marshal / UnmarshalBinary (accepts >= 16 bytes, reads the first 16) *)
Definition bni_key (n i : N) : bytes := be64 n ++ be64 i.
Definition bni_dec (k : bytes) : option (N * N) :=
  if (List.length k <? 16)%nat then None
  else Some (be_val (firstn 8 k), be_val (firstn 8 (skipn 8 k))).

(* db.Bucket.Key *)
Definition bucket_key (bucket : N) (parts : list bytes) : bytes := bucket :: List.concat parts.

Fixpoint lex_lt (a b : bytes) : bool :=
  match a, b with
  | [], [] => false
  | [], _ :: _ => true
  | _ :: _, [] => false
  | x :: a', y :: b' => (x <? y) || ((x =? y) && lex_lt a' b')
  end.

Fixpoint has_prefix (p k : bytes) : bool :=
  match p, k with
  | [], _ => true
  | _ :: _, [] => false
  | x :: p', y :: k' => (x =? y) && has_prefix p' k'
  end.

Fixpoint bytes_eqb (a b : bytes) : bool :=
  match a, b with
  | [], [] => true
  | x :: a', y :: b' => (x =? y) && bytes_eqb a' b'
  | _, _ => false
  end.

(* CBOR head (RFC 8949 §3, shortest form = fxamacker canonical mode): major type and argument *)
Definition cbor_head (major n : N) : bytes :=
  let m := major * 32 in
  if n <? 24 then [m + n]
  else if n <? 256 then [m + 24; n]
  else if n <? 65536 then (m + 25) :: be_bytes 2 n
  else if n <? 4294967296 then (m + 26) :: be_bytes 4 n
  else (m + 27) :: be_bytes 8 n.

Definition cbor_uint (n : N) : bytes := cbor_head 0 n.     (* key.Cbor[uint64] *)

Definition cbor_head_dec (d : bytes) : option (N * N * bytes) :=
  match d with
  | [] => None
  | h :: r =>
      let major := h / 32 in
      let ai := h mod 32 in
      if ai <? 24 then Some (major, ai, r)
      else
        let k := if ai =? 24 then Some 1%nat else if ai =? 25 then Some 2%nat
                 else if ai =? 26 then Some 4%nat else if ai =? 27 then Some 8%nat else None in
        match k with
        | None => None
        | Some k => let a := firstn k r in
                    if (List.length a <? k)%nat then None else Some (major, be_val a, skipn k r)
        end
  end.

Definition cbor_uint_dec (d : bytes) : option (N * bytes) :=
  match cbor_head_dec d with
  | Some (0, n, r) => Some (n, r)
  | _ => None
  end.

Definition cbor_uint_array (l : list N) : bytes :=
  cbor_head 4 (N.of_nat (List.length l)) ++ List.concat (map cbor_uint l).

Fixpoint cbor_uints_dec (k : nat) (d : bytes) : option (list N * bytes) :=
  match k with
  | O => Some ([], d)
  | S k' =>
      match cbor_uint_dec d with
      | Some (n, r) =>
          match cbor_uints_dec k' r with
          | Some (l, r') => Some (n :: l, r')
          | None => None
          end
      | None => None
      end
  end.

Definition cbor_uint_array_dec (d : bytes) : option (list N * bytes) :=
  match cbor_head_dec d with
  | Some (4, n, r) => cbor_uints_dec (N.to_nat n) r
  | _ => None
  end.

(* encoder.Encode(BlockTransactionsIndexes): map with integer keys 1, 2; both omitempty *)
Definition cbor_hdr_enc (h : index_hdr) : bytes :=
  let f (k : N) (l : list N) := match l with [] => [] | _ => cbor_uint k ++ cbor_uint_array l end in
  let cnt (l : list N) : N := match l with [] => 0 | _ => 1 end in
  cbor_head 5 (cnt (ix_tx h) + cnt (ix_rc h)) ++ f 1 (ix_tx h) ++ f 2 (ix_rc h).

Definition cbor_hdr_dec (d : bytes) : option (index_hdr * bytes) :=
  match cbor_head_dec d with
  | Some (5, 0, r) => Some (mkHdr [] [], r)
  | Some (5, 1, r) =>
      match cbor_uint_dec r with
      | Some (k, r1) =>
          match cbor_uint_array_dec r1 with
          | Some (l, r2) =>
              if k =? 1 then Some (mkHdr l [], r2)
              else if k =? 2 then Some (mkHdr [] l, r2) else None
          | None => None
          end
      | None => None
      end
  | Some (5, 2, r) =>
      match cbor_uint_dec r with
      | Some (1, r1) =>
          match cbor_uint_array_dec r1 with
          | Some (l1, r2) =>
              match cbor_uint_dec r2 with
              | Some (2, r3) =>
                  match cbor_uint_array_dec r3 with
                  | Some (l2, r4) => Some (mkHdr l1 l2, r4)
                  | None => None
                  end
              | _ => None
              end
          | None => None
          end
      | _ => None
      end
  | _ => None
  end.

(* the raw database entry of a block's transactions: bucket 40, CBOR uint key *)
Definition block_txs_key (bucket n : N) : bytes := bucket_key bucket [cbor_uint n].
Definition num_key (bucket n : N) : bytes := bucket_key bucket [be64 n].

(* ---- what the oracle is asked: identity item codec over concrete bytes ---- *)
Definition id_dec (b : bytes) : option bytes := Some b.
Definition model_blob (te re : list bytes) : bytes := serialize cbor_hdr_enc (build_raw te re).
Definition model_get_tx (raw : bytes) (u : N) : res bytes :=
  match parse cbor_hdr_dec raw with Some b => get_tx id_dec b (to_int u) | None => Err end.
Definition model_get_rc (raw : bytes) (u : N) : res bytes :=
  match parse cbor_hdr_dec raw with Some b => get_rc id_dec b (to_int u) | None => Err end.
Definition model_all_txs (raw : bytes) : res (list bytes) :=
  match parse cbor_hdr_dec raw with Some b => all_txs id_dec b | None => Err end.
Definition model_all_rcs (raw : bytes) : res (list bytes) :=
  match parse cbor_hdr_dec raw with Some b => all_rcs id_dec b | None => Err end.
Definition model_hdr (raw : bytes) : option (list N * list N * N) :=
  match parse cbor_hdr_dec raw with
  | Some b => Some (ix_tx (b_idx b), ix_rc (b_idx b), blen (b_data b))
  | None => None
  end.

(* ================= Projection ================= *)

Inductive ckey := KStr (s : string) | KInt (z : Z).

Definition ckey_eqb (a b : ckey) : bool :=
  match a, b with
  | KStr s, KStr t => String.eqb s t
  | KInt x, KInt y => Z.eqb x y
  | _, _ => false
  end.

(* one struct field as the CBOR decoder sees it (after embedding / shadowing is resolved):
   Go field name, wire key, reflect.Kind of the type behind pointers, that type, pointer?, whether the
   type is a container of further structs, and whether the field materialises a value (false = the
   field is a core.discardedCBOR placeholder) *)
Record field := mkField {
  f_go : string; f_key : ckey; f_kind : string; f_type : string;
  f_ptr : bool; f_nested : bool; f_wanted : bool }.
Definition layout := list field.

(* a projection struct together with the full struct(s) whose records it is decoded from *)
Record pentry := mkP { p_name : string; p_layout : layout; p_fulls : list (string * layout) }.

Fixpoint find_field (k : ckey) (L : layout) : option field :=
  match L with
  | [] => None
  | f :: r => if ckey_eqb k (f_key f) then Some f else find_field k r
  end.

Definition has_key (k : ckey) (L : layout) : bool :=
  match find_field k L with Some _ => true | None => false end.

Fixpoint nodup_keys (L : layout) : bool :=
  match L with
  | [] => true
  | f :: r => negb (has_key (f_key f) r) && nodup_keys r
  end.

Fixpoint has_go (n : string) (L : layout) : bool :=
  match L with
  | [] => false
  | f :: r => String.eqb n (f_go f) || has_go n r
  end.

Fixpoint nodup_go (L : layout) : bool :=
  match L with
  | [] => true
  | f :: r => negb (has_go (f_go f) r) && nodup_go r
  end.

(* every wanted field of the projection is, in the full struct, the materialised field of the same Go
   name, with the same wire key, the same type behind pointers, the same kind and nesting *)
Definition wanted_ok (full : layout) (f : field) : bool :=
  negb (f_wanted f) ||
  match find_field (f_key f) full with
  | Some g => f_wanted g && String.eqb (f_go f) (f_go g) && String.eqb (f_type f) (f_type g)
              && String.eqb (f_kind f) (f_kind g) && Bool.eqb (f_nested f) (f_nested g)
  | None => false
  end.
Definition check_wanted (full proj : layout) : bool := forallb (wanted_ok full) proj.

(* every wire key of the full struct is named by the projection (no key takes the decoder's
   unmatched-key path: the invariant core/partial_cbor.go documents) *)
Definition check_cover (full proj : layout) : bool :=
  forallb (fun g => has_key (f_key g) proj) full.

(* every key the projection names exists in at least one of its full structs *)
Definition check_stale (fulls : list (string * layout)) (proj : layout) : bool :=
  forallb (fun f => existsb (fun nl => has_key (f_key f) (snd nl)) fulls) proj.

Definition check_projection (full proj : layout) : bool :=
  nodup_keys full && nodup_keys proj && nodup_go full && nodup_go proj && forallb f_wanted full &&
  check_cover full proj && check_wanted full proj.

Definition check_entry (p : pentry) : bool :=
  existsb f_wanted (p_layout p) &&
  negb (match p_fulls p with [] => true | _ => false end) &&
  forallb (fun nl => check_projection (snd nl) (p_layout p)) (p_fulls p) &&
  check_stale (p_fulls p) (p_layout p).

(* the all-discarded skeletons the projections embed: name exactly the keys of the full struct *)
Definition check_skeleton (p : pentry) : bool :=
  forallb (fun f => negb (f_wanted f)) (p_layout p) &&
  negb (match p_fulls p with [] => true | _ => false end) &&
  nodup_keys (p_layout p) &&
  forallb (fun nl => nodup_keys (snd nl) && check_cover (snd nl) (p_layout p)) (p_fulls p) &&
  check_stale (p_fulls p) (p_layout p).

(* Decoding a CBOR map into a struct. [V] = an encoded data item, [D] = a decoded Go value,
   [dec ty v] = the library decoding item v into a Go value of type ty. A struct value is the list of
   its materialised fields (by Go field name) in declaration order; None = the key was absent (the
   field keeps its zero value). *)
Section Decode.
  Variables (V D : Type) (dec : string -> V -> option D).
  Definition wire := list (ckey * V).
  Definition sval := list (string * option D).

  Fixpoint find_key (k : ckey) (m : wire) : option V :=
    match m with
    | [] => None
    | (k', v) :: r => if ckey_eqb k k' then Some v else find_key k r
    end.

  Definition dec_field (f : field) (m : wire) : option (option D) :=
    match find_key (f_key f) m with
    | None => Some None
    | Some v => match dec (f_type f) v with Some x => Some (Some x) | None => None end
    end.

  Fixpoint decode_struct (L : layout) (m : wire) : option sval :=
    match L with
    | [] => Some []
    | f :: r =>
        if f_wanted f then
          match dec_field f m with
          | None => None
          | Some x => match decode_struct r m with Some s => Some ((f_go f, x) :: s) | None => None end
          end
        else decode_struct r m
    end.

  Fixpoint lookup (n : string) (s : sval) : option D :=
    match s with
    | [] => None
    | (n', x) :: r => if String.eqb n n' then x else lookup n r
    end.

  (* the full value restricted to what the projection materialises *)
  Fixpoint project (proj : layout) (s : sval) : sval :=
    match proj with
    | [] => []
    | f :: r => if f_wanted f then (f_go f, lookup (f_go f) s) :: project r s else project r s
    end.
End Decode.
