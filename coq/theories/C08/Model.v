(* C08 — JSON-RPC read methods answer from the chain the node actually holds.
   Part A (spec): the abstract chain = list of blocks (head first) + recorded L1 head; [resolve], [finality],
                  and for every read method the answer the property text demands ([spec_answer]).
   Part B (impl): the indices juno's handlers really consult (ChainHeight, block content by number,
                  number by hash, tx location by hash, L1 head), maintained by Store / RevertHead as
                  blockchain/statebackend does, and a transcription of the handlers of rpc/v8, v9, v10
                  (helpers.go blockHeaderByID / stateByBlockID / l1AcceptedBlockNumber / isL1Verified,
                  block.go, transaction.go, state_update.go, storage.go, nonce.go, class.go).
   Classes (session 4): every stored block delivers class definitions (opaque definition ids) for the class
                  hashes it declares (Cairo-0: deprecated_declared_classes, Sierra: declared_classes) and,
                  as the synchroniser does for old blocks, for undeclared class hashes its deployments
                  reference ([b_extra]); the code keeps one table hash -> (declared-at, definition), history
                  readers compare declared-at with their block number, RevertHead deletes the classes its
                  block declares and (since /repo 007ff78) the classes of its deployed contracts, when their
                  declared-at is the reverted block (core/state Revert, core/deprecatedstate
                  removeDeclaredClasses / removeDeployedContractClasses).
   Payloads (session 4): every transaction, receipt and header carries an opaque payload id (the complete
                  JSON object the harness compares), so that agreement of the methods can be stated.
   No proofs in this file; it is extracted to OCaml and run against the Go code. *)
From Coq Require Import List NArith ZArith Bool.
Import ListNotations.
Open Scope N_scope.

Definition hash := N.
Definition addr := N.
Definition felt := N.

(* ---------- association lists keyed by N: a Put is a cons, a Delete removes every entry ---------- *)
Fixpoint alookup {V : Type} (k : N) (l : list (N * V)) : option V :=
  match l with
  | [] => None
  | (k', v) :: r => if k =? k' then Some v else alookup k r
  end.

Fixpoint aremove {V : Type} (k : N) (l : list (N * V)) : list (N * V) :=
  match l with
  | [] => []
  | (k', v) :: r => if k =? k' then aremove k r else (k', v) :: aremove k r
  end.

Definition aset {V : Type} (k : N) (v : V) (l : list (N * V)) : list (N * V) := (k, v) :: aremove k l.

Definition mem (x : N) (l : list N) : bool := existsb (N.eqb x) l.

(* ---------- state ---------- *)
Record cstate := { c_class : felt; c_nonce : felt; c_storage : list (felt * felt) }.
Definition state := list (addr * cstate).

Record diff := {
  d_deploy : list (addr * felt);
  d_replace : list (addr * felt);
  d_nonces : list (addr * felt);
  d_storage : list (addr * list (felt * felt));
  d_declare0 : list (felt * N);             (* deprecated_declared_classes: class hash, delivered definition *)
  d_declare1 : list (felt * (felt * N)) }.  (* declared_classes: class hash, (compiled class hash, definition) *)

(* the class definitions a block brings for the hashes it declares, and the hashes RevertHead walks over *)
Definition declared_defs (d : diff) : list (felt * N) :=
  d_declare0 d ++ map (fun x => (fst x, snd (snd x))) (d_declare1 d).
Definition declared_hashes (d : diff) : list felt := map fst (d_declare0 d) ++ map fst (d_declare1 d).
(* ... since 007ff78 it also visits the class hashes of the block's deployed contracts *)
Definition deployed_classes (d : diff) : list felt := map snd (d_deploy d).
Definition revert_visits (d : diff) : list felt := declared_hashes d ++ deployed_classes d.

(* putClass: a definition is written only when the hash has none yet (the first declaration stays) *)
Definition add_classes {V : Type} (dl : list (N * V)) (cls : list (N * V)) : list (N * V) :=
  fold_left (fun acc hd => match alookup (fst hd) acc with Some _ => acc | None => hd :: acc end) dl cls.

Definition upd_contract (st : state) (a : addr) (f : cstate -> cstate) : state :=
  match alookup a st with
  | Some cs => aset a (f cs) st
  | None => st
  end.

Definition apply_diff (st : state) (d : diff) : state :=
  let st1 := fold_left (fun s ac => aset (fst ac) {| c_class := snd ac; c_nonce := 0; c_storage := [] |} s)
                       (d_deploy d) st in
  let st2 := fold_left (fun s ac => upd_contract s (fst ac)
                          (fun cs => {| c_class := snd ac; c_nonce := c_nonce cs; c_storage := c_storage cs |}))
                       (d_replace d) st1 in
  let st3 := fold_left (fun s an => upd_contract s (fst an)
                          (fun cs => {| c_class := c_class cs; c_nonce := snd an; c_storage := c_storage cs |}))
                       (d_nonces d) st2 in
  fold_left (fun s akvs => upd_contract s (fst akvs)
               (fun cs => {| c_class := c_class cs; c_nonce := c_nonce cs;
                             c_storage := fold_left (fun m kv => aset (fst kv) (snd kv) m) (snd akvs) (c_storage cs) |}))
            (d_storage d) st3.

(* ---------- blocks and the abstract chain ---------- *)
Record tx := { t_hash : hash; t_reverted : bool; t_events : N;
               t_pay : N;     (* the complete transaction object (opaque) *)
               t_rpay : N }.  (* the complete receipt object apart from finality / block info (opaque) *)

Record block := {
  b_number : N; b_hash : hash; b_parent : hash;
  b_txs : list tx;
  b_diff : diff;
  b_state : state;          (* the state after this block (C03's truth) *)
  b_hpay : N;               (* the rest of the header (opaque) *)
  b_extra : list (felt * N);     (* definitions delivered for class hashes the block references without declaring *)
  b_classes : list (felt * N) }. (* class hash -> definition, for every class delivered up to and including this block *)

Definition chain := list block.   (* head first *)

(* [w_orphans]: ghost bookkeeping for the one place where the class table can leave the chain: class hashes that a
   reverted block had introduced through [b_extra] WITHOUT their being the class of one of its deployed contracts
   (RevertHead walks the declared lists and the deployed contracts' classes). The synchroniser never delivers
   such a definition (sync/data_source.go fetchUnknownClasses: deployed contracts and the two declared lists
   only): see [delivered_like_sync]. *)
Record world := { w_chain : chain; w_l1 : option N; w_orphans : list felt }.

Inductive op :=
| OStore (h : hash) (hp : N) (txs : list tx) (d : diff) (extra : list (felt * N))
| ORevert
| OSetL1 (n : N).

Definition head_hash (c : chain) : hash := match c with [] => 0 | b :: _ => b_hash b end.
Definition head_state (c : chain) : state := match c with [] => [] | b :: _ => b_state b end.
Definition head_classes (c : chain) : list (felt * N) := match c with [] => [] | b :: _ => b_classes b end.

Definition mk_block (n : N) (parent : hash) (st : state) (cls : list (felt * N))
                    (h : hash) (hp : N) (txs : list tx) (d : diff) (extra : list (felt * N)) : block :=
  {| b_number := n; b_hash := h; b_parent := parent; b_txs := txs; b_diff := d;
     b_state := apply_diff st d; b_hpay := hp; b_extra := extra;
     b_classes := add_classes (declared_defs d ++ extra) cls |}.

(* the class hashes a block introduced through [b_extra] only (not visible below it) and that its revert does
   not visit *)
Definition new_extra (b : block) (below : list (felt * N)) : list felt :=
  map fst (filter (fun hd => match alookup (fst hd) below with None => true | Some _ => false end
                             && negb (mem (fst hd) (deployed_classes (b_diff b)))) (b_extra b)).

Definition w_step (w : world) (o : op) : world :=
  match o with
  | OStore h hp txs d extra =>
      let c := w_chain w in
      {| w_chain := mk_block (N.of_nat (length c)) (head_hash c) (head_state c) (head_classes c) h hp txs d extra :: c;
         w_l1 := w_l1 w; w_orphans := w_orphans w |}
  | ORevert =>
      {| w_chain := tl (w_chain w); w_l1 := w_l1 w;
         w_orphans := match w_chain w with
                      | b :: r => new_extra b (head_classes r) ++ w_orphans w
                      | [] => w_orphans w
                      end |}
  | OSetL1 n => {| w_chain := w_chain w; w_l1 := Some n; w_orphans := w_orphans w |}
  end.

Definition w_init : world := {| w_chain := []; w_l1 := None; w_orphans := [] |}.
Definition w_run (ops : list op) : world := fold_left w_step ops w_init.

(* position of a transaction hash inside a block / the chain *)
Fixpoint tx_index (h : hash) (i : N) (txs : list tx) : option (N * tx) :=
  match txs with
  | [] => None
  | t :: r => if h =? t_hash t then Some (i, t) else tx_index h (i + 1) r
  end.

Fixpoint find_tx (c : chain) (h : hash) : option (block * N * tx) :=
  match c with
  | [] => None
  | b :: r => match tx_index h 0 (b_txs b) with
              | Some (i, t) => Some (b, i, t)
              | None => find_tx r h
              end
  end.

(* an operation sequence is admissible when every stored block brings a fresh non-zero block hash and
   fresh, pairwise distinct transaction hashes (what juno's hash functions provide, short of collisions) *)
Fixpoint nodup_hashes (l : list hash) : bool :=
  match l with
  | [] => true
  | h :: r => negb (mem h r) && nodup_hashes r
  end.

Definition op_ok (w : world) (o : op) : bool :=
  match o with
  | OStore h _ txs d extra =>
      negb (h =? 0) && negb (mem h (map b_hash (w_chain w))) &&
      nodup_hashes (map t_hash txs) &&
      forallb (fun t => match find_tx (w_chain w) (t_hash t) with None => true | Some _ => false end) txs &&
      (* the delivered definitions are a Go map keyed by class hash *)
      nodup_hashes (map fst (declared_defs d ++ extra))
  | _ => true
  end.

(* what the synchroniser's data source delivers besides the definitions of the declared classes: definitions
   for the class hashes of the block's deployed contracts, nothing else *)
Definition sync_like_op (o : op) : bool :=
  match o with
  | OStore _ _ _ d extra => forallb (fun hd => mem (fst hd) (deployed_classes d)) extra
  | _ => true
  end.
Definition delivered_like_sync (ops : list op) : bool := forallb sync_like_op ops.

Fixpoint ops_ok (w : world) (ops : list op) : bool :=
  match ops with
  | [] => true
  | o :: r => op_ok w o && ops_ok (w_step w o) r
  end.

(* ---------- block identifiers, resolution, finality ---------- *)
Inductive block_id := Number (n : N) | Hash (h : hash) | Latest | L1Accepted.

Definition block_at (c : chain) (n : N) : option block := find (fun b => b_number b =? n) c.
Definition block_by_hash (c : chain) (h : hash) : option block := find (fun b => b_hash b =? h) c.
Definition height (c : chain) : option N := match c with [] => None | b :: _ => Some (b_number b) end.

(* l1_accepted: the block at the recorded L1 head number; juno clamps it to the chain height (the L1 head
   can be ahead of the local chain during sync or after a revert) — rpc/v10/helpers.go l1AcceptedBlockNumber *)
Definition resolve (w : world) (id : block_id) : option block :=
  match id with
  | Number n => block_at (w_chain w) n
  | Hash h => block_by_hash (w_chain w) h
  | Latest => hd_error (w_chain w)
  | L1Accepted =>
      match w_l1 w, height (w_chain w) with
      | Some m, Some hgt => block_at (w_chain w) (N.min m hgt)
      | _, _ => None
      end
  end.

Inductive status := AcceptedL2 | AcceptedL1.

Definition finality (n : N) (l1 : option N) : status :=
  match l1 with
  | Some m => if n <=? m then AcceptedL1 else AcceptedL2
  | None => AcceptedL2
  end.

(* ---------- requests and observable answers ---------- *)
Inductive req :=
| RBlockNumber | RBlockHashAndNumber
| RBlockWithTxHashes (id : block_id) | RBlockWithTxs (id : block_id) | RBlockWithReceipts (id : block_id)
| RTxCount (id : block_id)
| RTxByHash (h : hash) | RTxByIdx (id : block_id) (i : Z) | RReceipt (h : hash) | RTxStatus (h : hash)
| RStateUpdate (id : block_id)
| RStorageAt (id : block_id) (a : addr) (k : felt) | RNonce (id : block_id) (a : addr)
| RStorageAtLU (id : block_id) (a : addr) (k : felt)   (* getStorageAt with INCLUDE_LAST_UPDATE_BLOCK (v0.10) *)
| RClassHashAt (id : block_id) (a : addr) | RClassAt (id : block_id) (a : addr) | RClass (id : block_id) (ch : felt).

Inductive err := BlockNotFound | TxnHashNotFound | ContractNotFound | InvalidTxnIndex | ClassHashNotFound
               | NoBlocks | InvalidParams | Internal.

(* what the three block methods say about the block itself *)
Record hdr := { hd_number : N; hd_hash : hash; hd_parent : hash; hd_status : status; hd_pay : N }.

(* one entry of getBlockWithReceipts *)
Record rcv := { rv_hash : hash; rv_status : status; rv_reverted : bool; rv_events : N; rv_tpay : N; rv_rpay : N }.

Inductive answer :=
| AErr (e : err)
| ANum (n : N)
| AHashNum (h : hash) (n : N)
| ABlock (hd : hdr) (txs : list hash)            (* with tx hashes *)
| ABlockT (hd : hdr) (txs : list (hash * N))     (* with txs: hash, payload *)
| ABlockR (hd : hdr) (rcs : list rcv)            (* with receipts *)
| ATx (h : hash) (p : N)
| AReceipt (h : hash) (bn : N) (bh : hash) (s : status) (reverted : bool) (events : N) (rp : N)
| ATxStatus (s : status) (reverted : bool)
| AStateUpdate (bh : hash) (d : diff)
| AFelt (v : felt)
| AFeltAt (v : felt) (last_update : N)
| AClass (def : N).

Definition hdr_of (b : block) (s : status) : hdr :=
  {| hd_number := b_number b; hd_hash := b_hash b; hd_parent := b_parent b; hd_status := s; hd_pay := b_hpay b |}.

Definition rcv_of (s : status) (t : tx) : rcv :=
  {| rv_hash := t_hash t; rv_status := s; rv_reverted := t_reverted t; rv_events := t_events t;
     rv_tpay := t_pay t; rv_rpay := t_rpay t |}.

Definition tx_view (t : tx) : hash * N := (t_hash t, t_pay t).

(* the (transaction hash, transaction payload) pairs, (transaction hash, receipt payload) pairs and the header
   an answer carries: what C08_payload_agree speaks about *)
Definition answer_txs (a : answer) : list (hash * N) :=
  match a with
  | ABlockT _ txs => txs
  | ABlockR _ rcs => map (fun r => (rv_hash r, rv_tpay r)) rcs
  | ATx h p => [(h, p)]
  | _ => []
  end.

Definition answer_rcs (a : answer) : list (hash * N) :=
  match a with
  | ABlockR _ rcs => map (fun r => (rv_hash r, rv_rpay r)) rcs
  | AReceipt h _ _ _ _ _ rp => [(h, rp)]
  | _ => []
  end.

Definition answer_hdr (a : answer) : option hdr :=
  match a with
  | ABlock hd _ | ABlockT hd _ | ABlockR hd _ => Some hd
  | _ => None
  end.

Definition req_id (r : req) : option block_id :=
  match r with
  | RBlockWithTxHashes id | RBlockWithTxs id | RBlockWithReceipts id | RTxCount id | RTxByIdx id _
  | RStateUpdate id | RStorageAt id _ _ | RStorageAtLU id _ _ | RNonce id _ | RClassHashAt id _ | RClassAt id _
  | RClass id _ => Some id
  | _ => None
  end.

Definition with_block (w : world) (id : block_id) (f : block -> answer) : answer :=
  match resolve w id with Some b => f b | None => AErr BlockNotFound end.

Definition with_contract (b : block) (a : addr) (f : cstate -> answer) : answer :=
  match alookup a (b_state b) with Some cs => f cs | None => AErr ContractNotFound end.

Definition slot (cs : cstate) (k : felt) : felt :=
  match alookup k (c_storage cs) with Some v => v | None => 0 end.

(* last_update_block: the number of the highest block at or below n whose state diff writes slot k of a (0 if none) *)
Definition writes (d : diff) (a : addr) (k : felt) : bool :=
  existsb (fun akvs => (fst akvs =? a) && existsb (fun kv => fst kv =? k) (snd akvs)) (d_storage d).

Fixpoint last_write (c : chain) (a : addr) (k : felt) (n : N) : N :=
  match c with
  | [] => 0
  | b :: r => if (b_number b <=? n) && writes (b_diff b) a k then b_number b else last_write r a k n
  end.

(* The answer the property text demands, as a function of the abstract chain only. *)
Definition spec_answer (w : world) (r : req) : answer :=
  let l1 := w_l1 w in
  match r with
  | RBlockNumber => match height (w_chain w) with Some n => ANum n | None => AErr NoBlocks end
  | RBlockHashAndNumber => match w_chain w with b :: _ => AHashNum (b_hash b) (b_number b) | [] => AErr NoBlocks end
  | RBlockWithTxHashes id =>
      with_block w id (fun b => ABlock (hdr_of b (finality (b_number b) l1)) (map t_hash (b_txs b)))
  | RBlockWithTxs id =>
      with_block w id (fun b => ABlockT (hdr_of b (finality (b_number b) l1)) (map tx_view (b_txs b)))
  | RBlockWithReceipts id =>
      with_block w id (fun b =>
        let s := finality (b_number b) l1 in ABlockR (hdr_of b s) (map (rcv_of s) (b_txs b)))
  | RTxCount id => with_block w id (fun b => ANum (N.of_nat (length (b_txs b))))
  | RTxByHash h => match find_tx (w_chain w) h with Some (_, _, t) => ATx (t_hash t) (t_pay t) | None => AErr TxnHashNotFound end
  | RTxByIdx id i =>
      (* a negative index is invalid whatever the block (both faults may hold; the code checks this one first) *)
      if (i <? 0)%Z then AErr InvalidTxnIndex
      else with_block w id (fun b =>
        match nth_error (b_txs b) (Z.to_nat i) with
        | Some t => ATx (t_hash t) (t_pay t)
        | None => AErr InvalidTxnIndex
        end)
  | RReceipt h =>
      match find_tx (w_chain w) h with
      | Some (b, _, t) => AReceipt (t_hash t) (b_number b) (b_hash b) (finality (b_number b) l1) (t_reverted t) (t_events t)
                                   (t_rpay t)
      | None => AErr TxnHashNotFound
      end
  | RTxStatus h =>
      match find_tx (w_chain w) h with
      | Some (b, _, t) => ATxStatus (finality (b_number b) l1) (t_reverted t)
      | None => AErr TxnHashNotFound
      end
  | RStateUpdate id => with_block w id (fun b => AStateUpdate (b_hash b) (b_diff b))
  | RStorageAt id a k => with_block w id (fun b => with_contract b a (fun cs => AFelt (slot cs k)))
  | RStorageAtLU id a k =>
      with_block w id (fun b => with_contract b a (fun cs =>
        AFeltAt (slot cs k) (last_write (w_chain w) a k (b_number b))))
  | RNonce id a => with_block w id (fun b => with_contract b a (fun cs => AFelt (c_nonce cs)))
  | RClassHashAt id a => with_block w id (fun b => with_contract b a (fun cs => AFelt (c_class cs)))
  | RClassAt id a =>
      with_block w id (fun b => with_contract b a (fun cs =>
        match alookup (c_class cs) (b_classes b) with Some def => AClass def | None => AErr ContractNotFound end))
  | RClass id ch =>
      with_block w id (fun b => match alookup ch (b_classes b) with Some def => AClass def | None => AErr ClassHashNotFound end)
  end.

(* The lowest block of the chain that delivers a definition for the class hash: (its number, the definition).
   [spec_answer] reads [b_classes]; C08_class_exact states the visible classes of a block through this function. *)
Definition delivered (b : block) : list (felt * N) := declared_defs (b_diff b) ++ b_extra b.

Fixpoint class_decl (c : chain) (ch : felt) : option (N * N) :=
  match c with
  | [] => None
  | b :: r => match class_decl r ch with
              | Some x => Some x
              | None => option_map (fun def => (b_number b, def)) (alookup ch (delivered b))
              end
  end.

Definition class_visible (c : chain) (ch : felt) (n : N) : option N :=
  match class_decl c ch with
  | Some (at_, def) => if at_ <=? n then Some def else None
  | None => None
  end.

(* Where the handlers (as transcribed below) are known to leave the property text; the theorems exclude
   exactly these inputs, the harness reports them as violations under these names. *)
Inductive deviation := DevNone | DevTxIdxAbsentNumber | DevStateZeroHash | DevOrphanClass.

Definition is_state_req (r : req) : bool :=
  match r with
  | RStorageAt _ _ _ | RStorageAtLU _ _ _ | RNonce _ _ | RClassHashAt _ _ | RClassAt _ _ | RClass _ _ => true
  | _ => false
  end.

Definition deviates (w : world) (r : req) : deviation :=
  match r with
  | RTxByIdx (Number n) i =>
      if (0 <=? i)%Z then match block_at (w_chain w) n with None => DevTxIdxAbsentNumber | Some _ => DevNone end
      else DevNone
  | _ =>
      if is_state_req r then
        match req_id r with
        | Some (Hash 0) => DevStateZeroHash
        | _ =>
            (* a class hash that a reverted block had introduced without declaring it is still in the table *)
            match r with
            | RClass _ ch => if mem ch (w_orphans w) then DevOrphanClass else DevNone
            | RClassAt id a =>
                match resolve w id with
                | Some b => match alookup a (b_state b) with
                            | Some cs => if mem (c_class cs) (w_orphans w) then DevOrphanClass else DevNone
                            | None => DevNone
                            end
                | None => DevNone
                end
            | _ => DevNone
            end
        end
      else DevNone
  end.

(* ====================== Part B: what the handlers consult, and the handlers ====================== *)
Record db := {
  db_height : option N;               (* ChainHeight key; absent on an empty chain *)
  db_blocks : list (N * block);       (* header + transactions + receipts + state update (+ state as of) by number *)
  db_hashix : list (hash * N);        (* BlockHeaderNumbersByHash *)
  db_txix : list (hash * (N * N));    (* TransactionBlockNumbersAndIndicesByHash *)
  db_l1 : option N;                   (* L1Height *)
  db_classes : list (felt * (N * N)); (* Class bucket: class hash -> (declared at, definition) *)
  db_sthist : list (addr * (felt * N)) }. (* ContractStorageHistory keys: (contract, slot, block number) *)

Definition db_init : db :=
  {| db_height := None; db_blocks := []; db_hashix := []; db_txix := []; db_l1 := None; db_classes := [];
     db_sthist := [] |}.

(* the history keys a block's storage diff produces *)
Definition log_writes (n : N) (sto : list (addr * list (felt * felt))) : list (addr * (felt * N)) :=
  flat_map (fun akvs => map (fun kv => (fst akvs, (fst kv, n))) (snd akvs)) sto.

(* lastUpdatedBlockNumber(prefix, upTo): the greatest logged block number at or below upTo (None: math.MaxUint64,
   i.e. no bound), 0 when there is none *)
Fixpoint last_logged (l : list (addr * (felt * N))) (a : addr) (k : felt) (upto : option N) : N :=
  match l with
  | [] => 0
  | (a', (k', m)) :: r =>
      let x := last_logged r a k upto in
      if (a =? a') && (k =? k') && (match upto with Some n => m <=? n | None => true end) then N.max m x else x
  end.

Definition db_head (d : db) : option block :=
  match db_height d with Some n => alookup n (db_blocks d) | None => None end.

Fixpoint index_txs (n : N) (i : N) (txs : list tx) : list (hash * (N * N)) :=
  match txs with
  | [] => []
  | t :: r => (t_hash t, (n, i)) :: index_txs n (i + 1) r
  end.

(* blockchain/statebackend Store: verifyBlockSuccession puts the block at height+1 (0 on an empty chain) *)
Definition db_store (d : db) (h : hash) (hp : N) (txs : list tx) (df : diff) (extra : list (felt * N)) : db :=
  let n := match db_height d with Some m => m + 1 | None => 0 end in
  let b := match db_head d with
           | Some p => mk_block n (b_hash p) (b_state p) (b_classes p) h hp txs df extra
           | None => mk_block n 0 [] [] h hp txs df extra
           end in
  {| db_height := Some n;
     db_blocks := (n, b) :: db_blocks d;
     db_hashix := (h, n) :: db_hashix d;
     db_txix := index_txs n 0 txs ++ db_txix d;
     db_l1 := db_l1 d;
     (* State.Update: putClass for every delivered definition, declared at this block, unless the hash has one *)
     db_classes := add_classes (map (fun hd => (fst hd, (n, snd hd))) (declared_defs df ++ extra)) (db_classes d);
     db_sthist := log_writes n (d_storage df) ++ db_sthist d |}.

(* State.Revert / removeDeclaredClasses + removeDeployedContractClasses: for every visited hash (the block's two
   declared lists, then the class hashes of its deployed contracts) the class is deleted when its record says it
   was declared at this very block; a missing record is skipped; other delivered definitions are not visited *)
Definition undeclare (n : N) (hs : list felt) (cls : list (felt * (N * N))) : list (felt * (N * N)) :=
  fold_left (fun acc ch => match alookup ch acc with
                           | Some (at_, _) => if at_ =? n then aremove ch acc else acc
                           | None => acc
                           end) hs cls.

(* RevertHead + deleteBlockContent: header by number, number by hash, transactions/receipts and their hash
   index, state update are deleted; height becomes n-1 or is deleted for genesis. The L1 head is untouched. *)
Definition db_revert (d : db) : db :=
  match db_height d with
  | None => d
  | Some n =>
      match alookup n (db_blocks d) with
      | None => d
      | Some b =>
          {| db_height := if n =? 0 then None else Some (n - 1);
             db_blocks := aremove n (db_blocks d);
             db_hashix := aremove (b_hash b) (db_hashix d);
             db_txix := fold_left (fun ix t => aremove (t_hash t) ix) (b_txs b) (db_txix d);
             db_l1 := db_l1 d;
             db_classes := undeclare n (revert_visits (b_diff b)) (db_classes d);
             (* the history entries of the reverted block are deleted *)
             db_sthist := filter (fun e => negb (snd (snd e) =? n)) (db_sthist d) |}
      end
  end.

Definition db_step (d : db) (o : op) : db :=
  match o with
  | OStore h hp txs df extra => db_store d h hp txs df extra
  | ORevert => db_revert d
  | OSetL1 n => {| db_height := db_height d; db_blocks := db_blocks d; db_hashix := db_hashix d;
                   db_txix := db_txix d; db_l1 := Some n; db_classes := db_classes d; db_sthist := db_sthist d |}
  end.

Definition db_run (ops : list op) : db := fold_left db_step ops db_init.

(* ---------- helpers.go ---------- *)
Inductive ver := V8 | V9 | V10.
Inductive backend := Legacy | NewState.

Definition is_l1_verified (n : N) (l1 : option N) : bool :=
  match l1 with Some m => n <=? m | None => false end.

Definition status_of (n : N) (l1 : option N) : status :=
  if is_l1_verified n l1 then AcceptedL1 else AcceptedL2.

Definition l1_accepted_number (d : db) : option N :=
  match db_l1 d with
  | None => None
  | Some m => match db_height d with None => None | Some h => Some (N.min m h) end
  end.

Definition header_by_hash (d : db) (h : hash) : option block :=
  match alookup h (db_hashix d) with Some n => alookup n (db_blocks d) | None => None end.

(* blockHeaderByID / blockByID *)
Definition block_by_id (d : db) (id : block_id) : option block :=
  match id with
  | Latest => db_head d
  | Hash h => header_by_hash d h
  | Number n => alookup n (db_blocks d)
  | L1Accepted => match l1_accepted_number d with Some n => alookup n (db_blocks d) | None => None end
  end.

(* the block number the count / index / state-update handlers derive before reading by number *)
Definition number_by_id (d : db) (id : block_id) : option N :=
  match id with
  | Latest => db_height d
  | Hash h => alookup h (db_hashix d)
  | Number n => Some n
  | L1Accepted => l1_accepted_number d
  end.

(* state readers: head readers answer zero for the storage of a missing contract, history readers NotFound;
   class reads go to the class table: a history reader (at block [r_num]) hides a class declared above its
   block (stateHistory.Class), a head reader returns whatever the table holds *)
Inductive rkind := RdHead | RdHist.
Record reader := { r_kind : rkind; r_state : state; r_num : N; r_cls : list (felt * (N * N));
                   r_log : list (addr * (felt * N)) }.

(* ContractStorageLastUpdatedBlock: a head reader searches without bound, a history reader up to its block *)
Definition rd_last_update (r : reader) (a : addr) (k : felt) : N :=
  last_logged (r_log r) a k (match r_kind r with RdHead => None | RdHist => Some (r_num r) end).

Definition rd_class (r : reader) (ch : felt) : option N :=
  match alookup ch (r_cls r) with
  | Some (at_, def) => match r_kind r with
                       | RdHead => Some def
                       | RdHist => if r_num r <? at_ then None else Some def
                       end
  | None => None
  end.

Definition hist_reader_at (d : db) (n : N) : option reader :=
  (* pruner.RequireStateRetainedByBlockNumber: hash by number, then number by that hash *)
  match alookup n (db_blocks d) with
  | Some b => match alookup (b_hash b) (db_hashix d) with
              | Some _ => Some {| r_kind := RdHist; r_state := b_state b; r_num := n; r_cls := db_classes d; r_log := db_sthist d |}
              | None => None
              end
  | None => None
  end.

Definition head_reader (d : db) : option reader :=
  match db_head d with
  | Some b => Some {| r_kind := RdHead; r_state := b_state b; r_num := b_number b; r_cls := db_classes d; r_log := db_sthist d |}
  | None => None
  end.

Definition empty_reader : reader := {| r_kind := RdHead; r_state := []; r_num := 0; r_cls := []; r_log := [] |}.

(* stateByBlockID; StateAtBlockHash special-cases the zero hash: the legacy backend opens an empty state, the
   new backend a reader whose contract/class reads go to the flat (head) state *)
Definition state_by_id (be : backend) (d : db) (id : block_id) : option reader :=
  match id with
  | Latest => head_reader d
  | Hash h =>
      if h =? 0 then
        match be with
        | Legacy => Some empty_reader
        | NewState => match head_reader d with Some r => Some r | None => Some empty_reader end
        end
      else match alookup h (db_hashix d) with
           | Some n => match alookup n (db_blocks d) with
                       | Some b => Some {| r_kind := RdHist; r_state := b_state b; r_num := n; r_cls := db_classes d; r_log := db_sthist d |}
                       | None => None
                       end
           | None => None
           end
  | Number n => hist_reader_at d n
  | L1Accepted => match l1_accepted_number d with Some n => hist_reader_at d n | None => None end
  end.

Definition rd_contract (r : reader) (a : addr) : option cstate := alookup a (r_state r).

Definition rd_storage (r : reader) (a : addr) (k : felt) : option felt :=
  match rd_contract r a with
  | Some cs => Some (slot cs k)
  | None => match r_kind r with RdHead => Some 0 | RdHist => None end
  end.

(* ---------- the handlers ---------- *)
Definition tx_at (d : db) (n : N) (i : N) : option tx :=
  match alookup n (db_blocks d) with
  | Some b => nth_error (b_txs b) (N.to_nat i)
  | None => None
  end.

Definition h_block_number (d : db) : answer :=
  match db_height d with Some n => ANum n | None => AErr NoBlocks end.

Definition h_block_hash_and_number (d : db) : answer :=
  match db_head d with Some b => AHashNum (b_hash b) (b_number b) | None => AErr NoBlocks end.

Definition h_block_with_tx_hashes (d : db) (id : block_id) : answer :=
  match block_by_id d id with
  | None => AErr BlockNotFound
  | Some hd =>
      (* transactions are read by the header's number *)
      match alookup (b_number hd) (db_blocks d) with
      | None => AErr BlockNotFound
      | Some b => ABlock (hdr_of hd (status_of (b_number hd) (db_l1 d))) (map t_hash (b_txs b))
      end
  end.

Definition h_block_with_txs (d : db) (id : block_id) : answer :=
  match block_by_id d id with
  | None => AErr BlockNotFound
  | Some hd =>
      match alookup (b_number hd) (db_blocks d) with
      | None => AErr BlockNotFound
      | Some b => ABlockT (hdr_of hd (status_of (b_number hd) (db_l1 d))) (map tx_view (b_txs b))
      end
  end.

Definition h_block_with_receipts (d : db) (id : block_id) : answer :=
  match block_by_id d id with
  | None => AErr BlockNotFound
  | Some b =>
      let s := status_of (b_number b) (db_l1 d) in ABlockR (hdr_of b s) (map (rcv_of s) (b_txs b))
  end.

Definition h_tx_count (v : ver) (d : db) (id : block_id) : answer :=
  match v with
  | V8 => match block_by_id d id with
          | Some b => ANum (N.of_nat (length (b_txs b)))
          | None => AErr BlockNotFound
          end
  | _ => match number_by_id d id with
         | None => AErr BlockNotFound
         | Some n => match alookup n (db_blocks d) with
                     | Some b => ANum (N.of_nat (length (b_txs b)))
                     | None => AErr BlockNotFound
                     end
         end
  end.

Definition h_tx_by_hash (d : db) (h : hash) : answer :=
  match alookup h (db_txix d) with
  | None => AErr TxnHashNotFound
  | Some (n, i) => match tx_at d n i with
                   | Some t => ATx (t_hash t) (t_pay t)
                   | None => AErr TxnHashNotFound
                   end
  end.

(* TransactionByBlockIDAndIndex: a block *number* is not checked for existence — the read by
   (number, index) fails and is reported as INVALID_TXN_INDEX *)
Definition h_tx_by_idx (d : db) (id : block_id) (i : Z) : answer :=
  if (i <? 0)%Z then AErr InvalidTxnIndex
  else match number_by_id d id with
       | None => AErr BlockNotFound
       | Some n => match tx_at d n (Z.to_N i) with
                   | Some t => ATx (t_hash t) (t_pay t)
                   | None => AErr InvalidTxnIndex
                   end
       end.

Definition h_receipt (d : db) (h : hash) : answer :=
  match alookup h (db_txix d) with
  | None => AErr TxnHashNotFound
  | Some (n, i) =>
      match alookup n (db_blocks d) with
      | None => AErr TxnHashNotFound
      | Some b => match nth_error (b_txs b) (N.to_nat i) with
                  | Some t => AReceipt (t_hash t) n (b_hash b) (status_of n (db_l1 d)) (t_reverted t) (t_events t)
                                       (t_rpay t)
                  | None => AErr TxnHashNotFound
                  end
      end
  end.

Definition h_tx_status (d : db) (h : hash) : answer :=
  match alookup h (db_txix d) with
  | None => AErr TxnHashNotFound
  | Some (n, i) => match tx_at d n i with
                   | Some t => ATxStatus (status_of n (db_l1 d)) (t_reverted t)
                   | None => AErr TxnHashNotFound
                   end
  end.

Definition h_state_update (d : db) (id : block_id) : answer :=
  match number_by_id d id with
  | None => AErr BlockNotFound
  | Some n => match alookup n (db_blocks d) with
              | Some b => AStateUpdate (b_hash b) (b_diff b)
              | None => AErr BlockNotFound
              end
  end.

Definition is_latest (id : block_id) : bool := match id with Latest => true | _ => false end.

Definition h_storage_at (v : ver) (be : backend) (d : db) (id : block_id) (a : addr) (k : felt) : answer :=
  match state_by_id be d id with
  | None => AErr BlockNotFound
  | Some r =>
      match v with
      | V10 =>
          match rd_storage r a k with
          | None => AErr ContractNotFound
          | Some val =>
              if (val =? 0) && is_latest id then
                match rd_contract r a with Some _ => AFelt val | None => AErr ContractNotFound end
              else AFelt val
          end
      | _ =>
          match rd_contract r a with
          | None => AErr ContractNotFound
          | Some _ => match rd_storage r a k with Some val => AFelt val | None => AErr Internal end
          end
      end
  end.

(* v0.10 with INCLUDE_LAST_UPDATE_BLOCK: the same value logic, then ContractStorageLastUpdatedBlock on the same reader *)
Definition h_storage_at_lu (be : backend) (d : db) (id : block_id) (a : addr) (k : felt) : answer :=
  match state_by_id be d id with
  | None => AErr BlockNotFound
  | Some r =>
      match h_storage_at V10 be d id a k with
      | AFelt val => AFeltAt val (rd_last_update r a k)
      | x => x
      end
  end.

Definition h_nonce (be : backend) (d : db) (id : block_id) (a : addr) : answer :=
  match state_by_id be d id with
  | None => AErr BlockNotFound
  | Some r => match rd_contract r a with Some cs => AFelt (c_nonce cs) | None => AErr ContractNotFound end
  end.

Definition h_class_hash_at (be : backend) (d : db) (id : block_id) (a : addr) : answer :=
  match state_by_id be d id with
  | None => AErr BlockNotFound
  | Some r => match rd_contract r a with Some cs => AFelt (c_class cs) | None => AErr ContractNotFound end
  end.

Definition h_class (be : backend) (d : db) (id : block_id) (ch : felt) : answer :=
  match state_by_id be d id with
  | None => AErr BlockNotFound
  | Some r => match rd_class r ch with Some def => AClass def | None => AErr ClassHashNotFound end
  end.

Definition h_class_at (be : backend) (d : db) (id : block_id) (a : addr) : answer :=
  match h_class_hash_at be d id a with
  | AFelt ch => match h_class be d id ch with
                | AErr ClassHashNotFound => AErr ContractNotFound
                | x => x
                end
  | x => x
  end.

(* v0.8 has no l1_accepted tag: BlockID.UnmarshalJSON rejects it (-32602) *)
Definition uses_l1_accepted (r : req) : bool :=
  match req_id r with Some L1Accepted => true | _ => false end.

Definition handle (v : ver) (be : backend) (d : db) (r : req) : answer :=
  if (match v with V8 => uses_l1_accepted r | _ => false end) then AErr InvalidParams else
  match r with
  | RBlockNumber => h_block_number d
  | RBlockHashAndNumber => h_block_hash_and_number d
  | RBlockWithTxHashes id => h_block_with_tx_hashes d id
  | RBlockWithTxs id => h_block_with_txs d id
  | RBlockWithReceipts id => h_block_with_receipts d id
  | RTxCount id => h_tx_count v d id
  | RTxByHash h => h_tx_by_hash d h
  | RTxByIdx id i => h_tx_by_idx d id i
  | RReceipt h => h_receipt d h
  | RTxStatus h => h_tx_status d h
  | RStateUpdate id => h_state_update d id
  | RStorageAt id a k => h_storage_at v be d id a k
  | RStorageAtLU id a k => match v with V10 => h_storage_at_lu be d id a k | _ => AErr InvalidParams end
  | RNonce id a => h_nonce be d id a
  | RClassHashAt id a => h_class_hash_at be d id a
  | RClassAt id a => h_class_at be d id a
  | RClass id ch => h_class be d id ch
  end.

(* the property predicate the harness evaluates on an observed answer: it must be the answer demanded by
   the chain (for v0.8 and l1_accepted: the tag does not exist in that specification) *)
Definition flags_unknown (v : ver) (r : req) : bool :=
  match r, v with RStorageAtLU _ _ _, V10 => false | RStorageAtLU _ _ _, _ => true | _, _ => false end.

Definition expected (v : ver) (w : world) (r : req) : answer :=
  if (match v with V8 => uses_l1_accepted r | _ => false end) then AErr InvalidParams
  else if flags_unknown v r then AErr InvalidParams   (* response_flags exist from v0.10 on *)
  else spec_answer w r.
