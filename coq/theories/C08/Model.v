(* C08 — JSON-RPC read methods answer from the chain the node actually holds.
   Part A (spec): the abstract chain = list of blocks (head first) + recorded L1 head; [resolve], [finality],
                  and for every read method the answer the property text demands ([spec_answer]).
   Part B (impl): the indices juno's handlers really consult (ChainHeight, block content by number,
                  number by hash, tx location by hash, L1 head), maintained by Store / RevertHead as
                  blockchain/statebackend does, and a transcription of the handlers of rpc/v8, v9, v10
                  (helpers.go blockHeaderByID / stateByBlockID / l1AcceptedBlockNumber / isL1Verified,
                  block.go, transaction.go, state_update.go, storage.go, nonce.go, class.go).
   No proofs in this file; it is extracted to OCaml and run against the Go code. *)
From Coq Require Import List NArith ZArith Bool.
Import ListNotations.
Open Scope N_scope.

Definition hash := N.
Definition addr := N.
Definition felt := N.

(* ---------- association lists keyed by N: a Put is a cons, a Delete removes every entry ---------- *)
Fixpoint alookup {V : Type} (k : N) (l : list (N * V)) : option V :=
  match l with
  | [] => None
  | (k', v) :: r => if k =? k' then Some v else alookup k r
  end.

Fixpoint aremove {V : Type} (k : N) (l : list (N * V)) : list (N * V) :=
  match l with
  | [] => []
  | (k', v) :: r => if k =? k' then aremove k r else (k', v) :: aremove k r
  end.

Definition aset {V : Type} (k : N) (v : V) (l : list (N * V)) : list (N * V) := (k, v) :: aremove k l.

Definition mem (x : N) (l : list N) : bool := existsb (N.eqb x) l.

(* ---------- state ---------- *)
Record cstate := { c_class : felt; c_nonce : felt; c_storage : list (felt * felt) }.
Definition state := list (addr * cstate).

Record diff := {
  d_deploy : list (addr * felt);
  d_replace : list (addr * felt);
  d_nonces : list (addr * felt);
  d_storage : list (addr * list (felt * felt));
  d_declare : list felt }.

Definition upd_contract (st : state) (a : addr) (f : cstate -> cstate) : state :=
  match alookup a st with
  | Some cs => aset a (f cs) st
  | None => st
  end.

Definition apply_diff (st : state) (d : diff) : state :=
  let st1 := fold_left (fun s ac => aset (fst ac) {| c_class := snd ac; c_nonce := 0; c_storage := [] |} s)
                       (d_deploy d) st in
  let st2 := fold_left (fun s ac => upd_contract s (fst ac)
                          (fun cs => {| c_class := snd ac; c_nonce := c_nonce cs; c_storage := c_storage cs |}))
                       (d_replace d) st1 in
  let st3 := fold_left (fun s an => upd_contract s (fst an)
                          (fun cs => {| c_class := c_class cs; c_nonce := snd an; c_storage := c_storage cs |}))
                       (d_nonces d) st2 in
  fold_left (fun s akvs => upd_contract s (fst akvs)
               (fun cs => {| c_class := c_class cs; c_nonce := c_nonce cs;
                             c_storage := fold_left (fun m kv => aset (fst kv) (snd kv) m) (snd akvs) (c_storage cs) |}))
            (d_storage d) st3.

(* ---------- blocks and the abstract chain ---------- *)
Record tx := { t_hash : hash; t_reverted : bool; t_events : N }.

Record block := {
  b_number : N; b_hash : hash; b_parent : hash;
  b_txs : list tx;
  b_diff : diff;
  b_state : state;          (* the state after this block (C03's truth) *)
  b_classes : list felt }.  (* classes declared up to and including this block *)

Definition chain := list block.   (* head first *)

Record world := { w_chain : chain; w_l1 : option N }.

Inductive op :=
| OStore (h : hash) (txs : list tx) (d : diff)
| ORevert
| OSetL1 (n : N).

Definition head_hash (c : chain) : hash := match c with [] => 0 | b :: _ => b_hash b end.
Definition head_state (c : chain) : state := match c with [] => [] | b :: _ => b_state b end.
Definition head_classes (c : chain) : list felt := match c with [] => [] | b :: _ => b_classes b end.

Definition mk_block (n : N) (parent : hash) (st : state) (cls : list felt)
                    (h : hash) (txs : list tx) (d : diff) : block :=
  {| b_number := n; b_hash := h; b_parent := parent; b_txs := txs; b_diff := d;
     b_state := apply_diff st d; b_classes := d_declare d ++ cls |}.

Definition w_step (w : world) (o : op) : world :=
  match o with
  | OStore h txs d =>
      let c := w_chain w in
      {| w_chain := mk_block (N.of_nat (length c)) (head_hash c) (head_state c) (head_classes c) h txs d :: c;
         w_l1 := w_l1 w |}
  | ORevert => {| w_chain := tl (w_chain w); w_l1 := w_l1 w |}
  | OSetL1 n => {| w_chain := w_chain w; w_l1 := Some n |}
  end.

Definition w_init : world := {| w_chain := []; w_l1 := None |}.
Definition w_run (ops : list op) : world := fold_left w_step ops w_init.

(* position of a transaction hash inside a block / the chain *)
Fixpoint tx_index (h : hash) (i : N) (txs : list tx) : option (N * tx) :=
  match txs with
  | [] => None
  | t :: r => if h =? t_hash t then Some (i, t) else tx_index h (i + 1) r
  end.

Fixpoint find_tx (c : chain) (h : hash) : option (block * N * tx) :=
  match c with
  | [] => None
  | b :: r => match tx_index h 0 (b_txs b) with
              | Some (i, t) => Some (b, i, t)
              | None => find_tx r h
              end
  end.

(* an operation sequence is admissible when every stored block brings a fresh non-zero block hash and
   fresh, pairwise distinct transaction hashes (what juno's hash functions provide, short of collisions) *)
Fixpoint nodup_hashes (l : list hash) : bool :=
  match l with
  | [] => true
  | h :: r => negb (mem h r) && nodup_hashes r
  end.

Definition op_ok (w : world) (o : op) : bool :=
  match o with
  | OStore h txs _ =>
      negb (h =? 0) && negb (mem h (map b_hash (w_chain w))) &&
      nodup_hashes (map t_hash txs) &&
      forallb (fun t => match find_tx (w_chain w) (t_hash t) with None => true | Some _ => false end) txs
  | _ => true
  end.

Fixpoint ops_ok (w : world) (ops : list op) : bool :=
  match ops with
  | [] => true
  | o :: r => op_ok w o && ops_ok (w_step w o) r
  end.

(* ---------- block identifiers, resolution, finality ---------- *)
Inductive block_id := Number (n : N) | Hash (h : hash) | Latest | L1Accepted.

Definition block_at (c : chain) (n : N) : option block := find (fun b => b_number b =? n) c.
Definition block_by_hash (c : chain) (h : hash) : option block := find (fun b => b_hash b =? h) c.
Definition height (c : chain) : option N := match c with [] => None | b :: _ => Some (b_number b) end.

(* l1_accepted: the block at the recorded L1 head number; juno clamps it to the chain height (the L1 head
   can be ahead of the local chain during sync or after a revert) — rpc/v10/helpers.go l1AcceptedBlockNumber *)
Definition resolve (w : world) (id : block_id) : option block :=
  match id with
  | Number n => block_at (w_chain w) n
  | Hash h => block_by_hash (w_chain w) h
  | Latest => hd_error (w_chain w)
  | L1Accepted =>
      match w_l1 w, height (w_chain w) with
      | Some m, Some hgt => block_at (w_chain w) (N.min m hgt)
      | _, _ => None
      end
  end.

Inductive status := AcceptedL2 | AcceptedL1.

Definition finality (n : N) (l1 : option N) : status :=
  match l1 with
  | Some m => if n <=? m then AcceptedL1 else AcceptedL2
  | None => AcceptedL2
  end.

(* ---------- requests and observable answers ---------- *)
Inductive req :=
| RBlockNumber | RBlockHashAndNumber
| RBlockWithTxHashes (id : block_id) | RBlockWithTxs (id : block_id) | RBlockWithReceipts (id : block_id)
| RTxCount (id : block_id)
| RTxByHash (h : hash) | RTxByIdx (id : block_id) (i : Z) | RReceipt (h : hash) | RTxStatus (h : hash)
| RStateUpdate (id : block_id)
| RStorageAt (id : block_id) (a : addr) (k : felt) | RNonce (id : block_id) (a : addr)
| RClassHashAt (id : block_id) (a : addr) | RClassAt (id : block_id) (a : addr) | RClass (id : block_id) (ch : felt).

Inductive err := BlockNotFound | TxnHashNotFound | ContractNotFound | InvalidTxnIndex | ClassHashNotFound
               | NoBlocks | InvalidParams | Internal.

Inductive answer :=
| AErr (e : err)
| ANum (n : N)
| AHashNum (h : hash) (n : N)
| ABlock (n : N) (h p : hash) (s : status) (txs : list hash)                       (* with tx hashes / with txs *)
| ABlockR (n : N) (h p : hash) (s : status) (rcs : list (hash * status * bool * N)) (* with receipts *)
| ATx (h : hash) (i : N)
| AReceipt (h : hash) (bn : N) (bh : hash) (s : status) (reverted : bool) (events : N)
| ATxStatus (s : status) (reverted : bool)
| AStateUpdate (bh : hash) (d : diff)
| AFelt (v : felt)
| AClass (ch : felt).

Definition req_id (r : req) : option block_id :=
  match r with
  | RBlockWithTxHashes id | RBlockWithTxs id | RBlockWithReceipts id | RTxCount id | RTxByIdx id _
  | RStateUpdate id | RStorageAt id _ _ | RNonce id _ | RClassHashAt id _ | RClassAt id _ | RClass id _ => Some id
  | _ => None
  end.

Definition with_block (w : world) (id : block_id) (f : block -> answer) : answer :=
  match resolve w id with Some b => f b | None => AErr BlockNotFound end.

Definition with_contract (b : block) (a : addr) (f : cstate -> answer) : answer :=
  match alookup a (b_state b) with Some cs => f cs | None => AErr ContractNotFound end.

Definition slot (cs : cstate) (k : felt) : felt :=
  match alookup k (c_storage cs) with Some v => v | None => 0 end.

(* The answer the property text demands, as a function of the abstract chain only. *)
Definition spec_answer (w : world) (r : req) : answer :=
  let l1 := w_l1 w in
  match r with
  | RBlockNumber => match height (w_chain w) with Some n => ANum n | None => AErr NoBlocks end
  | RBlockHashAndNumber => match w_chain w with b :: _ => AHashNum (b_hash b) (b_number b) | [] => AErr NoBlocks end
  | RBlockWithTxHashes id | RBlockWithTxs id =>
      with_block w id (fun b => ABlock (b_number b) (b_hash b) (b_parent b) (finality (b_number b) l1)
                                        (map t_hash (b_txs b)))
  | RBlockWithReceipts id =>
      with_block w id (fun b =>
        let s := finality (b_number b) l1 in
        ABlockR (b_number b) (b_hash b) (b_parent b) s
                (map (fun t => (t_hash t, s, t_reverted t, t_events t)) (b_txs b)))
  | RTxCount id => with_block w id (fun b => ANum (N.of_nat (length (b_txs b))))
  | RTxByHash h => match find_tx (w_chain w) h with Some (_, i, t) => ATx (t_hash t) i | None => AErr TxnHashNotFound end
  | RTxByIdx id i =>
      (* a negative index is invalid whatever the block (both faults may hold; the code checks this one first) *)
      if (i <? 0)%Z then AErr InvalidTxnIndex
      else with_block w id (fun b =>
        match nth_error (b_txs b) (Z.to_nat i) with
        | Some t => ATx (t_hash t) (Z.to_N i)
        | None => AErr InvalidTxnIndex
        end)
  | RReceipt h =>
      match find_tx (w_chain w) h with
      | Some (b, _, t) => AReceipt (t_hash t) (b_number b) (b_hash b) (finality (b_number b) l1) (t_reverted t) (t_events t)
      | None => AErr TxnHashNotFound
      end
  | RTxStatus h =>
      match find_tx (w_chain w) h with
      | Some (b, _, t) => ATxStatus (finality (b_number b) l1) (t_reverted t)
      | None => AErr TxnHashNotFound
      end
  | RStateUpdate id => with_block w id (fun b => AStateUpdate (b_hash b) (b_diff b))
  | RStorageAt id a k => with_block w id (fun b => with_contract b a (fun cs => AFelt (slot cs k)))
  | RNonce id a => with_block w id (fun b => with_contract b a (fun cs => AFelt (c_nonce cs)))
  | RClassHashAt id a => with_block w id (fun b => with_contract b a (fun cs => AFelt (c_class cs)))
  | RClassAt id a =>
      with_block w id (fun b => with_contract b a (fun cs =>
        if mem (c_class cs) (b_classes b) then AClass (c_class cs) else AErr ContractNotFound))
  | RClass id ch => with_block w id (fun b => if mem ch (b_classes b) then AClass ch else AErr ClassHashNotFound)
  end.

(* Where the handlers (as transcribed below) are known to leave the property text; the theorems exclude
   exactly these inputs, the harness reports them as violations under these names. *)
Inductive deviation := DevNone | DevTxIdxAbsentNumber | DevStateZeroHash.

Definition is_state_req (r : req) : bool :=
  match r with RStorageAt _ _ _ | RNonce _ _ | RClassHashAt _ _ | RClassAt _ _ | RClass _ _ => true | _ => false end.

Definition deviates (w : world) (r : req) : deviation :=
  match r with
  | RTxByIdx (Number n) i =>
      if (0 <=? i)%Z then match block_at (w_chain w) n with None => DevTxIdxAbsentNumber | Some _ => DevNone end
      else DevNone
  | _ => if is_state_req r then match req_id r with Some (Hash 0) => DevStateZeroHash | _ => DevNone end
         else DevNone
  end.

(* ====================== Part B: what the handlers consult, and the handlers ====================== *)
Record db := {
  db_height : option N;               (* ChainHeight key; absent on an empty chain *)
  db_blocks : list (N * block);       (* header + transactions + receipts + state update (+ state as of) by number *)
  db_hashix : list (hash * N);        (* BlockHeaderNumbersByHash *)
  db_txix : list (hash * (N * N));    (* TransactionBlockNumbersAndIndicesByHash *)
  db_l1 : option N }.                 (* L1Height *)

Definition db_init : db := {| db_height := None; db_blocks := []; db_hashix := []; db_txix := []; db_l1 := None |}.

Definition db_head (d : db) : option block :=
  match db_height d with Some n => alookup n (db_blocks d) | None => None end.

Fixpoint index_txs (n : N) (i : N) (txs : list tx) : list (hash * (N * N)) :=
  match txs with
  | [] => []
  | t :: r => (t_hash t, (n, i)) :: index_txs n (i + 1) r
  end.

(* blockchain/statebackend Store: verifyBlockSuccession puts the block at height+1 (0 on an empty chain) *)
Definition db_store (d : db) (h : hash) (txs : list tx) (df : diff) : db :=
  let n := match db_height d with Some m => m + 1 | None => 0 end in
  let b := match db_head d with
           | Some p => mk_block n (b_hash p) (b_state p) (b_classes p) h txs df
           | None => mk_block n 0 [] [] h txs df
           end in
  {| db_height := Some n;
     db_blocks := (n, b) :: db_blocks d;
     db_hashix := (h, n) :: db_hashix d;
     db_txix := index_txs n 0 txs ++ db_txix d;
     db_l1 := db_l1 d |}.

(* RevertHead + deleteBlockContent: header by number, number by hash, transactions/receipts and their hash
   index, state update are deleted; height becomes n-1 or is deleted for genesis. The L1 head is untouched. *)
Definition db_revert (d : db) : db :=
  match db_height d with
  | None => d
  | Some n =>
      match alookup n (db_blocks d) with
      | None => d
      | Some b =>
          {| db_height := if n =? 0 then None else Some (n - 1);
             db_blocks := aremove n (db_blocks d);
             db_hashix := aremove (b_hash b) (db_hashix d);
             db_txix := fold_left (fun ix t => aremove (t_hash t) ix) (b_txs b) (db_txix d);
             db_l1 := db_l1 d |}
      end
  end.

Definition db_step (d : db) (o : op) : db :=
  match o with
  | OStore h txs df => db_store d h txs df
  | ORevert => db_revert d
  | OSetL1 n => {| db_height := db_height d; db_blocks := db_blocks d; db_hashix := db_hashix d;
                   db_txix := db_txix d; db_l1 := Some n |}
  end.

Definition db_run (ops : list op) : db := fold_left db_step ops db_init.

(* ---------- helpers.go ---------- *)
Inductive ver := V8 | V9 | V10.
Inductive backend := Legacy | NewState.

Definition is_l1_verified (n : N) (l1 : option N) : bool :=
  match l1 with Some m => n <=? m | None => false end.

Definition status_of (n : N) (l1 : option N) : status :=
  if is_l1_verified n l1 then AcceptedL1 else AcceptedL2.

Definition l1_accepted_number (d : db) : option N :=
  match db_l1 d with
  | None => None
  | Some m => match db_height d with None => None | Some h => Some (N.min m h) end
  end.

Definition header_by_hash (d : db) (h : hash) : option block :=
  match alookup h (db_hashix d) with Some n => alookup n (db_blocks d) | None => None end.

(* blockHeaderByID / blockByID *)
Definition block_by_id (d : db) (id : block_id) : option block :=
  match id with
  | Latest => db_head d
  | Hash h => header_by_hash d h
  | Number n => alookup n (db_blocks d)
  | L1Accepted => match l1_accepted_number d with Some n => alookup n (db_blocks d) | None => None end
  end.

(* the block number the count / index / state-update handlers derive before reading by number *)
Definition number_by_id (d : db) (id : block_id) : option N :=
  match id with
  | Latest => db_height d
  | Hash h => alookup h (db_hashix d)
  | Number n => Some n
  | L1Accepted => l1_accepted_number d
  end.

(* state readers: head readers answer zero for the storage of a missing contract, history readers NotFound *)
Inductive rkind := RdHead | RdHist.
Record reader := { r_kind : rkind; r_state : state; r_classes : list felt }.

Definition hist_reader_at (d : db) (n : N) : option reader :=
  (* pruner.RequireStateRetainedByBlockNumber: hash by number, then number by that hash *)
  match alookup n (db_blocks d) with
  | Some b => match alookup (b_hash b) (db_hashix d) with
              | Some _ => Some {| r_kind := RdHist; r_state := b_state b; r_classes := b_classes b |}
              | None => None
              end
  | None => None
  end.

Definition head_reader (d : db) : option reader :=
  match db_head d with
  | Some b => Some {| r_kind := RdHead; r_state := b_state b; r_classes := b_classes b |}
  | None => None
  end.

Definition empty_reader : reader := {| r_kind := RdHead; r_state := []; r_classes := [] |}.

(* stateByBlockID; StateAtBlockHash special-cases the zero hash: the legacy backend opens an empty state, the
   new backend a reader whose contract/class reads go to the flat (head) state *)
Definition state_by_id (be : backend) (d : db) (id : block_id) : option reader :=
  match id with
  | Latest => head_reader d
  | Hash h =>
      if h =? 0 then
        match be with
        | Legacy => Some empty_reader
        | NewState => match head_reader d with Some r => Some r | None => Some empty_reader end
        end
      else match alookup h (db_hashix d) with
           | Some n => match alookup n (db_blocks d) with
                       | Some b => Some {| r_kind := RdHist; r_state := b_state b; r_classes := b_classes b |}
                       | None => None
                       end
           | None => None
           end
  | Number n => hist_reader_at d n
  | L1Accepted => match l1_accepted_number d with Some n => hist_reader_at d n | None => None end
  end.

Definition rd_contract (r : reader) (a : addr) : option cstate := alookup a (r_state r).

Definition rd_storage (r : reader) (a : addr) (k : felt) : option felt :=
  match rd_contract r a with
  | Some cs => Some (slot cs k)
  | None => match r_kind r with RdHead => Some 0 | RdHist => None end
  end.

(* ---------- the handlers ---------- *)
Definition tx_at (d : db) (n : N) (i : N) : option tx :=
  match alookup n (db_blocks d) with
  | Some b => nth_error (b_txs b) (N.to_nat i)
  | None => None
  end.

Definition h_block_number (d : db) : answer :=
  match db_height d with Some n => ANum n | None => AErr NoBlocks end.

Definition h_block_hash_and_number (d : db) : answer :=
  match db_head d with Some b => AHashNum (b_hash b) (b_number b) | None => AErr NoBlocks end.

Definition h_block_with_tx_hashes (d : db) (id : block_id) : answer :=
  match block_by_id d id with
  | None => AErr BlockNotFound
  | Some hd =>
      (* transactions are read by the header's number *)
      match alookup (b_number hd) (db_blocks d) with
      | None => AErr BlockNotFound
      | Some b => ABlock (b_number hd) (b_hash hd) (b_parent hd) (status_of (b_number hd) (db_l1 d))
                         (map t_hash (b_txs b))
      end
  end.

Definition h_block_with_receipts (d : db) (id : block_id) : answer :=
  match block_by_id d id with
  | None => AErr BlockNotFound
  | Some b =>
      let s := status_of (b_number b) (db_l1 d) in
      ABlockR (b_number b) (b_hash b) (b_parent b) s
              (map (fun t => (t_hash t, s, t_reverted t, t_events t)) (b_txs b))
  end.

Definition h_tx_count (v : ver) (d : db) (id : block_id) : answer :=
  match v with
  | V8 => match block_by_id d id with
          | Some b => ANum (N.of_nat (length (b_txs b)))
          | None => AErr BlockNotFound
          end
  | _ => match number_by_id d id with
         | None => AErr BlockNotFound
         | Some n => match alookup n (db_blocks d) with
                     | Some b => ANum (N.of_nat (length (b_txs b)))
                     | None => AErr BlockNotFound
                     end
         end
  end.

Definition h_tx_by_hash (d : db) (h : hash) : answer :=
  match alookup h (db_txix d) with
  | None => AErr TxnHashNotFound
  | Some (n, i) => match tx_at d n i with
                   | Some t => ATx (t_hash t) i
                   | None => AErr TxnHashNotFound
                   end
  end.

(* TransactionByBlockIDAndIndex: a block *number* is not checked for existence — the read by
   (number, index) fails and is reported as INVALID_TXN_INDEX *)
Definition h_tx_by_idx (d : db) (id : block_id) (i : Z) : answer :=
  if (i <? 0)%Z then AErr InvalidTxnIndex
  else match number_by_id d id with
       | None => AErr BlockNotFound
       | Some n => match tx_at d n (Z.to_N i) with
                   | Some t => ATx (t_hash t) (Z.to_N i)
                   | None => AErr InvalidTxnIndex
                   end
       end.

Definition h_receipt (d : db) (h : hash) : answer :=
  match alookup h (db_txix d) with
  | None => AErr TxnHashNotFound
  | Some (n, i) =>
      match alookup n (db_blocks d) with
      | None => AErr TxnHashNotFound
      | Some b => match nth_error (b_txs b) (N.to_nat i) with
                  | Some t => AReceipt (t_hash t) n (b_hash b) (status_of n (db_l1 d)) (t_reverted t) (t_events t)
                  | None => AErr TxnHashNotFound
                  end
      end
  end.

Definition h_tx_status (d : db) (h : hash) : answer :=
  match alookup h (db_txix d) with
  | None => AErr TxnHashNotFound
  | Some (n, i) => match tx_at d n i with
                   | Some t => ATxStatus (status_of n (db_l1 d)) (t_reverted t)
                   | None => AErr TxnHashNotFound
                   end
  end.

Definition h_state_update (d : db) (id : block_id) : answer :=
  match number_by_id d id with
  | None => AErr BlockNotFound
  | Some n => match alookup n (db_blocks d) with
              | Some b => AStateUpdate (b_hash b) (b_diff b)
              | None => AErr BlockNotFound
              end
  end.

Definition is_latest (id : block_id) : bool := match id with Latest => true | _ => false end.

Definition h_storage_at (v : ver) (be : backend) (d : db) (id : block_id) (a : addr) (k : felt) : answer :=
  match state_by_id be d id with
  | None => AErr BlockNotFound
  | Some r =>
      match v with
      | V10 =>
          match rd_storage r a k with
          | None => AErr ContractNotFound
          | Some val =>
              if (val =? 0) && is_latest id then
                match rd_contract r a with Some _ => AFelt val | None => AErr ContractNotFound end
              else AFelt val
          end
      | _ =>
          match rd_contract r a with
          | None => AErr ContractNotFound
          | Some _ => match rd_storage r a k with Some val => AFelt val | None => AErr Internal end
          end
      end
  end.

Definition h_nonce (be : backend) (d : db) (id : block_id) (a : addr) : answer :=
  match state_by_id be d id with
  | None => AErr BlockNotFound
  | Some r => match rd_contract r a with Some cs => AFelt (c_nonce cs) | None => AErr ContractNotFound end
  end.

Definition h_class_hash_at (be : backend) (d : db) (id : block_id) (a : addr) : answer :=
  match state_by_id be d id with
  | None => AErr BlockNotFound
  | Some r => match rd_contract r a with Some cs => AFelt (c_class cs) | None => AErr ContractNotFound end
  end.

Definition h_class (be : backend) (d : db) (id : block_id) (ch : felt) : answer :=
  match state_by_id be d id with
  | None => AErr BlockNotFound
  | Some r => if mem ch (r_classes r) then AClass ch else AErr ClassHashNotFound
  end.

Definition h_class_at (be : backend) (d : db) (id : block_id) (a : addr) : answer :=
  match h_class_hash_at be d id a with
  | AFelt ch => match h_class be d id ch with
                | AErr ClassHashNotFound => AErr ContractNotFound
                | x => x
                end
  | x => x
  end.

(* v0.8 has no l1_accepted tag: BlockID.UnmarshalJSON rejects it (-32602) *)
Definition uses_l1_accepted (r : req) : bool :=
  match req_id r with Some L1Accepted => true | _ => false end.

Definition handle (v : ver) (be : backend) (d : db) (r : req) : answer :=
  if (match v with V8 => uses_l1_accepted r | _ => false end) then AErr InvalidParams else
  match r with
  | RBlockNumber => h_block_number d
  | RBlockHashAndNumber => h_block_hash_and_number d
  | RBlockWithTxHashes id | RBlockWithTxs id => h_block_with_tx_hashes d id
  | RBlockWithReceipts id => h_block_with_receipts d id
  | RTxCount id => h_tx_count v d id
  | RTxByHash h => h_tx_by_hash d h
  | RTxByIdx id i => h_tx_by_idx d id i
  | RReceipt h => h_receipt d h
  | RTxStatus h => h_tx_status d h
  | RStateUpdate id => h_state_update d id
  | RStorageAt id a k => h_storage_at v be d id a k
  | RNonce id a => h_nonce be d id a
  | RClassHashAt id a => h_class_hash_at be d id a
  | RClassAt id a => h_class_at be d id a
  | RClass id ch => h_class be d id ch
  end.

(* the property predicate the harness evaluates on an observed answer: it must be the answer demanded by
   the chain (for v0.8 and l1_accepted: the tag does not exist in that specification) *)
Definition expected (v : ver) (w : world) (r : req) : answer :=
  if (match v with V8 => uses_l1_accepted r | _ => false end) then AErr InvalidParams else spec_answer w r.
