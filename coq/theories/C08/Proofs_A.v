(* C08 proofs, part A: association lists, the well-formedness invariant of chains produced by admissible
   op sequences, the relation between the abstract chain and the indices the handlers read, and its
   preservation by every Store / RevertHead / SetL1Head. *)
From Coq Require Import List NArith ZArith Bool Lia ZifyN ZifyNat ZifyBool.
From V Require Import C08.Model.
Import ListNotations.
Open Scope N_scope.

(* ---------- association lists ---------- *)
Lemma alookup_aremove : forall (V : Type) (k k' : N) (l : list (N * V)),
  alookup k (aremove k' l) = if k =? k' then None else alookup k l.
Proof.
  induction l as [|[k0 v] l IH]; simpl.
  - destruct (k =? k'); reflexivity.
  - destruct (k' =? k0) eqn:E1.
    + rewrite IH. destruct (k =? k') eqn:E2; [reflexivity|].
      destruct (k =? k0) eqn:E3; [|reflexivity].
      apply N.eqb_eq in E1, E3. subst. rewrite N.eqb_refl in E2. discriminate.
    + simpl. rewrite IH. destruct (k =? k0) eqn:E3; [|reflexivity].
      destruct (k =? k') eqn:E2; [|reflexivity].
      apply N.eqb_eq in E2, E3. subst. rewrite N.eqb_refl in E1. discriminate.
Qed.

Lemma alookup_app : forall (V : Type) (k : N) (l1 l2 : list (N * V)),
  alookup k (l1 ++ l2) = match alookup k l1 with Some v => Some v | None => alookup k l2 end.
Proof.
  induction l1 as [|[k0 v] l1 IH]; simpl; intros; [reflexivity|].
  destruct (k =? k0); [reflexivity|apply IH].
Qed.

Lemma mem_true_iff : forall x l, mem x l = true <-> In x l.
Proof.
  unfold mem. intros. rewrite existsb_exists. split.
  - intros [y [Hy E]]. apply N.eqb_eq in E. subst. exact Hy.
  - intros H. exists x. split; [exact H|apply N.eqb_refl].
Qed.

Lemma mem_false_iff : forall x l, mem x l = false <-> ~ In x l.
Proof.
  intros. rewrite <- mem_true_iff. destruct (mem x l); split; intros; congruence.
Qed.

Lemma alookup_fold_aremove : forall (V : Type) (h : hash) (txs : list tx) (ix : list (N * V)),
  alookup h (fold_left (fun ix t => aremove (t_hash t) ix) txs ix) =
  if mem h (map t_hash txs) then None else alookup h ix.
Proof.
  induction txs as [|t txs IH]; simpl; intros; [reflexivity|].
  rewrite IH. unfold mem at 2. simpl. fold (mem h (map t_hash txs)).
  destruct (mem h (map t_hash txs)); [rewrite orb_true_r; reflexivity|].
  rewrite orb_false_r. apply alookup_aremove.
Qed.

Lemma alookup_index_txs : forall h n txs i,
  alookup h (index_txs n i txs) =
  match tx_index h i txs with Some (j, _) => Some (n, j) | None => None end.
Proof.
  induction txs as [|t txs IH]; simpl; intros; [reflexivity|].
  destruct (h =? t_hash t); [reflexivity|apply IH].
Qed.

Lemma tx_index_none : forall h txs i, tx_index h i txs = None <-> mem h (map t_hash txs) = false.
Proof.
  induction txs as [|t txs IH]; simpl; intros; [split; reflexivity|].
  unfold mem. simpl. fold (mem h (map t_hash txs)).
  destruct (h =? t_hash t); simpl; [split; discriminate|apply IH].
Qed.

Lemma tx_index_nth : forall h txs k i t,
  tx_index h k txs = Some (i, t) ->
  k <= i /\ nth_error txs (N.to_nat (i - k)) = Some t /\ t_hash t = h.
Proof.
  induction txs as [|t0 txs IH]; simpl; intros k i t H; [discriminate|].
  destruct (h =? t_hash t0) eqn:E.
  - inversion H; subst. rewrite N.sub_diag. simpl. apply N.eqb_eq in E. repeat split; auto. lia.
  - apply IH in H. destruct H as [Hle [Hn Hh]]. repeat split; auto; [lia|].
    replace (N.to_nat (i - k)) with (S (N.to_nat (i - (k + 1)))) by lia. exact Hn.
Qed.

Lemma mem_app : forall x l1 l2, mem x (l1 ++ l2) = mem x l1 || mem x l2.
Proof. intros. unfold mem. apply existsb_app. Qed.

Lemma alookup_In : forall (V : Type) (k : N) (l : list (N * V)) v, alookup k l = Some v -> In (k, v) l.
Proof.
  induction l as [|[k0 v0] l IH]; simpl; intros v H; [discriminate|].
  destruct (k =? k0) eqn:E; [apply N.eqb_eq in E; inversion H; subst; auto|auto].
Qed.

Lemma alookup_map_snd : forall (V W : Type) (g : V -> W) (k : N) (l : list (N * V)),
  alookup k (map (fun hd => (fst hd, g (snd hd))) l) = option_map g (alookup k l).
Proof.
  induction l as [|[k0 v0] l IH]; simpl; [reflexivity|]. destruct (k =? k0); [reflexivity|exact IH].
Qed.

(* putClass over a batch of delivered definitions: an existing entry stays, otherwise the first delivered one *)
Lemma alookup_add_classes : forall (V : Type) (k : N) (dl cls : list (N * V)),
  alookup k (add_classes dl cls) = match alookup k cls with Some v => Some v | None => alookup k dl end.
Proof.
  unfold add_classes. induction dl as [|[k0 v0] dl IH]; intros cls; simpl.
  - destruct (alookup k cls); reflexivity.
  - rewrite IH. destruct (alookup k0 cls) as [v1|] eqn:E0.
    + destruct (alookup k cls) eqn:Ek; [reflexivity|].
      destruct (k =? k0) eqn:E; [|reflexivity]. apply N.eqb_eq in E. subst. congruence.
    + simpl. destruct (k =? k0) eqn:E.
      * apply N.eqb_eq in E. subst. rewrite E0. reflexivity.
      * reflexivity.
Qed.

(* removeDeclaredClasses: the class goes exactly when it is one of the visited hashes and was declared at n *)
Lemma alookup_undeclare : forall n hs cls k,
  alookup k (undeclare n hs cls) =
  match alookup k cls with
  | Some (a, df) => if mem k hs && (a =? n) then None else Some (a, df)
  | None => None
  end.
Proof.
  unfold undeclare. induction hs as [|ch hs IH]; intros cls k; simpl.
  - destruct (alookup k cls) as [[a df]|]; reflexivity.
  - rewrite IH. unfold mem. simpl. fold (mem k hs).
    destruct (alookup ch cls) as [[a0 df0]|] eqn:Ec.
    + destruct (a0 =? n) eqn:En.
      * rewrite alookup_aremove. destruct (k =? ch) eqn:E.
        -- apply N.eqb_eq in E. subst k. rewrite Ec, En. simpl. reflexivity.
        -- simpl. reflexivity.
      * destruct (k =? ch) eqn:E; simpl; [|reflexivity].
        apply N.eqb_eq in E. subst k. rewrite Ec, En. rewrite andb_false_r. reflexivity.
    + destruct (k =? ch) eqn:E; simpl; [|reflexivity].
      apply N.eqb_eq in E. subst k. rewrite Ec. reflexivity.
Qed.

Lemma declared_defs_hashes : forall d ch def, alookup ch (declared_defs d) = Some def -> In ch (declared_hashes d).
Proof.
  intros d ch def H. apply alookup_In in H. unfold declared_defs in H. unfold declared_hashes.
  apply in_app_or in H. apply in_or_app. destruct H as [H|H].
  - left. apply (in_map fst) in H. exact H.
  - right. apply in_map_iff in H. destruct H as [[k [c v]] [E Hin]]. simpl in E. inversion E; subst.
    apply (in_map fst) in Hin. exact Hin.
Qed.

(* ---------- well-formed chains ---------- *)
Definition tx_loc (c : chain) (h : hash) : option (N * N) :=
  match find_tx c h with Some (b, i, _) => Some (b_number b, i) | None => None end.

Fixpoint wf (c : chain) : Prop :=
  match c with
  | [] => True
  | b :: r =>
      b_number b = N.of_nat (length r) /\ b_parent b = head_hash r /\
      b_hash b <> 0 /\ ~ In (b_hash b) (map b_hash r) /\
      nodup_hashes (map t_hash (b_txs b)) = true /\
      (forall t, In t (b_txs b) -> find_tx r (t_hash t) = None) /\
      b_state b = apply_diff (head_state r) (b_diff b) /\
      b_classes b = add_classes (declared_defs (b_diff b) ++ b_extra b) (head_classes r) /\
      wf r
  end.

Lemma wf_tl : forall c, wf c -> wf (tl c).
Proof. destruct c; simpl; intros; [exact I|tauto]. Qed.

Lemma wf_numbers_lt : forall c, wf c -> forall x, In x c -> b_number x < N.of_nat (length c).
Proof.
  induction c as [|b r IH]; simpl; intros Hwf x Hin; [contradiction|].
  destruct Hwf as [Hn [_ [_ [_ [_ [_ [_ [_ Hr]]]]]]]].
  destruct Hin as [<-|Hin]; [lia|]. specialize (IH Hr x Hin). lia.
Qed.

(* the cumulative class map of every block of a well-formed chain, in terms of the lowest delivering block *)
Lemma class_facts : forall c, wf c ->
  (forall ch a df, class_decl c ch = Some (a, df) -> a < N.of_nat (length c)) /\
  (forall ch, alookup ch (head_classes c) = option_map snd (class_decl c ch)) /\
  (forall b, In b c -> forall ch, alookup ch (b_classes b) = class_visible c ch (b_number b)).
Proof.
  induction c as [|x r IH]; intros Hwf.
  - repeat split; simpl; intros; try discriminate; try reflexivity; contradiction.
  - pose proof Hwf as Hwf'. destruct Hwf as [Hn [_ [_ [_ [_ [_ [_ [Hcl Hr]]]]]]]].
    destruct (IH Hr) as [IH1 [IH2 IH3]].
    assert (B : forall ch a df, class_decl (x :: r) ch = Some (a, df) -> a < N.of_nat (length (x :: r))).
    { intros ch a df H. simpl in H. destruct (class_decl r ch) as [[a' df']|] eqn:E.
      - inversion H; subst. specialize (IH1 ch a df E). simpl length. lia.
      - destruct (alookup ch (delivered x)); simpl in H; [|discriminate]. inversion H; subst. simpl length. lia. }
    assert (Hd : forall ch, alookup ch (b_classes x) = option_map snd (class_decl (x :: r) ch)).
    { intros ch. rewrite Hcl, alookup_add_classes, IH2. simpl. fold (delivered x).
      destruct (class_decl r ch) as [[a df]|]; simpl; [reflexivity|].
      destruct (alookup ch (delivered x)); reflexivity. }
    split; [exact B|]. split; [exact Hd|].
    intros b [<-|Hin] ch.
    + rewrite Hd. unfold class_visible. destruct (class_decl (x :: r) ch) as [[a df]|] eqn:E; [|reflexivity].
      specialize (B ch a df E). simpl length in B. simpl.
      destruct (a <=? b_number x) eqn:El; [reflexivity|]. lia.
    + rewrite (IH3 b Hin ch). unfold class_visible. simpl.
      destruct (class_decl r ch) as [[a df]|] eqn:E; [reflexivity|].
      destruct (alookup ch (delivered x)) as [def|]; simpl; [|reflexivity].
      pose proof (wf_numbers_lt r Hr b Hin) as Hlt.
      destruct (b_number x <=? b_number b) eqn:El; [lia|reflexivity].
Qed.

Lemma block_at_In : forall c n b, block_at c n = Some b -> In b c /\ b_number b = n.
Proof.
  unfold block_at. intros c n b H. apply find_some in H. destruct H as [Hin E].
  apply N.eqb_eq in E. auto.
Qed.

Lemma block_by_hash_In : forall c h b, block_by_hash c h = Some b -> In b c /\ b_hash b = h.
Proof.
  unfold block_by_hash. intros c h b H. apply find_some in H. destruct H as [Hin E].
  apply N.eqb_eq in E. auto.
Qed.

Lemma block_at_of_In : forall c, wf c -> forall b, In b c -> block_at c (b_number b) = Some b.
Proof.
  induction c as [|x r IH]; simpl; intros Hwf b Hin; [contradiction|].
  pose proof Hwf as Hwf'. destruct Hwf as [Hn [_ [_ [_ [_ [_ [_ [_ Hr]]]]]]]].
  unfold block_at. simpl. destruct Hin as [<-|Hin].
  - rewrite N.eqb_refl. reflexivity.
  - pose proof (wf_numbers_lt r Hr b Hin) as Hlt.
    destruct (b_number x =? b_number b) eqn:E; [apply N.eqb_eq in E; lia|].
    apply (IH Hr b Hin).
Qed.

Lemma block_by_hash_of_In : forall c, wf c -> forall b, In b c -> block_by_hash c (b_hash b) = Some b.
Proof.
  induction c as [|x r IH]; simpl; intros Hwf b Hin; [contradiction|].
  destruct Hwf as [_ [_ [_ [Hfresh [_ [_ [_ [_ Hr]]]]]]]].
  unfold block_by_hash. simpl. destruct Hin as [<-|Hin].
  - rewrite N.eqb_refl. reflexivity.
  - destruct (b_hash x =? b_hash b) eqn:E.
    + apply N.eqb_eq in E. exfalso. apply Hfresh. rewrite E. apply in_map. exact Hin.
    + apply (IH Hr b Hin).
Qed.

Lemma block_at_exists : forall c, wf c -> forall hgt n, height c = Some hgt -> n <= hgt ->
  exists b, block_at c n = Some b.
Proof.
  induction c as [|x r IH]; simpl; intros Hwf hgt n Hh Hle; [discriminate|].
  inversion Hh; subst. destruct Hwf as [Hn [_ [_ [_ [_ [_ [_ [_ Hr]]]]]]]].
  unfold block_at. simpl. destruct (b_number x =? n) eqn:E; [eauto|].
  apply N.eqb_neq in E. destruct r as [|y r'].
  - simpl in Hn. lia.
  - apply (IH Hr (b_number y) n); [reflexivity|].
    simpl in Hr. destruct Hr as [Hy _]. simpl in Hn. lia.
Qed.

Lemma find_tx_In : forall c h b i t, find_tx c h = Some (b, i, t) ->
  In b c /\ tx_index h 0 (b_txs b) = Some (i, t).
Proof.
  induction c as [|x r IH]; simpl; intros h b i t H; [discriminate|].
  destruct (tx_index h 0 (b_txs x)) as [[j u]|] eqn:E.
  - inversion H; subst. auto.
  - apply IH in H. tauto.
Qed.

(* ---------- admissible op sequences produce well-formed chains ---------- *)
Lemma forallb_find_tx : forall c txs,
  forallb (fun t => match find_tx c (t_hash t) with None => true | Some _ => false end) txs = true ->
  forall t, In t txs -> find_tx c (t_hash t) = None.
Proof.
  intros c txs H t Hin. rewrite forallb_forall in H. specialize (H t Hin).
  destruct (find_tx c (t_hash t)); [discriminate|reflexivity].
Qed.

Lemma w_step_wf : forall w o, wf (w_chain w) -> op_ok w o = true -> wf (w_chain (w_step w o)).
Proof.
  intros w o Hwf Hok. destruct o as [h hp txs d extra| |n]; simpl.
  - simpl in Hok. apply andb_prop in Hok. destruct Hok as [Hok H5].
    apply andb_prop in Hok. destruct Hok as [Hok H4].
    apply andb_prop in Hok. destruct Hok as [Hok H3].
    apply andb_prop in Hok. destruct Hok as [H1 H2].
    repeat split; auto.
    + apply negb_true_iff in H1. apply N.eqb_neq in H1. exact H1.
    + apply negb_true_iff in H2. apply mem_false_iff in H2. exact H2.
    + apply forallb_find_tx. exact H4.
  - apply wf_tl. exact Hwf.
  - exact Hwf.
Qed.

Lemma run_wf_from : forall ops w, wf (w_chain w) -> ops_ok w ops = true -> wf (w_chain (fold_left w_step ops w)).
Proof.
  induction ops as [|o ops IH]; simpl; intros w Hwf Hok; [exact Hwf|].
  apply andb_prop in Hok. destruct Hok as [H1 H2].
  apply IH; [apply w_step_wf; assumption|exact H2].
Qed.

(* ---------- the storage-history keys against the chain ---------- *)
Definition chain_log (c : chain) : list (addr * (felt * N)) :=
  flat_map (fun b => log_writes (b_number b) (d_storage (b_diff b))) c.

Lemma log_writes_block : forall n sto e, In e (log_writes n sto) -> snd (snd e) = n.
Proof.
  intros n sto e H. unfold log_writes in H. apply in_flat_map in H. destruct H as [akvs [_ H]].
  apply in_map_iff in H. destruct H as [kv [<- _]]. reflexivity.
Qed.

Lemma chain_log_lt : forall c, wf c -> forall e, In e (chain_log c) -> snd (snd e) < N.of_nat (length c).
Proof.
  induction c as [|b r IH]; simpl; intros Hwf e H; [contradiction|].
  destruct Hwf as [Hn [_ [_ [_ [_ [_ [_ [_ Hr]]]]]]]].
  apply in_app_or in H. destruct H as [H|H].
  - apply log_writes_block in H. lia.
  - specialize (IH Hr e H). lia.
Qed.

Lemma filter_all : forall (A : Type) (f : A -> bool) l, (forall x, In x l -> f x = true) -> filter f l = l.
Proof.
  induction l as [|x l IH]; simpl; intros H; [reflexivity|].
  rewrite (H x (or_introl eq_refl)). f_equal. apply IH. intros y Hy. apply H. right. exact Hy.
Qed.

Lemma filter_none : forall (A : Type) (f : A -> bool) l, (forall x, In x l -> f x = false) -> filter f l = [].
Proof.
  induction l as [|x l IH]; simpl; intros H; [reflexivity|].
  rewrite (H x (or_introl eq_refl)). apply IH. intros y Hy. apply H. right. exact Hy.
Qed.

Lemma last_logged_app : forall l1 l2 a k u,
  last_logged (l1 ++ l2) a k u = N.max (last_logged l1 a k u) (last_logged l2 a k u).
Proof.
  induction l1 as [|[a' [k' m]] l1 IH]; intros l2 a k u; simpl.
  - rewrite N.max_0_l. reflexivity.
  - rewrite IH.
    destruct ((a =? a') && (k =? k') && match u with Some n => m <=? n | None => true end); [|reflexivity].
    rewrite N.max_assoc. reflexivity.
Qed.

(* the keys one block logs: its own number if the diff writes the slot and the bound admits it, else nothing *)
Lemma last_logged_log_writes : forall n sto a k u,
  last_logged (log_writes n sto) a k u =
  if existsb (fun akvs => (fst akvs =? a) && existsb (fun kv => fst kv =? k) (snd akvs)) sto
     && match u with Some b => n <=? b | None => true end
  then n else 0.
Proof.
  intros n sto a k u. unfold log_writes. induction sto as [|[a' kvs] sto IH]; simpl; [reflexivity|].
  rewrite last_logged_app, IH. clear IH.
  set (bound := match u with Some b => n <=? b | None => true end).
  assert (H1 : last_logged (map (fun kv : felt * felt => (a', (fst kv, n))) kvs) a k u =
               if (a' =? a) && existsb (fun kv => fst kv =? k) kvs && bound then n else 0).
  { induction kvs as [|[k' v'] kvs IHk]; simpl.
    - rewrite andb_false_r. reflexivity.
    - rewrite IHk. fold bound. rewrite (N.eqb_sym a a'), (N.eqb_sym k k').
      destruct (a' =? a); simpl; [|reflexivity].
      destruct (k' =? k); simpl; [|reflexivity].
      destruct bound; destruct (existsb (fun kv => fst kv =? k) kvs); simpl; lia. }
  rewrite H1.
  set (e1 := (a' =? a) && existsb (fun kv => fst kv =? k) kvs).
  destruct e1; destruct bound;
    match goal with |- context [existsb ?f sto] => destruct (existsb f sto) end; simpl; lia.
Qed.

Lemma last_write_le : forall c, wf c -> forall a k n, last_write c a k n <= N.of_nat (length c).
Proof.
  induction c as [|b r IH]; simpl; intros Hwf a k n; [lia|].
  destruct Hwf as [Hn [_ [_ [_ [_ [_ [_ [_ Hr]]]]]]]].
  destruct ((b_number b <=? n) && writes (b_diff b) a k); [lia|]. specialize (IH Hr a k n). lia.
Qed.

Lemma last_logged_chain_log : forall c, wf c -> forall a k n,
  last_logged (chain_log c) a k (Some n) = last_write c a k n.
Proof.
  induction c as [|b r IH]; simpl; intros Hwf a k n; [reflexivity|].
  pose proof Hwf as Hwf'. destruct Hwf as [Hn [_ [_ [_ [_ [_ [_ [_ Hr]]]]]]]].
  rewrite last_logged_app, last_logged_log_writes, (IH Hr). fold (writes (b_diff b) a k).
  pose proof (last_write_le r Hr a k n) as Hle.
  rewrite (andb_comm (writes (b_diff b) a k)).
  destruct ((b_number b <=? n) && writes (b_diff b) a k); lia.
Qed.

Lemma last_logged_unbounded : forall l a k n, (forall e, In e l -> snd (snd e) <= n) ->
  last_logged l a k None = last_logged l a k (Some n).
Proof.
  induction l as [|[a' [k' m]] l IH]; simpl; intros a k n H; [reflexivity|].
  rewrite (IH a k n) by (intros e He; apply H; right; exact He).
  specialize (H (a', (k', m)) (or_introl eq_refl)). simpl in H.
  destruct (m <=? n) eqn:E; [reflexivity|lia].
Qed.

(* ---------- the relation between the abstract chain and what the handlers read ---------- *)
Record R (w : world) (d : db) : Prop := {
  R_l1 : db_l1 d = w_l1 w;
  R_height : db_height d = height (w_chain w);
  R_blocks : forall n, alookup n (db_blocks d) = block_at (w_chain w) n;
  R_hashix : forall h, alookup h (db_hashix d) = option_map b_number (block_by_hash (w_chain w) h);
  R_txix : forall h, alookup h (db_txix d) = tx_loc (w_chain w) h;
  R_classes : forall ch, mem ch (w_orphans w) = false -> alookup ch (db_classes d) = class_decl (w_chain w) ch;
  R_sthist : db_sthist d = chain_log (w_chain w) }.

Lemma R_init : R w_init db_init.
Proof. constructor; reflexivity. Qed.

Lemma db_head_hd : forall w d, wf (w_chain w) -> R w d -> db_head d = hd_error (w_chain w).
Proof.
  intros w d Hwf HR. unfold db_head. rewrite (R_height _ _ HR).
  destruct (w_chain w) as [|b r] eqn:Ec; simpl; [reflexivity|].
  rewrite (R_blocks _ _ HR), Ec. unfold block_at. simpl. rewrite N.eqb_refl. reflexivity.
Qed.

Lemma height_of_wf : forall b r, wf (b :: r) -> height (b :: r) = Some (N.of_nat (length r)).
Proof. simpl. intros b r [Hn _]. rewrite Hn. reflexivity. Qed.

Lemma store_R : forall w d h hp txs df extra, wf (w_chain w) -> R w d ->
  R (w_step w (OStore h hp txs df extra)) (db_store d h hp txs df extra).
Proof.
  intros w d h hp txs df extra Hwf HR.
  pose proof (db_head_hd w d Hwf HR) as Hhead.
  assert (Hn : match db_height d with Some m => m + 1 | None => 0 end = N.of_nat (length (w_chain w))).
  { rewrite (R_height _ _ HR). destruct (w_chain w) as [|b r] eqn:Ec; [reflexivity|].
    rewrite (height_of_wf b r Hwf). simpl length. lia. }
  assert (Hb : match db_head d with
               | Some p => mk_block (match db_height d with Some m => m + 1 | None => 0 end)
                                    (b_hash p) (b_state p) (b_classes p) h hp txs df extra
               | None => mk_block (match db_height d with Some m => m + 1 | None => 0 end) 0 [] [] h hp txs df extra
               end =
               mk_block (N.of_nat (length (w_chain w))) (head_hash (w_chain w)) (head_state (w_chain w))
                        (head_classes (w_chain w)) h hp txs df extra).
  { rewrite Hhead, Hn. destruct (w_chain w); reflexivity. }
  unfold db_store. rewrite Hb, Hn. clear Hb Hhead.
  set (n := N.of_nat (length (w_chain w))).
  set (b := mk_block n (head_hash (w_chain w)) (head_state (w_chain w)) (head_classes (w_chain w)) h hp txs df extra).
  constructor; simpl.
  - apply (R_l1 _ _ HR).
  - reflexivity.
  - intros k. fold n. fold b. unfold block_at. simpl. rewrite (N.eqb_sym n k).
    destruct (k =? n); [reflexivity|]. apply (R_blocks _ _ HR).
  - intros k. fold n. fold b. unfold block_by_hash. simpl. rewrite (N.eqb_sym h k).
    destruct (k =? h); [reflexivity|]. apply (R_hashix _ _ HR).
  - intros k. fold n. fold b. rewrite alookup_app, alookup_index_txs. unfold tx_loc. simpl.
    destruct (tx_index k 0 txs) as [[j u]|]; [reflexivity|]. apply (R_txix _ _ HR).
  - intros ch Ho. rewrite alookup_add_classes, alookup_map_snd, (R_classes _ _ HR ch Ho).
    destruct (class_decl (w_chain w) ch); reflexivity.
  - rewrite (R_sthist _ _ HR). reflexivity.
Qed.

Lemma revert_R : forall w d, wf (w_chain w) -> R w d -> R (w_step w ORevert) (db_revert d).
Proof.
  intros w d Hwf HR. unfold db_revert. rewrite (R_height _ _ HR).
  destruct (w_chain w) as [|b r] eqn:Ec.
  - simpl. destruct w as [c l]. simpl in *. subst c. exact HR.
  - pose proof Hwf as Hwf'.
    destruct Hwf as [Hn [_ [_ [Hfresh [_ [Htx [_ [_ Hr]]]]]]]].
    change (height (b :: r)) with (Some (b_number b)). cbv iota beta.
    rewrite (R_blocks _ _ HR), Ec.
    unfold block_at at 1. simpl find. rewrite N.eqb_refl.
    constructor; simpl; rewrite ?Ec; simpl.
    + apply (R_l1 _ _ HR).
    + destruct r as [|p r']; simpl in *.
      * rewrite Hn. reflexivity.
      * destruct Hr as [Hp _]. destruct (b_number b =? 0) eqn:E; [apply N.eqb_eq in E; lia|].
        f_equal. lia.
    + intros k. rewrite alookup_aremove, (R_blocks _ _ HR), Ec.
      unfold block_at. simpl. rewrite (N.eqb_sym (b_number b) k).
      destruct (k =? b_number b) eqn:E; [|reflexivity].
      apply N.eqb_eq in E. subst k.
      destruct (find (fun x => b_number x =? b_number b) r) as [x|] eqn:F; [|reflexivity].
      apply find_some in F. destruct F as [Hin Ex]. apply N.eqb_eq in Ex.
      pose proof (wf_numbers_lt r Hr x Hin). lia.
    + intros k. rewrite alookup_aremove, (R_hashix _ _ HR), Ec.
      unfold block_by_hash. simpl. rewrite (N.eqb_sym (b_hash b) k).
      destruct (k =? b_hash b) eqn:E; [|reflexivity].
      apply N.eqb_eq in E. subst k.
      destruct (find (fun x => b_hash x =? b_hash b) r) as [x|] eqn:F; [|reflexivity].
      apply find_some in F. destruct F as [Hin Ex]. apply N.eqb_eq in Ex.
      exfalso. apply Hfresh. rewrite <- Ex. apply in_map. exact Hin.
    + intros k. rewrite alookup_fold_aremove, (R_txix _ _ HR), Ec. unfold tx_loc. simpl.
      destruct (mem k (map t_hash (b_txs b))) eqn:M.
      * apply mem_true_iff in M. apply in_map_iff in M. destruct M as [t [Et Hin]].
        rewrite <- Et, (Htx t Hin). reflexivity.
      * apply (tx_index_none k (b_txs b) 0) in M. rewrite M. reflexivity.
    + intros ch Ho. rewrite mem_app in Ho. apply orb_false_iff in Ho. destruct Ho as [Hnew Ho].
      rewrite alookup_undeclare, (R_classes _ _ HR ch Ho), Ec. simpl. fold (delivered b).
      destruct (class_facts r Hr) as [C1 [C2 _]].
      destruct (class_decl r ch) as [[a df]|] eqn:Ed.
      * specialize (C1 ch a df Ed). destruct (a =? b_number b) eqn:Ea; [apply N.eqb_eq in Ea; lia|].
        rewrite andb_false_r. reflexivity.
      * unfold delivered. rewrite alookup_app.
        destruct (alookup ch (declared_defs (b_diff b))) as [def|] eqn:Edd; simpl.
        -- apply declared_defs_hashes in Edd.
           assert (Hm : mem ch (revert_visits (b_diff b)) = true).
           { apply mem_true_iff. unfold revert_visits. apply in_or_app. left. exact Edd. }
           rewrite Hm, N.eqb_refl. reflexivity.
        -- destruct (alookup ch (b_extra b)) as [def|] eqn:Ex; simpl; [|reflexivity].
           destruct (mem ch (deployed_classes (b_diff b))) eqn:Hdep.
           ++ (* the class of a deployed contract: visited by the revert *)
              assert (Hm : mem ch (revert_visits (b_diff b)) = true).
              { apply mem_true_iff. unfold revert_visits. apply in_or_app. right. apply mem_true_iff. exact Hdep. }
              rewrite Hm, N.eqb_refl. reflexivity.
           ++ exfalso. apply mem_false_iff in Hnew. apply Hnew. unfold new_extra.
              apply alookup_In in Ex. apply (in_map fst) with (x := (ch, def)). apply filter_In. split; [exact Ex|].
              simpl. rewrite C2, Ed, Hdep. reflexivity.
    + rewrite (R_sthist _ _ HR), Ec. simpl. rewrite filter_app.
      rewrite filter_none, filter_all; [reflexivity| |].
      * intros e He. pose proof (chain_log_lt r Hr e He).
        destruct (snd (snd e) =? b_number b) eqn:E; [apply N.eqb_eq in E; lia|reflexivity].
      * intros e He. apply log_writes_block in He. rewrite He, N.eqb_refl. reflexivity.
Qed.

Lemma step_R : forall w d o, wf (w_chain w) -> R w d -> R (w_step w o) (db_step d o).
Proof.
  intros w d o Hwf HR. destruct o as [h hp txs df extra| |n].
  - apply store_R; assumption.
  - apply revert_R; assumption.
  - destruct HR. constructor; simpl; auto.
Qed.

Definition Inv (w : world) (d : db) : Prop := wf (w_chain w) /\ R w d.

Lemma run_inv_from : forall ops w d, Inv w d -> ops_ok w ops = true ->
  Inv (fold_left w_step ops w) (fold_left db_step ops d).
Proof.
  induction ops as [|o ops IH]; simpl; intros w d HI Hok; [exact HI|].
  apply andb_prop in Hok. destruct Hok as [H1 H2]. destruct HI as [Hwf HR].
  apply IH; [|exact H2]. split; [apply w_step_wf; assumption|apply step_R; assumption].
Qed.

Lemma run_inv : forall ops, ops_ok w_init ops = true -> Inv (w_run ops) (db_run ops).
Proof. intros. apply run_inv_from; [split; [exact I|exact R_init]|assumption]. Qed.
