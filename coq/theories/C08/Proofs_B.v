(* C08 proofs, part B: under the invariant the handler transcription answers exactly what the abstract
   chain demands (outside the named deviations); resolution, finality and version agreement facts. *)
From Coq Require Import List NArith ZArith Bool Lia ZifyN ZifyNat ZifyBool.
From V Require Import C08.Model C08.Proofs_A.
Import ListNotations.
Open Scope N_scope.

Lemma status_finality : forall n l1, status_of n l1 = finality n l1.
Proof. intros n [m|]; unfold status_of, finality; simpl; [destruct (n <=? m)|]; reflexivity. Qed.

Lemma resolve_In : forall w id b, resolve w id = Some b -> In b (w_chain w).
Proof.
  intros w id b H. destruct id as [n|h| |]; simpl in H.
  - apply block_at_In in H. tauto.
  - apply block_by_hash_In in H. tauto.
  - destruct (w_chain w); simpl in H; [discriminate|]. inversion H; subst. left. reflexivity.
  - destruct (w_l1 w); [|discriminate]. destruct (height (w_chain w)); [|discriminate].
    apply block_at_In in H. tauto.
Qed.

Section UnderInv.
  Variables (w : world) (d : db).
  Hypothesis Hwf : wf (w_chain w).
  Hypothesis HR : R w d.

  Lemma blocks_of_In : forall b, In b (w_chain w) -> alookup (b_number b) (db_blocks d) = Some b.
  Proof. intros b Hin. rewrite (R_blocks _ _ HR). apply block_at_of_In; assumption. Qed.

  Lemma l1_number_spec : l1_accepted_number d =
    match w_l1 w, height (w_chain w) with Some m, Some hgt => Some (N.min m hgt) | _, _ => None end.
  Proof. unfold l1_accepted_number. rewrite (R_l1 _ _ HR), (R_height _ _ HR). reflexivity. Qed.

  Lemma block_by_id_resolve : forall id, block_by_id d id = resolve w id.
  Proof.
    destruct id as [n|h| |]; simpl.
    - apply (R_blocks _ _ HR).
    - unfold header_by_hash. rewrite (R_hashix _ _ HR).
      destruct (block_by_hash (w_chain w) h) as [b|] eqn:E; simpl; [|reflexivity].
      apply block_by_hash_In in E. apply blocks_of_In. tauto.
    - apply db_head_hd; assumption.
    - rewrite l1_number_spec. destruct (w_l1 w); [|reflexivity].
      destruct (height (w_chain w)); [|reflexivity]. apply (R_blocks _ _ HR).
  Qed.

  (* the number the count / index / state-update handlers derive, then read by *)
  Lemma number_by_id_none : forall id, number_by_id d id = None -> resolve w id = None.
  Proof.
    destruct id as [n|h| |]; simpl; intros H.
    - discriminate.
    - rewrite (R_hashix _ _ HR) in H. destruct (block_by_hash (w_chain w) h); [discriminate|reflexivity].
    - rewrite (R_height _ _ HR) in H. destruct (w_chain w); [reflexivity|discriminate].
    - rewrite l1_number_spec in H. destruct (w_l1 w); [|reflexivity].
      destruct (height (w_chain w)); [discriminate|reflexivity].
  Qed.

  Lemma number_by_id_some : forall id n, (forall k, id <> Number k) -> number_by_id d id = Some n ->
    exists b, resolve w id = Some b /\ alookup n (db_blocks d) = Some b.
  Proof.
    destruct id as [k|h| |]; simpl; intros n Hnot H.
    - exfalso. apply (Hnot k). reflexivity.
    - rewrite (R_hashix _ _ HR) in H.
      destruct (block_by_hash (w_chain w) h) as [b|] eqn:E; simpl in H; [|discriminate].
      inversion H; subst. exists b. split; [reflexivity|].
      apply block_by_hash_In in E. apply blocks_of_In. tauto.
    - rewrite (R_height _ _ HR) in H. destruct (w_chain w) as [|b r] eqn:Ec; simpl in H; [discriminate|].
      inversion H; subst. exists b. split; [reflexivity|].
      rewrite (R_blocks _ _ HR), Ec. unfold block_at. simpl. rewrite N.eqb_refl. reflexivity.
    - rewrite l1_number_spec in H. destruct (w_l1 w) as [m|]; [|discriminate].
      destruct (height (w_chain w)) as [hgt|] eqn:Eh; [|discriminate]. inversion H; subst.
      destruct (block_at_exists (w_chain w) Hwf hgt (N.min m hgt) Eh) as [b Hb]; [lia|].
      exists b. split; [exact Hb|]. rewrite (R_blocks _ _ HR). exact Hb.
  Qed.

  Lemma by_number_resolve : forall id,
    match number_by_id d id with Some n => alookup n (db_blocks d) | None => None end = resolve w id.
  Proof.
    intros id. destruct id as [k|h| |] eqn:Eid.
    - simpl. apply (R_blocks _ _ HR).
    - rewrite <- Eid. destruct (number_by_id d id) as [n|] eqn:E.
      + destruct (number_by_id_some id n) as [b [H1 H2]]; [subst; discriminate|exact E|]. congruence.
      + symmetry. apply number_by_id_none. exact E.
    - rewrite <- Eid. destruct (number_by_id d id) as [n|] eqn:E.
      + destruct (number_by_id_some id n) as [b [H1 H2]]; [subst; discriminate|exact E|]. congruence.
      + symmetry. apply number_by_id_none. exact E.
    - rewrite <- Eid. destruct (number_by_id d id) as [n|] eqn:E.
      + destruct (number_by_id_some id n) as [b [H1 H2]]; [subst; discriminate|exact E|]. congruence.
      + symmetry. apply number_by_id_none. exact E.
  Qed.

  (* transactions by hash *)
  Lemma tx_by_loc : forall h,
    match alookup h (db_txix d) with
    | Some (n, i) => match alookup n (db_blocks d) with
                     | Some b => match nth_error (b_txs b) (N.to_nat i) with
                                 | Some t => Some (b, i, t) | None => None end
                     | None => None end
    | None => None
    end = find_tx (w_chain w) h.
  Proof.
    intros h. rewrite (R_txix _ _ HR). unfold tx_loc.
    destruct (find_tx (w_chain w) h) as [[[b i] t]|] eqn:E; [|reflexivity].
    apply find_tx_In in E. destruct E as [Hin Hix].
    rewrite (blocks_of_In b Hin). apply tx_index_nth in Hix. destruct Hix as [_ [Hn _]].
    rewrite N.sub_0_r in Hn. rewrite Hn. reflexivity.
  Qed.

  Lemma find_tx_hash : forall h b i t, find_tx (w_chain w) h = Some (b, i, t) -> t_hash t = h.
  Proof.
    intros h b i t E. apply find_tx_In in E. destruct E as [_ Hix].
    apply tx_index_nth in Hix. tauto.
  Qed.

  (* state readers *)
  Definition reader_of (id : block_id) (b : block) : reader :=
    {| r_kind := if is_latest id then RdHead else RdHist; r_state := b_state b; r_num := b_number b;
       r_cls := db_classes d; r_log := db_sthist d |}.

  Lemma hist_reader_spec : forall n,
    hist_reader_at d n = option_map (reader_of (Number n)) (block_at (w_chain w) n).
  Proof.
    intros n. unfold hist_reader_at. rewrite (R_blocks _ _ HR).
    destruct (block_at (w_chain w) n) as [b|] eqn:E; [|reflexivity].
    apply block_at_In in E. destruct E as [Hin Hn].
    rewrite (R_hashix _ _ HR), (block_by_hash_of_In _ Hwf b Hin). simpl. unfold reader_of. simpl. rewrite Hn. reflexivity.
  Qed.

  Lemma state_by_id_spec : forall be id, id <> Hash 0 ->
    state_by_id be d id = option_map (reader_of id) (resolve w id).
  Proof.
    intros be id Hz. destruct id as [n|h| |]; simpl.
    - apply hist_reader_spec.
    - destruct (h =? 0) eqn:E0; [apply N.eqb_eq in E0; subst; congruence|].
      rewrite (R_hashix _ _ HR).
      destruct (block_by_hash (w_chain w) h) as [b|] eqn:E; simpl; [|reflexivity].
      apply block_by_hash_In in E. rewrite (blocks_of_In b); [reflexivity|tauto].
    - unfold head_reader. rewrite (db_head_hd w d Hwf HR). destruct (w_chain w); reflexivity.
    - rewrite l1_number_spec. destruct (w_l1 w); [|reflexivity].
      destruct (height (w_chain w)); [|reflexivity]. apply hist_reader_spec.
  Qed.
End UnderInv.

(* ---------- every handler against the chain ---------- *)
Section Handlers.
  Variables (w : world) (d : db).
  Hypothesis Hwf : wf (w_chain w).
  Hypothesis HR : R w d.

  Lemma h_block_number_ok : h_block_number d = spec_answer w RBlockNumber.
  Proof. unfold h_block_number. simpl. rewrite (R_height _ _ HR). reflexivity. Qed.

  Lemma h_block_hash_and_number_ok : h_block_hash_and_number d = spec_answer w RBlockHashAndNumber.
  Proof.
    unfold h_block_hash_and_number. simpl. rewrite (db_head_hd w d Hwf HR).
    destruct (w_chain w); reflexivity.
  Qed.

  Lemma h_block_with_tx_hashes_ok : forall id,
    h_block_with_tx_hashes d id = spec_answer w (RBlockWithTxHashes id).
  Proof.
    intros id. unfold h_block_with_tx_hashes. simpl. unfold with_block.
    rewrite (block_by_id_resolve w d Hwf HR).
    destruct (resolve w id) as [b|] eqn:E; [|reflexivity].
    rewrite (blocks_of_In w d Hwf HR b (resolve_In w id b E)), status_finality, (R_l1 _ _ HR). reflexivity.
  Qed.

  Lemma h_block_with_txs_ok : forall id,
    h_block_with_txs d id = spec_answer w (RBlockWithTxs id).
  Proof.
    intros id. unfold h_block_with_txs. simpl. unfold with_block.
    rewrite (block_by_id_resolve w d Hwf HR).
    destruct (resolve w id) as [b|] eqn:E; [|reflexivity].
    rewrite (blocks_of_In w d Hwf HR b (resolve_In w id b E)), status_finality, (R_l1 _ _ HR). reflexivity.
  Qed.

  Lemma h_block_with_receipts_ok : forall id,
    h_block_with_receipts d id = spec_answer w (RBlockWithReceipts id).
  Proof.
    intros id. unfold h_block_with_receipts. simpl. unfold with_block.
    rewrite (block_by_id_resolve w d Hwf HR).
    destruct (resolve w id) as [b|]; [|reflexivity].
    rewrite status_finality, (R_l1 _ _ HR). reflexivity.
  Qed.

  Lemma h_tx_count_ok : forall v id, h_tx_count v d id = spec_answer w (RTxCount id).
  Proof.
    intros v id. simpl. unfold with_block, h_tx_count.
    assert (H9 : match number_by_id d id with
                 | None => AErr BlockNotFound
                 | Some n => match alookup n (db_blocks d) with
                             | Some b => ANum (N.of_nat (length (b_txs b)))
                             | None => AErr BlockNotFound end
                 end = match resolve w id with
                       | Some b => ANum (N.of_nat (length (b_txs b))) | None => AErr BlockNotFound end).
    { rewrite <- (by_number_resolve w d Hwf HR id). destruct (number_by_id d id); reflexivity. }
    destruct v; [|exact H9|exact H9].
    rewrite (block_by_id_resolve w d Hwf HR). reflexivity.
  Qed.

  Lemma h_state_update_ok : forall id, h_state_update d id = spec_answer w (RStateUpdate id).
  Proof.
    intros id. simpl. unfold with_block, h_state_update.
    rewrite <- (by_number_resolve w d Hwf HR id). destruct (number_by_id d id); reflexivity.
  Qed.

  Lemma h_tx_by_hash_ok : forall h, h_tx_by_hash d h = spec_answer w (RTxByHash h).
  Proof.
    intros h. simpl. unfold h_tx_by_hash, tx_at. rewrite <- (tx_by_loc w d Hwf HR h).
    destruct (alookup h (db_txix d)) as [[n i]|]; [|reflexivity].
    destruct (alookup n (db_blocks d)) as [b|]; [|reflexivity].
    destruct (nth_error (b_txs b) (N.to_nat i)); reflexivity.
  Qed.

  Lemma h_receipt_ok : forall h, h_receipt d h = spec_answer w (RReceipt h).
  Proof.
    intros h. simpl. unfold h_receipt.
    pose proof (tx_by_loc w d Hwf HR h) as T.
    destruct (find_tx (w_chain w) h) as [[[b i] t]|] eqn:F.
    - pose proof F as F'. apply find_tx_In in F'. destruct F' as [Hin _].
      rewrite (R_txix _ _ HR). unfold tx_loc. rewrite F.
      rewrite (R_txix _ _ HR) in T. unfold tx_loc in T. rewrite F in T.
      rewrite (blocks_of_In w d Hwf HR b Hin) in *.
      destruct (nth_error (b_txs b) (N.to_nat i)) as [t'|]; [|discriminate].
      inversion T; subst. rewrite status_finality, (R_l1 _ _ HR). reflexivity.
    - destruct (alookup h (db_txix d)) as [[n i]|]; [|reflexivity].
      destruct (alookup n (db_blocks d)) as [b|]; [|reflexivity].
      destruct (nth_error (b_txs b) (N.to_nat i)); [discriminate|reflexivity].
  Qed.

  Lemma h_tx_status_ok : forall h, h_tx_status d h = spec_answer w (RTxStatus h).
  Proof.
    intros h. simpl. unfold h_tx_status, tx_at.
    pose proof (tx_by_loc w d Hwf HR h) as T.
    destruct (find_tx (w_chain w) h) as [[[b i] t]|] eqn:F.
    - pose proof F as F'. apply find_tx_In in F'. destruct F' as [Hin _].
      rewrite (R_txix _ _ HR). unfold tx_loc. rewrite F.
      rewrite (R_txix _ _ HR) in T. unfold tx_loc in T. rewrite F in T.
      rewrite (blocks_of_In w d Hwf HR b Hin) in *.
      destruct (nth_error (b_txs b) (N.to_nat i)) as [t'|]; [|discriminate].
      inversion T; subst. rewrite status_finality, (R_l1 _ _ HR). reflexivity.
    - destruct (alookup h (db_txix d)) as [[n i]|]; [|reflexivity].
      destruct (alookup n (db_blocks d)) as [b|]; [|reflexivity].
      destruct (nth_error (b_txs b) (N.to_nat i)); [discriminate|reflexivity].
  Qed.

  Lemma h_tx_by_idx_ok : forall id i, deviates w (RTxByIdx id i) = DevNone ->
    h_tx_by_idx d id i = spec_answer w (RTxByIdx id i).
  Proof.
    intros id i Hdev. simpl. unfold h_tx_by_idx, with_block, tx_at.
    destruct (i <? 0)%Z eqn:Ei; [reflexivity|].
    assert (Hi : (0 <=? i)%Z = true) by lia.
    rewrite Z_N_nat.
    destruct id as [k|h| |] eqn:Eid.
    - simpl. simpl in Hdev. rewrite Hi in Hdev. rewrite (R_blocks _ _ HR).
      destruct (block_at (w_chain w) k) as [b|]; [|discriminate].
      destruct (nth_error (b_txs b) (Z.to_nat i)); reflexivity.
    - rewrite <- Eid. destruct (number_by_id d id) as [n|] eqn:E.
      + destruct (number_by_id_some w d Hwf HR id n) as [b [H1 H2]]; [subst; discriminate|exact E|].
        rewrite H1, H2. destruct (nth_error (b_txs b) (Z.to_nat i)); reflexivity.
      + rewrite (number_by_id_none w d Hwf HR id E). reflexivity.
    - rewrite <- Eid. destruct (number_by_id d id) as [n|] eqn:E.
      + destruct (number_by_id_some w d Hwf HR id n) as [b [H1 H2]]; [subst; discriminate|exact E|].
        rewrite H1, H2. destruct (nth_error (b_txs b) (Z.to_nat i)); reflexivity.
      + rewrite (number_by_id_none w d Hwf HR id E). reflexivity.
    - rewrite <- Eid. destruct (number_by_id d id) as [n|] eqn:E.
      + destruct (number_by_id_some w d Hwf HR id n) as [b [H1 H2]]; [subst; discriminate|exact E|].
        rewrite H1, H2. destruct (nth_error (b_txs b) (Z.to_nat i)); reflexivity.
      + rewrite (number_by_id_none w d Hwf HR id E). reflexivity.
  Qed.

  Lemma h_storage_at_ok : forall v be id a k, id <> Hash 0 ->
    h_storage_at v be d id a k = spec_answer w (RStorageAt id a k).
  Proof.
    intros v be id a k Hz. simpl. unfold h_storage_at, with_block, with_contract.
    rewrite (state_by_id_spec w d Hwf HR be id Hz).
    destruct (resolve w id) as [b|]; simpl; [|reflexivity].
    unfold rd_storage, rd_contract. simpl.
    destruct (alookup a (b_state b)) as [cs|] eqn:Ec.
    - destruct v; try reflexivity.
      destruct ((slot cs k =? 0) && is_latest id); reflexivity.
    - destruct v; try reflexivity. destruct (is_latest id); simpl; try rewrite Ec; reflexivity.
  Qed.

  (* ContractStorageLastUpdatedBlock on the reader of the resolved block = the highest block of the chain at or
     below it that writes the slot *)
  Lemma rd_last_update_spec : forall id b a k, resolve w id = Some b ->
    rd_last_update (reader_of d id b) a k = last_write (w_chain w) a k (b_number b).
  Proof.
    intros id b a k Hres. unfold rd_last_update. simpl. rewrite (R_sthist _ _ HR).
    destruct (is_latest id) eqn:El.
    - destruct id; try discriminate. simpl in Hres.
      destruct (w_chain w) as [|x r] eqn:Ec; simpl in Hres; [discriminate|]. inversion Hres; subst x.
      rewrite <- Ec in *. rewrite (last_logged_unbounded _ a k (b_number b)).
      + apply last_logged_chain_log. exact Hwf.
      + intros e He. pose proof (chain_log_lt _ Hwf e He) as Hlt. rewrite Ec in Hlt, Hwf.
        destruct Hwf as [Hn _]. simpl length in Hlt. lia.
    - apply last_logged_chain_log. exact Hwf.
  Qed.

  Lemma h_storage_at_lu_ok : forall be id a k, id <> Hash 0 ->
    h_storage_at_lu be d id a k = spec_answer w (RStorageAtLU id a k).
  Proof.
    intros be id a k Hz. unfold h_storage_at_lu. rewrite (h_storage_at_ok V10 be id a k Hz).
    rewrite (state_by_id_spec w d Hwf HR be id Hz). simpl. unfold with_block, with_contract.
    destruct (resolve w id) as [b|] eqn:Er; simpl; [|reflexivity].
    destruct (alookup a (b_state b)) as [cs|]; [|reflexivity].
    rewrite (rd_last_update_spec id b a k Er). reflexivity.
  Qed.

  Lemma h_nonce_ok : forall be id a, id <> Hash 0 -> h_nonce be d id a = spec_answer w (RNonce id a).
  Proof.
    intros be id a Hz. simpl. unfold h_nonce, with_block, with_contract.
    rewrite (state_by_id_spec w d Hwf HR be id Hz).
    destruct (resolve w id) as [b|]; reflexivity.
  Qed.

  Lemma h_class_hash_at_ok : forall be id a, id <> Hash 0 ->
    h_class_hash_at be d id a = spec_answer w (RClassHashAt id a).
  Proof.
    intros be id a Hz. simpl. unfold h_class_hash_at, with_block, with_contract.
    rewrite (state_by_id_spec w d Hwf HR be id Hz).
    destruct (resolve w id) as [b|]; reflexivity.
  Qed.

  (* the class a reader of the resolved block sees = the class map of that block, for every class hash that no
     reverted block had introduced without declaring it *)
  Lemma rd_class_spec : forall id b ch, resolve w id = Some b -> mem ch (w_orphans w) = false ->
    rd_class (reader_of d id b) ch = alookup ch (b_classes b).
  Proof.
    intros id b ch Hres Ho. pose proof (resolve_In w id b Hres) as Hin.
    destruct (class_facts (w_chain w) Hwf) as [C1 [_ C3]].
    rewrite (C3 b Hin ch). unfold rd_class, class_visible. simpl. rewrite (R_classes _ _ HR ch Ho).
    destruct (class_decl (w_chain w) ch) as [[a df]|] eqn:Ed; [|reflexivity].
    specialize (C1 ch a df Ed).
    destruct (is_latest id) eqn:El.
    - destruct id; try discriminate. simpl in Hres.
      destruct (w_chain w) as [|x r] eqn:Ec; simpl in Hres; [discriminate|]. inversion Hres; subst x.
      destruct Hwf as [Hn _]. simpl length in C1.
      destruct (a <=? b_number b) eqn:E; [reflexivity|]. lia.
    - destruct (b_number b <? a) eqn:E1; destruct (a <=? b_number b) eqn:E2; try reflexivity; lia.
  Qed.

  Lemma h_class_ok : forall be id ch, id <> Hash 0 -> mem ch (w_orphans w) = false ->
    h_class be d id ch = spec_answer w (RClass id ch).
  Proof.
    intros be id ch Hz Ho. simpl. unfold h_class, with_block.
    rewrite (state_by_id_spec w d Hwf HR be id Hz).
    destruct (resolve w id) as [b|] eqn:Er; simpl; [|reflexivity].
    rewrite (rd_class_spec id b ch Er Ho). reflexivity.
  Qed.

  Lemma h_class_at_ok : forall be id a, id <> Hash 0 ->
    (forall b cs, resolve w id = Some b -> alookup a (b_state b) = Some cs -> mem (c_class cs) (w_orphans w) = false) ->
    h_class_at be d id a = spec_answer w (RClassAt id a).
  Proof.
    intros be id a Hz Ho. unfold h_class_at. rewrite (h_class_hash_at_ok be id a Hz).
    simpl. unfold with_block, with_contract.
    destruct (resolve w id) as [b|] eqn:Er; [|reflexivity].
    destruct (alookup a (b_state b)) as [cs|] eqn:Ea; [|reflexivity].
    rewrite (h_class_ok be id (c_class cs) Hz (Ho b cs eq_refl Ea)). simpl. unfold with_block. rewrite Er.
    destruct (alookup (c_class cs) (b_classes b)); reflexivity.
  Qed.
End Handlers.
