(* C08 proofs, part C: the statements of Props.v. *)
From Coq Require Import List NArith ZArith Bool Lia ZifyN ZifyNat ZifyBool.
From V Require Import C08.Model C08.Proofs_A C08.Proofs_B.
Import ListNotations.
Open Scope N_scope.

Lemma dev_state_id : forall w r id, is_state_req r = true -> req_id r = Some id ->
  deviates w r = DevNone -> id <> Hash 0.
Proof.
  intros w r id Hs Hid Hd Heq. subst id.
  destruct r; simpl in Hs; try discriminate; simpl in Hid; inversion Hid; subst; simpl in Hd; discriminate.
Qed.

Lemma dev_class_orphan : forall w id ch, deviates w (RClass id ch) = DevNone -> mem ch (w_orphans w) = false.
Proof.
  intros w id ch H. unfold deviates in H. simpl in H.
  destruct (mem ch (w_orphans w)); [|reflexivity].
  destruct id as [n|[|p]| |]; discriminate.
Qed.

Lemma dev_class_at_orphan : forall w id a, deviates w (RClassAt id a) = DevNone ->
  forall b cs, resolve w id = Some b -> alookup a (b_state b) = Some cs -> mem (c_class cs) (w_orphans w) = false.
Proof.
  intros w id a H b cs Hr Ha. unfold deviates in H. simpl is_state_req in H. simpl req_id in H. cbv iota in H.
  rewrite Hr, Ha in H.
  destruct (mem (c_class cs) (w_orphans w)); [|reflexivity].
  destruct id as [n|[|p]| |]; discriminate.
Qed.

Lemma handle_expected : forall w d, wf (w_chain w) -> R w d ->
  forall v be r, deviates w r = DevNone -> handle v be d r = expected v w r.
Proof.
  intros w d Hwf HR v be r Hdev. unfold handle, expected.
  destruct (match v with V8 => uses_l1_accepted r | _ => false end); [reflexivity|].
  destruct r.
  - apply h_block_number_ok; assumption.
  - apply h_block_hash_and_number_ok; assumption.
  - apply h_block_with_tx_hashes_ok; assumption.
  - apply h_block_with_txs_ok; assumption.
  - apply h_block_with_receipts_ok; assumption.
  - apply h_tx_count_ok; assumption.
  - apply h_tx_by_hash_ok; assumption.
  - apply h_tx_by_idx_ok; assumption.
  - apply h_receipt_ok; assumption.
  - apply h_tx_status_ok; assumption.
  - apply h_state_update_ok; assumption.
  - apply h_storage_at_ok; try assumption. eapply dev_state_id; eauto; reflexivity.
  - apply h_nonce_ok; try assumption. eapply dev_state_id; eauto; reflexivity.
  - destruct v; simpl; try reflexivity.
    apply h_storage_at_lu_ok; try assumption. eapply dev_state_id; eauto; reflexivity.
  - apply h_class_hash_at_ok; try assumption. eapply dev_state_id; eauto; reflexivity.
  - apply h_class_at_ok; try assumption; [eapply dev_state_id; eauto; reflexivity|].
    apply dev_class_at_orphan. exact Hdev.
  - apply h_class_ok; try assumption; [eapply dev_state_id; eauto; reflexivity|].
    eapply dev_class_orphan. exact Hdev.
Qed.

(* ---------- answer_from_chain ---------- *)
Lemma answer_from_chain : forall ops, ops_ok w_init ops = true ->
  forall v be r, deviates (w_run ops) r = DevNone ->
  handle v be (db_run ops) r = expected v (w_run ops) r.
Proof.
  intros ops Hok v be r Hdev. destruct (run_inv ops Hok) as [Hwf HR].
  apply handle_expected; assumption.
Qed.

(* not-found errors exactly when the item is absent (read off the spec answers) *)
Lemma not_found_exact : forall w,
  (forall id, spec_answer w (RBlockWithTxHashes id) = AErr BlockNotFound <-> resolve w id = None) /\
  (forall h, spec_answer w (RTxByHash h) = AErr TxnHashNotFound <-> find_tx (w_chain w) h = None) /\
  (forall h, spec_answer w (RReceipt h) = AErr TxnHashNotFound <-> find_tx (w_chain w) h = None) /\
  (forall id a b, resolve w id = Some b ->
     (spec_answer w (RNonce id a) = AErr ContractNotFound <-> alookup a (b_state b) = None)) /\
  (forall id i b, resolve w id = Some b -> (0 <= i)%Z ->
     (spec_answer w (RTxByIdx id i) = AErr InvalidTxnIndex <-> (Z.of_nat (length (b_txs b)) <= i)%Z)).
Proof.
  intros w. repeat split; simpl; unfold with_block, with_contract.
  - destruct (resolve w id); [discriminate|reflexivity].
  - destruct (resolve w id); [discriminate|reflexivity].
  - destruct (find_tx (w_chain w) h) as [[[b i] t]|]; [discriminate|reflexivity].
  - destruct (find_tx (w_chain w) h) as [[[b i] t]|]; [discriminate|reflexivity].
  - destruct (find_tx (w_chain w) h) as [[[b i] t]|]; [discriminate|reflexivity].
  - destruct (find_tx (w_chain w) h) as [[[b i] t]|]; [discriminate|reflexivity].
  - rewrite H. destruct (alookup a (b_state b)); [discriminate|reflexivity].
  - rewrite H. destruct (alookup a (b_state b)); [discriminate|reflexivity].
  - rewrite H. destruct (i <? 0)%Z eqn:E; [lia|].
    destruct (nth_error (b_txs b) (Z.to_nat i)) eqn:En; [discriminate|].
    intros _. apply nth_error_None in En. lia.
  - rewrite H. destruct (i <? 0)%Z eqn:E; [lia|].
    intros Hle. destruct (nth_error (b_txs b) (Z.to_nat i)) eqn:En; [|reflexivity].
    assert (Hlt : (Z.to_nat i < length (b_txs b))%nat) by (apply nth_error_Some; congruence). lia.
Qed.

(* ---------- resolve_exact ---------- *)
Lemma resolve_exact : forall ops, ops_ok w_init ops = true ->
  let w := w_run ops in let c := w_chain w in
  (* the handlers' lookup is the abstract resolution *)
  (forall id, block_by_id (db_run ops) id = resolve w id) /\
  (* latest = head *)
  resolve w Latest = hd_error c /\
  (* a number is found iff it is at most the height, and then it is the block with that number *)
  (forall n, (exists b, resolve w (Number n) = Some b) <-> (exists hgt, height c = Some hgt /\ n <= hgt)) /\
  (forall n b, resolve w (Number n) = Some b -> In b c /\ b_number b = n) /\
  (* a hash is found iff it is the hash of a block currently in the chain *)
  (forall h b, resolve w (Hash h) = Some b <-> In b c /\ b_hash b = h) /\
  (* l1_accepted: none recorded => not found; recorded within the chain => the block with that number;
     recorded above the chain (sync in progress / after a revert) => the head *)
  (w_l1 w = None -> resolve w L1Accepted = None) /\
  (forall m hgt, w_l1 w = Some m -> height c = Some hgt ->
     resolve w L1Accepted = resolve w (Number (N.min m hgt))).
Proof.
  intros ops Hok w c. destruct (run_inv ops Hok) as [Hwf HR]. fold w in Hwf, HR. fold c in Hwf.
  repeat split.
  - intros id. apply block_by_id_resolve; assumption.
  - intros [b Hb]. simpl in Hb. apply block_at_In in Hb. destruct Hb as [Hin Hn].
    fold c in Hin. destruct c as [|x r] eqn:Ec; [contradiction|].
    exists (b_number x). split; [reflexivity|].
    pose proof (wf_numbers_lt (x :: r) Hwf b Hin) as Hlt. simpl in Hwf. destruct Hwf as [Hx _].
    simpl length in Hlt. lia.
  - intros [hgt [Hh Hle]]. apply (block_at_exists c Hwf hgt n Hh Hle).
  - simpl in H. apply block_at_In in H. tauto.
  - simpl in H. apply block_at_In in H. tauto.
  - simpl in H. apply block_by_hash_In in H. tauto.
  - simpl in H. apply block_by_hash_In in H. tauto.
  - intros [Hin Hh]. simpl. subst h. apply block_by_hash_of_In; assumption.
  - intros Hl. simpl. rewrite Hl. reflexivity.
  - intros m hgt Hl Hh. simpl. rewrite Hl. fold c. rewrite Hh. reflexivity.
Qed.

(* a reverted hash is not found any more (unless the same block is stored again) *)
Lemma reverted_hash_not_found : forall ops b r, ops_ok w_init ops = true ->
  w_chain (w_run ops) = b :: r ->
  resolve (w_run (ops ++ [ORevert])) (Hash (b_hash b)) = None /\
  block_by_id (db_run (ops ++ [ORevert])) (Hash (b_hash b)) = None.
Proof.
  intros ops b r Hok Hc.
  assert (Hok' : ops_ok w_init (ops ++ [ORevert]) = true).
  { clear Hc. revert Hok. generalize w_init. induction ops as [|o ops IH]; simpl; intros w0 H; [reflexivity|].
    apply andb_prop in H. destruct H as [H1 H2]. rewrite H1. simpl. apply IH. exact H2. }
  destruct (run_inv ops Hok) as [Hwf _]. rewrite Hc in Hwf.
  destruct Hwf as [_ [_ [_ [Hfresh _]]]].
  assert (E : resolve (w_run (ops ++ [ORevert])) (Hash (b_hash b)) = None).
  { unfold w_run. rewrite fold_left_app. simpl. fold (w_run ops). rewrite Hc. simpl.
    destruct (block_by_hash r (b_hash b)) as [x|] eqn:F; [|reflexivity].
    apply block_by_hash_In in F. destruct F as [Hin Hx]. exfalso. apply Hfresh.
    rewrite <- Hx. apply in_map. exact Hin. }
  split; [exact E|].
  destruct (resolve_exact (ops ++ [ORevert]) Hok') as [Hb _]. rewrite Hb. exact E.
Qed.

(* ---------- finality ---------- *)
Lemma finality_iff : forall n l1, finality n l1 = AcceptedL1 <-> exists m, l1 = Some m /\ n <= m.
Proof.
  intros n [m|]; simpl.
  - destruct (n <=? m) eqn:E; split.
    + intros _. exists m. split; [reflexivity|lia].
    + reflexivity.
    + discriminate.
    + intros [m' [Hm Hle]]. inversion Hm; subst. lia.
  - split; [discriminate|]. intros [m [H _]]. discriminate.
Qed.

Lemma l1_recorded : forall w o,
  w_l1 (w_step w o) = match o with OSetL1 m => Some m | _ => w_l1 w end.
Proof. intros w [h txs d| |m]; reflexivity. Qed.

Lemma finality_from_l1 : forall ops, ops_ok w_init ops = true ->
  forall v be id b, (match v with V8 => uses_l1_accepted (RBlockWithReceipts id) | _ => false end) = false ->
  resolve (w_run ops) id = Some b ->
  let s := finality (b_number b) (w_l1 (w_run ops)) in
  handle v be (db_run ops) (RBlockWithTxHashes id) = ABlock (hdr_of b s) (map t_hash (b_txs b)) /\
  handle v be (db_run ops) (RBlockWithReceipts id) = ABlockR (hdr_of b s) (map (rcv_of s) (b_txs b)).
Proof.
  intros ops Hok v be id b Hv Hres s. split.
  - rewrite (answer_from_chain ops Hok v be (RBlockWithTxHashes id)); [|reflexivity].
    unfold expected. change (uses_l1_accepted (RBlockWithTxHashes id)) with (uses_l1_accepted (RBlockWithReceipts id)).
    rewrite Hv. simpl. unfold with_block. rewrite Hres. reflexivity.
  - rewrite (answer_from_chain ops Hok v be (RBlockWithReceipts id)); [|reflexivity].
    unfold expected. rewrite Hv. simpl. unfold with_block. rewrite Hres. reflexivity.
Qed.

(* ---------- versions ---------- *)
Lemma reader_kind : forall be d id r, state_by_id be d id = Some r -> id <> Hash 0 ->
  r_kind r = if is_latest id then RdHead else RdHist.
Proof.
  intros be d id r H Hz. destruct id as [n|h| |]; simpl in *.
  - unfold hist_reader_at in H. destruct (alookup n (db_blocks d)); [|discriminate].
    destruct (alookup (b_hash b) (db_hashix d)); inversion H; reflexivity.
  - destruct (h =? 0) eqn:E; [apply N.eqb_eq in E; subst; congruence|].
    destruct (alookup h (db_hashix d)); [|discriminate].
    destruct (alookup n (db_blocks d)); inversion H; reflexivity.
  - unfold head_reader in H. destruct (db_head d); inversion H; reflexivity.
  - destruct (l1_accepted_number d); [|discriminate]. unfold hist_reader_at in H.
    destruct (alookup n (db_blocks d)); [|discriminate].
    destruct (alookup (b_hash b) (db_hashix d)); inversion H; reflexivity.
Qed.

Lemma v9_v10_agree : forall be d r,
  (forall a k, r <> RStorageAt (Hash 0) a k) -> (forall id a k, r <> RStorageAtLU id a k) ->
  handle V9 be d r = handle V10 be d r.
Proof.
  intros be d r Hnz Hlu. destruct r; try reflexivity; [|exfalso; eapply Hlu; reflexivity].
  unfold handle. simpl. unfold h_storage_at.
  destruct (state_by_id be d id) as [rd|] eqn:E; [|reflexivity].
  assert (Hz : id <> Hash 0) by (intros ->; apply (Hnz a k); reflexivity).
  pose proof (reader_kind be d id rd E Hz) as Hk.
  unfold rd_storage. destruct (rd_contract rd a) as [cs|] eqn:Ec.
  - destruct ((slot cs k =? 0) && is_latest id); reflexivity.
  - rewrite Hk. destruct (is_latest id); simpl; try rewrite Ec; reflexivity.
Qed.

Lemma v8_v9_agree : forall ops, ops_ok w_init ops = true ->
  forall be r, uses_l1_accepted r = false -> handle V8 be (db_run ops) r = handle V9 be (db_run ops) r.
Proof.
  intros ops Hok be r Hl. destruct (run_inv ops Hok) as [Hwf HR].
  unfold handle. rewrite Hl. destruct r; try reflexivity.
  rewrite (h_tx_count_ok _ _ Hwf HR V8), (h_tx_count_ok _ _ Hwf HR V9). reflexivity.
Qed.

Lemma v8_l1_invalid : forall be d r, uses_l1_accepted r = true -> handle V8 be d r = AErr InvalidParams.
Proof. intros be d r H. unfold handle. rewrite H. reflexivity. Qed.
