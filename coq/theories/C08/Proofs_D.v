(* C08 proofs, part D (session 4): classes (the class table against the chain, also across reverts and
   re-declarations) and whole-payload agreement of the methods that return transactions, receipts, headers. *)
From Coq Require Import List NArith ZArith Bool Lia ZifyN ZifyNat ZifyBool.
From V Require Import C08.Model C08.Proofs_A C08.Proofs_B C08.Proofs_C.
Import ListNotations.
Open Scope N_scope.

(* ---------- class_decl: the lowest delivering block ---------- *)
Lemma class_decl_none : forall c ch, class_decl c ch = None <-> (forall b, In b c -> alookup ch (delivered b) = None).
Proof.
  induction c as [|x r IH]; simpl; intros ch.
  - split; [intros _ b []|reflexivity].
  - destruct (class_decl r ch) as [y|] eqn:E.
    + split; [discriminate|]. intros H. exfalso.
      assert (N0 : class_decl r ch = None) by (apply IH; intros b Hb; apply H; auto). congruence.
    + destruct (alookup ch (delivered x)) as [def|] eqn:Ex; simpl.
      * split; [discriminate|]. intros H. specialize (H x (or_introl eq_refl)). congruence.
      * split; [|reflexivity]. intros _ b [<-|Hb]; [exact Ex|]. apply (proj1 (IH ch) E b Hb).
Qed.

Lemma class_decl_some : forall c, wf c -> forall ch a def,
  class_decl c ch = Some (a, def) <->
  exists b, In b c /\ b_number b = a /\ alookup ch (delivered b) = Some def /\
            (forall b', In b' c -> b_number b' < a -> alookup ch (delivered b') = None).
Proof.
  induction c as [|x r IH]; intros Hwf ch a def.
  - simpl. split; [discriminate|]. intros [b [[] _]].
  - pose proof Hwf as Hwf'. destruct Hwf as [Hn [_ [_ [_ [_ [_ [_ [_ Hr]]]]]]]].
    destruct (class_facts r Hr) as [C1 _]. simpl class_decl.
    destruct (class_decl r ch) as [[a0 d0]|] eqn:E.
    + split.
      * intros H. inversion H; subst a0 d0. apply (IH Hr) in E. destruct E as [b [Hb [Hnb [Hd Hlow]]]].
        exists b. split; [right; exact Hb|]. split; [exact Hnb|]. split; [exact Hd|].
        intros b' [<-|Hb'] Hlt; [|apply Hlow; assumption].
        pose proof (wf_numbers_lt r Hr b Hb). lia.
      * intros [b [[<-|Hb] [Hnb [Hd Hlow]]]].
        -- (* the head cannot be the lowest: a lower block of r delivers *)
           exfalso. pose proof (proj1 (IH Hr ch a0 d0) E) as [b0 [Hb0 [Hn0 [Hd0 _]]]].
           assert (Hlt : b_number b0 < a) by (pose proof (wf_numbers_lt r Hr b0 Hb0); lia).
           specialize (Hlow b0 (or_intror Hb0) Hlt). congruence.
        -- assert (E' : class_decl r ch = Some (a, def)).
           { apply (IH Hr). exists b. split; [exact Hb|]. split; [exact Hnb|]. split; [exact Hd|].
             intros b' Hb' Hlt. apply Hlow; [right; exact Hb'|exact Hlt]. }
           congruence.
    + destruct (alookup ch (delivered x)) as [dx|] eqn:Ex; simpl.
      * split.
        -- intros H. inversion H; subst. exists x. split; [left; reflexivity|]. split; [reflexivity|].
           split; [exact Ex|].
           intros b' [<-|Hb'] Hlt; [lia|]. apply (proj1 (class_decl_none r ch) E b' Hb').
        -- intros [b [[<-|Hb] [Hnb [Hd Hlow]]]]; [congruence|].
           pose proof (proj1 (class_decl_none r ch) E b Hb). congruence.
      * split; [discriminate|]. intros [b [[<-|Hb] [Hnb [Hd Hlow]]]]; [congruence|].
        pose proof (proj1 (class_decl_none r ch) E b Hb). congruence.
Qed.

Lemma class_visible_iff : forall c, wf c -> forall ch n def,
  class_visible c ch n = Some def <->
  exists b, In b c /\ b_number b <= n /\ alookup ch (delivered b) = Some def /\
            (forall b', In b' c -> b_number b' < b_number b -> alookup ch (delivered b') = None).
Proof.
  intros c Hwf ch n def. unfold class_visible. split.
  - destruct (class_decl c ch) as [[a d0]|] eqn:E; [|discriminate].
    destruct (a <=? n) eqn:El; [|discriminate]. intros H. inversion H; subst d0.
    apply (class_decl_some c Hwf) in E. destruct E as [b [Hb [Hnb [Hd Hlow]]]].
    exists b. subst a. repeat split; auto. lia.
  - intros [b [Hb [Hle [Hd Hlow]]]].
    assert (E : class_decl c ch = Some (b_number b, def)).
    { apply (class_decl_some c Hwf). exists b. repeat split; auto. }
    rewrite E. destruct (b_number b <=? n) eqn:El; [reflexivity|lia].
Qed.

(* ---------- getClass / getClassAt / getClassHashAt against the chain ---------- *)
Definition not_v8_l1 (v : ver) (id : block_id) : Prop := ~ (v = V8 /\ id = L1Accepted).

Lemma v8_guard : forall v r id, req_id r = Some id -> not_v8_l1 v id ->
  (match v with V8 => uses_l1_accepted r | _ => false end) = false.
Proof.
  intros v r id Hid Hn. destruct v; try reflexivity. unfold uses_l1_accepted. rewrite Hid.
  destruct id; try reflexivity. exfalso. apply Hn. split; reflexivity.
Qed.

Section ClassesUnderInv.
  Variables (w : world) (d : db).
  Hypothesis Hwf : wf (w_chain w).
  Hypothesis HR : R w d.

  Lemma class_answer : forall v be id ch, id <> Hash 0 -> mem ch (w_orphans w) = false -> not_v8_l1 v id ->
    handle v be d (RClass id ch) =
    match resolve w id with
    | None => AErr BlockNotFound
    | Some b => match class_visible (w_chain w) ch (b_number b) with
                | Some def => AClass def
                | None => AErr ClassHashNotFound
                end
    end.
  Proof.
    intros v be id ch Hz Ho Hv. unfold handle. rewrite (v8_guard v (RClass id ch) id eq_refl Hv).
    rewrite (h_class_ok w d Hwf HR be id ch Hz Ho). simpl. unfold with_block.
    destruct (resolve w id) as [b|] eqn:Er; [|reflexivity].
    destruct (class_facts (w_chain w) Hwf) as [_ [_ C3]].
    rewrite (C3 b (resolve_In w id b Er) ch). reflexivity.
  Qed.

  Lemma class_hash_at_answer : forall v be id a, id <> Hash 0 -> not_v8_l1 v id ->
    handle v be d (RClassHashAt id a) =
    match resolve w id with
    | None => AErr BlockNotFound
    | Some b => match alookup a (b_state b) with Some cs => AFelt (c_class cs) | None => AErr ContractNotFound end
    end.
  Proof.
    intros v be id a Hz Hv. unfold handle. rewrite (v8_guard v (RClassHashAt id a) id eq_refl Hv).
    rewrite (h_class_hash_at_ok w d Hwf HR be id a Hz). reflexivity.
  Qed.

  Lemma class_at_answer : forall v be id a, id <> Hash 0 -> not_v8_l1 v id ->
    (forall b cs, resolve w id = Some b -> alookup a (b_state b) = Some cs -> mem (c_class cs) (w_orphans w) = false) ->
    handle v be d (RClassAt id a) =
    match resolve w id with
    | None => AErr BlockNotFound
    | Some b => match alookup a (b_state b) with
                | None => AErr ContractNotFound
                | Some cs => match class_visible (w_chain w) (c_class cs) (b_number b) with
                             | Some def => AClass def
                             | None => AErr ContractNotFound
                             end
                end
    end.
  Proof.
    intros v be id a Hz Hv Ho. unfold handle. rewrite (v8_guard v (RClassAt id a) id eq_refl Hv).
    rewrite (h_class_at_ok w d Hwf HR be id a Hz Ho). simpl. unfold with_block, with_contract.
    destruct (resolve w id) as [b|] eqn:Er; [|reflexivity].
    destruct (alookup a (b_state b)) as [cs|]; [|reflexivity].
    destruct (class_facts (w_chain w) Hwf) as [_ [_ C3]].
    rewrite (C3 b (resolve_In w id b Er) (c_class cs)). reflexivity.
  Qed.
End ClassesUnderInv.

Lemma class_exact : forall ops, ops_ok w_init ops = true ->
  let w := w_run ops in let c := w_chain w in
  (forall v be id ch, id <> Hash 0 -> mem ch (w_orphans w) = false -> not_v8_l1 v id ->
     handle v be (db_run ops) (RClass id ch) =
     match resolve w id with
     | None => AErr BlockNotFound
     | Some b => match class_visible c ch (b_number b) with Some def => AClass def | None => AErr ClassHashNotFound end
     end) /\
  (forall v be id a, id <> Hash 0 -> not_v8_l1 v id ->
     (forall b cs, resolve w id = Some b -> alookup a (b_state b) = Some cs -> mem (c_class cs) (w_orphans w) = false) ->
     handle v be (db_run ops) (RClassAt id a) =
     match resolve w id with
     | None => AErr BlockNotFound
     | Some b => match alookup a (b_state b) with
                 | None => AErr ContractNotFound
                 | Some cs => match class_visible c (c_class cs) (b_number b) with
                              | Some def => AClass def
                              | None => AErr ContractNotFound
                              end
                 end
     end) /\
  (forall v be id a, id <> Hash 0 -> not_v8_l1 v id ->
     handle v be (db_run ops) (RClassHashAt id a) =
     match resolve w id with
     | None => AErr BlockNotFound
     | Some b => match alookup a (b_state b) with Some cs => AFelt (c_class cs) | None => AErr ContractNotFound end
     end) /\
  (forall ch n def, class_visible c ch n = Some def <->
     exists b, In b c /\ b_number b <= n /\ alookup ch (delivered b) = Some def /\
               (forall b', In b' c -> b_number b' < b_number b -> alookup ch (delivered b') = None)).
Proof.
  intros ops Hok w c. destruct (run_inv ops Hok) as [Hwf HR]. fold w in Hwf, HR. fold c in Hwf.
  repeat split.
  - intros. apply class_answer; assumption.
  - intros. apply class_at_answer; assumption.
  - intros. apply class_hash_at_answer; assumption.
  - apply (class_visible_iff c Hwf).
  - apply (class_visible_iff c Hwf).
Qed.

(* ---------- last_update_block ---------- *)
Lemma last_write_spec : forall c, wf c -> forall a k n,
  ((exists b, In b c /\ b_number b <= n /\ writes (b_diff b) a k = true) ->
   exists b, In b c /\ b_number b = last_write c a k n /\ b_number b <= n /\ writes (b_diff b) a k = true /\
     (forall b', In b' c -> b_number b' <= n -> writes (b_diff b') a k = true -> b_number b' <= b_number b)) /\
  ((forall b, In b c -> b_number b <= n -> writes (b_diff b) a k = false) -> last_write c a k n = 0).
Proof.
  induction c as [|x r IH]; intros Hwf a k n.
  - split; [intros [b [[] _]]|reflexivity].
  - pose proof Hwf as Hwf'. destruct Hwf as [Hn [_ [_ [_ [_ [_ [_ [_ Hr]]]]]]]].
    destruct (IH Hr a k n) as [IH1 IH2]. simpl last_write.
    destruct ((b_number x <=? n) && writes (b_diff x) a k) eqn:E.
    + apply andb_prop in E. destruct E as [E1 E2]. split.
      * intros _. exists x. split; [left; reflexivity|]. split; [reflexivity|]. split; [lia|]. split; [exact E2|].
        intros b' [<-|Hb'] _ _; [lia|]. pose proof (wf_numbers_lt r Hr b' Hb'). lia.
      * intros H. specialize (H x (or_introl eq_refl)). rewrite E2 in H. assert (b_number x <= n) by lia.
        specialize (H H0). discriminate.
    + split.
      * intros [b [[<-|Hb] [Hle Hw]]].
        -- rewrite Hw in E. assert (Hx : (b_number x <=? n) = true) by lia. rewrite Hx in E. discriminate.
        -- destruct IH1 as [b0 [Hb0 [Hm [Hle0 [Hw0 Hmax]]]]]; [exists b; auto|].
           exists b0. split; [right; exact Hb0|]. split; [exact Hm|]. split; [exact Hle0|]. split; [exact Hw0|].
           intros b' [<-|Hb'] Hle' Hw'; [|apply Hmax; assumption].
           rewrite Hw' in E. assert (Hx : (b_number x <=? n) = true) by lia. rewrite Hx in E. discriminate.
      * intros H. apply IH2. intros b Hb. apply H. right. exact Hb.
Qed.

Lemma last_update_exact : forall ops, ops_ok w_init ops = true ->
  let w := w_run ops in
  (forall be id a k, id <> Hash 0 ->
     handle V10 be (db_run ops) (RStorageAtLU id a k) =
     match resolve w id with
     | None => AErr BlockNotFound
     | Some b => match alookup a (b_state b) with
                 | None => AErr ContractNotFound
                 | Some cs => AFeltAt (slot cs k) (last_write (w_chain w) a k (b_number b))
                 end
     end) /\
  (forall a k n,
     ((exists b, In b (w_chain w) /\ b_number b <= n /\ writes (b_diff b) a k = true) ->
      exists b, In b (w_chain w) /\ b_number b = last_write (w_chain w) a k n /\ b_number b <= n /\
        writes (b_diff b) a k = true /\
        (forall b', In b' (w_chain w) -> b_number b' <= n -> writes (b_diff b') a k = true -> b_number b' <= b_number b)) /\
     ((forall b, In b (w_chain w) -> b_number b <= n -> writes (b_diff b) a k = false) ->
      last_write (w_chain w) a k n = 0)).
Proof.
  intros ops Hok w. destruct (run_inv ops Hok) as [Hwf HR]. fold w in Hwf, HR. split.
  - intros be id a k Hz. unfold handle. simpl.
    rewrite (h_storage_at_lu_ok w (db_run ops) Hwf HR be id a k Hz). reflexivity.
  - intros a k n. apply last_write_spec. exact Hwf.
Qed.

(* ---------- delivered_like_sync: no orphans ever ---------- *)
Definition extra_ok (b : block) : Prop :=
  forallb (fun hd => mem (fst hd) (deployed_classes (b_diff b))) (b_extra b) = true.

Lemma new_extra_nil : forall b below, extra_ok b -> new_extra b below = [].
Proof.
  intros b below H. unfold new_extra. rewrite filter_none; [reflexivity|].
  intros hd Hin. unfold extra_ok in H. rewrite forallb_forall in H. rewrite (H hd Hin). simpl.
  apply andb_false_r.
Qed.

Lemma sync_no_orphans_from : forall ops w, w_orphans w = [] -> (forall b, In b (w_chain w) -> extra_ok b) ->
  delivered_like_sync ops = true ->
  w_orphans (fold_left w_step ops w) = [] /\ (forall b, In b (w_chain (fold_left w_step ops w)) -> extra_ok b).
Proof.
  induction ops as [|o ops IH]; simpl; intros w Ho Hc Hs; [split; assumption|].
  apply andb_prop in Hs. destruct Hs as [Hs1 Hs2]. apply IH; [| |exact Hs2].
  - destruct o as [h hp txs d extra| |n]; simpl; try exact Ho.
    destruct (w_chain w) as [|b r] eqn:Ec; [exact Ho|].
    rewrite (new_extra_nil b (head_classes r)); [exact Ho|]. apply Hc. left. reflexivity.
  - destruct o as [h hp txs d extra| |n]; simpl; try exact Hc.
    + intros b [<-|Hb]; [exact Hs1|apply Hc; exact Hb].
    + intros b Hb. apply Hc. destruct (w_chain w); [contradiction|right; exact Hb].
Qed.

Lemma sync_no_orphans : forall ops, delivered_like_sync ops = true -> w_orphans (w_run ops) = [].
Proof.
  intros ops H. apply (sync_no_orphans_from ops w_init); [reflexivity|intros b []|exact H].
Qed.

(* the class theorems under the synchroniser's delivery discipline: no per-hash side condition is left *)
Lemma class_exact_sync : forall ops, ops_ok w_init ops = true -> delivered_like_sync ops = true ->
  let w := w_run ops in let c := w_chain w in
  (forall v be id ch, id <> Hash 0 -> not_v8_l1 v id ->
     handle v be (db_run ops) (RClass id ch) =
     match resolve w id with
     | None => AErr BlockNotFound
     | Some b => match class_visible c ch (b_number b) with Some def => AClass def | None => AErr ClassHashNotFound end
     end) /\
  (forall v be id a, id <> Hash 0 -> not_v8_l1 v id ->
     handle v be (db_run ops) (RClassAt id a) =
     match resolve w id with
     | None => AErr BlockNotFound
     | Some b => match alookup a (b_state b) with
                 | None => AErr ContractNotFound
                 | Some cs => match class_visible c (c_class cs) (b_number b) with
                              | Some def => AClass def
                              | None => AErr ContractNotFound
                              end
                 end
     end) /\
  (forall v be id a, id <> Hash 0 -> not_v8_l1 v id ->
     handle v be (db_run ops) (RClassHashAt id a) =
     match resolve w id with
     | None => AErr BlockNotFound
     | Some b => match alookup a (b_state b) with Some cs => AFelt (c_class cs) | None => AErr ContractNotFound end
     end) /\
  (forall ch n def, class_visible c ch n = Some def <->
     exists b, In b c /\ b_number b <= n /\ alookup ch (delivered b) = Some def /\
               (forall b', In b' c -> b_number b' < b_number b -> alookup ch (delivered b') = None)).
Proof.
  intros ops Hok Hs w c. destruct (class_exact ops Hok) as [H1 [H2 [H3 H4]]].
  pose proof (sync_no_orphans ops Hs) as Ho. unfold w, c in *.
  split; [|split; [|split]].
  - intros v be id ch Hz Hv. apply H1; [exact Hz|rewrite Ho; reflexivity|exact Hv].
  - intros v be id a Hz Hv. apply H2; [exact Hz|exact Hv|]. intros. rewrite Ho. reflexivity.
  - exact H3.
  - exact H4.
Qed.

Lemma class_exact_per_hash : forall ops, ops_ok w_init ops = true ->
  let w := w_run ops in let c := w_chain w in
  (delivered_like_sync ops = true -> w_orphans w = []) /\
  (forall v be id ch, id <> Hash 0 -> mem ch (w_orphans w) = false -> not_v8_l1 v id ->
     handle v be (db_run ops) (RClass id ch) =
     match resolve w id with
     | None => AErr BlockNotFound
     | Some b => match class_visible c ch (b_number b) with Some def => AClass def | None => AErr ClassHashNotFound end
     end) /\
  (forall v be id a, id <> Hash 0 -> not_v8_l1 v id ->
     (forall b cs, resolve w id = Some b -> alookup a (b_state b) = Some cs -> mem (c_class cs) (w_orphans w) = false) ->
     handle v be (db_run ops) (RClassAt id a) =
     match resolve w id with
     | None => AErr BlockNotFound
     | Some b => match alookup a (b_state b) with
                 | None => AErr ContractNotFound
                 | Some cs => match class_visible c (c_class cs) (b_number b) with
                              | Some def => AClass def
                              | None => AErr ContractNotFound
                              end
                 end
     end).
Proof.
  intros ops Hok. destruct (class_exact ops Hok) as [H1 [H2 _]].
  exact (conj (sync_no_orphans ops) (conj H1 H2)).
Qed.

Lemma ops_ok_app : forall ops1 ops2 w0, ops_ok w0 (ops1 ++ ops2) = ops_ok w0 ops1 && ops_ok (fold_left w_step ops1 w0) ops2.
Proof.
  induction ops1 as [|o ops1 IH]; simpl; intros ops2 w0; [reflexivity|].
  rewrite IH, andb_assoc. reflexivity.
Qed.

(* a revert un-declares: a class that no block below the reverted head delivers is not found at any identifier *)
Lemma class_undeclared_by_revert : forall ops b r, ops_ok w_init ops = true ->
  w_chain (w_run ops) = b :: r ->
  forall ch, class_decl r ch = None ->
  let ops' := ops ++ [ORevert] in
  delivered_like_sync ops = true ->
  forall v be id, id <> Hash 0 -> not_v8_l1 v id ->
  handle v be (db_run ops') (RClass id ch) =
  match resolve (w_run ops') id with None => AErr BlockNotFound | Some _ => AErr ClassHashNotFound end.
Proof.
  intros ops b r Hok Hc ch Hd ops' Hs v be id Hz Hv.
  assert (Ho : mem ch (w_orphans (w_run ops')) = false).
  { rewrite (sync_no_orphans ops'); [reflexivity|]. unfold ops', delivered_like_sync in *. rewrite forallb_app, Hs. reflexivity. }
  assert (Hok' : ops_ok w_init ops' = true).
  { unfold ops'. rewrite ops_ok_app, Hok. reflexivity. }
  destruct (class_exact ops' Hok') as [H1 _]. rewrite (H1 v be id ch Hz Ho Hv).
  assert (Ec : w_chain (w_run ops') = r).
  { unfold ops', w_run. rewrite fold_left_app. simpl. fold (w_run ops). rewrite Hc. reflexivity. }
  rewrite Ec. unfold class_visible. rewrite Hd. reflexivity.
Qed.

(* ... and a declaration on the replacing branch is the one that is served from then on *)
Lemma class_redeclared : forall ops b r h hp txs df extra, ops_ok w_init ops = true ->
  w_chain (w_run ops) = b :: r ->
  let ops' := ops ++ [ORevert; OStore h hp txs df extra] in
  ops_ok w_init ops' = true ->
  delivered_like_sync ops' = true ->
  forall ch def, class_decl r ch = None -> alookup ch (declared_defs df ++ extra) = Some def ->
  forall v be, handle v be (db_run ops') (RClass Latest ch) = AClass def.
Proof.
  intros ops b r h hp txs df extra Hok Hc ops' Hok' Hs ch def Hd Hdel v be.
  assert (Ho : mem ch (w_orphans (w_run ops')) = false) by (rewrite (sync_no_orphans ops' Hs); reflexivity).
  destruct (class_exact ops' Hok') as [H1 _].
  rewrite (H1 v be Latest ch); [|discriminate|exact Ho|intros [_ E]; discriminate].
  assert (Ec : w_chain (w_run ops') =
               mk_block (N.of_nat (length r)) (head_hash r) (head_state r) (head_classes r) h hp txs df extra :: r).
  { unfold ops', w_run. rewrite fold_left_app. simpl. fold (w_run ops). rewrite Hc. reflexivity. }
  simpl resolve. rewrite Ec. simpl hd_error. cbv iota beta.
  unfold class_visible. simpl class_decl. rewrite Hd. unfold delivered. simpl b_diff. simpl b_extra.
  rewrite Hdel. simpl. rewrite N.leb_refl. reflexivity.
Qed.

(* ---------- whole payloads ---------- *)
Lemma find_tx_of_In : forall c, wf c -> forall b t, In b c -> In t (b_txs b) ->
  exists i, find_tx c (t_hash t) = Some (b, i, t).
Proof.
  induction c as [|x r IH]; intros Hwf b t Hb Ht; [contradiction|].
  pose proof Hwf as Hwf'. destruct Hwf as [_ [_ [_ [_ [Hnd [Hfresh [_ [_ Hr]]]]]]]].
  simpl. destruct Hb as [<-|Hb].
  - assert (Hix : exists i, tx_index (t_hash t) 0 (b_txs x) = Some (i, t)).
    { clear - Hnd Ht. generalize 0. induction (b_txs x) as [|t0 l IHl]; intros k; [contradiction|].
      simpl in Hnd. apply andb_prop in Hnd. destruct Hnd as [Hn0 Hnl]. simpl.
      destruct Ht as [<-|Ht].
      - rewrite N.eqb_refl. eauto.
      - destruct (t_hash t =? t_hash t0) eqn:E.
        + apply N.eqb_eq in E. apply negb_true_iff in Hn0. apply mem_false_iff in Hn0.
          exfalso. apply Hn0. rewrite <- E. apply in_map. exact Ht.
        + apply IHl; assumption. }
    destruct Hix as [i Hi]. rewrite Hi. eauto.
  - destruct (tx_index (t_hash t) 0 (b_txs x)) as [[j u]|] eqn:E.
    + apply tx_index_nth in E. destruct E as [_ [Hn Hh]].
      apply nth_error_In in Hn. specialize (Hfresh u Hn). rewrite Hh in Hfresh.
      destruct (IH Hr b t Hb Ht) as [i Hi]. congruence.
    + apply (IH Hr b t Hb Ht).
Qed.

Ltac crush_ans H :=
  repeat (cbv zeta in H;
          match type of H with
          | In _ (_ (match ?x with _ => _ end)) => destruct x
          | In _ (_ (if ?x then _ else _)) => destruct x
          end);
  try (simpl in H; contradiction).

Lemma h_class_at_shape : forall be d id a,
  (exists e, h_class_at be d id a = AErr e) \/ (exists df, h_class_at be d id a = AClass df).
Proof.
  intros be d id a. unfold h_class_at, h_class_hash_at, h_class.
  destruct (state_by_id be d id) as [r|]; [|left; eauto].
  destruct (rd_contract r a) as [cs|]; [|left; eauto].
  destruct (rd_class r (c_class cs)); [right; eauto|left; eauto].
Qed.

Lemma h_storage_at_lu_shape : forall be d id a k,
  (exists e, h_storage_at_lu be d id a k = AErr e) \/ (exists x n, h_storage_at_lu be d id a k = AFeltAt x n).
Proof.
  intros be d id a k. unfold h_storage_at_lu, h_storage_at.
  destruct (state_by_id be d id) as [r|]; [|left; eauto].
  destruct (rd_storage r a k) as [val|]; [|left; eauto].
  destruct ((val =? 0) && is_latest id); [destruct (rd_contract r a)|]; eauto.
Qed.

Section PayloadsUnderInv.
  Variables (w : world) (d : db).
  Hypothesis Hwf : wf (w_chain w).
  Hypothesis HR : R w d.

  (* every (hash, payload) pair of an answer is a transaction of a block of the chain *)
  Lemma answer_txs_from_chain : forall v be r h p, In (h, p) (answer_txs (handle v be d r)) ->
    exists b t, In b (w_chain w) /\ In t (b_txs b) /\ t_hash t = h /\ t_pay t = p.
  Proof.
    intros v be r h p H. unfold handle in H.
    destruct (match v with V8 => uses_l1_accepted r | _ => false end); [simpl in H; contradiction|].
    destruct r.
    - unfold h_block_number in H. crush_ans H.
    - unfold h_block_hash_and_number in H. crush_ans H.
    - unfold h_block_with_tx_hashes in H. crush_ans H.
    - rewrite (h_block_with_txs_ok w d Hwf HR) in H. simpl in H. unfold with_block in H.
      destruct (resolve w id) as [b|] eqn:Er; [|simpl in H; contradiction].
      simpl in H. apply in_map_iff in H. destruct H as [t [E Ht]]. inversion E; subst.
      exists b, t. repeat split; auto. eapply resolve_In; eauto.
    - rewrite (h_block_with_receipts_ok w d Hwf HR) in H. simpl in H. unfold with_block in H.
      destruct (resolve w id) as [b|] eqn:Er; [|simpl in H; contradiction].
      simpl in H. rewrite map_map in H. apply in_map_iff in H. destruct H as [t [E Ht]]. inversion E; subst.
      exists b, t. repeat split; auto. eapply resolve_In; eauto.
    - unfold h_tx_count in H. crush_ans H.
    - rewrite (h_tx_by_hash_ok w d Hwf HR) in H. simpl in H.
      destruct (find_tx (w_chain w) h0) as [[[b i] t]|] eqn:F; [|simpl in H; contradiction].
      simpl in H. destruct H as [E|[]]. inversion E; subst.
      apply find_tx_In in F. destruct F as [Hb Hix]. apply tx_index_nth in Hix. destruct Hix as [_ [Hn _]].
      exists b, t. repeat split; auto. eapply nth_error_In; eauto.
    - unfold h_tx_by_idx, tx_at in H.
      destruct (i <? 0)%Z; [simpl in H; contradiction|].
      destruct (number_by_id d id) as [n|]; [|simpl in H; contradiction].
      destruct (alookup n (db_blocks d)) as [b|] eqn:Eb; [|simpl in H; contradiction].
      destruct (nth_error (b_txs b) (N.to_nat (Z.to_N i))) as [t|] eqn:En; [|simpl in H; contradiction].
      simpl in H. destruct H as [E|[]]. inversion E; subst.
      rewrite (R_blocks _ _ HR) in Eb. apply block_at_In in Eb.
      exists b, t. repeat split; auto; [tauto|]. eapply nth_error_In; eauto.
    - unfold h_receipt in H. crush_ans H.
    - unfold h_tx_status, tx_at in H. crush_ans H.
    - unfold h_state_update in H. crush_ans H.
    - unfold h_storage_at in H. crush_ans H.
    - unfold h_nonce in H. crush_ans H.
    - destruct v; try (simpl in H; contradiction).
      destruct (h_storage_at_lu_shape be d id a k) as [[e E]|[x [n E]]]; rewrite E in H; simpl in H; contradiction.
    - unfold h_class_hash_at in H. crush_ans H.
    - destruct (h_class_at_shape be d id a) as [[e E]|[df E]]; rewrite E in H; simpl in H; contradiction.
    - unfold h_class in H. crush_ans H.
  Qed.

  Lemma answer_rcs_from_chain : forall v be r h p, In (h, p) (answer_rcs (handle v be d r)) ->
    exists b t, In b (w_chain w) /\ In t (b_txs b) /\ t_hash t = h /\ t_rpay t = p.
  Proof.
    intros v be r h p H. unfold handle in H.
    destruct (match v with V8 => uses_l1_accepted r | _ => false end); [simpl in H; contradiction|].
    destruct r.
    - unfold h_block_number in H. crush_ans H.
    - unfold h_block_hash_and_number in H. crush_ans H.
    - unfold h_block_with_tx_hashes in H. crush_ans H.
    - unfold h_block_with_txs in H. crush_ans H.
    - rewrite (h_block_with_receipts_ok w d Hwf HR) in H. simpl in H. unfold with_block in H.
      destruct (resolve w id) as [b|] eqn:Er; [|simpl in H; contradiction].
      simpl in H. rewrite map_map in H. apply in_map_iff in H. destruct H as [t [E Ht]]. inversion E; subst.
      exists b, t. repeat split; auto. eapply resolve_In; eauto.
    - unfold h_tx_count in H. crush_ans H.
    - unfold h_tx_by_hash, tx_at in H. crush_ans H.
    - unfold h_tx_by_idx, tx_at in H. crush_ans H.
    - rewrite (h_receipt_ok w d Hwf HR) in H. simpl in H.
      destruct (find_tx (w_chain w) h0) as [[[b i] t]|] eqn:F; [|simpl in H; contradiction].
      simpl in H. destruct H as [E|[]]. inversion E; subst.
      apply find_tx_In in F. destruct F as [Hb Hix]. apply tx_index_nth in Hix. destruct Hix as [_ [Hn _]].
      exists b, t. repeat split; auto. eapply nth_error_In; eauto.
    - unfold h_tx_status, tx_at in H. crush_ans H.
    - unfold h_state_update in H. crush_ans H.
    - unfold h_storage_at in H. crush_ans H.
    - unfold h_nonce in H. crush_ans H.
    - destruct v; try (simpl in H; contradiction).
      destruct (h_storage_at_lu_shape be d id a k) as [[e E]|[x [n E]]]; rewrite E in H; simpl in H; contradiction.
    - unfold h_class_hash_at in H. crush_ans H.
    - destruct (h_class_at_shape be d id a) as [[e E]|[df E]]; rewrite E in H; simpl in H; contradiction.
    - unfold h_class in H. crush_ans H.
  Qed.

  Lemma tx_payload_exact : forall v be r h p, In (h, p) (answer_txs (handle v be d r)) ->
    exists b i t, find_tx (w_chain w) h = Some (b, i, t) /\ t_pay t = p.
  Proof.
    intros v be r h p H. destruct (answer_txs_from_chain v be r h p H) as [b [t [Hb [Ht [Hh Hp]]]]].
    destruct (find_tx_of_In (w_chain w) Hwf b t Hb Ht) as [i Hi]. rewrite Hh in Hi. eauto.
  Qed.

  Lemma rc_payload_exact : forall v be r h p, In (h, p) (answer_rcs (handle v be d r)) ->
    exists b i t, find_tx (w_chain w) h = Some (b, i, t) /\ t_rpay t = p.
  Proof.
    intros v be r h p H. destruct (answer_rcs_from_chain v be r h p H) as [b [t [Hb [Ht [Hh Hp]]]]].
    destruct (find_tx_of_In (w_chain w) Hwf b t Hb Ht) as [i Hi]. rewrite Hh in Hi. eauto.
  Qed.

  Lemma headers_agree : forall v be id,
    answer_hdr (handle v be d (RBlockWithTxHashes id)) = answer_hdr (handle v be d (RBlockWithTxs id)) /\
    answer_hdr (handle v be d (RBlockWithTxs id)) = answer_hdr (handle v be d (RBlockWithReceipts id)) /\
    (not_v8_l1 v id ->
     answer_hdr (handle v be d (RBlockWithTxHashes id)) =
     option_map (fun b => hdr_of b (finality (b_number b) (w_l1 w))) (resolve w id)).
  Proof.
    intros v be id. unfold handle.
    change (uses_l1_accepted (RBlockWithTxs id)) with (uses_l1_accepted (RBlockWithTxHashes id)).
    change (uses_l1_accepted (RBlockWithReceipts id)) with (uses_l1_accepted (RBlockWithTxHashes id)).
    repeat split.
    - destruct (match v with V8 => uses_l1_accepted (RBlockWithTxHashes id) | _ => false end); [reflexivity|].
      rewrite (h_block_with_tx_hashes_ok w d Hwf HR), (h_block_with_txs_ok w d Hwf HR). simpl. unfold with_block.
      destruct (resolve w id); reflexivity.
    - destruct (match v with V8 => uses_l1_accepted (RBlockWithTxHashes id) | _ => false end); [reflexivity|].
      rewrite (h_block_with_receipts_ok w d Hwf HR), (h_block_with_txs_ok w d Hwf HR). simpl. unfold with_block.
      destruct (resolve w id); reflexivity.
    - intros Hv. rewrite (v8_guard v (RBlockWithTxHashes id) id eq_refl Hv).
      rewrite (h_block_with_tx_hashes_ok w d Hwf HR). simpl. unfold with_block.
      destruct (resolve w id); reflexivity.
  Qed.
End PayloadsUnderInv.

Lemma payload_agree : forall ops, ops_ok w_init ops = true ->
  let w := w_run ops in let d := db_run ops in
  (* transactions: whatever method, version, backend returns the transaction with hash h returns the payload of
     the transaction with that hash in the chain *)
  (forall v be r h p, In (h, p) (answer_txs (handle v be d r)) ->
     exists b i t, find_tx (w_chain w) h = Some (b, i, t) /\ t_pay t = p) /\
  (forall v be r v' be' r' h p p', In (h, p) (answer_txs (handle v be d r)) ->
     In (h, p') (answer_txs (handle v' be' d r')) -> p = p') /\
  (* receipts *)
  (forall v be r h p, In (h, p) (answer_rcs (handle v be d r)) ->
     exists b i t, find_tx (w_chain w) h = Some (b, i, t) /\ t_rpay t = p) /\
  (forall v be r v' be' r' h p p', In (h, p) (answer_rcs (handle v be d r)) ->
     In (h, p') (answer_rcs (handle v' be' d r')) -> p = p') /\
  (* headers: the three block methods say the same about the block, namely what the resolved block says *)
  (forall v be id,
     answer_hdr (handle v be d (RBlockWithTxHashes id)) = answer_hdr (handle v be d (RBlockWithTxs id)) /\
     answer_hdr (handle v be d (RBlockWithTxs id)) = answer_hdr (handle v be d (RBlockWithReceipts id)) /\
     (not_v8_l1 v id ->
      answer_hdr (handle v be d (RBlockWithTxHashes id)) =
      option_map (fun b => hdr_of b (finality (b_number b) (w_l1 w))) (resolve w id))).
Proof.
  intros ops Hok w d. destruct (run_inv ops Hok) as [Hwf HR]. fold w in Hwf, HR. fold d in HR.
  split; [|split; [|split; [|split]]].
  - intros. eapply tx_payload_exact; eauto.
  - intros v be r v' be' r' h p p' H1 H2.
    destruct (tx_payload_exact w d Hwf HR v be r h p H1) as [b [i [t [F P]]]].
    destruct (tx_payload_exact w d Hwf HR v' be' r' h p' H2) as [b' [i' [t' [F' P']]]]. congruence.
  - intros. eapply rc_payload_exact; eauto.
  - intros v be r v' be' r' h p p' H1 H2.
    destruct (rc_payload_exact w d Hwf HR v be r h p H1) as [b [i [t [F P]]]].
    destruct (rc_payload_exact w d Hwf HR v' be' r' h p' H2) as [b' [i' [t' [F' P']]]]. congruence.
  - intros. apply headers_agree; assumption.
Qed.
