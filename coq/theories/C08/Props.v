(* C08 — property theorems only. Each is closed by [exact] of a lemma from Proofs_*.v and followed by
   Print Assumptions. [w_run ops] is the abstract chain after the op sequence, [db_run ops] the indices the
   handlers read after the same sequence; [ops_ok] = every stored block brings a fresh non-zero block hash
   and fresh pairwise distinct transaction hashes. *)
From Coq Require Import List NArith ZArith Bool.
From V Require Import C08.Model C08.Proofs_A C08.Proofs_B C08.Proofs_C C08.Proofs_D.
Import ListNotations.
Open Scope N_scope.

(* Block-identifier resolution, for every chain produced by any store / revert / set-L1 sequence. *)
Theorem C08_resolve_exact : forall ops, ops_ok w_init ops = true ->
  let w := w_run ops in let c := w_chain w in
  (forall id, block_by_id (db_run ops) id = resolve w id) /\
  resolve w Latest = hd_error c /\
  (forall n, (exists b, resolve w (Number n) = Some b) <-> (exists hgt, height c = Some hgt /\ n <= hgt)) /\
  (forall n b, resolve w (Number n) = Some b -> In b c /\ b_number b = n) /\
  (forall h b, resolve w (Hash h) = Some b <-> In b c /\ b_hash b = h) /\
  (w_l1 w = None -> resolve w L1Accepted = None) /\
  (forall m hgt, w_l1 w = Some m -> height c = Some hgt ->
     resolve w L1Accepted = resolve w (Number (N.min m hgt))).
Proof. exact resolve_exact. Qed.
Print Assumptions C08_resolve_exact.

(* Reverted hashes are not found (abstractly and by the handlers' lookup). *)
Theorem C08_reverted_hash_not_found : forall ops b r, ops_ok w_init ops = true ->
  w_chain (w_run ops) = b :: r ->
  resolve (w_run (ops ++ [ORevert])) (Hash (b_hash b)) = None /\
  block_by_id (db_run (ops ++ [ORevert])) (Hash (b_hash b)) = None.
Proof. exact reverted_hash_not_found. Qed.
Print Assumptions C08_reverted_hash_not_found.

(* Every modelled read method of every API version on either state backend answers exactly what the
   abstract chain demands ([expected] = [spec_answer], or INVALID_PARAMS for l1_accepted on v0.8) — outside
   the two named deviations, which are refuted below. *)
Theorem C08_answer_from_chain : forall ops, ops_ok w_init ops = true ->
  forall v be r, deviates (w_run ops) r = DevNone ->
  handle v be (db_run ops) r = expected v (w_run ops) r.
Proof. exact answer_from_chain. Qed.
Print Assumptions C08_answer_from_chain.

(* What "the answer the chain demands" says about not-found errors: exactly when the item is absent. *)
Theorem C08_not_found_exact : forall w,
  (forall id, spec_answer w (RBlockWithTxHashes id) = AErr BlockNotFound <-> resolve w id = None) /\
  (forall h, spec_answer w (RTxByHash h) = AErr TxnHashNotFound <-> find_tx (w_chain w) h = None) /\
  (forall h, spec_answer w (RReceipt h) = AErr TxnHashNotFound <-> find_tx (w_chain w) h = None) /\
  (forall id a b, resolve w id = Some b ->
     (spec_answer w (RNonce id a) = AErr ContractNotFound <-> alookup a (b_state b) = None)) /\
  (forall id i b, resolve w id = Some b -> (0 <= i)%Z ->
     (spec_answer w (RTxByIdx id i) = AErr InvalidTxnIndex <-> (Z.of_nat (length (b_txs b)) <= i)%Z)).
Proof. exact not_found_exact. Qed.
Print Assumptions C08_not_found_exact.

(* Finality: ACCEPTED_ON_L1 iff an L1 head is recorded at or above the block; the recorded head is the last
   SetL1Head (stores and reverts do not touch it); block answers carry exactly that status. *)
Theorem C08_finality :
  (forall n l1, finality n l1 = AcceptedL1 <-> exists m, l1 = Some m /\ n <= m) /\
  (forall w o, w_l1 (w_step w o) = match o with OSetL1 m => Some m | _ => w_l1 w end) /\
  (forall ops, ops_ok w_init ops = true ->
   forall v be id b, (match v with V8 => uses_l1_accepted (RBlockWithReceipts id) | _ => false end) = false ->
   resolve (w_run ops) id = Some b ->
   let s := finality (b_number b) (w_l1 (w_run ops)) in
   handle v be (db_run ops) (RBlockWithTxHashes id) = ABlock (hdr_of b s) (map t_hash (b_txs b)) /\
   handle v be (db_run ops) (RBlockWithReceipts id) = ABlockR (hdr_of b s) (map (rcv_of s) (b_txs b))).
Proof. exact (conj finality_iff (conj l1_recorded finality_from_l1)). Qed.
Print Assumptions C08_finality.

(* Versions: v0.9 and v0.10 coincide on every index state except getStorageAt by the zero block hash (and the
   response flag INCLUDE_LAST_UPDATE_BLOCK, which only v0.10 specifies);
   v0.8 coincides with v0.9 on every produced chain for requests without l1_accepted, which v0.8 rejects. *)
Theorem C08_versions_agree :
  (forall be d r, (forall a k, r <> RStorageAt (Hash 0) a k) -> (forall id a k, r <> RStorageAtLU id a k) ->
     handle V9 be d r = handle V10 be d r) /\
  (forall ops, ops_ok w_init ops = true ->
   forall be r, uses_l1_accepted r = false -> handle V8 be (db_run ops) r = handle V9 be (db_run ops) r) /\
  (forall be d r, uses_l1_accepted r = true -> handle V8 be d r = AErr InvalidParams).
Proof. exact (conj v9_v10_agree (conj v8_v9_agree v8_l1_invalid)). Qed.
Print Assumptions C08_versions_agree.

(* Classes (session 4). [class_visible c ch n] = the definition delivered for class hash ch by the LOWEST block of
   chain c that delivers one, provided that block is at or below n (last conjunct: exactly that).
   [delivered_like_sync ops]: every stored block delivers, besides the definitions of the classes it declares,
   only definitions for class hashes of its own deployed contracts - what the synchroniser's data source does
   (sync/data_source.go fetchUnknownClasses). For every such history, version, backend and identifier other than
   block_hash 0x0 (the registered deviation): getClass answers that definition / CLASS_HASH_NOT_FOUND /
   BLOCK_NOT_FOUND exactly; getClassAt the definition of the class the contract has at the addressed block /
   CONTRACT_NOT_FOUND / BLOCK_NOT_FOUND; getClassHashAt the class hash the contract has at the addressed block.
   (Holds since /repo 007ff78; before it the hypothesis had to exclude deliveries for deployed contracts too.) *)
Theorem C08_class_exact : forall ops, ops_ok w_init ops = true -> delivered_like_sync ops = true ->
  let w := w_run ops in let c := w_chain w in
  (forall v be id ch, id <> Hash 0 -> not_v8_l1 v id ->
     handle v be (db_run ops) (RClass id ch) =
     match resolve w id with
     | None => AErr BlockNotFound
     | Some b => match class_visible c ch (b_number b) with Some def => AClass def | None => AErr ClassHashNotFound end
     end) /\
  (forall v be id a, id <> Hash 0 -> not_v8_l1 v id ->
     handle v be (db_run ops) (RClassAt id a) =
     match resolve w id with
     | None => AErr BlockNotFound
     | Some b => match alookup a (b_state b) with
                 | None => AErr ContractNotFound
                 | Some cs => match class_visible c (c_class cs) (b_number b) with
                              | Some def => AClass def
                              | None => AErr ContractNotFound
                              end
                 end
     end) /\
  (forall v be id a, id <> Hash 0 -> not_v8_l1 v id ->
     handle v be (db_run ops) (RClassHashAt id a) =
     match resolve w id with
     | None => AErr BlockNotFound
     | Some b => match alookup a (b_state b) with Some cs => AFelt (c_class cs) | None => AErr ContractNotFound end
     end) /\
  (forall ch n def, class_visible c ch n = Some def <->
     exists b, In b c /\ b_number b <= n /\ alookup ch (delivered b) = Some def /\
               (forall b', In b' c -> b_number b' < b_number b -> alookup ch (delivered b') = None)).
Proof. exact class_exact_sync. Qed.
Print Assumptions C08_class_exact.

(* The same without any hypothesis on what is delivered, hash by hash: exact for every class hash outside
   [w_orphans] (hashes that a reverted block had introduced with a definition that was neither declared by it nor
   the class of one of its deployed contracts). [delivered_like_sync] makes [w_orphans] empty. *)
Theorem C08_class_exact_per_hash : forall ops, ops_ok w_init ops = true ->
  let w := w_run ops in let c := w_chain w in
  (delivered_like_sync ops = true -> w_orphans w = []) /\
  (forall v be id ch, id <> Hash 0 -> mem ch (w_orphans w) = false -> not_v8_l1 v id ->
     handle v be (db_run ops) (RClass id ch) =
     match resolve w id with
     | None => AErr BlockNotFound
     | Some b => match class_visible c ch (b_number b) with Some def => AClass def | None => AErr ClassHashNotFound end
     end) /\
  (forall v be id a, id <> Hash 0 -> not_v8_l1 v id ->
     (forall b cs, resolve w id = Some b -> alookup a (b_state b) = Some cs -> mem (c_class cs) (w_orphans w) = false) ->
     handle v be (db_run ops) (RClassAt id a) =
     match resolve w id with
     | None => AErr BlockNotFound
     | Some b => match alookup a (b_state b) with
                 | None => AErr ContractNotFound
                 | Some cs => match class_visible c (c_class cs) (b_number b) with
                              | Some def => AClass def
                              | None => AErr ContractNotFound
                              end
                 end
     end).
Proof. exact class_exact_per_hash. Qed.
Print Assumptions C08_class_exact_per_hash.

(* A revert un-declares: a class that no block below the reverted head delivers is found under no identifier. *)
Theorem C08_class_undeclared_by_revert : forall ops b r, ops_ok w_init ops = true ->
  w_chain (w_run ops) = b :: r ->
  forall ch, class_decl r ch = None ->
  let ops' := ops ++ [ORevert] in
  delivered_like_sync ops = true ->
  forall v be id, id <> Hash 0 -> not_v8_l1 v id ->
  handle v be (db_run ops') (RClass id ch) =
  match resolve (w_run ops') id with None => AErr BlockNotFound | Some _ => AErr ClassHashNotFound end.
Proof. exact class_undeclared_by_revert. Qed.
Print Assumptions C08_class_undeclared_by_revert.

(* ... and the declaration on the replacing branch is the one served from then on (also with another definition). *)
Theorem C08_class_redeclared : forall ops b r h hp txs df extra, ops_ok w_init ops = true ->
  w_chain (w_run ops) = b :: r ->
  let ops' := ops ++ [ORevert; OStore h hp txs df extra] in
  ops_ok w_init ops' = true ->
  delivered_like_sync ops' = true ->
  forall ch def, class_decl r ch = None -> alookup ch (declared_defs df ++ extra) = Some def ->
  forall v be, handle v be (db_run ops') (RClass Latest ch) = AClass def.
Proof. exact class_redeclared. Qed.
Print Assumptions C08_class_redeclared.

(* Whole payloads (session 4): whatever method of whatever version on whatever backend returns the transaction
   (receipt) with hash h returns the payload of THE transaction with that hash in the chain - hence any two
   agree -, and the three block methods say the same about the block, namely what the resolved block says. *)
Theorem C08_payload_agree : forall ops, ops_ok w_init ops = true ->
  let w := w_run ops in let d := db_run ops in
  (forall v be r h p, In (h, p) (answer_txs (handle v be d r)) ->
     exists b i t, find_tx (w_chain w) h = Some (b, i, t) /\ t_pay t = p) /\
  (forall v be r v' be' r' h p p', In (h, p) (answer_txs (handle v be d r)) ->
     In (h, p') (answer_txs (handle v' be' d r')) -> p = p') /\
  (forall v be r h p, In (h, p) (answer_rcs (handle v be d r)) ->
     exists b i t, find_tx (w_chain w) h = Some (b, i, t) /\ t_rpay t = p) /\
  (forall v be r v' be' r' h p p', In (h, p) (answer_rcs (handle v be d r)) ->
     In (h, p') (answer_rcs (handle v' be' d r')) -> p = p') /\
  (forall v be id,
     answer_hdr (handle v be d (RBlockWithTxHashes id)) = answer_hdr (handle v be d (RBlockWithTxs id)) /\
     answer_hdr (handle v be d (RBlockWithTxs id)) = answer_hdr (handle v be d (RBlockWithReceipts id)) /\
     (not_v8_l1 v id ->
      answer_hdr (handle v be d (RBlockWithTxHashes id)) =
      option_map (fun b => hdr_of b (finality (b_number b) (w_l1 w))) (resolve w id))).
Proof. exact payload_agree. Qed.
Print Assumptions C08_payload_agree.

(* getStorageAt with INCLUDE_LAST_UPDATE_BLOCK (v0.10, session 4): the value as without the flag, and as
   last_update_block the number of the HIGHEST block of the current chain at or below the addressed block whose
   state diff writes the slot, 0 when there is none (second conjunct: exactly that). *)
Theorem C08_last_update_exact : forall ops, ops_ok w_init ops = true ->
  let w := w_run ops in
  (forall be id a k, id <> Hash 0 ->
     handle V10 be (db_run ops) (RStorageAtLU id a k) =
     match resolve w id with
     | None => AErr BlockNotFound
     | Some b => match alookup a (b_state b) with
                 | None => AErr ContractNotFound
                 | Some cs => AFeltAt (slot cs k) (last_write (w_chain w) a k (b_number b))
                 end
     end) /\
  (forall a k n,
     ((exists b, In b (w_chain w) /\ b_number b <= n /\ writes (b_diff b) a k = true) ->
      exists b, In b (w_chain w) /\ b_number b = last_write (w_chain w) a k n /\ b_number b <= n /\
        writes (b_diff b) a k = true /\
        (forall b', In b' (w_chain w) -> b_number b' <= n -> writes (b_diff b') a k = true -> b_number b' <= b_number b)) /\
     ((forall b, In b (w_chain w) -> b_number b <= n -> writes (b_diff b) a k = false) ->
      last_write (w_chain w) a k n = 0)).
Proof. exact last_update_exact. Qed.
Print Assumptions C08_last_update_exact.

(* ---------- the statements are not vacuous ---------- *)
Definition D (dep rep non : list (N * N)) (sto : list (N * list (N * N))) (decl0 : list (N * N))
             (decl1 : list (N * (N * N))) : diff :=
  {| d_deploy := dep; d_replace := rep; d_nonces := non; d_storage := sto; d_declare0 := decl0; d_declare1 := decl1 |}.
Definition T (h : N) (r : bool) (e : N) : tx :=
  {| t_hash := h; t_reverted := r; t_events := e; t_pay := 7000 + h; t_rpay := 8000 + h |}.

(* class 900 (Cairo-0, definition 1) and 950 (Sierra, compiled hash 77, definition 5) declared in block 0; block 2 is
   reverted and replaced: the reverted block declared 901 with definition 2, the replacing one with definition 3;
   block 1 deploys 0xc with class 902 which it delivers without declaring it *)
Definition ex_ops : list op :=
  [ OStore 101 51 [T 1001 false 1; T 1002 true 0] (D [(10, 900); (11, 901)] [] [] [(10, [(5, 7)])] [(900, 1)] [(950, (77, 5))]) [];
    OStore 102 52 [T 1003 false 2] (D [(12, 902)] [] [(10, 3)] [(10, [(5, 0); (6, 9)])] [] []) [(902, 4)];
    OSetL1 0;
    OStore 103 53 [] (D [] [(11, 900)] [] [] [(901, 2)] []) [];
    ORevert;
    OStore 104 54 [T 1004 false 0] (D [] [] [(11, 1)] [] [(901, 3)] []) [];
    OSetL1 7 ].

Example ex_ops_admissible : ops_ok w_init ex_ops = true /\ delivered_like_sync ex_ops = true.
Proof. vm_compute. split; reflexivity. Qed.

Example ex_answers :
  handle V10 NewState (db_run ex_ops) (RBlockWithTxHashes (Hash 103)) = AErr BlockNotFound /\
  handle V10 Legacy (db_run ex_ops) (RBlockWithTxHashes L1Accepted) =
    ABlock {| hd_number := 2; hd_hash := 104; hd_parent := 102; hd_status := AcceptedL1; hd_pay := 54 |} [1004] /\
  handle V9 Legacy (db_run ex_ops) (RStorageAt (Number 0) 10 5) = AFelt 7 /\
  handle V10 NewState (db_run ex_ops) (RStorageAt Latest 10 5) = AFelt 0 /\
  handle V8 Legacy (db_run ex_ops) (RClassAt Latest 12) = AClass 4 /\
  handle V8 Legacy (db_run ex_ops) (RClassAt (Number 0) 11) = AErr ContractNotFound /\
  handle V8 Legacy (db_run ex_ops) (RReceipt 1002) = AReceipt 1002 0 101 AcceptedL1 true 0 9002 /\
  handle V9 NewState (db_run ex_ops) (RTxByIdx (Number 1) 0%Z) = ATx 1003 8003 /\
  handle V10 Legacy (db_run ex_ops) (RStorageAtLU Latest 10 5) = AFeltAt 0 1 /\
  handle V10 NewState (db_run ex_ops) (RStorageAtLU (Number 0) 10 5) = AFeltAt 7 0 /\
  handle V10 NewState (db_run ex_ops) (RStorageAtLU Latest 10 6) = AFeltAt 9 1 /\
  handle V10 NewState (db_run ex_ops) (RStorageAtLU Latest 11 6) = AFeltAt 0 0 /\
  handle V9 NewState (db_run ex_ops) (RStorageAtLU Latest 10 6) = AErr InvalidParams /\
  handle V10 NewState (db_run ex_ops) (RBlockWithTxs (Number 0)) =
    ABlockT {| hd_number := 0; hd_hash := 101; hd_parent := 0; hd_status := AcceptedL1; hd_pay := 51 |}
            [(1001, 8001); (1002, 8002)].
Proof. vm_compute. repeat split. Qed.

(* classes: visible from the declaring block on, not below it, Sierra and Cairo-0 alike; the reverted declaration
   of 901 (definition 2) is gone, the replacing branch's definition 3 is served; 902 is delivered for a deployed
   contract (like the synchroniser does) *)
Example ex_class_answers :
  w_orphans (w_run ex_ops) = [] /\
  handle V10 Legacy (db_run ex_ops) (RClass (Number 0) 950) = AClass 5 /\
  handle V9 NewState (db_run ex_ops) (RClass (Number 0) 902) = AErr ClassHashNotFound /\
  handle V9 NewState (db_run ex_ops) (RClass (Number 1) 902) = AClass 4 /\
  handle V8 Legacy (db_run ex_ops) (RClass (Number 1) 901) = AErr ClassHashNotFound /\
  handle V8 Legacy (db_run ex_ops) (RClass Latest 901) = AClass 3 /\
  handle V10 NewState (db_run ex_ops) (RClass (Hash 104) 901) = AClass 3 /\
  handle V10 NewState (db_run (firstn 5 ex_ops)) (RClass Latest 901) = AErr ClassHashNotFound /\
  handle V10 NewState (db_run (firstn 4 ex_ops)) (RClass Latest 901) = AClass 2.
Proof. vm_compute. repeat split. Qed.

(* ---------- the deviations are real (model witnesses; the harness replays them on juno) ---------- *)
(* getTransactionByBlockIdAndIndex with an absent block NUMBER answers INVALID_TXN_INDEX, not BLOCK_NOT_FOUND *)
Example C08_txidx_absent_number_refuted :
  exists ops v be r, ops_ok w_init ops = true /\ deviates (w_run ops) r = DevTxIdxAbsentNumber /\
    handle v be (db_run ops) r = AErr InvalidTxnIndex /\ expected v (w_run ops) r = AErr BlockNotFound.
Proof. exists ex_ops, V10, NewState, (RTxByIdx (Number 9) 0%Z). vm_compute. repeat split. Qed.

(* state methods by block_hash 0x0: the new backend answers from the head state, the legacy backend from an
   empty state, neither says BLOCK_NOT_FOUND; v0.10 getStorageAt even answers 0x0 where v0.9 says
   CONTRACT_NOT_FOUND *)
Example C08_state_zero_hash_refuted :
  exists ops v r, ops_ok w_init ops = true /\ deviates (w_run ops) r = DevStateZeroHash /\
    expected v (w_run ops) r = AErr BlockNotFound /\
    handle v NewState (db_run ops) r = AFelt 3 /\ handle v Legacy (db_run ops) r = AErr ContractNotFound.
Proof. exists ex_ops, V10, (RNonce (Hash 0) 10). vm_compute. repeat split. Qed.

Example C08_versions_zero_hash_differ :
  handle V9 Legacy db_init (RStorageAt (Hash 0) 10 5) = AErr ContractNotFound /\
  handle V10 Legacy db_init (RStorageAt (Hash 0) 10 5) = AFelt 0.
Proof. vm_compute. split; reflexivity. Qed.

(* The case repaired by /repo 007ff78 (regression witness): block 1 deploys 0xc with class 902 and delivers its
   definition without declaring it, as the synchroniser does for old blocks; the revert of block 1 now removes it,
   and a later declaration with another definition is the one that is served. *)
Definition deploy_delivery_ops : list op :=
  [ OStore 101 51 [] (D [] [] [] [] [] []) [];
    OStore 102 52 [] (D [(12, 902)] [] [] [] [] []) [(902, 4)];
    ORevert ].

Example ex_deploy_delivery_reverted :
  ops_ok w_init deploy_delivery_ops = true /\ delivered_like_sync deploy_delivery_ops = true /\
  (forall v be, handle v be (db_run deploy_delivery_ops) (RClass Latest 902) = AErr ClassHashNotFound) /\
  (forall v be, handle v be (db_run (firstn 2 deploy_delivery_ops)) (RClass Latest 902) = AClass 4) /\
  let ops2 := deploy_delivery_ops ++ [OStore 104 54 [] (D [] [] [] [] [(902, 9)] []) []] in
  (forall v be, handle v be (db_run ops2) (RClass Latest 902) = AClass 9).
Proof.
  vm_compute. repeat split; intros;
    repeat match goal with x : ver |- _ => destruct x | x : backend |- _ => destruct x end; reflexivity.
Qed.

(* [delivered_like_sync] is not decorative - but only OUTSIDE what the synchroniser does: a definition delivered
   for a class hash that the block merely uses in a replace_class (or does not reference at all) is written by
   Update and visited by no Revert. It survives the revert of its block: getClass(latest) serves a class no block
   of the chain has, and a later declaration of the same hash keeps the stale declared-at / definition.
   sync/data_source.go never delivers such a definition (deployed contracts and the two declared lists only), so
   this is misuse of Blockchain.Store, not a behaviour of a node; the harness compares it with the model only. *)
Definition orphan_ops : list op :=
  [ OStore 101 51 [] (D [(12, 900)] [] [] [] [(900, 1)] []) [];
    OStore 102 52 [] (D [] [(12, 902)] [] [] [] []) [(902, 4)];
    ORevert ].

Example C08_delivered_like_sync_needed :
  ops_ok w_init orphan_ops = true /\ delivered_like_sync orphan_ops = false /\
  w_orphans (w_run orphan_ops) = [902] /\
  deviates (w_run orphan_ops) (RClass Latest 902) = DevOrphanClass /\
  (forall v be, handle v be (db_run orphan_ops) (RClass Latest 902) = AClass 4) /\
  (forall v, expected v (w_run orphan_ops) (RClass Latest 902) = AErr ClassHashNotFound) /\
  (* by number the history reader still hides it: declared-at 1 is above block 0 *)
  (forall v be, handle v be (db_run orphan_ops) (RClass (Number 0) 902) = AErr ClassHashNotFound) /\
  (* a later block that DECLARES 902 with definition 9 does not get its definition served, and the stale
     declared-at makes the class visible one block too early *)
  let ops2 := orphan_ops ++ [OStore 103 53 [] (D [] [] [] [] [] []) [];
                             OStore 104 54 [] (D [] [] [] [] [(902, 9)] []) []] in
  ops_ok w_init ops2 = true /\
  handle V10 NewState (db_run ops2) (RClass Latest 902) = AClass 4 /\
  expected V10 (w_run ops2) (RClass Latest 902) = AClass 9 /\
  handle V10 Legacy (db_run ops2) (RClass (Number 1) 902) = AClass 4 /\
  expected V10 (w_run ops2) (RClass (Number 1) 902) = AErr ClassHashNotFound.
Proof.
  vm_compute. repeat split; intros;
    repeat match goal with x : ver |- _ => destruct x | x : backend |- _ => destruct x end; reflexivity.
Qed.
