(* C08 — property theorems only. Each is closed by [exact] of a lemma from Proofs_*.v and followed by
   Print Assumptions. [w_run ops] is the abstract chain after the op sequence, [db_run ops] the indices the
   handlers read after the same sequence; [ops_ok] = every stored block brings a fresh non-zero block hash
   and fresh pairwise distinct transaction hashes. *)
From Coq Require Import List NArith ZArith Bool.
From V Require Import C08.Model C08.Proofs_A C08.Proofs_B C08.Proofs_C.
Import ListNotations.
Open Scope N_scope.

(* Block-identifier resolution, for every chain produced by any store / revert / set-L1 sequence. *)
Theorem C08_resolve_exact : forall ops, ops_ok w_init ops = true ->
  let w := w_run ops in let c := w_chain w in
  (forall id, block_by_id (db_run ops) id = resolve w id) /\
  resolve w Latest = hd_error c /\
  (forall n, (exists b, resolve w (Number n) = Some b) <-> (exists hgt, height c = Some hgt /\ n <= hgt)) /\
  (forall n b, resolve w (Number n) = Some b -> In b c /\ b_number b = n) /\
  (forall h b, resolve w (Hash h) = Some b <-> In b c /\ b_hash b = h) /\
  (w_l1 w = None -> resolve w L1Accepted = None) /\
  (forall m hgt, w_l1 w = Some m -> height c = Some hgt ->
     resolve w L1Accepted = resolve w (Number (N.min m hgt))).
Proof. exact resolve_exact. Qed.
Print Assumptions C08_resolve_exact.

(* Reverted hashes are not found (abstractly and by the handlers' lookup). *)
Theorem C08_reverted_hash_not_found : forall ops b r, ops_ok w_init ops = true ->
  w_chain (w_run ops) = b :: r ->
  resolve (w_run (ops ++ [ORevert])) (Hash (b_hash b)) = None /\
  block_by_id (db_run (ops ++ [ORevert])) (Hash (b_hash b)) = None.
Proof. exact reverted_hash_not_found. Qed.
Print Assumptions C08_reverted_hash_not_found.

(* Every modelled read method of every API version on either state backend answers exactly what the
   abstract chain demands ([expected] = [spec_answer], or INVALID_PARAMS for l1_accepted on v0.8) — outside
   the two named deviations, which are refuted below. *)
Theorem C08_answer_from_chain : forall ops, ops_ok w_init ops = true ->
  forall v be r, deviates (w_run ops) r = DevNone ->
  handle v be (db_run ops) r = expected v (w_run ops) r.
Proof. exact answer_from_chain. Qed.
Print Assumptions C08_answer_from_chain.

(* What "the answer the chain demands" says about not-found errors: exactly when the item is absent. *)
Theorem C08_not_found_exact : forall w,
  (forall id, spec_answer w (RBlockWithTxHashes id) = AErr BlockNotFound <-> resolve w id = None) /\
  (forall h, spec_answer w (RTxByHash h) = AErr TxnHashNotFound <-> find_tx (w_chain w) h = None) /\
  (forall h, spec_answer w (RReceipt h) = AErr TxnHashNotFound <-> find_tx (w_chain w) h = None) /\
  (forall id a b, resolve w id = Some b ->
     (spec_answer w (RNonce id a) = AErr ContractNotFound <-> alookup a (b_state b) = None)) /\
  (forall id i b, resolve w id = Some b -> (0 <= i)%Z ->
     (spec_answer w (RTxByIdx id i) = AErr InvalidTxnIndex <-> (Z.of_nat (length (b_txs b)) <= i)%Z)).
Proof. exact not_found_exact. Qed.
Print Assumptions C08_not_found_exact.

(* Finality: ACCEPTED_ON_L1 iff an L1 head is recorded at or above the block; the recorded head is the last
   SetL1Head (stores and reverts do not touch it); block answers carry exactly that status. *)
Theorem C08_finality :
  (forall n l1, finality n l1 = AcceptedL1 <-> exists m, l1 = Some m /\ n <= m) /\
  (forall w o, w_l1 (w_step w o) = match o with OSetL1 m => Some m | _ => w_l1 w end) /\
  (forall ops, ops_ok w_init ops = true ->
   forall v be id b, (match v with V8 => uses_l1_accepted (RBlockWithReceipts id) | _ => false end) = false ->
   resolve (w_run ops) id = Some b ->
   let s := finality (b_number b) (w_l1 (w_run ops)) in
   handle v be (db_run ops) (RBlockWithTxHashes id) =
     ABlock (b_number b) (b_hash b) (b_parent b) s (map t_hash (b_txs b)) /\
   handle v be (db_run ops) (RBlockWithReceipts id) =
     ABlockR (b_number b) (b_hash b) (b_parent b) s
             (map (fun t => (t_hash t, s, t_reverted t, t_events t)) (b_txs b))).
Proof. exact (conj finality_iff (conj l1_recorded finality_from_l1)). Qed.
Print Assumptions C08_finality.

(* Versions: v0.9 and v0.10 coincide on every index state except getStorageAt by the zero block hash;
   v0.8 coincides with v0.9 on every produced chain for requests without l1_accepted, which v0.8 rejects. *)
Theorem C08_versions_agree :
  (forall be d r, (forall a k, r <> RStorageAt (Hash 0) a k) -> handle V9 be d r = handle V10 be d r) /\
  (forall ops, ops_ok w_init ops = true ->
   forall be r, uses_l1_accepted r = false -> handle V8 be (db_run ops) r = handle V9 be (db_run ops) r) /\
  (forall be d r, uses_l1_accepted r = true -> handle V8 be d r = AErr InvalidParams).
Proof. exact (conj v9_v10_agree (conj v8_v9_agree v8_l1_invalid)). Qed.
Print Assumptions C08_versions_agree.

(* ---------- the statements are not vacuous ---------- *)
Definition D (dep rep non : list (N * N)) (sto : list (N * list (N * N))) (decl : list N) : diff :=
  {| d_deploy := dep; d_replace := rep; d_nonces := non; d_storage := sto; d_declare := decl |}.
Definition T (h : N) (r : bool) (e : N) : tx := {| t_hash := h; t_reverted := r; t_events := e |}.

Definition ex_ops : list op :=
  [ OStore 101 [T 1001 false 1; T 1002 true 0] (D [(10, 900); (11, 901)] [] [] [(10, [(5, 7)])] [900]);
    OStore 102 [T 1003 false 2] (D [(12, 902)] [] [(10, 3)] [(10, [(5, 0); (6, 9)])] []);
    OSetL1 0;
    OStore 103 [] (D [] [(11, 900)] [] [] []);
    ORevert;
    OStore 104 [T 1004 false 0] (D [] [] [(11, 1)] [] [901]);
    OSetL1 7 ].

Example ex_ops_admissible : ops_ok w_init ex_ops = true.
Proof. vm_compute. reflexivity. Qed.

Example ex_answers :
  handle V10 NewState (db_run ex_ops) (RBlockWithTxHashes (Hash 103)) = AErr BlockNotFound /\
  handle V10 Legacy (db_run ex_ops) (RBlockWithTxHashes L1Accepted) = ABlock 2 104 102 AcceptedL1 [1004] /\
  handle V9 Legacy (db_run ex_ops) (RStorageAt (Number 0) 10 5) = AFelt 7 /\
  handle V10 NewState (db_run ex_ops) (RStorageAt Latest 10 5) = AFelt 0 /\
  handle V8 Legacy (db_run ex_ops) (RClassAt Latest 12) = AErr ContractNotFound /\
  handle V8 Legacy (db_run ex_ops) (RReceipt 1002) = AReceipt 1002 0 101 AcceptedL1 true 0.
Proof. vm_compute. repeat split. Qed.

(* ---------- the two deviations are real (model witnesses; the harness replays them on juno) ---------- *)
(* getTransactionByBlockIdAndIndex with an absent block NUMBER answers INVALID_TXN_INDEX, not BLOCK_NOT_FOUND *)
Example C08_txidx_absent_number_refuted :
  exists ops v be r, ops_ok w_init ops = true /\ deviates (w_run ops) r = DevTxIdxAbsentNumber /\
    handle v be (db_run ops) r = AErr InvalidTxnIndex /\ expected v (w_run ops) r = AErr BlockNotFound.
Proof. exists ex_ops, V10, NewState, (RTxByIdx (Number 9) 0%Z). vm_compute. repeat split. Qed.

(* state methods by block_hash 0x0: the new backend answers from the head state, the legacy backend from an
   empty state, neither says BLOCK_NOT_FOUND; v0.10 getStorageAt even answers 0x0 where v0.9 says
   CONTRACT_NOT_FOUND *)
Example C08_state_zero_hash_refuted :
  exists ops v r, ops_ok w_init ops = true /\ deviates (w_run ops) r = DevStateZeroHash /\
    expected v (w_run ops) r = AErr BlockNotFound /\
    handle v NewState (db_run ops) r = AFelt 3 /\ handle v Legacy (db_run ops) r = AErr ContractNotFound.
Proof. exists ex_ops, V10, (RNonce (Hash 0) 10). vm_compute. repeat split. Qed.

Example C08_versions_zero_hash_differ :
  handle V9 Legacy db_init (RStorageAt (Hash 0) 10 5) = AErr ContractNotFound /\
  handle V10 Legacy db_init (RStorageAt (Hash 0) 10 5) = AFelt 0.
Proof. vm_compute. split; reflexivity. Qed.
