(* C09 — executable model of juno's event index and of event queries.

   Transcribed from (working tree of /repo):
     core/aggregated_bloom_filter.go      window = matrix (bloom bit x block); Insert / clear / BlocksForKeys
     core/running_event_filter.go         insert (+ persist and new window at ToBlock), onReorg (incl. the
                                          "running window is empty" branch), lazy initialisation
                                          (InitializeRunningEventFilter: the stored snapshot is consumed
                                          = deleted when read, then snapshot as-is / fill / rebuild)
     blockchain/aggregated_bloom_filter_cache.go   window lookup: running window when the ranges match,
                                          else LRU cache, else fallback read of the persisted window (+ cache it)
     blockchain/event_matcher.go          candidate test on a window, exact match of address / keys
     blockchain/event_filter.go           paging: token = (block, events already processed), (0,0) = none,
                                          chunk size, scan limit
     blockchain/statebackend              Store -> InsertWithBatch, RevertHead -> OnReorgWithBatch

   The window size W (core.NumBlocksPerFilter = 8192) and the bloom membership test are Section
   variables: every definition below takes them as arguments after the section closes.

   A per-block bloom filter is represented by the list of keys inserted in it; [member ks k] is the
   bloom test "are all bits of k set in the filter holding ks" - it may answer yes for anything, the
   theorems only assume it answers yes for inserted keys. OR-ing two filters = appending the lists.
   One column of the aggregated matrix = the bloom of one block.

   No proofs in this file; it is extracted to OCaml and run against the Go code. *)
From Coq Require Import List NArith Bool.
Import ListNotations.
Open Scope N_scope.

(* ---------- events, blocks, filters ---------- *)
Inductive bkey := KAddr (a : N) | KKey (pos : N) (k : N).   (* what core.EventsBloom inserts *)

Definition bkey_eqb (x y : bkey) : bool :=
  match x, y with
  | KAddr a, KAddr b => a =? b
  | KKey i k, KKey j l => (i =? j) && (k =? l)
  | _, _ => false
  end.

Record event := { ev_from : N; ev_keys : list N }.
Definition tx := list event.          (* the events of one transaction *)
Definition block := list tx.

Record efilter := { f_addrs : list N; f_keys : list (list N) }.

(* an event tagged with block number, transaction index, index inside the transaction *)
Record fev := { fe_block : N; fe_tx : N; fe_idx : N; fe_ev : event }.

Fixpoint mapi_from {A B} (f : N -> A -> B) (i : N) (l : list A) : list B :=
  match l with
  | [] => []
  | x :: r => f i x :: mapi_from f (N.succ i) r
  end.

Definition event_keys (e : event) : list bkey :=
  KAddr (ev_from e) :: mapi_from (fun i k => KKey i k) 0 (ev_keys e).

(* core.EventsBloom(receipts) *)
Definition block_keys (b : block) : list bkey :=
  flat_map (fun t => flat_map event_keys t) b.

(* the events of block n in receipt order *)
Definition flat_block (n : N) (b : block) : list fev :=
  concat (mapi_from (fun ti t => mapi_from (fun ei e => Build_fev n ti ei e) 0 t) 0 b).

Definition alt_ok (alts : list N) (k : N) : bool :=
  match alts with [] => true | _ => existsb (N.eqb k) alts end.

(* EventMatcher.MatchesEventKeys *)
Fixpoint keys_match (fk : list (list N)) (ek : list N) : bool :=
  match fk, ek with
  | [], _ => true
  | _ :: _, [] => false
  | alts :: fk', k :: ek' => alt_ok alts k && keys_match fk' ek'
  end.

Definition addr_match (addrs : list N) (a : N) : bool :=
  match addrs with [] => true | _ => existsb (N.eqb a) addrs end.

Definition ev_matches (flt : efilter) (e : event) : bool :=
  addr_match (f_addrs flt) (ev_from e) && keys_match (f_keys flt) (ev_keys e).

Definition fev_matches (flt : efilter) (x : fev) : bool := ev_matches flt (fe_ev x).

Definition lenN {A} (l : list A) : N := N.of_nat (length l).
Definition nthN {A} (n : N) (l : list A) (d : A) : A := nth (N.to_nat n) l d.

Fixpoint seqN (a : N) (n : nat) : list N :=
  match n with O => [] | S k => a :: seqN (N.succ a) k end.

(* blocks a .. b inclusive (empty when a > b) *)
Definition rangeN (a b : N) : list N := seqN a (N.to_nat (N.succ b - a)).

(* ---------- the SPEC: all matching events of blocks from..to of the chain, in chain order ---------- *)
Definition block_matches (ch : list block) (flt : efilter) (n : N) : list fev :=
  filter (fev_matches flt) (flat_block n (nthN n ch [])).

Definition filter_spec (ch : list block) (flt : efilter) (from to : N) : list fev :=
  match ch with
  | [] => []
  | _ => flat_map (block_matches ch flt) (rangeN from (N.min to (lenN ch - 1)))
  end.

(* association lists keyed by N *)
Fixpoint lookup {A} (k : N) (m : list (N * A)) : option A :=
  match m with
  | [] => None
  | (k', v) :: r => if k =? k' then Some v else lookup k r
  end.
Definition mremove {A} (k : N) (m : list (N * A)) : list (N * A) :=
  filter (fun p => negb (fst p =? k)) m.
Definition mset {A} (k : N) (v : A) (m : list (N * A)) : list (N * A) := (k, v) :: mremove k m.

Section Model.
Variable W : N.                                   (* core.NumBlocksPerFilter *)
Variable member : list bkey -> bkey -> bool.      (* bloom test against the filter holding these keys *)

Definition aligned (n : N) : N := n - n mod W.

(* ---------- core/aggregated_bloom_filter.go ---------- *)
Record window := { w_from : N; w_cols : list (N * list bkey) }.
Definition w_to (w : window) : N := w_from w + W - 1.
Definition empty_window (from : N) : window := Build_window from [].
Definition in_window (w : window) (n : N) : bool := (w_from w <=? n) && (n <=? w_to w).

(* the bloom column of block n *)
Definition col (w : window) (n : N) : list bkey :=
  flat_map snd (filter (fun p => fst p =? n) (w_cols w)).

(* Insert: OR the block's bloom into column n (an empty bloom sets no bit) *)
Definition w_insert (w : window) (n : N) (ks : list bkey) : option window :=
  if in_window w n then
    Some (match ks with [] => w | _ => Build_window (w_from w) ((n, ks) :: w_cols w) end)
  else None.

Definition w_clear (w : window) (n : N) : option window :=
  if in_window w n then
    Some (Build_window (w_from w) (filter (fun p => negb (fst p =? n)) (w_cols w)))
  else None.

Fixpoint forallb_from {A} (f : N -> A -> bool) (i : N) (l : list A) : bool :=
  match l with
  | [] => true
  | x :: r => f i x && forallb_from f (N.succ i) r
  end.

(* EventMatcher.getCandidateBlocksForFilterInto, for one column *)
Definition cand_test (ks : list bkey) (flt : efilter) : bool :=
  (match f_addrs flt with [] => true | l => existsb (fun a => member ks (KAddr a)) l end)
  && forallb_from (fun i alts => match alts with [] => true
                                 | _ => existsb (fun k => member ks (KKey i k)) alts end)
                  0 (f_keys flt).

(* ---------- state ---------- *)
Inductive rstate :=
  | Uninit                           (* lazy: not initialised since the process started *)
  | Failed                           (* initErr is sticky (sync.Once) *)
  | Ready (w : window) (next : N).

Record state := {
  chain : list block;                     (* disk: canonical chain, index = block number *)
  persisted : list (N * window);          (* disk: AggregatedBloomFilters bucket, keyed by fromBlock *)
  snapshot : option (window * N);         (* disk: RunningEventFilter key *)
  running : rstate;                       (* memory *)
  cache : list (N * window)               (* memory: AggregatedBloomFilterCache *)
}.

Definition init_state : state := Build_state [] [] None Uninit [].

Definition set_running (s : state) (r : rstate) : state :=
  Build_state (chain s) (persisted s) (snapshot s) r (cache s).
Definition set_cache (s : state) (c : list (N * window)) : state :=
  Build_state (chain s) (persisted s) (snapshot s) (running s) c.

(* ---------- core/running_event_filter.go ---------- *)
(* insert: returns (persisted', window', next') or None = error *)
Definition rf_insert (pers : list (N * window)) (w : window) (ks : list bkey) (n : N)
  : option (list (N * window) * window * N) :=
  match w_insert w n ks with
  | None => None
  | Some w' =>
      if n =? w_to w' then Some (mset (w_from w') w' pers, empty_window (n + 1), n + 1)
      else Some (pers, w', n + 1)
  end.

(* fillRunningEventFilter over the listed block numbers (header blooms read from the chain) *)
Fixpoint fill (ch : list block) (bs : list N) (pers : list (N * window)) (w : window) (nx : N)
  : option (list (N * window) * window * N) :=
  match bs with
  | [] => Some (pers, w, nx)
  | n :: r =>
      if n <? lenN ch then
        match rf_insert pers w (block_keys (nthN n ch [])) n with
        | None => None
        | Some (p', w', nx') => fill ch r p' w' nx'
        end
      else None
  end.

(* rebuildRunningEventFilter: walk back to the most recent persisted window *)
Fixpoint find_cont (fuel : nat) (pers : list (N * window)) (ws : N) : N :=
  match lookup ws pers with
  | Some _ => ws + W
  | None =>
      if ws =? 0 then 0
      else match fuel with O => 0 | S f => find_cont f pers (ws - W) end
  end.

Definition ready_of (pers0 : list (N * window))
    (r : option (list (N * window) * window * N)) : list (N * window) * rstate :=
  match r with
  | Some (p, w, nx) => (p, Ready w nx)
  | None => (pers0, Failed)
  end.

Definition rebuild (ch : list block) (pers : list (N * window)) (latest : N)
  : list (N * window) * rstate :=
  let cf := find_cont (S (N.to_nat (latest / W))) pers (aligned latest) in
  ready_of pers (fill ch (rangeN cf latest) pers (empty_window cf) cf).

(* InitializeRunningEventFilter *)
Definition init_rf (s : state) : list (N * window) * rstate :=
  match chain s with
  | [] => (persisted s, Ready (empty_window 0) 0)
  | _ =>
      let latest := lenN (chain s) - 1 in
      match snapshot s with
      | Some (w, nx) =>
          if nx =? latest + 1 then (persisted s, Ready w nx)
          else if (nx <=? latest) && (latest <=? w_to w)
               then ready_of (persisted s) (fill (chain s) (rangeN nx latest) (persisted s) w nx)
               else rebuild (chain s) (persisted s) latest
      | None => rebuild (chain s) (persisted s) latest
      end
  end.

(* InitializeRunningEventFilter CONSUMES the stored snapshot: on a non-empty chain a snapshot that is read
   successfully is deleted from the database (core.DeleteRunningEventFilter, a direct write) BEFORE it is
   used as it is / filled in place / discarded for a rebuild, hence before any window write of the fill.
   On an empty chain the function returns before reading the snapshot, which therefore stays. (The model
   has no crash point inside the initialisation: a crash between the delete and the fill leaves "no
   snapshot" + the persisted windows, i.e. the rebuild branch of the next start.) *)
Definition init_snap (s : state) : option (window * N) :=
  match chain s with
  | [] => snapshot s
  | _ => None
  end.

(* ensureInit *)
Definition ensure (s : state) : state :=
  match running s with
  | Uninit => let (p, r) := init_rf s in Build_state (chain s) p (init_snap s) r (cache s)
  | _ => s
  end.

Definition pred64 (n : N) : N := if n =? 0 then 18446744073709551615 else n - 1.

(* ---------- window lookup (MatchedBlockIterator.loadNextWindow) ---------- *)
Definition lookup_window (s : state) (ws : N) : option window :=
  match running s with
  | Ready w _ =>
      if w_from w =? ws then Some w
      else match lookup ws (cache s) with
           | Some c => Some c
           | None => lookup ws (persisted s)
           end
  | _ => None
  end.

(* is block n a candidate? None = the window cannot be loaded (query fails) *)
Definition cand_item (s : state) (flt : efilter) (n : N) : option bool :=
  match lookup_window s (aligned n) with
  | None => None
  | Some w => Some (cand_test (col w n) flt)
  end.

(* windows fetched through the fallback are added to the cache *)
Definition cache_load (s : state) (ws : N) : state :=
  match running s with
  | Ready w _ =>
      if w_from w =? ws then s
      else match lookup ws (cache s) with
           | Some _ => s
           | None => match lookup ws (persisted s) with
                     | Some p => set_cache s ((ws, p) :: cache s)
                     | None => s
                     end
           end
  | _ => s
  end.

Fixpoint wstarts (a : N) (n : nat) : list N :=
  match n with O => [] | S k => a :: wstarts (a + W) k end.

(* windows touched when blocks a..b were visited *)
Definition cache_after (s : state) (a b : N) : state :=
  fold_left cache_load (wstarts (aligned a) (S (N.to_nat ((aligned b - aligned a) / W)))) s.

(* ---------- MatchedBlockIterator: the order in which block numbers are visited ----------
   loadNextWindow walks the aligned windows: the first one from offset rangeStart mod W, every
   following one (currentWindowStart + W) from offset 0, and stops when windowStart > rangeEnd;
   Next stops at the first bit beyond rangeEnd. ws = start of the window, lo = first block of it that
   is looked at. *)
Fixpoint walk (fuel : nat) (ws lo to : N) : list N :=
  match fuel with
  | O => []
  | S f =>
      if to <? ws then []
      else rangeN lo (N.min (ws + W - 1) to) ++ walk f (ws + W) (ws + W) to
  end.

Definition walk_blocks (from to : N) : list N :=
  walk (S (N.to_nat (to / W))) (aligned from) from to.

(* ---------- blockchain/event_matcher.go AppendBlockEventsFromTransactionEvents ----------
   l = events of the block from flat position pos on; room = chunkSize - len(matchedSoFar).
   Returns the events appended and Some p when the chunk is full and the event at flat position p
   is the next matching one. *)
Fixpoint take (flt : efilter) (l : list fev) (pos room : N) : list fev * option N :=
  match l with
  | [] => ([], None)
  | e :: r =>
      if fev_matches flt e then
        if room =? 0 then ([], Some pos)
        else let (t, s) := take flt r (N.succ pos) (room - 1) in (e :: t, s)
      else take flt r (N.succ pos) room
  end.

Definition skipN {A} (n : N) (l : list A) : list A := skipn (N.to_nat n) l.

(* ---------- blockchain/event_filter.go canonicalEvents ----------
   ci = candidate test per block, bev = events of a block, bs = the blocks of the range from the
   start block on, scanned = candidates yielded so far, skip = events of the first candidate block
   already returned, room = remaining chunk. Result: (None | Some (events, token), last block visited) *)
Fixpoint scanq (ci : N -> option bool) (bev : N -> list fev) (flt : efilter) (limit : N)
    (bs : list N) (scanned skip room : N) (last : N) : option (list fev * (N * N)) * N :=
  match bs with
  | [] => (Some ([], (0, 0)), last)
  | n :: rest =>
      match ci n with
      | None => (None, n)
      | Some false => scanq ci bev flt limit rest scanned skip room last
      | Some true =>
          if (0 <? limit) && (limit <=? scanned) then (Some ([], (n, 0)), n)
          else
            match take flt (skipN skip (bev n)) skip room with
            | (t, Some p) => (Some (t, (n, p)), n)
            | (t, None) =>
                let (r, stop) := scanq ci bev flt limit rest (N.succ scanned) 0 (room - lenN t) last in
                (match r with Some (t', tok) => Some (t ++ t', tok) | None => None end, stop)
            end
      end
  end.

(* ---------- operations ---------- *)
Inductive op :=
  | Store (b : block)
  | Revert
  | Restart (graceful : bool)
  | Forget (ws : list N)                                   (* LRU eviction, abstracted *)
  | Query (flt : efilter) (from to chunk limit : N) (tok : N * N).

Inductive out :=
  | OOk
  | OErr
  | OPage (evs : list fev) (tok : N * N).

Definition do_store (s0 : state) (b : block) : state * out :=
  let s := ensure s0 in
  match running s with
  | Ready w nx =>
      let n := lenN (chain s) in
      match rf_insert (persisted s) w (block_keys b) n with
      | None => (s, OErr)
      | Some (p', w', nx') =>
          (Build_state (chain s ++ [b]) p' (snapshot s) (Ready w' nx') (cache s), OOk)
      end
  | _ => (s, OErr)
  end.

(* Blockchain.RevertHead: after a successful stateBackend.RevertHead the aggregated bloom filter cache
   is reset (/repo commit 5bb6f6f); a failed revert leaves it alone. *)
Definition do_revert (s0 : state) : state * out :=
  match chain s0 with
  | [] => (s0, OErr)
  | _ =>
      let s := ensure s0 in
      match running s with
      | Ready w nx =>
          let cur := pred64 nx in
          (* Go: curBlock == currRangeStart-1 with curBlock = next-1, all uint64: equivalent to
             next == currRangeStart for every pair of uint64 values *)
          if nx =? w_from w then
            (* running window is empty: load the previous persisted window and delete ITS persisted
               copy (a later rollover persists it again). Before /repo commit 5440575 the key of the
               empty running window was deleted instead. *)
            match lookup (aligned cur) (persisted s) with
            | None => (s, OErr)
            | Some lw =>
                match w_clear lw cur with
                | Some w2 =>
                    (Build_state (removelast (chain s)) (mremove (aligned cur) (persisted s))
                                 (snapshot s) (Ready w2 cur) [], OOk)
                | None => (set_running s (Ready lw cur), OErr)
                end
            end
          else
            match w_clear w cur with
            | Some w2 =>
                (Build_state (removelast (chain s)) (persisted s) (snapshot s) (Ready w2 cur) [], OOk)
            | None => (set_running s (Ready w cur), OErr)
            end
      | _ => (s, OErr)
      end
  end.

Definition do_restart (s0 : state) (graceful : bool) : state :=
  let s1 :=
    if graceful then
      let s := ensure s0 in
      match running s with
      | Ready w nx => Build_state (chain s) (persisted s) (Some (w, nx)) (running s) (cache s)
      | _ => s
      end
    else s0 in
  Build_state (chain s1) (persisted s1) (snapshot s1) Uninit [].

Definition do_forget (s : state) (ws : list N) : state :=
  set_cache s (filter (fun p => negb (existsb (N.eqb (fst p)) ws)) (cache s)).

Definition tok_none (t : N * N) : bool := (fst t =? 0) && (snd t =? 0).

Definition do_query (s0 : state) (flt : efilter) (from to chunk limit : N) (tok : N * N) : state * out :=
  match chain s0 with
  | [] => (s0, OErr)
  | _ =>
      let latest := lenN (chain s0) - 1 in
      let start := if tok_none tok then from else fst tok in
      let skip := snd tok in
      let to' := N.min to latest in
      if to' <? start then (s0, OPage [] (0, 0))
      else
        let s := ensure s0 in
        match running s with
        | Ready _ _ =>
            let bev := fun n => flat_block n (nthN n (chain s) []) in
            let '(r, stop) := scanq (cand_item s flt) bev flt limit (walk_blocks start to') 0 skip chunk to' in
            (cache_after s start stop,
             match r with Some (evs, t) => OPage evs t | None => OErr end)
        | _ => (s, OErr)
        end
  end.

(* ---------- pre-confirmed tail (event_filter.go Events + preConfirmedEvents, event_matcher.go TestBloom) ----------
   pre = the pre-confirmed blocks above the head, oldest first (numbers latest+1 ...). They are not part
   of the node state: the caller hands them to the query. No scan limit applies to them; a block whose
   own bloom rejects the filter is skipped and resets the skip counter. *)
Fixpoint scanp (flt : efilter) (pre : list block) (n start to skip room : N) : list fev * (N * N) :=
  match pre with
  | [] => ([], (0, 0))
  | b :: rest =>
      if n <? start then scanp flt rest (N.succ n) start to skip room
      else if to <? n then ([], (0, 0))
      else if negb (cand_test (block_keys b) flt) then scanp flt rest (N.succ n) start to 0 room
      else
        match take flt (skipN skip (flat_block n b)) skip room with
        | (t, Some p) => (t, (n, p))
        | (t, None) =>
            let (t', tok) := scanp flt rest (N.succ n) start to 0 (room - lenN t) in (t ++ t', tok)
        end
  end.

(* blockchain.PreConfirmedFilterSentinel = math.MaxUint64 *)
Definition sentinel : N := 18446744073709551615.

Definition do_query_pre (s0 : state) (flt : efilter) (from to chunk limit : N) (tok : N * N)
    (pre : list block) : state * out :=
  match chain s0, pre with
  | [], _ => (s0, OErr)
  | _, [] => do_query s0 flt from to chunk limit tok
  | _, _ =>
      let latest := lenN (chain s0) - 1 in
      if to <=? latest then do_query s0 flt from to chunk limit tok
      else
        let start := if tok_none tok then from else fst tok in
        let skip := snd tok in
        (* canonical part [start, latest] (empty when start > latest) *)
        match do_query s0 flt from latest chunk limit tok with
        | (s1, OPage evs t1) =>
            if negb (tok_none t1) then (s1, OPage evs t1)
            else
              let skip' := if start <=? latest then 0 else skip in
              (* from_block = pre_confirmed (sentinel): only the most recent pre-confirmed block *)
              let pstart := if start =? sentinel then latest + lenN pre else start in
              let (evp, tp) := scanp flt pre (latest + 1) pstart to skip' (chunk - lenN evs) in
              (s1, OPage (evs ++ evp) tp)
        | r => r
        end
  end.

(* ---------- rpc/v8|v9|v10 events.go: starknet_getEvents range resolution (setEventFilterRange) ----------
   BResolved: a block hash or l1_accepted, looked up in the database by the handler (None = not found). *)
Inductive bid :=
  | BAbsent
  | BLatest
  | BPreConfirmed
  | BNumber (n : N)
  | BResolved (r : option N).

(* only a numeric to_block is bounded by the head; a numeric from_block above the head stays as it is
   (the range is then empty unless pre-confirmed blocks are asked for) *)
Definition resolve_bid (is_to : bool) (latest dflt : N) (b : bid) : option N :=
  match b with
  | BAbsent => Some dflt
  | BLatest => Some latest
  | BPreConfirmed => Some sentinel
  | BNumber n => Some (if is_to then N.min n latest else n)
  | BResolved r => r
  end.

(* None = BLOCK_NOT_FOUND; Some OErr = internal error; the filter starts as [0, latest] *)
Definition do_rpc_events (s : state) (flt : efilter) (fb tb : bid) (chunk limit : N) (tok : N * N)
    (pre : list block) : state * option out :=
  match chain s with
  | [] => (s, Some OErr)
  | _ =>
      let latest := lenN (chain s) - 1 in
      match resolve_bid false latest 0 fb, resolve_bid true latest latest tb with
      | Some from, Some to =>
          let (s', o) := do_query_pre s flt from to chunk limit tok pre in (s', Some o)
      | _, _ => (s, None)
      end
  end.

Definition step (s : state) (o : op) : state * out :=
  match o with
  | Store b => do_store s b
  | Revert => do_revert s
  | Restart g => (do_restart s g, OOk)
  | Forget ws => (do_forget s ws, OOk)
  | Query flt from to chunk limit tok => do_query s flt from to chunk limit tok
  end.

Fixpoint run (s : state) (ops : list op) : state :=
  match ops with
  | [] => s
  | o :: r => run (fst (step s o)) r
  end.

(* all pages of one query, following the tokens the model produces *)
Fixpoint pages (fuel : nat) (s : state) (flt : efilter) (from to chunk limit : N) (tok : N * N)
  : option (list fev) :=
  match fuel with
  | O => None
  | S f =>
      match do_query s flt from to chunk limit tok with
      | (s', OPage evs tok') =>
          if tok_none tok' then Some evs
          else match pages f s' flt from to chunk limit tok' with
               | Some more => Some (evs ++ more)
               | None => None
               end
      | _ => None
      end
  end.

(* ---------- paging over a range that reaches into the pre-confirmed blocks ----------
   The sequence of pages (events, token) obtained by following the continuation tokens of do_query_pre
   (EventFilter.Events with a PreConfirmedReader): canonical pages first (tokens (n, p) with n <= head,
   scan limit applies), then - in the SAME page in which the canonical part ends without a token - the
   pre-confirmed tail (tokens (n, p) with n > head, no scan limit). *)
Fixpoint page_seq (fuel : nat) (s : state) (flt : efilter) (from to chunk limit : N) (tok : N * N)
    (pre : list block) : option (list (list fev * (N * N))) :=
  match fuel with
  | O => None
  | S f =>
      match do_query_pre s flt from to chunk limit tok pre with
      | (s', OPage evs tok') =>
          if tok_none tok' then Some [(evs, tok')]
          else match page_seq f s' flt from to chunk limit tok' pre with
               | Some more => Some ((evs, tok') :: more)
               | None => None
               end
      | _ => None
      end
  end.

Definition pages_pre (fuel : nat) (s : state) (flt : efilter) (from to chunk limit : N)
    (pre : list block) : option (list fev) :=
  match page_seq fuel s flt from to chunk limit (0, 0) pre with
  | Some ps => Some (concat (map fst ps))
  | None => None
  end.

(* the SPEC for such a range: the canonical matches of [from, min(to, head)] in chain order, then the
   matches of the pre-confirmed blocks (numbered head+1, head+2, ...) whose number lies in [from, to];
   from_block = pre_confirmed (the sentinel) denotes the most recent pre-confirmed block only. *)
Fixpoint pre_matches (flt : efilter) (pre : list block) (n start to : N) : list fev :=
  match pre with
  | [] => []
  | b :: rest =>
      (if (start <=? n) && (n <=? to) then filter (fev_matches flt) (flat_block n b) else [])
      ++ pre_matches flt rest (N.succ n) start to
  end.

Definition pre_start (ch pre : list block) (from : N) : N :=
  if from =? sentinel then lenN ch - 1 + lenN pre else from.

Definition filter_spec_pre (ch : list block) (flt : efilter) (from to : N) (pre : list block) : list fev :=
  match ch with
  | [] => []
  | _ => filter_spec ch flt from to ++ pre_matches flt pre (lenN ch) (pre_start ch pre from) to
  end.

(* is block n (canonical or pre-confirmed, numbered after the chain) a candidate of the query? *)
Definition cand_ext (s : state) (flt : efilter) (pre : list block) (n : N) : option bool :=
  if n <? lenN (chain s) then cand_item s flt n
  else Some (cand_test (block_keys (nthN (n - lenN (chain s)) pre [])) flt).

(* ---------- predicates on a page sequence (evaluated by the harness on the pages the implementation
   returns; a page is abstracted to (number of events, token)) ---------- *)
Definition tok_lt (a b : N * N) : bool :=
  (fst a <? fst b) || ((fst a =? fst b) && (snd a <? snd b)).

(* a page never holds more than chunk events *)
Definition page_chunk_ok (chunk : N) (p : N * (N * N)) : bool := fst p <=? chunk.

(* an empty page carries a token only when the scan limit was hit: a limit is set and the token points at
   the START of the next candidate block *)
Definition page_empty_ok (limit : N) (p : N * (N * N)) : bool :=
  negb (fst p =? 0) || tok_none (snd p) || ((0 <? limit) && (snd (snd p) =? 0)).

(* a token lies strictly after the position the page started from (lexicographic on (block, processed)) *)
Definition page_progress_ok (prev : N * N) (p : N * (N * N)) : bool :=
  tok_none (snd p) || tok_lt prev (snd p).

Fixpoint pages_ok (chunk limit : N) (prev : N * N) (ps : list (N * (N * N))) : bool :=
  match ps with
  | [] => true
  | p :: r =>
      page_chunk_ok chunk p && page_empty_ok limit p && page_progress_ok prev p &&
      pages_ok chunk limit (snd p) r
  end.

Definition page_sizes (ps : list (list fev * (N * N))) : list (N * (N * N)) :=
  map (fun p => (lenN (fst p), snd p)) ps.

(* the progress measure: following tokens takes at most max(1, blocks in range + matches) pages *)
Definition page_bound (blocks matches : N) : N := N.max 1 (blocks + matches).
Definition page_count_ok (blocks matches pages : N) : bool := pages <=? page_bound blocks matches.

(* the blocks (canonical and pre-confirmed) a query over [from, to] ranges over *)
Definition range_blocks (ch pre : list block) (from to : N) : N :=
  lenN (rangeN (pre_start ch pre from) (N.min to (lenN ch - 1 + lenN pre))).

(* the candidate blocks among a .. b (what the scan limit counts) *)
Definition is_cand (o : option bool) : bool := match o with Some true => true | _ => false end.
Definition cands_between (s : state) (flt : efilter) (a b : N) : list N :=
  filter (fun n => is_cand (cand_item s flt n)) (rangeN a b).

(* ---------- decidable hypotheses of the theorems (also evaluated by the harness) ---------- *)
Fixpoint list_eqb {A} (eqb : A -> A -> bool) (a b : list A) : bool :=
  match a, b with
  | [], [] => true
  | x :: a', y :: b' => eqb x y && list_eqb eqb a' b'
  | _, _ => false
  end.

Definition window_eqb (a b : window) : bool :=
  (w_from a =? w_from b) &&
  list_eqb (fun p q => (fst p =? fst q) && list_eqb bkey_eqb (snd p) (snd q)) (w_cols a) (w_cols b).

(* every cached window equals the currently persisted one *)
Definition cache_fresh_b (s : state) : bool :=
  forallb (fun p => match lookup (fst p) (persisted s) with
                    | Some q => window_eqb (snd p) q
                    | None => false
                    end) (cache s).

(* window w records every bloom key of blocks a .. b-1 of the chain *)
Definition covers_b (w : window) (ch : list block) (a b : N) : bool :=
  forallb (fun n => forallb (fun k => existsb (bkey_eqb k) (col w n)) (block_keys (nthN n ch [])))
          (seqN a (N.to_nat (b - a))).

(* no persisted window at or above the window of the head (left behind by a revert across a boundary) *)
Definition no_stale_persisted_b (s : state) : bool :=
  forallb (fun p => fst p + W <=? lenN (chain s)) (persisted s).

Definition snap_good_b (s : state) (w : window) (nx : N) : bool :=
  (w_from w mod W =? 0) && (w_from w <=? nx) && (nx <=? w_to w) && covers_b w (chain s) (w_from w) nx.

(* what an ungraceful restart needs from the disk: if InitializeRunningEventFilter is going to use the
   snapshot (as it is, or filled in place) the snapshot must describe the current chain. The rebuild
   branch needs nothing: persisted windows at or above the head's window cannot exist (invariant, since
   onReorg deletes the window it re-enters). *)
Definition disk_ok_b (s : state) : bool :=
  match chain s with
  | [] => true
  | _ =>
      let latest := lenN (chain s) - 1 in
      match snapshot s with
      | Some (w, nx) =>
          if (nx =? latest + 1) || ((nx <=? latest) && (latest <=? w_to w))
          then snap_good_b s w nx
          else true
      | None => true
      end
  end.

(* every ungraceful restart of the history happens on a disk that is ok *)
Fixpoint guarded (s : state) (ops : list op) : bool :=
  match ops with
  | [] => true
  | o :: r =>
      (match o, running s with
       | Restart false, Ready _ _ => disk_ok_b s
       | _, _ => true
       end) && guarded (fst (step s o)) r
  end.

(* kind of bad disk met by an ungraceful restart: 1 = snapshot used but not good, 2 = stale persisted
   window on the rebuild branch (unreachable since 5440575; kept so that a regression is classified) *)
Definition disk_bad_kind (s : state) : N :=
  match chain s with
  | [] => 0
  | _ =>
      let latest := lenN (chain s) - 1 in
      match snapshot s with
      | Some (w, nx) =>
          if (nx =? latest + 1) || ((nx <=? latest) && (latest <=? w_to w))
          then (if snap_good_b s w nx then 0 else 1)
          else (if no_stale_persisted_b s then 0 else 2)
      | None => if no_stale_persisted_b s then 0 else 2
      end
  end.

End Model.

(* exact set membership: the bloom instance without false positives (used by the refutation
   witnesses; the oracle uses the real bit locations) *)
Definition member_exact (ks : list bkey) (k : bkey) : bool := existsb (bkey_eqb k) ks.
