(* C09 — lemmas, part 1: window arithmetic, soundness of the candidate test, no false negatives
   in a state satisfying the index invariant. *)
From Coq Require Import List NArith Bool Lia ZifyN ZifyNat ZifyBool.
From V Require Import C09.Model.
Import ListNotations.
Open Scope N_scope.

Section P.
Variable W : N.
Hypothesis Wpos : 0 < W.
Variable member : list bkey -> bkey -> bool.
Hypothesis bloom_sound : forall ks k, In k ks -> member ks k = true.

Notation aligned := (aligned W).
Notation w_to := (w_to W).

(* ---------- arithmetic of window alignment ---------- *)
Lemma aligned_eq n : aligned n = W * (n / W).
Proof.
  unfold Model.aligned. rewrite N.mod_eq by lia.
  assert (H : W * (n / W) <= n) by (apply N.mul_div_le; lia).
  generalize dependent (W * (n / W)). intros. lia.
Qed.

Lemma aligned_le n : aligned n <= n.
Proof. rewrite aligned_eq. apply N.mul_div_le. lia. Qed.

Lemma aligned_lt n : n < aligned n + W.
Proof.
  rewrite aligned_eq. pose proof (N.mul_succ_div_gt n W). rewrite N.mul_succ_r in H. apply H. lia.
Qed.

Lemma aligned_mod n : aligned n mod W = 0.
Proof. rewrite aligned_eq, N.mul_comm. apply N.mod_mul. lia. Qed.

Lemma aligned_mono n m : n <= m -> aligned n <= aligned m.
Proof.
  intros. rewrite !aligned_eq. apply N.mul_le_mono_l. apply N.div_le_mono; lia.
Qed.

Lemma mult_gap a b : a mod W = 0 -> b mod W = 0 -> a < b -> a + W <= b.
Proof.
  intros Ha Hb Hlt.
  assert (Wn : W <> 0) by lia.
  apply (N.div_exact a W Wn) in Ha. apply (N.div_exact b W Wn) in Hb.
  assert (a / W < b / W).
  { apply (N.mul_lt_mono_pos_l W); lia. }
  assert (W * (a / W + 1) <= W * (b / W)) by (apply N.mul_le_mono_l; lia).
  rewrite N.mul_add_distr_l, N.mul_1_r in H0. lia.
Qed.

Lemma aligned_of_mult a n : a mod W = 0 -> a <= n < a + W -> aligned n = a.
Proof.
  intros Ha Hn.
  pose proof (aligned_le n). pose proof (aligned_lt n). pose proof (aligned_mod n).
  destruct (N.lt_trichotomy (aligned n) a) as [Hl | [He | Hg]]; auto.
  - pose proof (mult_gap _ _ H1 Ha Hl). lia.
  - pose proof (mult_gap _ _ Ha H1 Hg). lia.
Qed.

Lemma aligned_idem n : n mod W = 0 -> aligned n = n.
Proof. intros. apply aligned_of_mult; auto. lia. Qed.

(* ---------- invariants ---------- *)
Definition covers (w : window) (ch : list block) (a b : N) : Prop :=
  forall n, a <= n < b -> forall k, In k (block_keys (nthN n ch [])) -> In k (col w n).

(* disk: every complete window below the head's window is persisted and records its blocks *)
Definition disk_inv (s : state) : Prop :=
  forall ws, ws mod W = 0 -> ws + W <= lenN (chain s) ->
    exists w, lookup ws (persisted s) = Some w /\ w_from w = ws /\ covers w (chain s) ws (ws + W).

(* memory: the running window is the window of the next block and records the blocks below it *)
Definition run_inv (s : state) : Prop :=
  exists w nx, running s = Ready w nx /\ nx = lenN (chain s) /\ w_from w = aligned nx /\
               covers w (chain s) (w_from w) nx.

(* disk: persisted windows are keyed by aligned block numbers and lie entirely below the head *)
Definition keys_inv (s : state) : Prop :=
  forall k pw, lookup k (persisted s) = Some pw -> k mod W = 0 /\ k + W <= lenN (chain s).

Definition rinv (s : state) : Prop := disk_inv s /\ keys_inv s /\ run_inv s.

Definition cache_fresh (s : state) : Prop :=
  forall ws c, lookup ws (cache s) = Some c -> lookup ws (persisted s) = Some c.

(* ---------- the candidate test never rejects a block holding a matching event ---------- *)
Lemma existsb_eqb_In k l : existsb (N.eqb k) l = true -> In k l.
Proof.
  intros H. apply existsb_exists in H. destruct H as [x [Hx He]]. apply N.eqb_eq in He. subst. auto.
Qed.

Lemma keys_sound ks : forall fk ek i,
  (forall k, In k (mapi_from (fun i k => KKey i k) i ek) -> In k ks) ->
  keys_match fk ek = true ->
  forallb_from (fun i alts => match alts with [] => true
                              | _ => existsb (fun k => member ks (KKey i k)) alts end) i fk = true.
Proof.
  induction fk as [| alts fk IH]; intros ek i Hin Hm; simpl; auto.
  destruct ek as [| k ek]; simpl in Hm; try discriminate.
  apply andb_true_iff in Hm. destruct Hm as [Ha Hm].
  apply andb_true_iff. split.
  - destruct alts as [| a0 alts']; auto.
    unfold alt_ok in Ha. apply existsb_eqb_In in Ha.
    apply existsb_exists. exists k. split; auto.
    apply bloom_sound. apply Hin. simpl. auto.
  - apply (IH ek). 2: exact Hm. intros k' Hk'. apply Hin. simpl. auto.
Qed.

Lemma cand_test_sound ks flt e :
  (forall k, In k (event_keys e) -> In k ks) ->
  ev_matches flt e = true -> cand_test member ks flt = true.
Proof.
  intros Hin Hm. unfold ev_matches in Hm. apply andb_true_iff in Hm. destruct Hm as [Ha Hk].
  unfold cand_test. apply andb_true_iff. split.
  - unfold addr_match in Ha. destruct (f_addrs flt) as [| a0 l] eqn:E; auto.
    apply existsb_eqb_In in Ha. apply existsb_exists. exists (ev_from e). split; auto.
    apply bloom_sound. apply Hin. simpl. auto.
  - apply (keys_sound ks (f_keys flt) (ev_keys e) 0); auto.
    intros k Hk'. apply Hin. simpl. auto.
Qed.

Lemma in_mapi_from {A B} (f : N -> A -> B) : forall l i y,
  In y (mapi_from f i l) -> exists j x, In x l /\ y = f j x.
Proof.
  induction l as [| x l IH]; simpl; intros i y H; [contradiction |].
  destruct H as [H | H].
  - exists i, x. auto.
  - destruct (IH _ _ H) as [j [x' [Hx Hy]]]. exists j, x'. auto.
Qed.

Lemma in_flat_block n b x : In x (flat_block n b) -> exists t, In t b /\ In (fe_ev x) t.
Proof.
  unfold flat_block. intros H. apply in_concat in H. destruct H as [l [Hl Hx]].
  apply in_mapi_from in Hl. destruct Hl as [ti [t [Ht Hl]]]. subst l.
  apply in_mapi_from in Hx. destruct Hx as [ei [e [He Hx]]]. subst x. simpl.
  exists t. auto.
Qed.

Lemma block_keys_event b t e k : In t b -> In e t -> In k (event_keys e) -> In k (block_keys b).
Proof.
  intros. unfold block_keys. apply in_flat_map. exists t. split; auto.
  apply in_flat_map. exists e. auto.
Qed.

(* a block with a matching event passes the candidate test on any column recording its keys *)
Lemma block_candidate n b ks flt :
  (forall k, In k (block_keys b) -> In k ks) ->
  filter (fev_matches flt) (flat_block n b) <> [] -> cand_test member ks flt = true.
Proof.
  intros Hin Hne.
  destruct (filter (fev_matches flt) (flat_block n b)) as [| x l] eqn:E; [contradiction |].
  assert (Hx : In x (filter (fev_matches flt) (flat_block n b))) by (rewrite E; simpl; auto).
  apply filter_In in Hx. destruct Hx as [Hx Hm].
  apply in_flat_block in Hx. destruct Hx as [t [Ht He]].
  apply (cand_test_sound ks flt (fe_ev x)); auto.
  intros k Hk. apply Hin. eapply block_keys_event; eauto.
Qed.

(* ---------- no false negative at state level ---------- *)
Lemma lookup_window_covers s n :
  rinv s -> cache_fresh s -> n < lenN (chain s) ->
  exists w, lookup_window s (aligned n) = Some w /\
            forall k, In k (block_keys (nthN n (chain s) [])) -> In k (col w n).
Proof.
  intros [Hd [_ [w [nx [Hr [Hnx [Hf Hc]]]]]]] Hfresh Hn.
  unfold lookup_window. rewrite Hr.
  destruct (w_from w =? aligned n) eqn:E.
  - apply N.eqb_eq in E. exists w. split; auto. apply Hc. pose proof (aligned_le n). lia.
  - apply N.eqb_neq in E.
    assert (Hlt : aligned n < w_from w).
    { rewrite Hf. pose proof (aligned_mono n nx). rewrite Hf in E. lia. }
    assert (Hgap : aligned n + W <= w_from w).
    { apply mult_gap; auto using aligned_mod. rewrite Hf. apply aligned_mod. }
    assert (Hle : w_from w <= lenN (chain s)) by (rewrite Hf, <- Hnx; apply aligned_le).
    destruct (Hd (aligned n) (aligned_mod n)) as [pw [Hp [Hpf Hpc]]]; [lia |].
    assert (Hin : forall k, In k (block_keys (nthN n (chain s) [])) -> In k (col pw n)).
    { apply Hpc. pose proof (aligned_le n). pose proof (aligned_lt n). lia. }
    destruct (lookup (aligned n) (cache s)) as [c |] eqn:Ec.
    + apply Hfresh in Ec. rewrite Hp in Ec. inversion Ec. subst c. exists pw. auto.
    + exists pw. auto.
Qed.

Lemma no_false_negative_state s flt n :
  rinv s -> cache_fresh s -> n < lenN (chain s) ->
  exists c, cand_item W member s flt n = Some c /\
            (c = false -> block_matches (chain s) flt n = []).
Proof.
  intros Hi Hf Hn. destruct (lookup_window_covers s n Hi Hf Hn) as [w [Hw Hin]].
  unfold cand_item. rewrite Hw. eexists. split; [reflexivity |].
  intros Hc. unfold block_matches.
  destruct (filter (fev_matches flt) (flat_block n (nthN n (chain s) []))) eqn:E; auto.
  assert (cand_test member (col w n) flt = true).
  { eapply block_candidate; eauto. rewrite E. discriminate. }
  congruence.
Qed.

End P.
