(* C09 — lemmas, part 5: paging across the canonical / pre-confirmed border; page size, scan limit and
   the progress measure of continuation tokens. *)
From Coq Require Import List NArith Bool Lia ZifyN ZifyNat ZifyBool.
From V Require Import C09.Model C09.Proofs C09.Proofs_paging.
Import ListNotations.
Open Scope N_scope.

Lemma lenN_app2 {A} (a b : list A) : lenN (a ++ b) = lenN a + lenN b.
Proof. unfold lenN. rewrite app_length. lia. Qed.

Lemma lenN_cons {A} (x : A) l : lenN (x :: l) = N.succ (lenN l).
Proof. unfold lenN. simpl. lia. Qed.

Lemma lenN_zero {A} (l : list A) : lenN l = 0 -> l = [].
Proof. destruct l; auto. unfold lenN. simpl. lia. Qed.

Lemma rangeN_length a b : length (rangeN a b) = N.to_nat (N.succ b - a).
Proof. unfold rangeN. apply seqN_length. Qed.

Lemma seqN_prefix : forall (pre : list N) k a rest, seqN a k = pre ++ rest -> pre = seqN a (length pre).
Proof.
  induction pre as [| x pre IH]; intros k a rest H; simpl; auto.
  destruct k as [| k]; simpl in H; [discriminate |]. inversion H. subst x. f_equal. eapply IH; eauto.
Qed.

(* rangeN a b = pre ++ n :: suf with pre <> []: pre is the range a .. n-1 *)
Lemma rangeN_prefix a b pre n suf :
  rangeN a b = pre ++ n :: suf -> n = a + N.of_nat (length pre) /\ (pre <> [] -> pre = rangeN a (n - 1)).
Proof.
  unfold rangeN. intros H. pose proof (seqN_split _ _ _ _ _ H) as [Hn [_ _]]. split; auto.
  intros Hne. pose proof (seqN_prefix _ _ _ _ H) as Hp. rewrite Hp at 1. f_equal.
  assert (0 < length pre)%nat by (destruct pre; [contradiction | simpl; lia]). lia.
Qed.

Lemma filter_skipn_nil {A} (f : A -> bool) : forall k l, filter f l = [] -> filter f (skipn k l) = [].
Proof.
  induction k as [| k IH]; intros l H; simpl; auto. destruct l as [| x l]; auto.
  simpl in H. destruct (f x); [discriminate |]. apply IH. auto.
Qed.

(* AppendBlockEvents never appends more than the room left in the chunk *)
Lemma take_len flt : forall l pos room t s, take flt l pos room = (t, s) -> lenN t <= room.
Proof.
  induction l as [| e l IH]; intros pos room t s H; simpl in H.
  - inversion H. unfold lenN. simpl. lia.
  - destruct (fev_matches flt e).
    + destruct (room =? 0) eqn:Er.
      * inversion H. unfold lenN. simpl. lia.
      * apply N.eqb_neq in Er. destruct (take flt l (N.succ pos) (room - 1)) as [t' s'] eqn:E.
        inversion H. subst. apply IH in E. rewrite lenN_cons. lia.
    + eapply IH; eauto.
Qed.

Definition take_spec' (flt : efilter) := take_spec (fun _ => None) (fun _ => []) flt.

Ltac inv_scan H :=
  match type of H with
  | (Some (?a, ?b), ?c) = (Some (?x, ?y), ?z) =>
      let H1 := fresh in let H2 := fresh in
      assert (x = a /\ y = b) as [H1 H2] by (inversion H; auto); subst x y; clear H
  end.

(* ---------- the shape of one canonical scan: size of the page, kind of token ---------- *)
Section Shape.
Variable ci : N -> option bool.
Variable bev : N -> list fev.
Variable flt : efilter.
Variable limit : N.

Definition ncand (bs : list N) : N := lenN (filter (fun n => is_cand (ci n)) bs).

Lemma scanq_shape : forall bs scanned skip room last evs tok stop,
  scanq ci bev flt limit bs scanned skip room last = (Some (evs, tok), stop) ->
  (0 < limit -> scanned <= limit) ->
  lenN evs <= room /\
  (tok = (0, 0) \/
   exists pre n suf p, bs = pre ++ n :: suf /\ tok = (n, p) /\
     ((* chunk full inside block n *)
      (lenN evs = room /\ (pre = [] -> exists k : nat, p = skip + N.of_nat k /\ (0 < room -> (0 < k)%nat)))
      \/ (* scan limit hit at candidate n *)
      (0 < limit /\ p = 0 /\ scanned + ncand pre = limit))).
Proof.
  induction bs as [| n rest IH]; intros scanned skip room last evs tok stop H Hinv.
  - simpl in H. inversion H. subst. split; [unfold lenN; simpl; lia | left; auto].
  - cbn [scanq] in H. destruct (ci n) as [[|] |] eqn:Hc; [| | discriminate].
    + destruct ((0 <? limit) && (limit <=? scanned)) eqn:El.
      * inv_scan H. split; [unfold lenN; simpl; lia |].
        right. exists [], n, rest, 0. split; auto. split; auto. right.
        apply andb_true_iff in El. destruct El as [E1 E2].
        apply N.ltb_lt in E1. apply N.leb_le in E2. specialize (Hinv E1).
        unfold ncand. simpl. unfold lenN. simpl. lia.
      * assert (Hinv' : 0 < limit -> N.succ scanned <= limit).
        { intros Hl. apply andb_false_iff in El. destruct El as [El | El].
          - apply N.ltb_ge in El. lia.
          - apply N.leb_gt in El. lia. }
        pose proof (take_spec' flt (skipN skip (bev n)) skip room) as Ht.
        destruct (take flt (skipN skip (bev n)) skip room) as [t [p |]] eqn:Et.
        -- inv_scan H. destruct Ht as [k [Hp [Happ [Hlen Hk]]]].
           split; [lia |]. right. exists [], n, rest, p. split; auto. split; auto. left.
           split; auto. intros _. exists k. auto.
        -- pose proof (take_len _ _ _ _ _ _ Et) as Hlt.
           destruct (scanq ci bev flt limit rest (N.succ scanned) 0 (room - lenN t) last)
             as [[[t' tok'] |] stop'] eqn:Er; [| discriminate]. inv_scan H.
           destruct (IH _ _ _ _ _ _ _ Er Hinv') as [Hl Hd].
           split; [rewrite lenN_app2; lia |].
           destruct Hd as [Hd | [pre [n' [suf [p [Hbs [Htok Hk]]]]]]]; [left; auto |].
           right. exists (n :: pre), n', suf, p. split; [rewrite Hbs; reflexivity |]. split; auto.
           destruct Hk as [[Hfull _] | [Hlim [Hp Hcnt]]].
           ++ left. split; [rewrite lenN_app2; lia | intros; discriminate].
           ++ right. split; auto. split; auto.
              unfold ncand in *. simpl. rewrite Hc. simpl. rewrite lenN_cons. lia.
    + destruct (IH _ _ _ _ _ _ _ H Hinv) as [Hl Hd]. split; auto.
      destruct Hd as [Hd | [pre [n' [suf [p [Hbs [Htok Hk]]]]]]]; [left; auto |].
      right. exists (n :: pre), n', suf, p. split; [rewrite Hbs; reflexivity |]. split; auto.
      destruct Hk as [[Hfull _] | [Hlim [Hp Hcnt]]].
      * left. split; auto. intros; discriminate.
      * right. split; auto. split; auto. unfold ncand in *. simpl. rewrite Hc. simpl. auto.
Qed.

End Shape.

(* ---------- the pre-confirmed tail ---------- *)
Lemma scanp_len member flt : forall pre n start to skip room t tok,
  scanp member flt pre n start to skip room = (t, tok) ->
  lenN t <= room /\ (tok = (0, 0) \/ lenN t = room).
Proof.
  induction pre as [| b rest IH]; intros n start to skip room t tok H; simpl in H.
  - inversion H. split; [unfold lenN; simpl; lia | left; auto].
  - destruct (n <? start); [eapply IH; eauto |].
    destruct (to <? n); [inversion H; split; [unfold lenN; simpl; lia | left; auto] |].
    destruct (negb (cand_test member (block_keys b) flt)); [eapply IH; eauto |].
    pose proof (take_spec' flt (skipN skip (flat_block n b)) skip room) as Ht.
    destruct (take flt (skipN skip (flat_block n b)) skip room) as [t0 [p |]] eqn:Et.
    + inversion H. subst. destruct Ht as [k [_ [_ [Hlen _]]]]. split; [lia | right; auto].
    + pose proof (take_len _ _ _ _ _ _ Et) as Hlt.
      destruct (scanp member flt rest (N.succ n) start to 0 (room - lenN t0)) as [t' tok'] eqn:Er.
      inversion H. subst. destruct (IH _ _ _ _ _ _ _ Er) as [Hl Hd]. rewrite lenN_app2.
      split; [lia |]. destruct Hd; [left; auto | right; lia].
Qed.

Section PreTail.
Variable member : list bkey -> bkey -> bool.
Hypothesis bloom_sound : forall ks k, In k ks -> member ks k = true.
Variable flt : efilter.
Notation m := (fev_matches flt).

(* what remains to be returned from the pre-confirmed blocks pre (numbered n, n+1, ...) when the scan
   resumes at block start with skip events of it done *)
Fixpoint prem (pre : list block) (n start to skip : N) : list fev :=
  match pre with
  | [] => []
  | b :: rest =>
      if n <? start then prem rest (N.succ n) start to skip
      else if to <? n then []
      else filter m (skipN skip (flat_block n b)) ++ prem rest (N.succ n) start to 0
  end.

Lemma prem_low : forall pre n s1 s2 to sk, s1 <= n -> s2 <= n -> prem pre n s1 to sk = prem pre n s2 to sk.
Proof.
  induction pre as [| b rest IH]; intros n s1 s2 to sk H1 H2; simpl; auto.
  assert (E1 : n <? s1 = false) by (apply N.ltb_ge; lia).
  assert (E2 : n <? s2 = false) by (apply N.ltb_ge; lia).
  rewrite E1, E2. destruct (to <? n); auto. f_equal. apply IH; lia.
Qed.

Lemma pre_matches_beyond : forall pre n start to, to < n -> pre_matches flt pre n start to = [].
Proof.
  induction pre as [| b rest IH]; intros n start to H; simpl; auto.
  assert (E : n <=? to = false) by (apply N.leb_gt; lia).
  rewrite E, andb_false_r. simpl. apply IH. lia.
Qed.

Lemma prem_zero : forall pre n start to, prem pre n start to 0 = pre_matches flt pre n start to.
Proof.
  induction pre as [| b rest IH]; intros n start to; simpl; auto.
  destruct (n <? start) eqn:E1.
  - apply N.ltb_lt in E1. assert (E : start <=? n = false) by (apply N.leb_gt; lia).
    rewrite E. simpl. apply IH.
  - apply N.ltb_ge in E1. assert (E : start <=? n = true) by (apply N.leb_le; lia). rewrite E.
    destruct (to <? n) eqn:E2.
    + apply N.ltb_lt in E2. assert (E' : n <=? to = false) by (apply N.leb_gt; lia). rewrite E'.
      simpl. symmetry. apply pre_matches_beyond. lia.
    + apply N.ltb_ge in E2. assert (E' : n <=? to = true) by (apply N.leb_le; lia). rewrite E'.
      simpl. unfold skipN. simpl. f_equal. apply IH.
Qed.

Lemma scanp_spec : forall pre n start to skip room t tok,
  scanp member flt pre n start to skip room = (t, tok) ->
  0 < n ->
  lenN t <= room /\
  ((tok = (0, 0) /\ t = prem pre n start to skip) \/
   (exists mb p, tok = (mb, p) /\ tok_none tok = false /\ n <= mb /\ start <= mb /\ mb <= to /\
      mb < n + lenN pre /\
      t ++ prem pre n mb to p = prem pre n start to skip /\ lenN t = room /\
      ((0 < room \/ start < n) -> tok_lt (start, skip) (mb, p) = true))).
Proof.
  induction pre as [| b rest IH]; intros n start to skip room t tok H Hn.
  - simpl in H. inversion H. split; [unfold lenN; simpl; lia | left; auto].
  - simpl in H. cbn [prem]. destruct (n <? start) eqn:E1.
    + apply N.ltb_lt in E1.
      destruct (IH _ _ _ _ _ _ _ H) as [Hl Hd]; [lia |]. split; auto.
      destruct Hd as [Hd | [mb [p [Htok [Hnone [H1 [H2 [H3 [H4 [Happ [Hlen Hlt]]]]]]]]]]]; [left; auto |].
      right. exists mb, p. rewrite lenN_cons.
      assert (E : n <? mb = true) by (apply N.ltb_lt; lia). rewrite E.
      repeat split; auto; try lia. all: try (intros _; apply Hlt; lia).
    + apply N.ltb_ge in E1. destruct (to <? n) eqn:E2.
      * inversion H. split; [unfold lenN; simpl; lia | left; auto].
      * apply N.ltb_ge in E2.
        destruct (negb (cand_test member (block_keys b) flt)) eqn:E3.
        -- apply negb_true_iff in E3.
           assert (Hnil : filter m (flat_block n b) = []).
           { destruct (filter m (flat_block n b)) eqn:Ef; auto.
             assert (cand_test member (block_keys b) flt = true).
             { apply (block_candidate member bloom_sound n b (block_keys b) flt); auto.
               rewrite Ef. discriminate. }
             congruence. }
           assert (Hnil' : filter m (skipN skip (flat_block n b)) = []).
           { unfold skipN. apply filter_skipn_nil. auto. }
           rewrite Hnil'. simpl.
           destruct (IH _ _ _ _ _ _ _ H) as [Hl Hd]; [lia |]. split; auto.
           destruct Hd as [Hd | [mb [p [Htok [Hnone [H1 [H2 [H3 [H4 [Happ [Hlen Hlt]]]]]]]]]]]; [left; auto |].
           right. exists mb, p. rewrite lenN_cons.
           assert (E : n <? mb = true) by (apply N.ltb_lt; lia). rewrite E.
           repeat split; auto; try lia. all: try (intros _; unfold tok_lt; simpl).
           all: try (assert (E' : start <? mb = true) by (apply N.ltb_lt; lia); rewrite E'; reflexivity).
        -- pose proof (take_spec' flt (skipN skip (flat_block n b)) skip room) as Ht.
           destruct (take flt (skipN skip (flat_block n b)) skip room) as [t0 [p |]] eqn:Et.
           ++ inversion H. subst t0 tok. destruct Ht as [k [Hp [Happ [Hlen Hk]]]].
              split; [lia |]. right. exists n, p. rewrite lenN_cons.
              assert (E : n <? n = false) by (apply N.ltb_ge; lia). rewrite E.
              repeat split; auto; try lia.
              ** unfold tok_none. simpl. destruct (n =? 0) eqn:En; auto. apply N.eqb_eq in En. lia.
              ** rewrite app_assoc. f_equal.
                 --- rewrite <- Happ. f_equal. f_equal. unfold skipN. rewrite skipn_skipn'. f_equal. lia.
                 --- apply prem_low; lia.
              ** intros Hor. unfold tok_lt. simpl.
                 destruct (N.eq_dec start n) as [He | He].
                 --- subst start. rewrite N.eqb_refl.
                     assert (0 < room) by (destruct Hor; [auto | lia]). specialize (Hk H0).
                     assert (E'' : skip <? p = true) by (apply N.ltb_lt; lia). rewrite E''.
                     apply orb_true_r.
                 --- assert (E'' : start <? n = true) by (apply N.ltb_lt; lia). rewrite E''. reflexivity.
           ++ subst t0. pose proof (take_len _ _ _ _ _ _ Et) as Hlt0.
              destruct (scanp member flt rest (N.succ n) start to 0
                          (room - lenN (filter m (skipN skip (flat_block n b))))) as [t' tok'] eqn:Er.
              inversion H. subst t tok.
              destruct (IH _ _ _ _ _ _ _ Er) as [Hl Hd]; [lia |].
              split; [rewrite lenN_app2; lia |].
              destruct Hd as [[Htok Hev] | [mb [p [Htok [Hnone [H1 [H2 [H3 [H4 [Happ [Hlen Hlt]]]]]]]]]]].
              ** left. split; auto. rewrite Hev. reflexivity.
              ** right. exists mb, p. rewrite lenN_cons.
                 assert (E : n <? mb = true) by (apply N.ltb_lt; lia). rewrite E.
                 repeat split; auto; try lia.
                 --- rewrite <- app_assoc, Happ. reflexivity.
                 --- rewrite lenN_app2. lia.
                 --- intros _. unfold tok_lt. simpl.
                     assert (E' : start <? mb = true) by (apply N.ltb_lt; lia). rewrite E'. reflexivity.
Qed.

End PreTail.

(* ---------- one canonical page, for any resume position ---------- *)
Section Border.
Variable W : N.
Hypothesis Wpos : 0 < W.
Variable member : list bkey -> bkey -> bool.
Hypothesis bloom_sound : forall ks k, In k ks -> member ks k = true.
Variable s : state.
Variable flt : efilter.
Variables from to chunk limit : N.
Variable pre : list block.
Hypothesis chunk_pos : 0 < chunk.

Notation ci := (cand_item W member s flt).
Notation bev := (fun n => flat_block n (nthN n (chain s) [])).
Notation latest := (lenN (chain s) - 1).
Notation to' := (N.min to latest).
Notation E := (N.min to (latest + lenN pre)).
Notation m := (fev_matches flt).

Hypothesis chain_ne : chain s <> [].
Hypothesis ready : exists w nx, running s = Ready w nx.
Hypothesis ci_good : forall n, n <= latest ->
  exists c, ci n = Some c /\ (c = false -> filter m (bev n) = []).
(* block numbers are uint64 *)
Hypothesis u64 : lenN (chain s) + lenN pre <= sentinel + 1.

Definition remc (start skip : N) : list fev := rem bev flt (rangeN start to') skip.

Lemma lenN_chain_pos : 0 < lenN (chain s).
Proof. destruct (chain s); [contradiction | rewrite lenN_cons; lia]. Qed.

Lemma canon_page : forall s' tok start skip T,
  same_view s s' -> N.min T latest = to' ->
  ((tok = (0, 0) /\ start = from /\ skip = 0) \/
   (tok = (start, skip) /\ tok_none tok = false /\ (start <= to' -> ci start = Some true))) ->
  exists s'' evs tok',
    do_query W member s' flt from T chunk limit tok = (s'', OPage evs tok') /\ same_view s s'' /\
    lenN evs <= chunk /\
    ((tok' = (0, 0) /\ evs = remc start skip) \/
     (exists n p, tok' = (n, p) /\ tok_none tok' = false /\ start <= n /\ n <= to' /\ ci n = Some true /\
        evs ++ remc n p = remc start skip /\
        (evs <> [] \/ start < n) /\
        tok_lt (start, skip) (n, p) = true /\
        (evs = [] -> 0 < limit /\ p = 0 /\
                     lenN (filter (fun x => is_cand (ci x)) (rangeN start (n - 1))) = limit))).
Proof.
  intros s' tok start skip T Hv HT Htok.
  unfold do_query. destruct Hv as [Hch [Hrun Hlw]].
  rewrite Hch. destruct (chain s) as [| b0 chs] eqn:Echain; [contradiction |]. rewrite <- Echain in *.
  assert (Hstart : (if tok_none tok then from else fst tok) = start /\ snd tok = skip).
  { destruct Htok as [[-> [-> ->]] | [-> [Hn _]]]; simpl; auto. rewrite Hn. auto. }
  destruct Hstart as [Hs1 Hs2]. rewrite Hs1, Hs2, HT.
  destruct (to' <? start) eqn:Elt.
  - apply N.ltb_lt in Elt. exists s', [], (0, 0). split; auto. split; [repeat split; auto |].
    split; [unfold lenN; simpl; lia |]. left. split; auto.
    unfold remc. rewrite rangeN_empty by lia. reflexivity.
  - apply N.ltb_ge in Elt.
    rewrite (walk_blocks_eq W Wpos start to') by lia.
    destruct ready as [w [nx Hr]].
    assert (He : ensure W s' = s') by (unfold ensure; rewrite Hrun, Hr; reflexivity).
    rewrite He, Hrun, Hr.
    assert (Hci_eq : forall n, cand_item W member s' flt n = ci n).
    { intros n. apply same_view_cand. repeat split; auto. }
    rewrite Hch.
    rewrite (scanq_ext (cand_item W member s' flt) ci _ flt limit Hci_eq).
    destruct (scanq_spec ci bev flt limit (rangeN start to') 0 skip chunk to')
      as [evs [tok' [stop [Hq Hres]]]].
    + intros n Hn. apply rangeN_in in Hn. apply ci_good. lia.
    + destruct Htok as [[_ [_ ->]] | [_ [_ Hc]]]; auto.
      right. unfold rangeN.
      destruct (N.to_nat (N.succ to' - start)) eqn:En; [lia |]. simpl. exists start, (seqN (N.succ start) n).
      split; auto.
    + split; [apply seqN_tl_nz | intros; lia].
    + auto.
    + auto.
    + rewrite Hq.
      assert (Hshape := scanq_shape ci bev flt limit _ _ _ _ _ _ _ _ Hq).
      destruct Hshape as [Hlen Hshape]; [intros; lia |].
      exists (cache_after W s' start stop), evs, tok'. split; auto.
      split; [eapply same_view_trans; [| apply cache_after_view]; repeat split; auto |].
      split; auto.
      destruct Hres as [[-> ->] | [n [p [pr [suf [Htk [Hnone [Hbs [Hcn [Happ Hprog]]]]]]]]]].
      * left. auto.
      * right. exists n, p.
        destruct (rangeN_split _ _ _ _ _ Hbs) as [Hrange _].
        destruct (rangeN_prefix _ _ _ _ _ Hbs) as [Hn Hpr].
        assert (Hin : In n (rangeN start to')) by (rewrite Hbs; apply in_or_app; right; simpl; auto).
        apply rangeN_in in Hin.
        assert (Hlex : forall q, pr <> [] -> tok_lt (start, skip) (n, q) = true).
        { intros q Hne. unfold tok_lt. simpl.
          assert (0 < length pr)%nat by (destruct pr; [contradiction | simpl; lia]).
          assert (E1 : start <? n = true) by (apply N.ltb_lt; lia). rewrite E1. reflexivity. }
        split; auto. split; auto. split; [lia |]. split; [lia |]. split; auto.
        split; [unfold remc; rewrite Hrange; auto |].
        split.
        { destruct Hprog as [Hp | [Hp | Hp]]; [left; auto | | contradiction].
          right. assert (0 < length pr)%nat by (destruct pr; [contradiction | simpl; lia]). lia. }
        destruct Hshape as [Hz | [pr2 [n2 [suf2 [p2 [Hbs2 [Htk2 Hk]]]]]]].
        { subst tok'. rewrite Hz in Hnone. discriminate. }
        assert (n2 = n /\ p2 = p) as [-> ->] by (rewrite Htk in Htk2; inversion Htk2; auto).
        destruct (rangeN_prefix _ _ _ _ _ Hbs2) as [Hn2 Hpr2].
        destruct Hk as [[Hfull Hk] | [Hlim [Hp0 Hcnt]]].
        -- split.
           ++ destruct pr2 as [| x pr2'].
              ** destruct (Hk eq_refl) as [k [Hpk Hkpos]]. specialize (Hkpos chunk_pos).
                 simpl in Hn2. unfold tok_lt. simpl.
                 assert (E1 : start =? n = true) by (apply N.eqb_eq; lia).
                 assert (E2 : skip <? p = true) by (apply N.ltb_lt; lia).
                 rewrite E1, E2. apply orb_true_r.
              ** unfold tok_lt. simpl. simpl in Hn2.
                 assert (E1 : start <? n = true) by (apply N.ltb_lt; lia). rewrite E1. reflexivity.
           ++ intros ->. unfold lenN in Hfull. simpl in Hfull. lia.
        -- assert (Hne : pr2 <> []).
           { intros ->. unfold ncand, lenN in Hcnt. simpl in Hcnt. lia. }
           split.
           ++ unfold tok_lt. simpl.
              assert (0 < length pr2)%nat by (destruct pr2; [contradiction | simpl; lia]).
              assert (E1 : start <? n = true) by (apply N.ltb_lt; lia). rewrite E1. reflexivity.
           ++ intros _. split; auto. split; auto. rewrite <- (Hpr2 Hne). unfold ncand in Hcnt. lia.
Qed.

(* ---------- the pre-confirmed phase: one page, then all pages ---------- *)
Lemma latest_lt_sentinel : pre <> [] -> latest < sentinel.
Proof.
  intros Hne. assert (0 < lenN pre) by (destruct pre; [contradiction | rewrite lenN_cons; lia]).
  pose proof lenN_chain_pos. lia.
Qed.

Lemma pre_page : forall s' mb p,
  same_view s s' -> pre <> [] -> latest < to -> latest < mb -> mb <= latest + lenN pre ->
  do_query_pre W member s' flt from to chunk limit (mb, p) pre =
    (s', let (evp, tp) := scanp member flt pre (latest + 1) mb to p chunk in OPage evp tp).
Proof.
  intros s' mb p [Hch _] Hne Hto Hmb Hmb2.
  unfold do_query_pre, do_query. rewrite Hch.
  destruct (chain s) as [| b0 chs] eqn:Echain; [contradiction |]. rewrite <- Echain in *.
  destruct pre as [| pb prest] eqn:Epre; [contradiction |]. rewrite <- Epre in *.
  assert (E1 : to <=? latest = false) by (apply N.leb_gt; lia). rewrite E1.
  assert (Hnone : tok_none (mb, p) = false).
  { unfold tok_none. simpl. destruct (mb =? 0) eqn:E0; auto. apply N.eqb_eq in E0. lia. }
  rewrite Hnone. cbn [fst snd].
  assert (E2 : N.min latest latest <? mb = true) by (apply N.ltb_lt; lia). rewrite E2.
  change (tok_none (0, 0)) with true. cbn [negb].
  assert (E3 : mb <=? latest = false) by (apply N.leb_gt; lia). rewrite E3.
  assert (E4 : (if mb =? sentinel then latest + lenN pre else mb) = mb).
  { destruct (mb =? sentinel) eqn:E5; auto. apply N.eqb_eq in E5. pose proof lenN_chain_pos. lia. }
  rewrite E4.
  replace (chunk - lenN (@nil fev)) with chunk by (unfold lenN; simpl; lia).
  destruct (scanp member flt pre (latest + 1) mb to p chunk) as [evp tp]. reflexivity.
Qed.

Notation prem := (prem flt).

Lemma pre_pages : forall fuel s' mb p,
  same_view s s' -> pre <> [] -> latest < to -> latest < mb -> mb <= E ->
  (length (rangeN mb E) + length (prem pre (latest + 1) mb to p) <= fuel)%nat ->
  exists ps, page_seq W member fuel s' flt from to chunk limit (mb, p) pre = Some ps /\
    concat (map fst ps) = prem pre (latest + 1) mb to p /\
    (length ps <= length (rangeN mb E) + length (prem pre (latest + 1) mb to p))%nat /\
    pages_ok chunk limit (mb, p) (page_sizes ps) = true.
Proof.
  induction fuel as [| fuel IH]; intros s' mb p Hv Hne Hto Hmb HmbE Hfuel.
  - rewrite rangeN_length in Hfuel. lia.
  - cbn [page_seq]. rewrite pre_page by (auto; lia).
    destruct (scanp member flt pre (latest + 1) mb to p chunk) as [evp tp] eqn:Es.
    destruct (scanp_spec member bloom_sound flt _ _ _ _ _ _ _ _ Es) as [Hl Hd]; [lia |].
    destruct Hd as [[-> ->] | [mb' [p' [-> [Hnone [H1 [H2 [H3 [H4 [Happ [Hlen Hlt]]]]]]]]]]].
    + change (tok_none (0, 0)) with true. cbv iota.
      exists [(prem pre (latest + 1) mb to p, (0, 0))]. split; auto.
      split; [simpl; apply app_nil_r |]. split; [simpl; rewrite rangeN_length; lia |].
      simpl. unfold page_chunk_ok, page_empty_ok, page_progress_ok. simpl.
      apply N.leb_le in Hl. rewrite Hl. rewrite orb_true_r. reflexivity.
    + rewrite Hnone.
      assert (Hpos : (0 < length evp)%nat).
      { unfold lenN in Hlen. lia. }
      destruct (IH s' mb' p') as [ps [Hps [Hcat [Hcnt Hok]]]]; auto; try lia.
      { rewrite <- Happ in Hfuel. rewrite app_length in Hfuel.
        rewrite !rangeN_length in *. lia. }
      rewrite Hps. exists ((evp, (mb', p')) :: ps). split; auto.
      split; [simpl; rewrite Hcat; auto |].
      split.
      { rewrite <- Happ. rewrite app_length. simpl. rewrite !rangeN_length in *. lia. }
      simpl. rewrite Hok. unfold page_chunk_ok, page_empty_ok, page_progress_ok. simpl.
      rewrite Hlen, N.leb_refl. rewrite (Hlt (or_introl chunk_pos)).
      assert (Ez : chunk =? 0 = false) by (apply N.eqb_neq; lia). rewrite Ez. simpl.
      rewrite orb_true_r. reflexivity.
Qed.

(* ---------- one page of do_query_pre from a canonical position ---------- *)
Definition PREall : list fev := prem pre (latest + 1) 0 to 0.

Lemma dqp_direct s' tok : chain s' = chain s -> (pre = [] \/ to <= latest) ->
  do_query_pre W member s' flt from to chunk limit tok pre = do_query W member s' flt from to chunk limit tok.
Proof.
  intros Hch Hc. unfold do_query_pre. rewrite Hch.
  destruct (chain s) as [| b0 chs] eqn:Echain; [contradiction |]. rewrite <- Echain in *.
  destruct pre as [| pb prest] eqn:Epre; auto. rewrite <- Epre in *.
  destruct Hc as [Hc | Hc]; [rewrite Epre in Hc; discriminate |].
  assert (E1 : to <=? latest = true) by (apply N.leb_le; lia). rewrite E1. reflexivity.
Qed.

Lemma PREall_nil : (pre = [] \/ to <= latest) -> PREall = [].
Proof.
  intros Hc. unfold PREall. destruct pre as [| pb prest] eqn:Epre; auto.
  destruct Hc as [Hc | Hc]; [discriminate |]. simpl.
  assert (E1 : latest + 1 <? 0 = false) by (apply N.ltb_ge; lia).
  assert (E2 : to <? latest + 1 = true) by (apply N.ltb_lt; lia).
  rewrite E1, E2. reflexivity.
Qed.

Lemma border_page : forall s' tok start skip,
  same_view s s' -> (start <= latest \/ pre = [] \/ to <= latest) ->
  ((tok = (0, 0) /\ start = from /\ skip = 0) \/
   (tok = (start, skip) /\ tok_none tok = false /\ (start <= to' -> ci start = Some true))) ->
  exists s'' evs tok',
    do_query_pre W member s' flt from to chunk limit tok pre = (s'', OPage evs tok') /\ same_view s s'' /\
    lenN evs <= chunk /\
    ((tok' = (0, 0) /\ evs = remc start skip ++ PREall) \/
     (exists n p, tok' = (n, p) /\ tok_none tok' = false /\ start <= n /\ n <= to' /\ ci n = Some true /\
        evs ++ remc n p = remc start skip /\ (evs <> [] \/ start < n) /\
        tok_lt (start, skip) (n, p) = true /\ (evs = [] -> 0 < limit /\ p = 0)) \/
     (exists mb p, tok' = (mb, p) /\ tok_none tok' = false /\ pre <> [] /\ latest < to /\ start <= latest /\
        latest < mb /\ mb <= E /\
        evs ++ prem pre (latest + 1) mb to p = remc start skip ++ PREall /\ lenN evs = chunk)).
Proof.
  intros s' tok start skip Hv Hpos Htok.
  assert (Hcase : (pre = [] \/ to <= latest) \/ (pre <> [] /\ latest < to)).
  { destruct pre as [| pb prest] eqn:Epre; [left; left; auto |].
    destruct (N.le_gt_cases to latest); [left; right; auto | right; split; [discriminate | lia]]. }
  destruct Hcase as [Hc | [Hne Hto]].
  - (* the range does not reach a pre-confirmed block *)
    rewrite dqp_direct by (auto; apply Hv).
    destruct (canon_page s' tok start skip to Hv eq_refl Htok)
      as [s'' [evs [tok' [Hq [Hv' [Hlen Hres]]]]]].
    exists s'', evs, tok'. split; auto. split; auto. split; auto.
    destruct Hres as [[-> ->] | [n [p [Htk [Hnone [Hsn [Hnt [Hcn [Happ [Hprog [Hlex Hemp]]]]]]]]]]].
    + left. split; auto. rewrite PREall_nil by auto. rewrite app_nil_r. reflexivity.
    + right. left. exists n, p. repeat split; auto; apply Hemp; auto.
  - assert (Hsl : start <= latest) by (destruct Hpos as [? | [? | ?]]; [auto | contradiction | lia]).
    assert (HT : N.min latest latest = to') by lia.
    destruct (canon_page s' tok start skip latest Hv HT Htok)
      as [s'' [evs [tok' [Hq [Hv' [Hlen Hres]]]]]].
    assert (Hstart : (if tok_none tok then from else fst tok) = start /\ snd tok = skip).
    { destruct Htok as [[-> [-> ->]] | [-> [Hn _]]]; simpl; auto. rewrite Hn. auto. }
    destruct Hstart as [Hs1 Hs2].
    pose proof (latest_lt_sentinel Hne) as Hsent.
    unfold do_query_pre. destruct Hv as [Hch Hrest]. rewrite Hch.
    destruct (chain s) as [| b0 chs] eqn:Echain; [contradiction |]. rewrite <- Echain in *.
    destruct pre as [| pb prest] eqn:Epre; [contradiction |]. rewrite <- Epre in *.
    assert (E1 : to <=? latest = false) by (apply N.leb_gt; lia). rewrite E1.
    rewrite Hq. cbv beta iota. rewrite Hs1, Hs2.
    destruct Hres as [[-> ->] | [n [p [Htk [Hnone [Hsn [Hnt [Hcn [Happ [Hprog [Hlex Hemp]]]]]]]]]]].
    + change (tok_none (0, 0)) with true. cbn [negb]. cbv iota.
      assert (E3 : start <=? latest = true) by (apply N.leb_le; lia). rewrite E3.
      assert (E4 : start =? sentinel = false) by (apply N.eqb_neq; lia). rewrite E4.
      destruct (scanp member flt pre (latest + 1) start to 0 (chunk - lenN (remc start skip)))
        as [evp tp] eqn:Es.
      destruct (scanp_spec member bloom_sound flt _ _ _ _ _ _ _ _ Es) as [Hl Hd]; [lia |].
      exists s'', (remc start skip ++ evp), tp. split; auto. split; auto.
      split; [rewrite lenN_app2; lia |].
      assert (Hall : prem pre (latest + 1) start to 0 = PREall) by (apply prem_low; lia).
      destruct Hd as [[-> ->] | [mb [p [-> [Hnone [H1 [H2 [H3 [H4 [Happ [Hlen' _]]]]]]]]]]].
      * left. split; auto. rewrite Hall. reflexivity.
      * right. right. exists mb, p. repeat split; auto; try lia.
        -- rewrite <- app_assoc, Happ, Hall. reflexivity.
        -- rewrite lenN_app2. lia.
    + rewrite Hnone. cbn [negb]. cbv iota.
      exists s'', evs, tok'. split; [rewrite Htk; auto |]. split; auto. split; auto.
      right. left. exists n, p. repeat split; auto; apply Hemp; auto.
Qed.

(* ---------- all pages from a canonical position ---------- *)
Definition mu (start skip : N) : nat :=
  (length (rangeN start E) + length (remc start skip ++ PREall))%nat.

Lemma pages_ok_one evs tok prev :
  lenN evs <= chunk -> tok_none tok = true ->
  pages_ok chunk limit prev (page_sizes [(evs, tok)]) = true.
Proof.
  intros Hl Hn. simpl. unfold page_chunk_ok, page_empty_ok, page_progress_ok. simpl.
  apply N.leb_le in Hl. rewrite Hl, Hn. rewrite !orb_true_r. reflexivity.
Qed.

Lemma canon_pages : forall fuel s' tok start skip,
  same_view s s' -> (start <= latest \/ pre = [] \/ to <= latest) ->
  ((tok = (0, 0) /\ start = from /\ skip = 0) \/
   (tok = (start, skip) /\ tok_none tok = false /\ (start <= to' -> ci start = Some true))) ->
  (Nat.max 1 (mu start skip) <= fuel)%nat ->
  exists ps, page_seq W member fuel s' flt from to chunk limit tok pre = Some ps /\
    concat (map fst ps) = remc start skip ++ PREall /\
    (length ps <= Nat.max 1 (mu start skip))%nat /\
    pages_ok chunk limit (start, skip) (page_sizes ps) = true.
Proof.
  induction fuel as [| fuel IH]; intros s' tok start skip Hv Hpos Htok Hfuel; [lia |].
  cbn [page_seq].
  destruct (border_page s' tok start skip Hv Hpos Htok) as [s'' [evs [tok' [Hq [Hv' [Hlen Hres]]]]]].
  rewrite Hq.
  destruct Hres as [[-> ->] | [[n [p [-> [Hnone [Hsn [Hnt [Hcn [Happ [Hprog [Hlex Hemp]]]]]]]]]]
                             | [mb [p [-> [Hnone [Hne [Hto [Hsl [Hmb [HmbE [Happ Hfull]]]]]]]]]]]].
  - change (tok_none (0, 0)) with true. cbv iota.
    exists [(remc start skip ++ PREall, (0, 0))]. split; auto.
    split; [simpl; apply app_nil_r |]. split; [cbn [length]; lia |].
    apply pages_ok_one; auto.
  - rewrite Hnone.
    assert (Hmu : (1 <= mu n p /\ mu n p < mu start skip)%nat).
    { unfold mu. rewrite <- Happ. rewrite !app_length. rewrite !rangeN_length.
      assert ((0 < length evs)%nat \/ start < n).
      { destruct Hprog as [Hp | Hp]; [left; destruct evs; [contradiction | simpl; lia] | right; auto]. }
      lia. }
    destruct (IH s'' (n, p) n p) as [ps [Hps [Hcat [Hcnt Hok]]]]; auto; try lia.
    rewrite Hps. exists ((evs, (n, p)) :: ps). split; auto.
    split; [simpl; rewrite Hcat, app_assoc, Happ; reflexivity |].
    split; [cbn [length]; lia |].
    simpl. rewrite Hok. unfold page_chunk_ok, page_empty_ok, page_progress_ok. simpl.
    apply N.leb_le in Hlen. rewrite Hlen, Hlex. rewrite orb_true_r. simpl.
    destruct evs as [| e evs'].
    + destruct (Hemp eq_refl) as [Hl ->]. apply N.ltb_lt in Hl. rewrite Hl. simpl.
      rewrite orb_true_r. reflexivity.
    + rewrite lenN_cons. destruct (N.succ (lenN evs') =? 0) eqn:Ez; [apply N.eqb_eq in Ez; lia |].
      reflexivity.
  - rewrite Hnone.
    destruct (pre_pages fuel s'' mb p Hv' Hne Hto Hmb HmbE) as [ps [Hps [Hcat [Hcnt Hok]]]].
    { unfold mu in Hfuel. rewrite <- Happ in Hfuel. rewrite !app_length in Hfuel.
      assert (0 < length evs)%nat by (unfold lenN in Hfull; lia).
      rewrite !rangeN_length in *. lia. }
    rewrite Hps. exists ((evs, (mb, p)) :: ps). split; auto.
    split; [simpl; rewrite Hcat; auto |].
    split.
    { unfold mu. rewrite <- Happ. rewrite !app_length. cbn [length]. rewrite !rangeN_length in *. lia. }
    simpl. rewrite Hok. unfold page_chunk_ok, page_empty_ok, page_progress_ok, tok_lt. simpl.
    rewrite Hfull, N.leb_refl.
    assert (Ez : chunk =? 0 = false) by (apply N.eqb_neq; lia). rewrite Ez.
    assert (E1 : start <? mb = true) by (apply N.ltb_lt; lia). rewrite E1. simpl.
    rewrite orb_true_r. reflexivity.
Qed.

(* ---------- the whole page sequence of a query ---------- *)
Lemma first_pre_page : forall s',
  same_view s s' -> pre <> [] -> latest < to -> latest < from ->
  do_query_pre W member s' flt from to chunk limit (0, 0) pre =
    (s', let (evp, tp) := scanp member flt pre (latest + 1) (pre_start (chain s) pre from) to 0 chunk in
         OPage evp tp).
Proof.
  intros s' [Hch _] Hne Hto Hfrom.
  unfold do_query_pre, do_query, pre_start. rewrite Hch.
  destruct (chain s) as [| b0 chs] eqn:Echain; [contradiction |]. rewrite <- Echain in *.
  destruct pre as [| pb prest] eqn:Epre; [contradiction |]. rewrite <- Epre in *.
  assert (E1 : to <=? latest = false) by (apply N.leb_gt; lia). rewrite E1.
  change (tok_none (0, 0)) with true. cbn [fst snd negb]. cbv iota.
  assert (E2 : N.min latest latest <? from = true) by (apply N.ltb_lt; lia). rewrite E2.
  change (tok_none (0, 0)) with true. cbn [negb]. cbv iota.
  assert (E3 : (if from <=? latest then 0 else 0) = 0) by (destruct (from <=? latest); auto). rewrite E3.
  replace (chunk - lenN (@nil fev)) with chunk by (unfold lenN; simpl; lia).
  destruct (scanp member flt pre (latest + 1) (if from =? sentinel then latest + lenN pre else from) to 0 chunk)
    as [evp tp]. reflexivity.
Qed.

Lemma spec_split :
  filter_spec_pre (chain s) flt from to pre =
  remc from 0 ++ prem pre (latest + 1) (pre_start (chain s) pre from) to 0.
Proof.
  pose proof lenN_chain_pos as Hpos.
  unfold filter_spec_pre, filter_spec, remc.
  destruct (chain s) as [| b0 chs] eqn:Echain; [contradiction |]. rewrite <- Echain in *.
  rewrite rem_zero. f_equal. rewrite prem_zero. f_equal. lia.
Qed.

Lemma prem_nil_direct st : (pre = [] \/ to <= latest) -> prem pre (latest + 1) st to 0 = [].
Proof.
  intros [-> | Hc]; [reflexivity |]. rewrite prem_zero. apply pre_matches_beyond.
  pose proof lenN_chain_pos. lia.
Qed.

Theorem page_seq_exact : forall fuel,
  (N.to_nat (page_bound (range_blocks (chain s) pre from to)
                        (lenN (filter_spec_pre (chain s) flt from to pre))) <= fuel)%nat ->
  exists ps, page_seq W member fuel s flt from to chunk limit (0, 0) pre = Some ps /\
    concat (map fst ps) = filter_spec_pre (chain s) flt from to pre /\
    lenN ps <= page_bound (range_blocks (chain s) pre from to)
                          (lenN (filter_spec_pre (chain s) flt from to pre)) /\
    pages_ok chunk limit (pre_start (chain s) pre from, 0) (page_sizes ps) = true.
Proof.
  intros fuel Hfuel. pose proof lenN_chain_pos as Hpos.
  rewrite spec_split in *. unfold page_bound, range_blocks in *.
  set (ps0 := pre_start (chain s) pre from) in *.
  destruct (N.le_gt_cases from latest) as [Hfl | Hfl].
  - (* the range starts on the canonical chain *)
    assert (Hps0 : ps0 = from).
    { unfold ps0, pre_start. destruct (from =? sentinel) eqn:E5; auto. apply N.eqb_eq in E5. lia. }
    assert (Hall : prem pre (latest + 1) ps0 to 0 = PREall) by (apply prem_low; lia).
    rewrite Hall, Hps0 in *.
    destruct (canon_pages fuel s (0, 0) from 0) as [ps [Hps [Hcat [Hcnt Hok]]]]; auto.
    { apply same_view_refl. }
    { unfold mu, lenN in *. lia. }
    exists ps. repeat split; auto. unfold mu, lenN in *. lia.
  - (* the range starts above the head *)
    assert (Hremc : remc from 0 = []) by (unfold remc; rewrite rangeN_empty by lia; reflexivity).
    rewrite Hremc in *. cbn [app] in *.
    destruct fuel as [| fuel]; [lia |]. cbn [page_seq].
    assert (Hcase : (pre = [] \/ to <= latest) \/ (pre <> [] /\ latest < to)).
    { destruct pre as [| pb prest] eqn:Epre; [left; left; auto |].
      destruct (N.le_gt_cases to latest); [left; right; auto | right; split; [discriminate | lia]]. }
    destruct Hcase as [Hc | [Hne Hto]].
    + rewrite (prem_nil_direct ps0 Hc) in *.
      destruct (border_page s (0, 0) from 0) as [s'' [evs [tok' [Hq [Hv' [Hlen Hres]]]]]]; auto.
      { apply same_view_refl. }
      rewrite Hq.
      destruct Hres as [[-> ->] | [[n [p [_ [_ [Hsn [Hnt _]]]]]] | [mb [p [_ [_ [_ [_ [Hsl _]]]]]]]]];
        [| lia | lia].
      change (tok_none (0, 0)) with true. cbv iota.
      rewrite Hremc, (PREall_nil Hc). cbn [app].
      exists [([], (0, 0))]. split; auto. split; auto. split; [unfold lenN; simpl; lia |].
      apply pages_ok_one; auto. unfold lenN. simpl. lia.
    + rewrite first_pre_page by (auto; apply same_view_refl). fold ps0.
      destruct (scanp member flt pre (latest + 1) ps0 to 0 chunk) as [evp tp] eqn:Es.
      destruct (scanp_spec member bloom_sound flt _ _ _ _ _ _ _ _ Es) as [Hl Hd]; [lia |].
      destruct Hd as [[-> ->] | [mb [p [-> [Hnone [H1 [H2 [H3 [H4 [Happ [Hlen Hlt]]]]]]]]]]].
      * change (tok_none (0, 0)) with true. cbv iota.
        exists [(prem pre (latest + 1) ps0 to 0, (0, 0))]. split; auto.
        split; [simpl; apply app_nil_r |]. split; [unfold lenN; cbn [length]; lia |].
        apply pages_ok_one; auto.
      * rewrite Hnone.
        assert (Hpos' : (0 < length evp)%nat) by (unfold lenN in Hlen; lia).
        destruct (pre_pages fuel s mb p) as [ps [Hps [Hcat [Hcnt Hok]]]]; auto; try lia.
        { apply same_view_refl. }
        { rewrite <- Happ in Hfuel. unfold lenN in *. rewrite app_length in Hfuel.
          rewrite !rangeN_length in *. lia. }
        rewrite Hps. exists ((evp, (mb, p)) :: ps). split; auto.
        split; [simpl; rewrite Hcat; auto |].
        split.
        { rewrite <- Happ. unfold lenN in *. rewrite app_length. cbn [length].
          rewrite !rangeN_length in *. lia. }
        simpl. rewrite Hok. unfold page_chunk_ok, page_empty_ok, page_progress_ok. simpl.
        rewrite Hlen, N.leb_refl. rewrite (Hlt (or_introl chunk_pos)).
        assert (Ez : chunk =? 0 = false) by (apply N.eqb_neq; lia). rewrite Ez. simpl.
        rewrite orb_true_r. reflexivity.
Qed.

End Border.

(* ---------- single pages, for ANY state and ANY token (no invariant needed) ---------- *)
Lemma do_query_shape W (Wpos : 0 < W) member s flt from T chunk limit tok s' evs t :
  do_query W member s flt from T chunk limit tok = (s', OPage evs t) ->
  lenN evs <= chunk /\
  (tok_none t = false -> evs = [] -> 0 < chunk ->
     0 < limit /\ snd t = 0 /\ (if tok_none tok then from else fst tok) < fst t /\
     fst t <= N.min T (lenN (chain s) - 1) /\
     lenN (cands_between W member (ensure W s) flt (if tok_none tok then from else fst tok) (fst t - 1))
       = limit).
Proof.
  unfold do_query. intros H.
  destruct (chain s) as [| b0 ch] eqn:Ech; [discriminate |]. rewrite <- Ech in *.
  set (start := if tok_none tok then from else fst tok) in *.
  set (to' := N.min T (lenN (chain s) - 1)) in *.
  destruct (to' <? start) eqn:Elt.
  - inversion H. subst. split; [unfold lenN; simpl; lia |]. intros Hn. discriminate.
  - apply N.ltb_ge in Elt.
    destruct (running (ensure W s)) eqn:Er; try discriminate.
    rewrite (walk_blocks_eq W Wpos start to') in H by lia.
    destruct (scanq _ _ _ _ _ _ _ _ _) as [[[evs' t'] |] stop] eqn:Es; inversion H. subst.
    destruct (scanq_shape _ _ _ _ _ _ _ _ _ _ _ _ Es) as [Hlen Hshape]; [intros; lia |].
    split; auto. intros Hnone -> Hchunk.
    destruct Hshape as [-> | [pr [n [suf [p [Hbs [-> Hk]]]]]]]; [discriminate |].
    destruct (rangeN_prefix _ _ _ _ _ Hbs) as [Hn Hpr].
    assert (Hin : In n (rangeN start to')) by (rewrite Hbs; apply in_or_app; right; simpl; auto).
    apply rangeN_in in Hin.
    destruct Hk as [[Hfull _] | [Hlim [-> Hcnt]]].
    + unfold lenN in Hfull. simpl in Hfull. lia.
    + assert (Hne : pr <> []).
      { intros ->. unfold ncand, lenN in Hcnt. simpl in Hcnt. lia. }
      assert (0 < length pr)%nat by (destruct pr; [contradiction | simpl; lia]).
      cbn [fst snd]. repeat split; auto; try lia.
      unfold cands_between. rewrite <- (Hpr Hne). unfold ncand in Hcnt. lia.
Qed.

(* a page never holds more than chunk events *)
Lemma page_within_chunk W (Wpos : 0 < W) member s flt from to chunk limit tok pre s' evs t :
  do_query_pre W member s flt from to chunk limit tok pre = (s', OPage evs t) -> lenN evs <= chunk.
Proof.
  unfold do_query_pre. intros H.
  destruct (chain s) as [| b0 ch] eqn:Ech; [discriminate |]. rewrite <- Ech in *.
  destruct pre as [| pb prest]; [eapply do_query_shape; eauto |].
  destruct (to <=? lenN (chain s) - 1); [eapply do_query_shape; eauto |].
  destruct (do_query W member s flt from (lenN (chain s) - 1) chunk limit tok) as [s1 o] eqn:Eq.
  destruct o as [| | evs1 t1]; try discriminate.
  destruct (do_query_shape W Wpos _ _ _ _ _ _ _ _ _ _ _ Eq) as [Hl1 _].
  destruct (negb (tok_none t1)); [inversion H; subst; auto |].
  destruct (scanp _ _ _ _ _ _ _ _) as [evp tp] eqn:Es. inversion H. subst.
  destruct (scanp_len _ _ _ _ _ _ _ _ _ _ Es) as [Hl2 _]. rewrite lenN_app2. lia.
Qed.

(* an empty page carries a continuation token only when the scan limit was hit: a limit is set, the token
   points at the start of a canonical block strictly after the resume block, and exactly [limit]
   candidate blocks lie between the resume block and it *)
Lemma empty_page_only_at_limit W (Wpos : 0 < W) member s flt from to chunk limit tok pre s' t :
  0 < chunk ->
  do_query_pre W member s flt from to chunk limit tok pre = (s', OPage [] t) -> tok_none t = false ->
  0 < limit /\ snd t = 0 /\ (if tok_none tok then from else fst tok) < fst t /\
  fst t <= lenN (chain s) - 1 /\
  lenN (cands_between W member (ensure W s) flt (if tok_none tok then from else fst tok) (fst t - 1)) = limit.
Proof.
  unfold do_query_pre. intros Hchunk H Hnone.
  destruct (chain s) as [| b0 ch] eqn:Ech; [discriminate |]. rewrite <- Ech in *.
  assert (Hdirect : forall T, do_query W member s flt from T chunk limit tok = (s', OPage [] t) ->
    0 < limit /\ snd t = 0 /\ (if tok_none tok then from else fst tok) < fst t /\
    fst t <= lenN (chain s) - 1 /\
    lenN (cands_between W member (ensure W s) flt (if tok_none tok then from else fst tok) (fst t - 1)) = limit).
  { intros T HT. destruct (do_query_shape W Wpos _ _ _ _ _ _ _ _ _ _ _ HT) as [_ Hs].
    destruct (Hs Hnone eq_refl Hchunk) as [A [B [C [D F]]]]. repeat split; auto. lia. }
  destruct pre as [| pb prest]; [eapply Hdirect; eauto |].
  destruct (to <=? lenN (chain s) - 1); [eapply Hdirect; eauto |].
  destruct (do_query W member s flt from (lenN (chain s) - 1) chunk limit tok) as [s1 o] eqn:Eq.
  destruct o as [| | evs1 t1]; try discriminate.
  destruct (negb (tok_none t1)).
  - inversion H. subst. eapply Hdirect; eauto.
  - destruct (scanp _ _ _ _ _ _ _ _) as [evp tp] eqn:Es. inversion H. subst.
    apply app_eq_nil in H2. destruct H2 as [-> ->].
    destruct (scanp_len _ _ _ _ _ _ _ _ _ _ Es) as [_ [-> | Hl]]; [discriminate |].
    unfold lenN in Hl. simpl in Hl. lia.
Qed.

(* ---------- the spec of a range reaching the pre-confirmed blocks is the spec of the extended chain ---------- *)
Lemma nthN_app_l {A} (l1 l2 : list A) d n : n < lenN l1 -> nthN n (l1 ++ l2) d = nthN n l1 d.
Proof. unfold nthN, lenN. intros. apply app_nth1. lia. Qed.

Lemma nthN_app_r {A} (l1 l2 : list A) d n : lenN l1 <= n -> nthN n (l1 ++ l2) d = nthN (n - lenN l1) l2 d.
Proof.
  unfold nthN, lenN. intros. rewrite app_nth2 by lia. f_equal. lia.
Qed.

Lemma rangeN_cons a b : a <= b -> rangeN a b = a :: rangeN (a + 1) b.
Proof.
  intros H. unfold rangeN. replace (N.to_nat (N.succ b - a)) with (S (N.to_nat (N.succ b - (a + 1)))) by lia.
  simpl. f_equal. f_equal. lia.
Qed.

Lemma tail_matches flt full : forall pre n from to,
  0 < n ->
  (forall i, i < lenN pre -> nthN (n + i) full [] = nthN i pre []) ->
  flat_map (block_matches full flt) (rangeN (N.max from n) (N.min to (n + lenN pre - 1)))
  = pre_matches flt pre n from to.
Proof.
  induction pre as [| b rest IH]; intros n from to Hn Hnth.
  - simpl. rewrite rangeN_empty; auto. unfold lenN. simpl. lia.
  - cbn [pre_matches]. rewrite lenN_cons in *.
    assert (Hrest : forall i, i < lenN rest -> nthN (N.succ n + i) full [] = nthN i rest []).
    { intros i Hi. replace (N.succ n + i) with (n + N.succ i) by lia. rewrite Hnth by lia.
      unfold nthN. replace (N.to_nat (N.succ i)) with (S (N.to_nat i)) by lia. reflexivity. }
    specialize (IH (N.succ n) from to ltac:(lia) Hrest).
    replace (N.succ n + lenN rest - 1) with (n + N.succ (lenN rest) - 1) in IH by lia.
    destruct (to <? n) eqn:Et.
    + apply N.ltb_lt in Et. rewrite rangeN_empty by lia. simpl.
      assert (E1 : n <=? to = false) by (apply N.leb_gt; lia). rewrite E1, andb_false_r. simpl.
      symmetry. apply pre_matches_beyond. lia.
    + apply N.ltb_ge in Et. destruct (from <=? n) eqn:Ef.
      * apply N.leb_le in Ef. assert (E1 : n <=? to = true) by (apply N.leb_le; lia). rewrite E1. simpl.
        replace (N.max from n) with n by lia.
        rewrite rangeN_cons by lia. simpl. f_equal.
        -- unfold block_matches. specialize (Hnth 0 ltac:(lia)). rewrite N.add_0_r in Hnth.
           f_equal. f_equal. exact Hnth.
        -- rewrite <- IH. f_equal. f_equal. lia.
      * apply N.leb_gt in Ef. simpl. rewrite <- IH. f_equal. f_equal. lia.
Qed.

Lemma flat_map_ext_in' {A B} (f g : A -> list B) l :
  (forall a, In a l -> f a = g a) -> flat_map f l = flat_map g l.
Proof.
  induction l as [| x l IH]; simpl; intros H; auto. rewrite (H x) by auto. rewrite IH; auto.
Qed.

Lemma filter_spec_pre_app ch flt from to pre :
  ch <> [] -> from <> sentinel ->
  filter_spec_pre ch flt from to pre = filter_spec (ch ++ pre) flt from to.
Proof.
  intros Hne Hfrom. unfold filter_spec_pre, filter_spec, pre_start.
  assert (Hpos : 0 < lenN ch) by (destruct ch; [contradiction | rewrite lenN_cons; lia]).
  destruct ch as [| b0 ch0] eqn:Ech; [contradiction |]. rewrite <- Ech in *.
  assert (E : from =? sentinel = false) by (apply N.eqb_neq; auto). rewrite E.
  destruct (ch ++ pre) as [| x l] eqn:Eapp.
  { apply app_eq_nil in Eapp. destruct Eapp. contradiction. }
  rewrite <- Eapp. rewrite lenN_app2.
  set (L := lenN ch) in *.
  assert (Hcan : flat_map (block_matches ch flt) (rangeN from (N.min to (L - 1))) =
                 flat_map (block_matches (ch ++ pre) flt) (rangeN from (N.min to (L - 1)))).
  { apply flat_map_ext_in'. intros n Hn. apply rangeN_in in Hn. unfold block_matches.
    unfold L in *. rewrite nthN_app_l by lia. reflexivity. }
  rewrite Hcan.
  rewrite <- (tail_matches flt (ch ++ pre) pre L from to); auto.
  2:{ intros i Hi. unfold L. rewrite (nthN_app_r (A:=block)) by lia. f_equal. lia. }
  rewrite <- flat_map_app. f_equal.
  destruct (N.le_gt_cases from (N.min to (L - 1) + 1)) as [H1 | H1].
  - destruct (N.le_gt_cases (N.min to (L - 1)) (N.min to (L + lenN pre - 1))) as [H2 | H2]; [| lia].
    rewrite <- (rangeN_app from (N.min to (L - 1)) (N.min to (L + lenN pre - 1))) by lia.
    f_equal. destruct (N.le_gt_cases to (L - 1)) as [H3 | H3].
    + rewrite !rangeN_empty by lia. reflexivity.
    + f_equal; lia.
  - rewrite (rangeN_empty from (N.min to (L - 1))) by lia. simpl.
    destruct (N.le_gt_cases to (L - 1)) as [H3 | H3].
    + rewrite !rangeN_empty by lia. reflexivity.
    + f_equal. lia.
Qed.

(* ---------- assembly: reachable states ---------- *)
From V Require Import C09.Proofs_inv C09.Proofs_cache C09.Proofs_main.

Section Assembly.
Variable W : N.
Hypothesis Wpos : 0 < W.
Variable member : list bkey -> bkey -> bool.
Hypothesis bloom_sound : forall ks k, In k ks -> member ks k = true.

Lemma page_seq_state s :
  rinv W s -> cache_fresh s -> chain s <> [] ->
  forall pre flt from to chunk limit fuel, 0 < chunk ->
  lenN (chain s) + lenN pre <= sentinel + 1 ->
  (N.to_nat (page_bound (range_blocks (chain s) pre from to)
                        (lenN (filter_spec_pre (chain s) flt from to pre))) <= fuel)%nat ->
  exists ps, page_seq W member fuel s flt from to chunk limit (0, 0) pre = Some ps /\
    concat (map fst ps) = filter_spec_pre (chain s) flt from to pre /\
    lenN ps <= page_bound (range_blocks (chain s) pre from to)
                          (lenN (filter_spec_pre (chain s) flt from to pre)) /\
    pages_ok chunk limit (pre_start (chain s) pre from, 0) (page_sizes ps) = true.
Proof.
  intros Hi Hf Hne pre flt from to chunk limit fuel Hchunk Hu Hfuel.
  apply (page_seq_exact W Wpos member bloom_sound s flt from to chunk limit pre); auto.
  - destruct Hi as [_ [_ [w [nx [Hr _]]]]]. eauto.
  - intros n Hn.
    assert (n < lenN (chain s)).
    { destruct (chain s); [contradiction |]. unfold lenN in *. cbn [length] in *. lia. }
    apply (no_false_negative_state W Wpos member bloom_sound s flt n Hi Hf H).
Qed.

Lemma paging_concat_preconfirmed_lemma ops :
  guarded W member init_state ops = true ->
  let s := ensure W (run W member init_state ops) in
  chain s <> [] ->
  forall pre flt from to chunk limit fuel, 0 < chunk ->
  lenN (chain s) + lenN pre <= sentinel + 1 ->
  (N.to_nat (page_bound (range_blocks (chain s) pre from to)
                        (lenN (filter_spec_pre (chain s) flt from to pre))) <= fuel)%nat ->
  pages_pre W member fuel s flt from to chunk limit pre = Some (filter_spec_pre (chain s) flt from to pre).
Proof.
  intros Hg s Hne pre flt from to chunk limit fuel Hchunk Hu Hfuel.
  destruct (page_seq_state s (reachable_rinv W Wpos member ops Hg)
              (reachable_cache_fresh W Wpos member ops Hg) Hne pre flt from to chunk limit fuel Hchunk Hu Hfuel)
    as [ps [Hps [Hcat _]]].
  unfold pages_pre. rewrite Hps, Hcat. reflexivity.
Qed.

Lemma paging_progress_lemma ops :
  guarded W member init_state ops = true ->
  let s := ensure W (run W member init_state ops) in
  chain s <> [] ->
  forall pre flt from to chunk limit fuel, 0 < chunk ->
  lenN (chain s) + lenN pre <= sentinel + 1 ->
  let bound := page_bound (range_blocks (chain s) pre from to)
                          (lenN (filter_spec_pre (chain s) flt from to pre)) in
  (N.to_nat bound <= fuel)%nat ->
  exists ps, page_seq W member fuel s flt from to chunk limit (0, 0) pre = Some ps /\
    page_count_ok (range_blocks (chain s) pre from to)
                  (lenN (filter_spec_pre (chain s) flt from to pre)) (lenN ps) = true /\
    pages_ok chunk limit (pre_start (chain s) pre from, 0) (page_sizes ps) = true.
Proof.
  intros Hg s Hne pre flt from to chunk limit fuel Hchunk Hu bound Hfuel.
  destruct (page_seq_state s (reachable_rinv W Wpos member ops Hg)
              (reachable_cache_fresh W Wpos member ops Hg) Hne pre flt from to chunk limit fuel Hchunk Hu Hfuel)
    as [ps [Hps [_ [Hcnt Hok]]]].
  exists ps. split; auto. split; auto. unfold page_count_ok. apply N.leb_le. exact Hcnt.
Qed.

(* no false negative over canonical AND pre-confirmed blocks *)
Lemma no_false_negative_pre_lemma ops :
  guarded W member init_state ops = true ->
  let s := ensure W (run W member init_state ops) in
  forall pre flt n, n < lenN (chain s) + lenN pre ->
    block_matches (chain s ++ pre) flt n <> [] ->
    cand_ext W member s flt pre n = Some true.
Proof.
  intros Hg s pre flt n Hn Hm. unfold cand_ext.
  destruct (n <? lenN (chain s)) eqn:E.
  - apply N.ltb_lt in E. apply (no_false_negative_lemma W Wpos member bloom_sound ops Hg); auto.
    unfold block_matches in *. rewrite nthN_app_l in Hm by auto. exact Hm.
  - apply N.ltb_ge in E. f_equal. unfold block_matches in Hm. rewrite nthN_app_r in Hm by auto.
    apply (block_candidate member bloom_sound n (nthN (n - lenN (chain s)) pre []) _ flt); auto.
Qed.

(* at full strength: [guarded] holds for every history (the snapshot is consumed by the initialisation that
   reads it, Proofs_main.guarded_always) *)
Lemma paging_concat_preconfirmed_all ops :
  let s := ensure W (run W member init_state ops) in
  chain s <> [] ->
  forall pre flt from to chunk limit fuel, 0 < chunk ->
  lenN (chain s) + lenN pre <= sentinel + 1 ->
  (N.to_nat (page_bound (range_blocks (chain s) pre from to)
                        (lenN (filter_spec_pre (chain s) flt from to pre))) <= fuel)%nat ->
  pages_pre W member fuel s flt from to chunk limit pre = Some (filter_spec_pre (chain s) flt from to pre).
Proof. apply paging_concat_preconfirmed_lemma. apply guarded_always; auto. Qed.

Lemma paging_progress_all ops :
  let s := ensure W (run W member init_state ops) in
  chain s <> [] ->
  forall pre flt from to chunk limit fuel, 0 < chunk ->
  lenN (chain s) + lenN pre <= sentinel + 1 ->
  let bound := page_bound (range_blocks (chain s) pre from to)
                          (lenN (filter_spec_pre (chain s) flt from to pre)) in
  (N.to_nat bound <= fuel)%nat ->
  exists ps, page_seq W member fuel s flt from to chunk limit (0, 0) pre = Some ps /\
    page_count_ok (range_blocks (chain s) pre from to)
                  (lenN (filter_spec_pre (chain s) flt from to pre)) (lenN ps) = true /\
    pages_ok chunk limit (pre_start (chain s) pre from, 0) (page_sizes ps) = true.
Proof. apply paging_progress_lemma. apply guarded_always; auto. Qed.

Lemma no_false_negative_pre_all ops :
  let s := ensure W (run W member init_state ops) in
  forall pre flt n, n < lenN (chain s) + lenN pre ->
    block_matches (chain s ++ pre) flt n <> [] ->
    cand_ext W member s flt pre n = Some true.
Proof. apply no_false_negative_pre_lemma. apply guarded_always; auto. Qed.

End Assembly.
