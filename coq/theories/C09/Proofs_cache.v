(* C09 — lemmas, part 3b: since Blockchain.RevertHead resets the cache (/repo 5bb6f6f), cache_fresh is
   an invariant of guarded histories: a persisted window is only written at a roll-over (at a key that
   cannot be cached, because no persisted window exists at or above the head's window) and only deleted
   by a revert, which empties the cache. *)
From Coq Require Import List NArith Bool Lia ZifyN ZifyNat ZifyBool.
From V Require Import C09.Model C09.Proofs C09.Proofs_paging C09.Proofs_inv.
Import ListNotations.
Open Scope N_scope.

Section Cache.
Variable W : N.
Hypothesis Wpos : 0 < W.
Variable member : list bkey -> bkey -> bool.

(* the cache is fresh, and empty as long as the running filter has not been initialised since the restart *)
Definition cinv (s : state) : Prop :=
  cache_fresh s /\ (running s = Uninit -> cache s = []).

Lemma cache_fresh_nil s : cache s = [] -> cache_fresh s.
Proof. intros H ws c Hl. rewrite H in Hl. discriminate. Qed.

Lemma ensure_cache s : cache (ensure W s) = cache s.
Proof. unfold ensure. destruct (running s); auto. destruct (init_rf W s). reflexivity. Qed.

Lemma ensure_not_uninit s : running (ensure W s) <> Uninit -> running s <> Uninit -> ensure W s = s.
Proof. intros _ H. unfold ensure. destruct (running s); auto. contradiction. Qed.

Lemma cinv_ensure s : cinv s -> inv W s -> cinv (ensure W s).
Proof.
  intros [Hf Hu] Hi. destruct (rinv_ready W _ Hi) as [w [nx Hr]].
  split; [| intros H; congruence].
  destruct (running s) eqn:Er.
  - apply cache_fresh_nil. rewrite ensure_cache. auto.
  - unfold ensure. rewrite Er. auto.
  - unfold ensure. rewrite Er. auto.
Qed.

Lemma rf_insert_lookup pers w ks a pers' w' nx' :
  rf_insert W pers w ks a = Some (pers', w', nx') -> w_from w = aligned W a ->
  forall ws, ws + W <= a -> lookup ws pers' = lookup ws pers.
Proof.
  unfold rf_insert. intros H Hf ws Hws.
  pose proof (aligned_lt W Wpos a) as Hlt.
  destruct (w_insert W w a ks) as [w2 |] eqn:Ei; [| discriminate].
  destruct (w_insert_props W _ _ _ _ Ei) as [Hf' _].
  destruct (a =? w_to W w2); inversion H; subst; auto.
  apply lookup_mset_ne. rewrite Hf', Hf. lia.
Qed.

Lemma lookup_filter_some {A} (f : N * A -> bool) k (v : A) m :
  lookup k (filter f m) = Some v -> lookup k m = Some v \/ exists v', lookup k m = Some v'.
Proof.
  induction m as [| [a x] m IH]; simpl; [discriminate |].
  destruct (f (a, x)); simpl.
  - destruct (k =? a); auto.
  - intros H. destruct (k =? a); eauto.
Qed.

(* filtering by key keeps the first binding of every surviving key *)
Lemma lookup_filter_key {A} (g : N -> bool) k (v : A) m :
  lookup k (filter (fun p => g (fst p)) m) = Some v -> lookup k m = Some v.
Proof.
  induction m as [| [a x] m IH]; simpl; [discriminate |].
  destruct (g a) eqn:Eg; simpl.
  - destruct (k =? a); auto.
  - intros H. destruct (k =? a) eqn:E; auto.
    apply N.eqb_eq in E. subst a. exfalso.
    clear IH. induction m as [| [b y] m IHm]; simpl in H; [discriminate |].
    destruct (g b) eqn:Eb; simpl in H; auto.
    destruct (k =? b) eqn:E2; auto. apply N.eqb_eq in E2. subst. congruence.
Qed.

Lemma cache_load_fresh s ws : cache_fresh s -> cache_fresh (cache_load s ws).
Proof.
  intros Hf. unfold cache_load. destruct (running s); auto.
  destruct (w_from w =? ws); auto. destruct (lookup ws (cache s)) eqn:Ec; auto.
  destruct (lookup ws (persisted s)) as [p |] eqn:Ep; auto.
  intros k c Hl. simpl in *. destruct (k =? ws) eqn:E.
  - apply N.eqb_eq in E. subst. inversion Hl. subst. auto.
  - apply Hf. auto.
Qed.

Lemma cache_after_fresh s a b : cache_fresh s -> cache_fresh (cache_after W s a b).
Proof.
  unfold cache_after.
  generalize (wstarts W (aligned W a) (S (N.to_nat ((aligned W b - aligned W a) / W)))).
  intros l. revert s. induction l as [| x l IH]; intros s Hf; simpl; auto.
  apply IH. apply cache_load_fresh. auto.
Qed.

Lemma step_cinv s o : inv W s -> cinv s -> cinv (fst (step W member s o)).
Proof.
  intros Hi Hc.
  pose proof (cinv_ensure s Hc Hi) as [Hf1 _].
  destruct (rinv_ready W _ Hi) as [w [nx Hr]].
  assert (Hready : forall s', running s' = running (ensure W s) -> running s' = Uninit -> cache s' = [])
    by (intros s' E H; congruence).
  destruct o as [b | | g | ws | flt from to chunk limit tok]; simpl.
  - (* Store: a roll-over writes the key of the head's window, which cannot be cached *)
    unfold do_store. rewrite Hr.
    destruct (proj1 (rinv_J W (ensure W s)) Hi) as [w1 [nx1 [Hr1 [Hnx1 [[_ [Hfw _]] HK]]]]].
    rewrite Hr in Hr1. inversion Hr1. subst w1 nx1. clear Hr1.
    destruct (rf_insert W (persisted (ensure W s)) w (block_keys b) (lenN (chain (ensure W s))))
      as [[[p' w'] nx'] |] eqn:Ei; simpl.
    + split; [| intros H; discriminate].
      intros k c Hl. simpl in *.
      pose proof (Hf1 _ _ Hl) as Hp. destruct (HK _ _ Hp) as [_ Hle].
      rewrite (rf_insert_lookup _ _ _ _ _ _ _ Ei Hfw k Hle). auto.
    + split; auto; intros H; congruence.
  - (* Revert: success empties the cache, failure changes neither cache nor persisted windows *)
    unfold do_revert. destruct (chain s); [exact Hc |]. rewrite Hr.
    assert (Hs1 : cinv (ensure W s)) by (split; auto; intros H; congruence).
    destruct (nx =? w_from w).
    + destruct (lookup _ _); simpl; auto.
      destruct (w_clear _ _ _); simpl.
      * split; [apply cache_fresh_nil; reflexivity | reflexivity].
      * split; [exact Hf1 | intros H; discriminate].
    + destruct (w_clear _ _ _); simpl.
      * split; [apply cache_fresh_nil; reflexivity | reflexivity].
      * split; [exact Hf1 | intros H; discriminate].
  - split; [apply cache_fresh_nil; reflexivity | reflexivity].
  - (* Forget *)
    destruct Hc as [Hf Hu]. split.
    + intros k c Hl. simpl in Hl. apply Hf.
      apply (lookup_filter_key (fun a => negb (existsb (N.eqb a) ws))). exact Hl.
    + intros H. simpl in *. rewrite (Hu H). reflexivity.
  - (* Query: only persisted windows are added to the cache *)
    unfold do_query. destruct (chain s); [exact Hc |]. destruct (_ <? _); [exact Hc |].
    rewrite Hr. destruct (scanq _ _ _ _ _ _ _ _ _) as [r stop]. simpl.
    split; [apply cache_after_fresh; auto |].
    intros H. destruct (cache_after_fields W (ensure W s) (if tok_none tok then from else fst tok) stop)
      as [_ [_ E]]. congruence.
Qed.

Lemma run_cinv : forall ops s, inv W s -> cinv s -> guarded W member s ops = true ->
  cinv (run W member s ops).
Proof.
  induction ops as [| o ops IH]; intros s Hi Hc Hg; simpl; auto.
  simpl in Hg. apply andb_true_iff in Hg. destruct Hg as [Hg1 Hg2].
  apply IH; auto.
  - apply (step_inv W Wpos member); auto.
  - apply step_cinv; auto.
Qed.

Lemma cinv_init : cinv init_state.
Proof. split; [apply cache_fresh_nil; reflexivity | reflexivity]. Qed.

(* every state reached by a guarded history has a fresh cache (after lazy initialisation) *)
Lemma reachable_cache_fresh ops :
  guarded W member init_state ops = true -> cache_fresh (ensure W (run W member init_state ops)).
Proof.
  intros Hg.
  assert (Hi : inv W (run W member init_state ops))
    by (apply (run_inv_lemma W Wpos member); auto; apply inv_init; auto).
  apply (cinv_ensure _ (run_cinv ops init_state (inv_init W Wpos member) cinv_init Hg) Hi).
Qed.

End Cache.
