(* C09 — lemmas, part 3: the index invariant is preserved by store / revert / restart / forget / query
   on every history whose ungraceful restarts find a trustworthy disk (disk_ok_b). *)
From Coq Require Import List NArith Bool Lia ZifyN ZifyNat ZifyBool PeanoNat.
From V Require Import C09.Model C09.Proofs C09.Proofs_paging.
Import ListNotations.
Open Scope N_scope.

(* ---------- lists ---------- *)
Lemma lenN_app {A} (l : list A) x : lenN (l ++ [x]) = lenN l + 1.
Proof. unfold lenN. rewrite app_length. simpl. lia. Qed.

Lemma lenN_removelast {A} (l : list A) : l <> [] -> lenN (removelast l) = lenN l - 1.
Proof.
  intros H. destruct (exists_last H) as [l' [x ->]]. rewrite removelast_last.
  rewrite lenN_app. lia.
Qed.

Lemma nthN_app_lt {A} (l : list A) x d n : n < lenN l -> nthN n (l ++ [x]) d = nthN n l d.
Proof. unfold nthN, lenN. intros. apply app_nth1. lia. Qed.

Lemma nthN_app_eq {A} (l : list A) x d : nthN (lenN l) (l ++ [x]) d = x.
Proof.
  unfold nthN, lenN. rewrite Nnat.Nat2N.id. rewrite app_nth2 by lia.
  replace (length l - length l)%nat with 0%nat by lia. reflexivity.
Qed.

Lemma nthN_removelast {A} (l : list A) d n : n < lenN l - 1 -> nthN n (removelast l) d = nthN n l d.
Proof.
  intros H. destruct l as [| y l0]; [unfold lenN in H; simpl in H; lia |].
  assert (Hne : y :: l0 <> []) by discriminate.
  destruct (exists_last Hne) as [l' [x E]]. rewrite E in *. rewrite removelast_last.
  rewrite lenN_app in H. symmetry. apply nthN_app_lt. lia.
Qed.

(* ---------- association lists ---------- *)
Lemma lookup_mremove_ne {A} k k' (m : list (N * A)) : k' <> k -> lookup k' (mremove k m) = lookup k' m.
Proof.
  intros Hne. induction m as [| [a v] m IH]; simpl; auto.
  destruct (a =? k) eqn:E; simpl.
  - apply N.eqb_eq in E. subst a. destruct (k' =? k) eqn:E2; [apply N.eqb_eq in E2; contradiction | auto].
  - destruct (k' =? a); auto.
Qed.

Lemma lookup_mremove_eq {A} k (m : list (N * A)) : lookup k (mremove k m) = None.
Proof.
  induction m as [| [a v] m IH]; simpl; auto.
  destruct (a =? k) eqn:E; simpl; auto.
  destruct (k =? a) eqn:E2; auto. apply N.eqb_eq in E2. subst. rewrite N.eqb_refl in E. discriminate.
Qed.

Lemma lookup_mset_eq {A} k (v : A) m : lookup k (mset k v m) = Some v.
Proof. unfold mset. simpl. rewrite N.eqb_refl. reflexivity. Qed.

Lemma lookup_mset_ne {A} k k' (v : A) m : k' <> k -> lookup k' (mset k v m) = lookup k' m.
Proof.
  intros Hne. unfold mset. simpl. destruct (k' =? k) eqn:E; [apply N.eqb_eq in E; contradiction |].
  apply lookup_mremove_ne. auto.
Qed.

Lemma lookup_In {A} k (v : A) m : lookup k m = Some v -> In (k, v) m.
Proof.
  induction m as [| [a x] m IH]; simpl; [discriminate |].
  destruct (k =? a) eqn:E.
  - apply N.eqb_eq in E. subst. intros H. inversion H. auto.
  - auto.
Qed.

(* ---------- columns ---------- *)
Lemma col_cons w n ks n' :
  col (Build_window (w_from w) ((n, ks) :: w_cols w)) n' = if n =? n' then ks ++ col w n' else col w n'.
Proof. unfold col. simpl. destruct (n =? n'); reflexivity. Qed.

Lemma col_empty a n : col (empty_window a) n = [].
Proof. reflexivity. Qed.

Lemma col_filter_ne fr w n n' :
  n' <> n -> col (Build_window fr (filter (fun p => negb (fst p =? n)) (w_cols w))) n' = col w n'.
Proof.
  intros Hne. unfold col. simpl. f_equal.
  induction (w_cols w) as [| [a ks] l IH]; simpl; auto.
  destruct (a =? n) eqn:E; simpl.
  - apply N.eqb_eq in E. subst a. destruct (n =? n') eqn:E2; [apply N.eqb_eq in E2; congruence | auto].
  - destruct (a =? n'); [f_equal |]; auto.
Qed.

Section Inv.
Variable W : N.
Hypothesis Wpos : 0 < W.
Variable member : list bkey -> bkey -> bool.

Notation aligned := (aligned W).
Notation w_to := (w_to W).
Notation covers := Proofs.covers.

Lemma w_insert_props w n ks w' :
  w_insert W w n ks = Some w' ->
  w_from w' = w_from w /\
  (forall n' k, In k (col w n') -> In k (col w' n')) /\
  (forall k, In k ks -> In k (col w' n)).
Proof.
  unfold w_insert. destruct (in_window W w n); [| discriminate].
  intros H. inversion H. subst w'. clear H.
  destruct ks as [| k0 ks']; simpl.
  - repeat split; auto. intros k [].
  - repeat split; auto.
    + intros n' k Hk. rewrite col_cons. destruct (n =? n'); auto. apply in_or_app. auto.
    + intros k Hk. rewrite col_cons. rewrite N.eqb_refl. apply in_or_app. auto.
Qed.

(* the part of the invariant that speaks about one chain, one set of persisted windows, one running
   window and a height a *)
Definition J (ch : list block) (pers : list (N * window)) (w : window) (a : N) : Prop :=
  (forall ws, ws mod W = 0 -> ws + W <= a ->
     exists pw, lookup ws pers = Some pw /\ w_from pw = ws /\ covers pw ch ws (ws + W)) /\
  w_from w = aligned a /\ covers w ch (w_from w) a.

(* persisted windows are keyed by aligned numbers and lie entirely below height a *)
Definition K (pers : list (N * window)) (a : N) : Prop :=
  forall k pw, lookup k pers = Some pw -> k mod W = 0 /\ k + W <= a.

Lemma rinv_J s : rinv W s <-> exists w nx, running s = Ready w nx /\ nx = lenN (chain s) /\
                                       J (chain s) (persisted s) w (lenN (chain s)) /\
                                       K (persisted s) (lenN (chain s)).
Proof.
  unfold rinv, disk_inv, keys_inv, run_inv, J, K. split.
  - intros [Hd [Hk [w [nx [Hr [Hn [Hf Hc]]]]]]]. exists w, nx. subst nx. repeat split; auto; apply (Hk _ _ H).
  - intros [w [nx [Hr [Hn [[Hd [Hf Hc]] Hk]]]]]. split; auto. split; auto.
    exists w, nx. subst nx. repeat split; auto.
Qed.

Lemma mod_add_W a : a mod W = 0 -> (a + W) mod W = 0.
Proof.
  intros H. replace (a + W) with (a + 1 * W) by lia. rewrite N.mod_add by lia. auto.
Qed.

Lemma mod_sub_W a : a mod W = 0 -> W <= a -> (a - W) mod W = 0.
Proof.
  intros H Hle. assert (Wn : W <> 0) by lia.
  apply (N.div_exact a W Wn) in H.
  assert (1 <= a / W).
  { destruct (N.eq_dec (a / W) 0) as [E | E]; [rewrite E in H; lia | lia]. }
  assert (E : a - W = (a / W - 1) * W).
  { rewrite N.mul_sub_distr_r. rewrite N.mul_1_l. rewrite (N.mul_comm (a / W) W). rewrite <- H. reflexivity. }
  rewrite E. apply N.mod_mul. lia.
Qed.

(* one insertion through the running filter (Insert incl. the rollover) *)
Lemma rf_insert_step ch pers w a :
  J ch pers w a -> a < lenN ch ->
  exists pers' w', rf_insert W pers w (block_keys (nthN a ch [])) a = Some (pers', w', a + 1) /\
                   J ch pers' w' (a + 1).
Proof.
  intros [Hd [Hf Hc]] Ha.
  pose proof (aligned_le W Wpos a) as Hle. pose proof (aligned_lt W Wpos a) as Hlt.
  pose proof (aligned_mod W Wpos a) as Hmod.
  unfold rf_insert.
  destruct (w_insert W w a (block_keys (nthN a ch []))) as [w' |] eqn:Ei.
  2: { unfold w_insert, in_window, Model.w_to in Ei. rewrite Hf in Ei.
       destruct ((aligned a <=? a) && (a <=? aligned a + W - 1)) eqn:E; [discriminate |].
       apply andb_false_iff in E. destruct E as [E | E]; [apply N.leb_gt in E | apply N.leb_gt in E]; lia. }
  destruct (w_insert_props _ _ _ _ Ei) as [Hf' [Hmono Hnew]].
  assert (Hc' : covers w' ch (w_from w) (a + 1)).
  { intros n Hn k Hk. destruct (N.eq_dec n a) as [-> | Hne].
    - apply Hnew. auto.
    - apply Hmono. apply (Hc n); auto. lia. }
  unfold Model.w_to. rewrite Hf', Hf.
  destruct (a =? aligned a + W - 1) eqn:Eto.
  - (* rollover: persist w', start the window a+1 *)
    apply N.eqb_eq in Eto.
    exists (mset (aligned a) w' pers), (empty_window (a + 1)). split; auto.
    assert (Hmod' : (a + 1) mod W = 0).
    { replace (a + 1) with (aligned a + W) by lia. apply mod_add_W. auto. }
    split; [| split].
    + intros ws Hws Hle'.
      destruct (N.eq_dec ws (aligned a)) as [-> | Hne].
      * exists w'. rewrite lookup_mset_eq. repeat split; auto; try congruence.
        replace (aligned a + W) with (a + 1) by lia. rewrite <- Hf. auto.
      * rewrite lookup_mset_ne by auto. apply Hd; auto.
        assert (ws < aligned a).
        { destruct (N.lt_trichotomy ws (aligned a)) as [? | [? | Hg]]; auto; try contradiction.
          pose proof (mult_gap W Wpos _ _ Hmod Hws Hg). lia. }
        pose proof (mult_gap W Wpos _ _ Hws Hmod H). lia.
    + simpl. symmetry. apply aligned_idem; auto.
    + intros n Hn. simpl in Hn. lia.
  - apply N.eqb_neq in Eto.
    exists pers, w'. split; auto.
    split; [| split].
    + intros ws Hws Hle'.
      destruct (N.le_gt_cases (ws + W) a) as [Hold | Hnew'].
      * apply Hd; auto.
      * exfalso. assert (aligned a = ws) by (apply aligned_of_mult; auto; lia). lia.
    + rewrite Hf', Hf. symmetry. apply aligned_of_mult; auto. lia.
    + rewrite Hf'. auto.
Qed.

Lemma rf_insert_K pers w ks a pers' w' nx' :
  rf_insert W pers w ks a = Some (pers', w', nx') -> w_from w = aligned a ->
  forall b, K pers b -> a + 1 <= b -> K pers' b.
Proof.
  unfold rf_insert. intros H Hf b HK Hb.
  pose proof (aligned_le W Wpos a) as Hle. pose proof (aligned_lt W Wpos a) as Hlt.
  destruct (w_insert W w a ks) as [w2 |] eqn:Ei; [| discriminate].
  destruct (w_insert_props _ _ _ _ Ei) as [Hf' _].
  unfold Model.w_to in H. rewrite Hf', Hf in H.
  destruct (a =? aligned a + W - 1) eqn:Eto; inversion H; subst; clear H.
  - apply N.eqb_eq in Eto. intros k pw Hl.
    destruct (N.eq_dec k (aligned a)) as [-> | Hne].
    + split; [apply aligned_mod; auto | lia].
    + rewrite lookup_mset_ne in Hl by auto. apply (HK _ _ Hl).
  - exact HK.
Qed.

Lemma fill_spec ch b : forall k a pers w nx0,
  J ch pers w a -> K pers b -> a + N.of_nat k <= lenN ch -> a + N.of_nat k <= b ->
  exists pers' w', fill W ch (seqN a k) pers w nx0 = Some (pers', w', if Nat.eqb k 0 then nx0 else a + N.of_nat k) /\
                   J ch pers' w' (a + N.of_nat k) /\ K pers' b.
Proof.
  induction k as [| k IH]; intros a pers w nx0 HJ HK Hle Hb.
  - simpl. exists pers, w. split; auto. rewrite N.add_0_r. auto.
  - simpl seqN. cbn [fill].
    assert (Ha : a < lenN ch) by lia.
    apply N.ltb_lt in Ha. rewrite Ha. apply N.ltb_lt in Ha.
    destruct (rf_insert_step ch pers w a HJ Ha) as [p' [w' [Hi HJ']]].
    assert (HK' : K p' b) by (apply (rf_insert_K _ _ _ _ _ _ _ Hi); auto; [apply HJ | lia]).
    rewrite Hi.
    replace (N.succ a) with (a + 1) by lia.
    destruct (IH (a + 1) p' w' (a + 1) HJ' HK') as [p2 [w2 [Hfill HJ2]]]; [lia | lia |].
    exists p2, w2. rewrite Hfill.
    replace (a + 1 + N.of_nat k) with (a + N.of_nat (S k)) in * by lia.
    split; auto. f_equal. f_equal.
    destruct k; simpl; lia.
Qed.

(* covers only looks at blocks below the bound *)
Lemma covers_chain_ext w ch ch' a b :
  (forall n, a <= n < b -> nthN n ch' [] = nthN n ch []) -> covers w ch a b -> covers w ch' a b.
Proof. intros He Hc n Hn k Hk. apply Hc; auto. rewrite <- He; auto. Qed.

Lemma J_chain_ext ch ch' pers w a :
  (forall n, n < a -> nthN n ch' [] = nthN n ch []) -> J ch pers w a -> J ch' pers w a.
Proof.
  intros He [Hd [Hf Hc]]. split; [| split]; auto.
  - intros ws Hws Hle. destruct (Hd ws Hws Hle) as [pw [Hl [Hpf Hpc]]]. exists pw. repeat split; auto.
    apply (covers_chain_ext pw ch ch' ws (ws + W)); auto. intros n Hn. apply He. lia.
  - apply (covers_chain_ext w ch ch' (w_from w) a); auto. intros n Hn. apply He. lia.
Qed.

Lemma J_weaken_disk ch pers w a b w2 :
  J ch pers w a -> b <= a -> w_from w2 = aligned b -> covers w2 ch (w_from w2) b -> J ch pers w2 b.
Proof.
  intros [Hd _] Hle Hf Hc. split; [| split]; auto. intros ws Hws H. apply Hd; auto. lia.
Qed.

Lemma J_empty pers : J [] pers (empty_window 0) 0.
Proof.
  split; [| split].
  - intros ws _ H. lia.
  - unfold Model.aligned. rewrite N.mod_0_l by lia. reflexivity.
  - intros n Hn. simpl in Hn. lia.
Qed.

(* ---------- the invariant on states, through ensure ---------- *)
Definition inv (s : state) : Prop := rinv W (ensure W s).

Lemma ensure_ready s w nx : running s = Ready w nx -> ensure W s = s.
Proof. unfold ensure. intros ->. reflexivity. Qed.

Lemma rinv_ready s : rinv W s -> exists w nx, running s = Ready w nx.
Proof. intros [_ [_ [w [nx [H _]]]]]. eauto. Qed.

Lemma rinv_ext s s' :
  chain s' = chain s -> persisted s' = persisted s -> running s' = running s -> rinv W s -> rinv W s'.
Proof.
  intros Hc Hp Hr H. unfold rinv, disk_inv, keys_inv, run_inv in *. rewrite Hc, Hp, Hr. auto.
Qed.

Lemma ensure_chain s : chain (ensure W s) = chain s.
Proof. unfold ensure. destruct (running s); auto. destruct (init_rf W s). reflexivity. Qed.

Lemma ensure_cache_indep s c :
  ensure W (set_cache s c) = set_cache (ensure W s) c.
Proof.
  unfold ensure. simpl. destruct (running s) eqn:Er.
  - change (init_rf W (set_cache s c)) with (init_rf W s). destruct (init_rf W s). reflexivity.
  - unfold set_cache. rewrite Er. reflexivity.
  - unfold set_cache. rewrite Er. reflexivity.
Qed.

Lemma ensure_uninit_cache s c : running s = Uninit ->
  ensure W (Build_state (chain s) (persisted s) (snapshot s) Uninit c) = set_cache (ensure W s) c.
Proof.
  intros Er. unfold ensure. simpl. rewrite Er.
  change (init_rf W (Build_state (chain s) (persisted s) (snapshot s) Uninit c)) with (init_rf W s).
  destruct (init_rf W s). reflexivity.
Qed.

Lemma inv_set_cache s c : inv s -> inv (set_cache s c).
Proof.
  unfold inv. rewrite ensure_cache_indep. apply rinv_ext; reflexivity.
Qed.

(* Store *)
Lemma store_inv s b : inv s -> inv (fst (do_store W s b)).
Proof.
  unfold inv, do_store. intros Hi. set (s1 := ensure W s) in *.
  destruct (proj1 (rinv_J s1) Hi) as [w [nx [Hr [Hnx [HJ HK]]]]]. rewrite Hr.
  assert (HJ' : J (chain s1 ++ [b]) (persisted s1) w (lenN (chain s1))).
  { apply (J_chain_ext (chain s1) (chain s1 ++ [b])); [| exact HJ]. intros n Hn. apply nthN_app_lt. auto. }
  destruct (rf_insert_step (chain s1 ++ [b]) (persisted s1) w (lenN (chain s1)) HJ')
    as [p' [w' [Hins HJ2]]].
  { rewrite lenN_app. lia. }
  rewrite nthN_app_eq in Hins. rewrite Hins. simpl.
  apply rinv_J. simpl. exists w', (lenN (chain s1) + 1). rewrite lenN_app.
  split; [reflexivity | split; [reflexivity | split; [exact HJ2 |]]].
  apply (rf_insert_K _ _ _ _ _ _ _ Hins); [apply HJ | | lia].
  intros k pw Hl. destruct (HK _ _ Hl). split; auto. lia.
Qed.

(* Revert *)
Lemma revert_inv s : inv s -> inv (fst (do_revert W s)).
Proof.
  unfold inv, do_revert. intros Hi.
  destruct (chain s) as [| b0 ch0] eqn:Ech; auto.
  set (s1 := ensure W s) in *.
  assert (Hch : chain s1 = chain s) by apply ensure_chain.
  destruct (proj1 (rinv_J s1) Hi) as [w [nx [Hr [Hnx [[Hd [Hf Hc]] HK]]]]]. rewrite Hr.
  rewrite <- Hnx in Hd, Hf, Hc, HK.
  assert (Hne : chain s1 <> []) by (rewrite Hch, Ech; discriminate).
  assert (Hlen : 1 <= lenN (chain s1)).
  { rewrite Hch, Ech. unfold lenN. cbn [length]. lia. }
  assert (Hcur : pred64 nx = nx - 1).
  { unfold pred64. destruct (nx =? 0) eqn:E; auto. apply N.eqb_eq in E. lia. }
  rewrite Hcur.
  pose proof (aligned_le W Wpos nx) as Hale. pose proof (aligned_lt W Wpos nx) as Halt.
  pose proof (aligned_mod W Wpos nx) as Hamod.
  destruct (nx =? w_from w) eqn:Eb.
  - (* the running window is empty: reload the previous persisted window *)
    apply N.eqb_eq in Eb.
    assert (Hmod : nx mod W = 0) by (rewrite Eb, Hf; auto).
    assert (HW : W <= nx).
    { pose proof (mult_gap W Wpos 0 nx). rewrite N.mod_0_l in H by lia. specialize (H eq_refl Hmod). lia. }
    assert (Hprev : (nx - W) mod W = 0) by (apply mod_sub_W; auto).
    assert (Hal : aligned (nx - 1) = nx - W) by (apply aligned_of_mult; auto; lia).
    rewrite Hal.
    destruct (Hd (nx - W) Hprev) as [lw [Hl [Hlf Hlc]]]; [lia |].
    rewrite Hl.
    unfold w_clear, in_window, Model.w_to. rewrite Hlf.
    assert (E : (nx - W <=? nx - 1) && (nx - 1 <=? nx - W + W - 1) = true).
    { apply andb_true_iff. split; apply N.leb_le; lia. }
    rewrite E. simpl.
    apply rinv_J. simpl. eexists _, (nx - 1). split; [reflexivity |].
    rewrite lenN_removelast by auto. split; [lia |].
    replace (lenN (chain s1) - 1) with (nx - 1) by lia.
    split; [split; [| split] |].
    + intros ws Hws Hle. destruct (Hd ws Hws) as [pw [Hp [Hpf Hpc]]]; [lia |].
      exists pw. rewrite lookup_mremove_ne by lia. repeat split; auto.
      apply (covers_chain_ext pw (chain s1) _ ws (ws + W)); auto. intros n Hn. apply nthN_removelast. unfold block, tx in *; lia.
    + simpl. symmetry. exact Hal.
    + simpl. intros n Hn k Hk.
      rewrite col_filter_ne by lia.
      apply Hlc; [lia |]. rewrite <- nthN_removelast by (unfold block, tx in *; lia). auto.
    + (* the persisted copy of the re-entered window is gone, every other key lies below it *)
      intros k pw Hlk. destruct (N.eq_dec k (nx - W)) as [-> | Hkne].
      * rewrite lookup_mremove_eq in Hlk. discriminate.
      * rewrite lookup_mremove_ne in Hlk by auto. destruct (HK _ _ Hlk). split; auto. lia.
  - apply N.eqb_neq in Eb.
    assert (Hlt : w_from w < nx) by lia.
    unfold w_clear, in_window, Model.w_to.
    assert (E : (w_from w <=? nx - 1) && (nx - 1 <=? w_from w + W - 1) = true).
    { apply andb_true_iff. split; apply N.leb_le; lia. }
    rewrite E. simpl.
    apply rinv_J. simpl. eexists _, (nx - 1). split; [reflexivity |].
    rewrite lenN_removelast by auto. split; [lia |].
    replace (lenN (chain s1) - 1) with (nx - 1) by lia.
    split; [split; [| split] |].
    + intros ws Hws Hle. destruct (Hd ws Hws) as [pw [Hp [Hpf Hpc]]]; [lia |].
      exists pw. repeat split; auto.
      apply (covers_chain_ext pw (chain s1) _ ws (ws + W)); auto. intros n Hn. apply nthN_removelast. unfold block, tx in *; lia.
    + simpl. rewrite Hf. symmetry. apply aligned_of_mult; auto. lia.
    + simpl. intros n Hn k Hk. rewrite col_filter_ne by lia.
      apply Hc; [lia |]. rewrite <- nthN_removelast by (unfold block, tx in *; lia). auto.
    + intros k pw Hl. destruct (HK _ _ Hl) as [Hkm Hkl]. split; auto.
      destruct (N.eq_dec (k + W) nx) as [E' | E']; [| lia].
      exfalso. assert (nx mod W = 0) by (rewrite <- E'; apply mod_add_W; auto).
      rewrite (aligned_idem W Wpos nx H) in Hf. lia.
Qed.

(* graceful restart: the snapshot just written is taken as it is *)
Lemma restart_graceful_inv s : inv s -> inv (do_restart W s true).
Proof.
  unfold inv, do_restart. intros Hi. set (s1 := ensure W s) in *.
  destruct (proj1 (rinv_J s1) Hi) as [w [nx [Hr [Hnx [HJ HK]]]]]. rewrite Hr. simpl.
  unfold ensure. simpl. unfold init_rf. simpl.
  destruct (chain s1) as [| b0 ch0] eqn:Ech.
  - apply rinv_J. simpl. exists (empty_window 0), 0.
    split; [reflexivity | split; [reflexivity | split; [apply J_empty | exact HK]]].
  - assert (E : nx =? lenN (b0 :: ch0) - 1 + 1 = true).
    { apply N.eqb_eq. rewrite Hnx. unfold lenN. cbn [length]. lia. }
    rewrite E. apply rinv_J. simpl. exists w, nx.
    split; [reflexivity | split; [exact Hnx | split; [exact HJ | exact HK]]].
Qed.

(* ---------- ungraceful restart: the three branches of InitializeRunningEventFilter ---------- *)
Lemma covers_b_sound w ch a b : covers_b w ch a b = true -> covers w ch a b.
Proof.
  unfold covers_b. intros H n Hn k Hk.
  rewrite forallb_forall in H.
  assert (Hin : In n (seqN a (N.to_nat (b - a)))).
  { clear - Hn. remember (N.to_nat (b - a)) as c. assert (a + N.of_nat c = b \/ b <= a) by lia.
    destruct H as [H | H]; [| lia]. subst b. clear Heqc. revert a Hn.
    induction c as [| c IH]; intros a Hn; [lia |]. simpl.
    destruct (N.eq_dec a n); auto. right. apply IH. lia. }
  specialize (H n Hin). rewrite forallb_forall in H. specialize (H k Hk).
  apply existsb_exists in H. destruct H as [k' [Hk' He]].
  assert (k = k'); [| subst; auto].
  destruct k, k'; simpl in He; try discriminate.
  - apply N.eqb_eq in He. subst. auto.
  - apply andb_true_iff in He. destruct He as [E1 E2]. apply N.eqb_eq in E1. apply N.eqb_eq in E2. subst. auto.
Qed.

Lemma find_cont_spec pers : forall fuel ws, ws mod W = 0 ->
  find_cont W fuel pers ws mod W = 0 /\
  (find_cont W fuel pers ws = 0 \/
   exists ws' pw, lookup ws' pers = Some pw /\ find_cont W fuel pers ws = ws' + W).
Proof.
  induction fuel as [| fuel IH]; intros ws Hws; simpl.
  - destruct (lookup ws pers) as [pw |] eqn:El.
    + split; [apply mod_add_W; auto | right; eauto].
    + destruct (ws =? 0); split; auto; try (apply N.mod_0_l; lia).
  - destruct (lookup ws pers) as [pw |] eqn:El.
    + split; [apply mod_add_W; auto | right; eauto].
    + destruct (ws =? 0) eqn:E0.
      * split; auto; try (apply N.mod_0_l; lia).
      * apply N.eqb_neq in E0. apply IH. apply mod_sub_W; auto.
        pose proof (mult_gap W Wpos 0 ws). rewrite N.mod_0_l in H by lia.
        specialize (H eq_refl Hws). lia.
Qed.

Lemma rangeN_seq a b : a <= b + 1 -> rangeN a b = seqN a (N.to_nat (b + 1 - a)).
Proof. intros. unfold rangeN. f_equal. lia. Qed.

Lemma restart_init_ok_lemma s w0 nx0 :
  rinv W s -> running s = Ready w0 nx0 -> disk_ok_b W s = true -> inv (do_restart W s false).
Proof.
  intros Hi Hr0 Hok. unfold inv, do_restart. simpl.
  destruct (proj1 (rinv_J s) Hi) as [w1 [nx1 [Hr1 [Hnx1 [HJ HK]]]]].
  destruct HJ as [Hd _].
  unfold ensure. simpl. unfold init_rf. simpl. unfold disk_ok_b in Hok.
  destruct (chain s) as [| b0 ch0] eqn:Ech.
  - apply rinv_J. simpl. exists (empty_window 0), 0.
    split; [reflexivity | split; [reflexivity | split; [apply J_empty | exact HK]]].
  - rewrite <- Ech in *.
    assert (Hlen : 1 <= lenN (chain s)) by (rewrite Ech; unfold lenN; cbn [length]; lia).
    set (latest := lenN (chain s) - 1) in *.
    (* the rebuild branch, used twice *)
    assert (Hrebuild : forall sn,
              rinv W (let (p, r) := rebuild W (chain s) (persisted s) latest in
                      Build_state (chain s) p sn r [])).
    { intros sn. unfold rebuild.
      set (cf := find_cont W (S (N.to_nat (latest / W))) (persisted s) (aligned latest)).
      destruct (find_cont_spec (persisted s) (S (N.to_nat (latest / W))) (aligned latest)
                  (aligned_mod W Wpos latest)) as [Hcm Hcv]. fold cf in Hcm, Hcv.
      assert (Hcle : cf <= lenN (chain s)).
      { destruct Hcv as [-> | [ws' [pw [Hl ->]]]]; [lia |]. apply (HK _ _ Hl). }
      assert (HJ0 : J (chain s) (persisted s) (empty_window cf) cf).
      { split; [| split].
        - intros ws Hws Hle. apply Hd; auto. lia.
        - simpl. symmetry. apply aligned_idem; auto.
        - intros n Hn. simpl in Hn. lia. }
      rewrite rangeN_seq by (unfold latest; lia).
      destruct (fill_spec (chain s) (lenN (chain s)) (N.to_nat (latest + 1 - cf)) cf (persisted s) (empty_window cf) cf HJ0 HK)
        as [p' [w' [Hfill HJ']]]; [unfold latest; lia | unfold latest; lia |].
      rewrite Hfill. simpl.
      replace (cf + N.of_nat (N.to_nat (latest + 1 - cf))) with (lenN (chain s)) in * by (unfold latest; lia).
      apply rinv_J. simpl. eexists _, _. split; [reflexivity |]. split; auto.
      destruct (Nat.eqb (N.to_nat (latest + 1 - cf)) 0) eqn:E0; auto.
      apply Nat.eqb_eq in E0. unfold latest in *. lia. }
    destruct (snapshot s) as [[w nx] |] eqn:Esnap; [| apply Hrebuild].
    destruct (nx =? latest + 1) eqn:E1.
    + (* snapshot caught up: used as it is *)
      simpl in Hok. unfold snap_good_b in Hok.
      repeat (apply andb_true_iff in Hok; destruct Hok as [Hok ?]).
      apply N.eqb_eq in E1. apply N.eqb_eq in Hok. apply N.leb_le in H1. apply N.leb_le in H0.
      apply covers_b_sound in H. unfold Model.w_to in H0.
      apply rinv_J. simpl. exists w, nx. split; [reflexivity |]. split; [unfold latest in *; lia |].
      split; [| exact HK].
      replace (lenN (chain s)) with nx by (unfold latest in *; lia).
      split; [| split]; auto.
      * intros ws Hws Hle. apply Hd; auto. unfold latest in *. lia.
      * symmetry. apply aligned_of_mult; auto. lia.
    + destruct ((nx <=? latest) && (latest <=? Model.w_to W w)) eqn:E2.
      * (* same-window gap: fill the snapshot in place *)
        simpl in Hok. unfold snap_good_b in Hok.
        repeat (apply andb_true_iff in Hok; destruct Hok as [Hok ?]).
        apply andb_true_iff in E2. destruct E2 as [E2 E3].
        apply N.leb_le in E2. apply N.leb_le in E3.
        apply N.eqb_eq in Hok. apply N.leb_le in H1. apply N.leb_le in H0.
        apply covers_b_sound in H. unfold Model.w_to in H0, E3.
        assert (HJ0 : J (chain s) (persisted s) w nx).
        { split; [| split]; auto.
          - intros ws Hws Hle. apply Hd; auto. unfold latest in *. lia.
          - symmetry. apply aligned_of_mult; auto. lia. }
        rewrite rangeN_seq by lia.
        destruct (fill_spec (chain s) (lenN (chain s)) (N.to_nat (latest + 1 - nx)) nx (persisted s) w nx HJ0 HK)
          as [p' [w' [Hfill HJ']]]; [unfold latest; lia | unfold latest; lia |].
        rewrite Hfill. simpl.
        replace (nx + N.of_nat (N.to_nat (latest + 1 - nx))) with (lenN (chain s)) in * by (unfold latest; lia).
        apply rinv_J. simpl. eexists _, _. split; [reflexivity |]. split; auto.
        destruct (Nat.eqb (N.to_nat (latest + 1 - nx)) 0) eqn:E0; auto.
        apply Nat.eqb_eq in E0. unfold latest in *. lia.
      * apply Hrebuild.
Qed.

(* ---------- queries and forgetting only touch the cache ---------- *)
Lemma cache_load_fields s ws :
  chain (cache_load s ws) = chain s /\ persisted (cache_load s ws) = persisted s /\
  running (cache_load s ws) = running s.
Proof.
  unfold cache_load. destruct (running s) eqn:Er; auto.
  destruct (w_from w =? ws); auto. destruct (lookup ws (cache s)); auto.
  destruct (lookup ws (persisted s)); auto.
Qed.

Lemma cache_after_fields s a b :
  chain (cache_after W s a b) = chain s /\ persisted (cache_after W s a b) = persisted s /\
  running (cache_after W s a b) = running s.
Proof.
  unfold cache_after.
  generalize (wstarts W (aligned a) (S (N.to_nat ((aligned b - aligned a) / W)))).
  intros l. revert s. induction l as [| x l IH]; intros s; simpl; auto.
  destruct (IH (cache_load s x)) as [A [B C]]. destruct (cache_load_fields s x) as [A' [B' C']].
  repeat split; congruence.
Qed.

Lemma query_inv s flt from to chunk limit tok :
  inv s -> inv (fst (do_query W member s flt from to chunk limit tok)).
Proof.
  unfold inv, do_query. intros Hi.
  destruct (chain s) eqn:Ech; auto. try rewrite <- Ech in *.
  destruct (_ <? _); auto.
  destruct (rinv_ready _ Hi) as [w [nx Hr]]. rewrite Hr.
  destruct (scanq _ _ _ _ _ _ _ _ _) as [r stop]. simpl.
  destruct (cache_after_fields (ensure W s) (if tok_none tok then from else fst tok) stop) as [A [B C]].
  rewrite (ensure_ready _ w nx) by congruence.
  eapply rinv_ext; eauto.
Qed.

Lemma step_inv s o :
  inv s -> (match o, running s with Restart false, Ready _ _ => disk_ok_b W s | _, _ => true end) = true ->
  inv (fst (step W member s o)).
Proof.
  intros Hi Hg. destruct o as [b | | g | ws | flt from to chunk limit tok]; simpl.
  - apply store_inv; auto.
  - apply revert_inv; auto.
  - destruct g; [apply restart_graceful_inv; auto |].
    destruct (running s) as [| | w nx] eqn:Er.
    + (* not initialised since the last restart: only the (empty) cache is dropped *)
      unfold inv in *. unfold do_restart.
      rewrite (ensure_uninit_cache s [] Er). eapply rinv_ext; eauto; reflexivity.
    + unfold inv, ensure in Hi. rewrite Er in Hi. destruct Hi as [_ [_ [w [nx [H _]]]]]. congruence.
    + assert (rinv W s) by (unfold inv in Hi; rewrite (ensure_ready _ _ _ Er) in Hi; auto).
      eapply restart_init_ok_lemma; eauto.
  - apply inv_set_cache. auto.
  - apply query_inv; auto.
Qed.

Lemma run_inv_lemma : forall ops s, inv s -> guarded W member s ops = true -> inv (run W member s ops).
Proof.
  induction ops as [| o ops IH]; intros s Hi Hg; simpl; auto.
  simpl in Hg. apply andb_true_iff in Hg. destruct Hg as [Hg1 Hg2].
  apply IH; auto. apply step_inv; auto.
Qed.

Lemma inv_init : inv init_state.
Proof.
  unfold inv, ensure, init_state. simpl. apply rinv_J. simpl.
  exists (empty_window 0), 0.
  split; [reflexivity | split; [reflexivity | split; [apply J_empty |]]].
  intros k pw Hl. simpl in Hl. discriminate.
Qed.

End Inv.
