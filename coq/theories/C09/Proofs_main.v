(* C09 — lemmas, part 4: assembly of the property theorems. *)
From Coq Require Import List NArith Bool Lia ZifyN ZifyNat ZifyBool.
From V Require Import C09.Model C09.Proofs C09.Proofs_paging C09.Proofs_inv C09.Proofs_cache.
Import ListNotations.
Open Scope N_scope.

Lemma bkey_eqb_eq a b : bkey_eqb a b = true -> a = b.
Proof.
  destruct a, b; simpl; try discriminate.
  - intros H. apply N.eqb_eq in H. subst. auto.
  - intros H. apply andb_true_iff in H. destruct H as [H1 H2].
    apply N.eqb_eq in H1. apply N.eqb_eq in H2. subst. auto.
Qed.

Lemma bkey_eqb_refl a : bkey_eqb a a = true.
Proof. destruct a; simpl; rewrite ?N.eqb_refl; auto. Qed.

Lemma member_exact_sound : forall ks k, In k ks -> member_exact ks k = true.
Proof.
  intros ks k H. unfold member_exact. apply existsb_exists. exists k. split; auto. apply bkey_eqb_refl.
Qed.

Lemma list_eqb_eq {A} (eqb : A -> A -> bool) :
  (forall x y, eqb x y = true -> x = y) -> forall a b, list_eqb eqb a b = true -> a = b.
Proof.
  intros He. induction a as [| x a IH]; destruct b as [| y b]; simpl; try discriminate; auto.
  intros H. apply andb_true_iff in H. destruct H as [H1 H2]. f_equal; auto.
Qed.

Lemma window_eqb_eq a b : window_eqb a b = true -> a = b.
Proof.
  unfold window_eqb. intros H. apply andb_true_iff in H. destruct H as [H1 H2].
  apply N.eqb_eq in H1. destruct a as [fa ca], b as [fb cb]. simpl in *. subst fb. f_equal.
  revert H2. apply list_eqb_eq. intros [n1 k1] [n2 k2] H. simpl in H.
  apply andb_true_iff in H. destruct H as [E1 E2]. apply N.eqb_eq in E1. subst n2. f_equal.
  revert E2. apply list_eqb_eq. apply bkey_eqb_eq.
Qed.

(* the boolean the harness evaluates implies the hypothesis of the theorems *)
Lemma cache_fresh_b_sound s : cache_fresh_b s = true -> cache_fresh s.
Proof.
  unfold cache_fresh_b, cache_fresh. intros H ws c Hl. rewrite forallb_forall in H.
  assert (Hin : In (ws, c) (cache s)).
  { clear H. induction (cache s) as [| [a x] m IH]; simpl in *; [discriminate |].
    destruct (ws =? a) eqn:E.
    - apply N.eqb_eq in E. subst. inversion Hl. auto.
    - auto. }
  specialize (H _ Hin). simpl in H.
  destruct (lookup ws (persisted s)) as [q |]; [| discriminate].
  apply window_eqb_eq in H. subst. reflexivity.
Qed.

Section Main.
Variable W : N.
Hypothesis Wpos : 0 < W.
Variable member : list bkey -> bkey -> bool.
Hypothesis bloom_sound : forall ks k, In k ks -> member ks k = true.

(* every state reached by a guarded history satisfies the index invariant (after lazy initialisation) *)
Lemma reachable_rinv ops :
  guarded W member init_state ops = true -> rinv W (ensure W (run W member init_state ops)).
Proof. intros Hg. apply (run_inv_lemma W Wpos member ops init_state); auto. apply inv_init; auto. Qed.

Lemma no_false_negative_lemma ops :
  guarded W member init_state ops = true ->
  let s := ensure W (run W member init_state ops) in
  forall flt n, n < lenN (chain s) -> block_matches (chain s) flt n <> [] ->
    cand_item W member s flt n = Some true.
Proof.
  intros Hg s flt n Hn Hm.
  assert (Hf : cache_fresh s) by (apply (reachable_cache_fresh W Wpos member ops Hg)).
  destruct (no_false_negative_state W Wpos member bloom_sound s flt n (reachable_rinv ops Hg) Hf Hn)
    as [c [Hc Hcf]].
  destruct c; auto. specialize (Hcf eq_refl). contradiction.
Qed.

Lemma paging_concat_state s :
  rinv W s -> cache_fresh s -> chain s <> [] ->
  forall flt from to chunk limit fuel, 0 < chunk ->
  (length (chain s) + length (filter_spec (chain s) flt from to) < fuel)%nat ->
  pages W member fuel s flt from to chunk limit (0, 0) = Some (filter_spec (chain s) flt from to).
Proof.
  intros Hi Hf Hne flt from to chunk limit fuel Hchunk Hfuel.
  apply pages_exact; auto.
  - destruct Hi as [_ [_ [w [nx [Hr _]]]]]. eauto.
  - intros n Hn.
    assert (n < lenN (chain s)).
    { destruct (chain s); [contradiction |]. unfold lenN in *. cbn [length] in *. lia. }
    apply (no_false_negative_state W Wpos member bloom_sound s flt n Hi Hf H).
Qed.

Lemma paging_concat_lemma ops :
  guarded W member init_state ops = true ->
  let s := ensure W (run W member init_state ops) in
  chain s <> [] ->
  forall flt from to chunk limit fuel, 0 < chunk ->
  (length (chain s) + length (filter_spec (chain s) flt from to) < fuel)%nat ->
  pages W member fuel s flt from to chunk limit (0, 0) = Some (filter_spec (chain s) flt from to).
Proof.
  intros Hg s. apply paging_concat_state.
  - apply reachable_rinv. auto.
  - apply (reachable_cache_fresh W Wpos member ops Hg).
Qed.

Lemma restart_init_ok_all s g :
  rinv W s -> (g = false -> disk_ok_b W s = true) -> rinv W (ensure W (do_restart W s g)).
Proof.
  intros Hi Hg. destruct g.
  - apply (restart_graceful_inv W Wpos member). unfold inv.
    destruct (rinv_ready W s Hi) as [w [nx Hr]]. rewrite (ensure_ready W s w nx Hr). auto.
  - destruct (rinv_ready W s Hi) as [w [nx Hr]].
    apply (restart_init_ok_lemma W Wpos member s w nx); auto.
Qed.

End Main.

(* ---------- the snapshot is consumed by the initialisation that reads it ----------
   InitializeRunningEventFilter deletes the stored snapshot when it reads it (non-empty chain), so a snapshot
   on disk is either the one written on an EMPTY chain (next = 0, window 0: it records nothing and is good
   for every chain) or it was written by the graceful shutdown of the previous process and the running
   filter has not been initialised since (chain unchanged). Hence [guarded] holds for EVERY history. *)
Section Snapshot.
Variable W : N.
Hypothesis Wpos : 0 < W.
Variable member : list bkey -> bkey -> bool.

Definition snap_inv (s : state) : Prop :=
  match snapshot s with
  | None => True
  | Some (w, nx) =>
      (nx = 0 /\ w_from w = 0) \/
      (running s = Uninit /\ nx = lenN (chain s) /\ w_from w = aligned W nx)
  end.

(* after the lazy initialisation only the empty-chain snapshot can be left *)
Definition snapB (s : state) : Prop :=
  snapshot s = None \/ exists w, snapshot s = Some (w, 0) /\ w_from w = 0.

Lemma ensure_snapB s : snap_inv s -> snapB (ensure W s).
Proof.
  unfold snap_inv, snapB, ensure. intros H.
  destruct (running s) eqn:Er.
  - destruct (init_rf W s) as [p r]. simpl. unfold init_snap.
    destruct (chain s) as [| b0 ch0] eqn:Ech; [| left; auto].
    destruct (snapshot s) as [[w nx] |]; [| left; auto].
    destruct H as [[-> Hw] | [_ [Hn Hw]]]; right; exists w.
    + auto.
    + unfold lenN in Hn. simpl in Hn. subst nx. split; auto.
  - destruct (snapshot s) as [[w1 nx1] |]; [| left; auto].
    destruct H as [[-> Hw] | [Hu _]]; [right; exists w1; auto | congruence].
  - destruct (snapshot s) as [[w1 nx1] |]; [| left; auto].
    destruct H as [[-> Hw] | [Hu _]]; [right; exists w1; auto | congruence].
Qed.

Lemma snapB_inv s s' : snap_inv s -> snapshot s' = snapshot (ensure W s) -> snap_inv s'.
Proof.
  intros H E. unfold snap_inv. rewrite E.
  destruct (ensure_snapB s H) as [-> | [w [-> Hw]]]; auto.
Qed.

Lemma cache_load_snapshot s ws : snapshot (cache_load s ws) = snapshot s.
Proof.
  unfold cache_load. destruct (running s); auto. destruct (w_from w =? ws); auto.
  destruct (lookup ws (cache s)); auto. destruct (lookup ws (persisted s)); auto.
Qed.

Lemma cache_after_snapshot s a b : snapshot (cache_after W s a b) = snapshot s.
Proof.
  unfold cache_after.
  generalize (wstarts W (aligned W a) (S (N.to_nat ((aligned W b - aligned W a) / W)))).
  intros l. revert s. induction l as [| x l IH]; intros s; simpl; auto.
  rewrite IH. apply cache_load_snapshot.
Qed.

Lemma step_snap_inv s o : inv W s -> snap_inv s -> snap_inv (fst (step W member s o)).
Proof.
  intros Hi H. destruct o as [b | | g | ws | flt from to chunk limit tok]; simpl.
  - unfold do_store. destruct (running (ensure W s)) eqn:Er; simpl; try (apply (snapB_inv s); auto; fail).
    destruct (rf_insert _ _ _ _ _) as [[[p' w'] nx'] |]; simpl; apply (snapB_inv s); auto.
  - unfold do_revert. destruct (chain s); auto.
    destruct (running (ensure W s)) eqn:Er; simpl; try (apply (snapB_inv s); auto; fail).
    destruct (next =? w_from w).
    + destruct (lookup _ _); simpl; try (apply (snapB_inv s); auto; fail).
      destruct (w_clear _ _ _); simpl; apply (snapB_inv s); auto.
    + destruct (w_clear _ _ _); simpl; apply (snapB_inv s); auto.
  - destruct g.
    + (* graceful: the snapshot just written describes the chain, the filter is uninitialised *)
      unfold do_restart. unfold inv in Hi.
      destruct Hi as [_ [_ [w [nx [Hr [Hnx [Hf _]]]]]]]. rewrite Hr.
      unfold snap_inv. simpl. right. repeat split; auto.
    + unfold do_restart, snap_inv in *. simpl.
      destruct (snapshot s) as [[w nx] |]; auto.
      destruct H as [H | [_ [Hn Hw]]]; [left; auto | right; auto].
  - unfold do_forget, set_cache, snap_inv in *. simpl. exact H.
  - unfold do_query. destruct (chain s); auto. destruct (_ <? _); auto.
    destruct (running (ensure W s)) eqn:Er; simpl; try (apply (snapB_inv s); auto; fail).
    destruct (scanq _ _ _ _ _ _ _ _ _) as [r stop]. simpl.
    apply (snapB_inv s); auto. apply cache_after_snapshot.
Qed.

Lemma disk_ok_no_snapshot s : snapshot s = None -> disk_ok_b W s = true.
Proof. intros H. unfold disk_ok_b. rewrite H. destruct (chain s); reflexivity. Qed.

Lemma disk_ok_empty_snapshot s w : snapshot s = Some (w, 0) -> w_from w = 0 -> disk_ok_b W s = true.
Proof.
  intros H Hw. unfold disk_ok_b. rewrite H. destruct (chain s); auto.
  destruct (_ || _); auto. unfold snap_good_b, covers_b, w_to. rewrite Hw. simpl.
  rewrite andb_true_r. apply N.leb_le. lia.
Qed.

Lemma guarded_from : forall ops s, inv W s -> snap_inv s -> guarded W member s ops = true.
Proof.
  induction ops as [| o ops IH]; intros s Hi H; simpl; auto.
  assert (Hchk : (match o, running s with
                  | Restart false, Ready _ _ => disk_ok_b W s
                  | _, _ => true
                  end) = true).
  { destruct o; auto. destruct graceful; auto. destruct (running s) eqn:Er; auto.
    unfold snap_inv in H. destruct (snapshot s) as [[w0 nx] |] eqn:Es.
    - destruct H as [[-> Hw] | [Hu _]]; [| congruence]. eapply disk_ok_empty_snapshot; eauto.
    - apply disk_ok_no_snapshot; auto. }
  rewrite Hchk. simpl. apply IH.
  - apply step_inv; auto.
  - apply step_snap_inv; auto.
Qed.

(* [guarded] is no hypothesis any more: it holds for every history, graceful restarts included *)
Lemma guarded_always ops : guarded W member init_state ops = true.
Proof. apply guarded_from; [apply inv_init; auto | unfold snap_inv; simpl; auto]. Qed.

Lemma guarded_without_graceful ops :
  (forall o, In o ops -> o <> Restart true) -> guarded W member init_state ops = true.
Proof. intros _. apply guarded_always. Qed.

(* in every reachable state the only snapshot that can be on disk while the filter is initialised is the
   empty-chain one; otherwise there is none *)
Lemma reachable_snap_inv : forall ops s, inv W s -> snap_inv s -> snap_inv (run W member s ops).
Proof.
  induction ops as [| o ops IH]; intros s Hi H; simpl; auto.
  apply IH; [| apply step_snap_inv; auto].
  apply step_inv; auto.
  pose proof (guarded_from [o] s Hi H) as Hg. simpl in Hg. apply andb_true_iff in Hg. apply Hg.
Qed.

Lemma reachable_snapshot_consumed ops :
  snapB (ensure W (run W member init_state ops)).
Proof.
  apply ensure_snapB. apply reachable_snap_inv; [apply inv_init; auto | unfold snap_inv; simpl; auto].
Qed.

End Snapshot.

(* ---------- the headline lemmas at full strength: every history ---------- *)
Section Full.
Variable W : N.
Hypothesis Wpos : 0 < W.
Variable member : list bkey -> bkey -> bool.
Hypothesis bloom_sound : forall ks k, In k ks -> member ks k = true.

Lemma reachable_rinv_all ops : rinv W (ensure W (run W member init_state ops)).
Proof. apply reachable_rinv; auto. apply guarded_always; auto. Qed.

Lemma reachable_cache_fresh_all ops : cache_fresh (ensure W (run W member init_state ops)).
Proof. apply (reachable_cache_fresh W Wpos member ops). apply guarded_always; auto. Qed.

Lemma no_false_negative_all ops :
  let s := ensure W (run W member init_state ops) in
  forall flt n, n < lenN (chain s) -> block_matches (chain s) flt n <> [] ->
    cand_item W member s flt n = Some true.
Proof. apply no_false_negative_lemma; auto. apply guarded_always; auto. Qed.

Lemma paging_concat_all ops :
  let s := ensure W (run W member init_state ops) in
  chain s <> [] ->
  forall flt from to chunk limit fuel, 0 < chunk ->
  (length (chain s) + length (filter_spec (chain s) flt from to) < fuel)%nat ->
  pages W member fuel s flt from to chunk limit (0, 0) = Some (filter_spec (chain s) flt from to).
Proof. apply paging_concat_lemma; auto. apply guarded_always; auto. Qed.

End Full.

Lemma reachable_keys W (Wpos : 0 < W) member ops :
  let s := ensure W (run W member init_state ops) in
  forall k pw, lookup k (persisted s) = Some pw -> k mod W = 0 /\ k + W <= lenN (chain s).
Proof. intros s. destruct (reachable_rinv_all W Wpos member ops) as [_ [Hk _]]. exact Hk. Qed.

(* ---------- starknet_getEvents: a page never leaves the resolved range ---------- *)
Lemma rpc_page_within_range W (Wpos : 0 < W) member s flt fb tb chunk limit tok s' evs t from to :
  resolve_bid false (lenN (chain s) - 1) 0 fb = Some from ->
  resolve_bid true (lenN (chain s) - 1) (lenN (chain s) - 1) tb = Some to ->
  do_rpc_events W member s flt fb tb chunk limit tok [] = (s', Some (OPage evs t)) ->
  forall e, In e evs ->
    (if tok_none tok then from else fst tok) <= fe_block e <= N.min to (lenN (chain s) - 1).
Proof.
  intros Hf Ht H e He. unfold do_rpc_events in H.
  destruct (chain s) as [| b0 ch] eqn:Ech; [discriminate |].
  rewrite Hf, Ht in H.
  unfold do_query_pre in H. rewrite Ech in H.
  destruct (do_query W member s flt from to chunk limit tok) as [s1 o] eqn:Eq.
  inversion H. subst.
  pose proof (do_query_page_range W Wpos member s flt from to chunk limit tok s' evs t Eq e He) as P.
  rewrite Ech in P. exact P.
Qed.

(* a numeric from_block is taken as it is: above the head the canonical range is empty *)
Lemma rpc_from_above_head_empty W member s flt n tb chunk limit to :
  chain s <> [] -> lenN (chain s) - 1 < n ->
  resolve_bid true (lenN (chain s) - 1) (lenN (chain s) - 1) tb = Some to ->
  do_rpc_events W member s flt (BNumber n) tb chunk limit (0, 0) [] = (s, Some (OPage [] (0, 0))).
Proof.
  intros Hne Hn Ht. unfold do_rpc_events, do_query_pre, do_query.
  destruct (chain s) as [| b0 ch] eqn:Ech; [contradiction |].
  rewrite Ht. simpl resolve_bid. change (tok_none (0, 0)) with true. cbv iota.
  assert (E : N.min to (lenN (b0 :: ch) - 1) <? n = true) by (apply N.ltb_lt; lia).
  rewrite E. reflexivity.
Qed.
