(* C09 — lemmas, part 4: assembly of the property theorems. *)
From Coq Require Import List NArith Bool Lia ZifyN ZifyNat ZifyBool.
From V Require Import C09.Model C09.Proofs C09.Proofs_paging C09.Proofs_inv C09.Proofs_cache.
Import ListNotations.
Open Scope N_scope.

Lemma bkey_eqb_eq a b : bkey_eqb a b = true -> a = b.
Proof.
  destruct a, b; simpl; try discriminate.
  - intros H. apply N.eqb_eq in H. subst. auto.
  - intros H. apply andb_true_iff in H. destruct H as [H1 H2].
    apply N.eqb_eq in H1. apply N.eqb_eq in H2. subst. auto.
Qed.

Lemma bkey_eqb_refl a : bkey_eqb a a = true.
Proof. destruct a; simpl; rewrite ?N.eqb_refl; auto. Qed.

Lemma member_exact_sound : forall ks k, In k ks -> member_exact ks k = true.
Proof.
  intros ks k H. unfold member_exact. apply existsb_exists. exists k. split; auto. apply bkey_eqb_refl.
Qed.

Lemma list_eqb_eq {A} (eqb : A -> A -> bool) :
  (forall x y, eqb x y = true -> x = y) -> forall a b, list_eqb eqb a b = true -> a = b.
Proof.
  intros He. induction a as [| x a IH]; destruct b as [| y b]; simpl; try discriminate; auto.
  intros H. apply andb_true_iff in H. destruct H as [H1 H2]. f_equal; auto.
Qed.

Lemma window_eqb_eq a b : window_eqb a b = true -> a = b.
Proof.
  unfold window_eqb. intros H. apply andb_true_iff in H. destruct H as [H1 H2].
  apply N.eqb_eq in H1. destruct a as [fa ca], b as [fb cb]. simpl in *. subst fb. f_equal.
  revert H2. apply list_eqb_eq. intros [n1 k1] [n2 k2] H. simpl in H.
  apply andb_true_iff in H. destruct H as [E1 E2]. apply N.eqb_eq in E1. subst n2. f_equal.
  revert E2. apply list_eqb_eq. apply bkey_eqb_eq.
Qed.

(* the boolean the harness evaluates implies the hypothesis of the theorems *)
Lemma cache_fresh_b_sound s : cache_fresh_b s = true -> cache_fresh s.
Proof.
  unfold cache_fresh_b, cache_fresh. intros H ws c Hl. rewrite forallb_forall in H.
  assert (Hin : In (ws, c) (cache s)).
  { clear H. induction (cache s) as [| [a x] m IH]; simpl in *; [discriminate |].
    destruct (ws =? a) eqn:E.
    - apply N.eqb_eq in E. subst. inversion Hl. auto.
    - auto. }
  specialize (H _ Hin). simpl in H.
  destruct (lookup ws (persisted s)) as [q |]; [| discriminate].
  apply window_eqb_eq in H. subst. reflexivity.
Qed.

Section Main.
Variable W : N.
Hypothesis Wpos : 0 < W.
Variable member : list bkey -> bkey -> bool.
Hypothesis bloom_sound : forall ks k, In k ks -> member ks k = true.

(* every state reached by a guarded history satisfies the index invariant (after lazy initialisation) *)
Lemma reachable_rinv ops :
  guarded W member init_state ops = true -> rinv W (ensure W (run W member init_state ops)).
Proof. intros Hg. apply (run_inv_lemma W Wpos member ops init_state); auto. apply inv_init; auto. Qed.

Lemma no_false_negative_lemma ops :
  guarded W member init_state ops = true ->
  let s := ensure W (run W member init_state ops) in
  forall flt n, n < lenN (chain s) -> block_matches (chain s) flt n <> [] ->
    cand_item W member s flt n = Some true.
Proof.
  intros Hg s flt n Hn Hm.
  assert (Hf : cache_fresh s) by (apply (reachable_cache_fresh W Wpos member ops Hg)).
  destruct (no_false_negative_state W Wpos member bloom_sound s flt n (reachable_rinv ops Hg) Hf Hn)
    as [c [Hc Hcf]].
  destruct c; auto. specialize (Hcf eq_refl). contradiction.
Qed.

Lemma paging_concat_state s :
  rinv W s -> cache_fresh s -> chain s <> [] ->
  forall flt from to chunk limit fuel, 0 < chunk ->
  (length (chain s) + length (filter_spec (chain s) flt from to) < fuel)%nat ->
  pages W member fuel s flt from to chunk limit (0, 0) = Some (filter_spec (chain s) flt from to).
Proof.
  intros Hi Hf Hne flt from to chunk limit fuel Hchunk Hfuel.
  apply pages_exact; auto.
  - destruct Hi as [_ [_ [w [nx [Hr _]]]]]. eauto.
  - intros n Hn.
    assert (n < lenN (chain s)).
    { destruct (chain s); [contradiction |]. unfold lenN in *. cbn [length] in *. lia. }
    apply (no_false_negative_state W Wpos member bloom_sound s flt n Hi Hf H).
Qed.

Lemma paging_concat_lemma ops :
  guarded W member init_state ops = true ->
  let s := ensure W (run W member init_state ops) in
  chain s <> [] ->
  forall flt from to chunk limit fuel, 0 < chunk ->
  (length (chain s) + length (filter_spec (chain s) flt from to) < fuel)%nat ->
  pages W member fuel s flt from to chunk limit (0, 0) = Some (filter_spec (chain s) flt from to).
Proof.
  intros Hg s. apply paging_concat_state.
  - apply reachable_rinv. auto.
  - apply (reachable_cache_fresh W Wpos member ops Hg).
Qed.

Lemma restart_init_ok_all s g :
  rinv W s -> (g = false -> disk_ok_b W s = true) -> rinv W (ensure W (do_restart W s g)).
Proof.
  intros Hi Hg. destruct g.
  - apply (restart_graceful_inv W Wpos member). unfold inv.
    destruct (rinv_ready W s Hi) as [w [nx Hr]]. rewrite (ensure_ready W s w nx Hr). auto.
  - destruct (rinv_ready W s Hi) as [w [nx Hr]].
    apply (restart_init_ok_lemma W Wpos member s w nx); auto.
Qed.

End Main.

(* ---------- histories without a graceful restart never write a snapshot, so they are guarded ---------- *)
Section NoSnapshot.
Variable W : N.
Variable member : list bkey -> bkey -> bool.

Lemma ensure_snapshot s : snapshot (ensure W s) = snapshot s.
Proof. unfold ensure. destruct (running s); auto. destruct (init_rf W s). reflexivity. Qed.

Lemma cache_load_snapshot s ws : snapshot (cache_load s ws) = snapshot s.
Proof.
  unfold cache_load. destruct (running s); auto. destruct (w_from w =? ws); auto.
  destruct (lookup ws (cache s)); auto. destruct (lookup ws (persisted s)); auto.
Qed.

Lemma cache_after_snapshot s a b : snapshot (cache_after W s a b) = snapshot s.
Proof.
  unfold cache_after.
  generalize (wstarts W (aligned W a) (S (N.to_nat ((aligned W b - aligned W a) / W)))).
  intros l. revert s. induction l as [| x l IH]; intros s; simpl; auto.
  rewrite IH. apply cache_load_snapshot.
Qed.

Lemma step_snapshot s o : o <> Restart true -> snapshot (fst (step W member s o)) = snapshot s.
Proof.
  intros Hne. destruct o as [b | | g | ws | flt from to chunk limit tok]; simpl.
  - unfold do_store. destruct (running (ensure W s)) eqn:Er; simpl; try apply ensure_snapshot.
    destruct (rf_insert _ _ _ _ _) as [[[p' w'] nx'] |]; simpl; apply ensure_snapshot.
  - unfold do_revert. destruct (chain s); auto.
    destruct (running (ensure W s)) eqn:Er; simpl; try apply ensure_snapshot.
    destruct (next =? w_from w).
    + destruct (lookup _ _); simpl; try apply ensure_snapshot.
      destruct (w_clear _ _ _); simpl; apply ensure_snapshot.
    + destruct (w_clear _ _ _); simpl; apply ensure_snapshot.
  - destruct g; [congruence | reflexivity].
  - reflexivity.
  - unfold do_query. destruct (chain s); auto. destruct (_ <? _); auto.
    destruct (running (ensure W s)) eqn:Er; simpl; try apply ensure_snapshot.
    destruct (scanq _ _ _ _ _ _ _ _ _) as [r stop]. simpl.
    rewrite cache_after_snapshot. apply ensure_snapshot.
Qed.

Lemma disk_ok_no_snapshot s : snapshot s = None -> disk_ok_b W s = true.
Proof. intros H. unfold disk_ok_b. rewrite H. destruct (chain s); reflexivity. Qed.

Lemma guarded_no_snapshot : forall ops s,
  snapshot s = None -> (forall o, In o ops -> o <> Restart true) -> guarded W member s ops = true.
Proof.
  induction ops as [| o ops IH]; intros s Hs Hall; simpl; auto.
  apply andb_true_iff. split.
  - destruct o; auto. destruct graceful; auto. destruct (running s); auto.
    apply disk_ok_no_snapshot. auto.
  - apply IH.
    + rewrite step_snapshot; auto. apply Hall. simpl. auto.
    + intros o' Ho'. apply Hall. simpl. auto.
Qed.

Lemma guarded_without_graceful ops :
  (forall o, In o ops -> o <> Restart true) -> guarded W member init_state ops = true.
Proof. apply guarded_no_snapshot. reflexivity. Qed.

End NoSnapshot.

Lemma reachable_keys W (Wpos : 0 < W) member ops :
  guarded W member init_state ops = true ->
  let s := ensure W (run W member init_state ops) in
  forall k pw, lookup k (persisted s) = Some pw -> k mod W = 0 /\ k + W <= lenN (chain s).
Proof. intros Hg s. destruct (reachable_rinv W Wpos member ops Hg) as [_ [Hk _]]. exact Hk. Qed.

(* ---------- starknet_getEvents: a page never leaves the resolved range ---------- *)
Lemma rpc_page_within_range W (Wpos : 0 < W) member s flt fb tb chunk limit tok s' evs t from to :
  resolve_bid false (lenN (chain s) - 1) 0 fb = Some from ->
  resolve_bid true (lenN (chain s) - 1) (lenN (chain s) - 1) tb = Some to ->
  do_rpc_events W member s flt fb tb chunk limit tok [] = (s', Some (OPage evs t)) ->
  forall e, In e evs ->
    (if tok_none tok then from else fst tok) <= fe_block e <= N.min to (lenN (chain s) - 1).
Proof.
  intros Hf Ht H e He. unfold do_rpc_events in H.
  destruct (chain s) as [| b0 ch] eqn:Ech; [discriminate |].
  rewrite Hf, Ht in H.
  unfold do_query_pre in H. rewrite Ech in H.
  destruct (do_query W member s flt from to chunk limit tok) as [s1 o] eqn:Eq.
  inversion H. subst.
  pose proof (do_query_page_range W Wpos member s flt from to chunk limit tok s' evs t Eq e He) as P.
  rewrite Ech in P. exact P.
Qed.

(* a numeric from_block is taken as it is: above the head the canonical range is empty *)
Lemma rpc_from_above_head_empty W member s flt n tb chunk limit to :
  chain s <> [] -> lenN (chain s) - 1 < n ->
  resolve_bid true (lenN (chain s) - 1) (lenN (chain s) - 1) tb = Some to ->
  do_rpc_events W member s flt (BNumber n) tb chunk limit (0, 0) [] = (s, Some (OPage [] (0, 0))).
Proof.
  intros Hne Hn Ht. unfold do_rpc_events, do_query_pre, do_query.
  destruct (chain s) as [| b0 ch] eqn:Ech; [contradiction |].
  rewrite Ht. simpl resolve_bid. change (tok_none (0, 0)) with true. cbv iota.
  assert (E : N.min to (lenN (b0 :: ch) - 1) <? n = true) by (apply N.ltb_lt; lia).
  rewrite E. reflexivity.
Qed.
