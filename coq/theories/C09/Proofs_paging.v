(* C09 — lemmas, part 2: paging. Concatenating the pages produced by following the model's own
   continuation tokens gives the unpaged list, for every chunk size > 0 and every scan limit. *)
From Coq Require Import List NArith Bool Lia ZifyN ZifyNat ZifyBool.
From V Require Import C09.Model C09.Proofs.
Import ListNotations.
Open Scope N_scope.

Lemma skipn_skipn' {A} : forall (a b : nat) (l : list A), skipn a (skipn b l) = skipn (b + a) l.
Proof.
  intros a b. revert a. induction b as [| b IH]; intros a l; simpl; auto.
  destruct l; simpl; auto. destruct a; reflexivity.
Qed.

Section Scan.
Variable ci : N -> option bool.
Variable bev : N -> list fev.
Variable flt : efilter.
Variable limit : N.

Notation m := (fev_matches flt).

(* AppendBlockEvents: what is appended, and where the block is resumed *)
Lemma take_spec : forall l pos room,
  match take flt l pos room with
  | (t, None) => t = filter m l
  | (t, Some p) =>
      exists k : nat, p = pos + N.of_nat k /\ t ++ filter m (skipn k l) = filter m l /\
                      lenN t = room /\ (0 < room -> (0 < k)%nat)
  end.
Proof.
  induction l as [| e l IH]; intros pos room; simpl; auto.
  destruct (m e) eqn:Em.
  - destruct (room =? 0) eqn:Er.
    + apply N.eqb_eq in Er. exists 0%nat. simpl. rewrite Em. repeat split; try lia.
      unfold lenN. simpl. lia.
    + apply N.eqb_neq in Er. specialize (IH (N.succ pos) (room - 1)).
      destruct (take flt l (N.succ pos) (room - 1)) as [t [p |]].
      * destruct IH as [k [Hp [Happ [Hlen Hk]]]]. exists (S k). simpl.
        repeat split; try lia.
        -- rewrite Happ. reflexivity.
        -- unfold lenN in *. simpl. lia.
      * subst t. reflexivity.
  - specialize (IH (N.succ pos) room).
    destruct (take flt l (N.succ pos) room) as [t [p |]]; auto.
    destruct IH as [k [Hp [Happ [Hlen Hk]]]]. exists (S k). simpl. repeat split; auto; lia.
Qed.

(* what remains to be returned when the scan stands at the head of bs with skip events of it done *)
Definition rem (bs : list N) (skip : N) : list fev :=
  match bs with
  | [] => []
  | n :: r => filter m (skipN skip (bev n)) ++ flat_map (fun n => filter m (bev n)) r
  end.

Lemma rem_zero bs : rem bs 0 = flat_map (fun n => filter m (bev n)) bs.
Proof. destruct bs; reflexivity. Qed.

Definition good_ci (bs : list N) : Prop :=
  forall n, In n bs -> exists c, ci n = Some c /\ (c = false -> filter m (bev n) = []).

Definition nz (bs : list N) (scanned : N) : Prop :=
  (forall n, In n (tl bs) -> n <> 0) /\ (scanned <> 0 -> forall n, In n bs -> n <> 0).

Lemma scanq_spec : forall bs scanned skip room last,
  good_ci bs ->
  (skip = 0 \/ exists n r, bs = n :: r /\ ci n = Some true) ->
  nz bs scanned ->
  (scanned = 0 -> 0 < room) ->
  (skip <> 0 -> scanned = 0) ->
  exists evs tok stop,
    scanq ci bev flt limit bs scanned skip room last = (Some (evs, tok), stop) /\
    ((tok = (0, 0) /\ evs = rem bs skip) \/
     (exists n p pre suf, tok = (n, p) /\ tok_none tok = false /\ bs = pre ++ n :: suf /\
        ci n = Some true /\ evs ++ rem (n :: suf) p = rem bs skip /\
        (evs <> [] \/ pre <> [] \/ scanned <> 0))).
Proof.
  induction bs as [| n rest IH]; intros scanned skip room last Hci HP Hnz Hroom Hskip.
  - simpl. exists [], (0, 0), last. split; auto.
  - cbn [scanq]. destruct (Hci n (or_introl eq_refl)) as [c [Hc Hcf]]. rewrite Hc.
    assert (Hci' : good_ci rest) by (intros x Hx; apply Hci; right; auto).
    assert (Hnz' : forall sc, nz rest sc).
    { intros sc. destruct Hnz as [Ht _]. split.
      - intros x Hx. apply Ht. simpl. destruct rest; simpl in *; auto.
      - intros _ x Hx. apply Ht. simpl. auto. }
    destruct c.
    + (* candidate block *)
      destruct ((0 <? limit) && (limit <=? scanned)) eqn:El.
      * (* scan limit reached: token (n, 0) *)
        apply andb_true_iff in El. destruct El as [E1 E2].
        apply N.ltb_lt in E1. apply N.leb_le in E2.
        assert (Hs : scanned <> 0) by lia.
        assert (skip = 0) by (destruct (N.eq_dec skip 0); auto; specialize (Hskip n0); lia).
        subst skip.
        exists [], (n, 0), n. split; auto. right.
        exists n, 0, [], rest. repeat split; auto.
        unfold tok_none. simpl. destruct Hnz as [_ Hall].
        specialize (Hall Hs n (or_introl eq_refl)).
        destruct (n =? 0) eqn:En; auto. apply N.eqb_eq in En. contradiction.
      * pose proof (take_spec (skipN skip (bev n)) skip room) as Ht.
        destruct (take flt (skipN skip (bev n)) skip room) as [t [p |]].
        -- (* chunk full inside this block *)
           destruct Ht as [k [Hp [Happ [Hlen Hk]]]].
           exists t, (n, p), n. split; auto. right.
           exists n, p, [], rest. repeat split; auto.
           ++ unfold tok_none. simpl.
              destruct (N.eq_dec scanned 0) as [Hz | Hz].
              ** specialize (Hk (Hroom Hz)).
                 assert (p <> 0) by lia.
                 destruct (p =? 0) eqn:Ep; [apply N.eqb_eq in Ep; contradiction |].
                 apply andb_false_r.
              ** destruct Hnz as [_ Hall]. specialize (Hall Hz n (or_introl eq_refl)).
                 destruct (n =? 0) eqn:En; auto. apply N.eqb_eq in En. contradiction.
           ++ simpl. rewrite app_assoc. f_equal.
              rewrite <- Happ. f_equal. f_equal. unfold skipN.
              rewrite skipn_skipn'. f_equal. lia.
           ++ destruct (N.eq_dec scanned 0) as [Hz | Hz]; auto.
              left. intros ->. specialize (Hroom Hz). unfold lenN in Hlen. simpl in Hlen. lia.
        -- (* whole block taken, go on *)
           subst t.
           destruct (IH (N.succ scanned) 0 (room - lenN (filter m (skipN skip (bev n)))) last)
             as [evs [tok [stop [Hq Hres]]]]; auto; try lia.
           rewrite Hq. exists (filter m (skipN skip (bev n)) ++ evs), tok, stop. split; auto.
           destruct Hres as [[Htok Hev] | [n' [p [pre [suf [Htok [Hnone [Hbs [Hcn [Happ _]]]]]]]]]].
           ++ left. split; auto. subst evs. rewrite rem_zero. reflexivity.
           ++ right. exists n', p, (n :: pre), suf. repeat split; auto.
              ** rewrite Hbs. reflexivity.
              ** rewrite <- app_assoc, Happ, rem_zero. reflexivity.

              ** right. left. discriminate.
    + (* not a candidate: no matching event in it; skip must be 0 *)
      assert (skip = 0).
      { destruct HP as [? | [n' [r [Hb Hn']]]]; auto. inversion Hb. subst. congruence. }
      subst skip.
      destruct (IH scanned 0 room last) as [evs [tok [stop [Hq Hres]]]]; auto.
      exists evs, tok, stop. split; auto.
      assert (Hrem : rem (n :: rest) 0 = rem rest 0).
      { simpl. unfold skipN. simpl. rewrite (Hcf eq_refl). simpl. rewrite rem_zero. reflexivity. }
      destruct Hres as [[Htok Hev] | [n' [p [pre [suf [Htok [Hnone [Hbs [Hcn [Happ Hprog]]]]]]]]]].
      * left. split; auto. rewrite Hrem. auto.
      * right. exists n', p, (n :: pre), suf. repeat split; auto.
        -- rewrite Hbs. reflexivity.
        -- rewrite Hrem. auto.
        -- right. left. discriminate.
Qed.

End Scan.

Lemma scanq_ext ci1 ci2 bev flt limit : (forall n, ci1 n = ci2 n) ->
  forall bs sc sk rm l, scanq ci1 bev flt limit bs sc sk rm l = scanq ci2 bev flt limit bs sc sk rm l.
Proof.
  intros He. induction bs as [| x bs IHb]; intros; simpl; auto.
  rewrite He. destruct (ci2 x) as [[|] |]; auto.
  destruct (_ && _); auto. destruct (take _ _ _ _) as [t [p |]]; auto. rewrite IHb. reflexivity.
Qed.

(* ---------- sequences of block numbers ---------- *)
Lemma seqN_split : forall k a pre n suf,
  seqN a k = pre ++ n :: suf ->
  n = a + N.of_nat (length pre) /\ n :: suf = seqN n (k - length pre) /\ (length pre < k)%nat.
Proof.
  induction k as [| k IH]; intros a pre n suf H; simpl in H.
  - destruct pre; discriminate.
  - destruct pre as [| x pre]; simpl in H.
    + inversion H. subst. simpl. repeat split; try lia.
    + inversion H. subst x. destruct (IH _ _ _ _ H2) as [Hn [Hs Hl]].
      simpl. repeat split; try lia. exact Hs.
Qed.

Lemma seqN_length a k : length (seqN a k) = k.
Proof. revert a. induction k; simpl; intros; auto. Qed.

Lemma seqN_in : forall k a n, In n (seqN a k) -> a <= n < a + N.of_nat k.
Proof.
  induction k as [| k IH]; simpl; intros a n H; [contradiction |].
  destruct H as [H | H]; [lia |]. apply IH in H. lia.
Qed.

Lemma seqN_tl_nz a k : forall n, In n (tl (seqN a k)) -> n <> 0.
Proof.
  destruct k; simpl; [tauto |]. intros n H. apply seqN_in in H. lia.
Qed.

Lemma rangeN_in a b n : In n (rangeN a b) -> a <= n <= b.
Proof. unfold rangeN. intros H. apply seqN_in in H. lia. Qed.

Lemma rangeN_split a b pre n suf :
  rangeN a b = pre ++ n :: suf -> rangeN n b = n :: suf /\ (length (n :: suf) + length pre = length (rangeN a b))%nat.
Proof.
  unfold rangeN. intros H. pose proof (seqN_split _ _ _ _ _ H) as [Hn [Hs Hl]].
  split.
  - rewrite Hs. f_equal. lia.
  - rewrite H. rewrite app_length. lia.
Qed.

(* ---------- the window walk of MatchedBlockIterator visits exactly the blocks of the range ---------- *)
Lemma seqN_app : forall n m a, seqN a (n + m) = seqN a n ++ seqN (a + N.of_nat n) m.
Proof.
  induction n as [| n IH]; intros m a; simpl.
  - rewrite N.add_0_r. reflexivity.
  - rewrite IH. f_equal. f_equal. f_equal. lia.
Qed.

Lemma rangeN_app a b c : a <= b + 1 -> b <= c -> rangeN a b ++ rangeN (b + 1) c = rangeN a c.
Proof.
  intros H1 H2. unfold rangeN.
  replace (N.to_nat (N.succ c - a)) with (N.to_nat (N.succ b - a) + N.to_nat (N.succ c - (b + 1)))%nat by lia.
  rewrite seqN_app. f_equal. f_equal. lia.
Qed.

Lemma rangeN_empty a b : b < a -> rangeN a b = [].
Proof. intros. unfold rangeN. replace (N.to_nat (N.succ b - a)) with 0%nat by lia. reflexivity. Qed.

Section Walk.
Variable W : N.
Hypothesis Wpos : 0 < W.

Lemma walk_done fuel ws lo to : to < ws -> walk W fuel ws lo to = [].
Proof. intros H. destruct fuel; simpl; auto. apply N.ltb_lt in H. rewrite H. reflexivity. Qed.

Lemma walk_spec : forall fuel ws lo to,
  ws <= lo -> lo < ws + W -> lo <= to + 1 -> (to - ws) / W < N.of_nat fuel ->
  walk W fuel ws lo to = rangeN lo to.
Proof.
  induction fuel as [| fuel IH]; intros ws lo to H1 H2 H3 Hf;
    [simpl in Hf; exfalso; apply (N.nlt_0_r _ Hf) |].
  simpl. destruct (to <? ws) eqn:E.
  - apply N.ltb_lt in E. symmetry. apply rangeN_empty. lia.
  - apply N.ltb_ge in E.
    destruct (N.lt_ge_cases to (ws + W)) as [Hlt | Hge].
    + rewrite walk_done by lia. rewrite app_nil_r. f_equal. lia.
    + replace (N.min (ws + W - 1) to) with (ws + W - 1) by lia.
      rewrite IH; try lia.
      * rewrite <- (rangeN_app lo (ws + W - 1) to) by lia. f_equal. f_equal. lia.
      * assert (Hd : (to - ws) / W = (to - (ws + W)) / W + 1).
        { replace (to - ws) with (to - (ws + W) + 1 * W) by lia. apply N.div_add. lia. }
        generalize dependent ((to - ws) / W). generalize ((to - (ws + W)) / W). intros. lia.
Qed.

Lemma walk_blocks_eq from to : from <= to + 1 -> walk_blocks W from to = rangeN from to.
Proof.
  intros H. unfold walk_blocks. apply walk_spec; auto.
  - apply aligned_le; auto.
  - apply aligned_lt; auto.
  - assert (Hq : (to - aligned W from) / W <= to / W) by (apply N.div_le_mono; lia).
    generalize dependent ((to - aligned W from) / W). generalize (to / W). intros. lia.
Qed.
End Walk.

(* ---------- the cache filled by a query does not change what a later lookup sees ---------- *)
Section Pages.
Variable W : N.
Hypothesis Wpos : 0 < W.
Variable member : list bkey -> bkey -> bool.

Definition same_view (s s' : state) : Prop :=
  chain s' = chain s /\ running s' = running s /\
  forall ws, lookup_window s' ws = lookup_window s ws.

Lemma same_view_refl s : same_view s s.
Proof. repeat split. Qed.

Lemma same_view_trans a b c : same_view a b -> same_view b c -> same_view a c.
Proof.
  intros [A1 [A2 A3]] [B1 [B2 B3]]. split; [congruence | split; [congruence |]].
  intros ws. rewrite B3. apply A3.
Qed.

Lemma cache_load_view s ws : same_view s (cache_load s ws).
Proof.
  unfold cache_load. destruct (running s) as [| | w nx] eqn:Er; try apply same_view_refl.
  destruct (w_from w =? ws) eqn:Ef; try apply same_view_refl.
  destruct (lookup ws (cache s)) eqn:Ec; try apply same_view_refl.
  destruct (lookup ws (persisted s)) as [p |] eqn:Ep; try apply same_view_refl.
  repeat split; auto.
  intros ws'. unfold lookup_window, set_cache. simpl. rewrite Er.
  destruct (w_from w =? ws'); auto.
  destruct (ws' =? ws) eqn:E.
  - apply N.eqb_eq in E. subst ws'. rewrite Ec. auto.
  - reflexivity.
Qed.

Lemma cache_after_view s a b : same_view s (cache_after W s a b).
Proof.
  unfold cache_after.
  generalize (wstarts W (aligned W a) (S (N.to_nat ((aligned W b - aligned W a) / W)))).
  intros l. revert s. induction l as [| x l IH]; intros s; simpl.
  - apply same_view_refl.
  - eapply same_view_trans. 2: apply IH. apply cache_load_view.
Qed.

Lemma same_view_cand s s' flt n : same_view s s' -> cand_item W member s' flt n = cand_item W member s flt n.
Proof. intros [_ [_ H]]. unfold cand_item. rewrite H. reflexivity. Qed.

(* ---------- all pages of one query ---------- *)
Variable s : state.
Variable flt : efilter.
Variables from to chunk limit : N.
Hypothesis chunk_pos : 0 < chunk.

Notation ci := (cand_item W member s flt).
Notation bev := (fun n => flat_block n (nthN n (chain s) [])).
Notation latest := (lenN (chain s) - 1).
Notation to' := (N.min to latest).

Hypothesis chain_ne : chain s <> [].
Hypothesis ready : exists w nx, running s = Ready w nx.
Hypothesis ci_good : forall n, n <= latest ->
  exists c, ci n = Some c /\ (c = false -> filter (fev_matches flt) (bev n) = []).

Lemma pages_rem : forall fuel s' tok start skip,
  same_view s s' ->
  ((tok = (0, 0) /\ start = from /\ skip = 0) \/
   (tok = (start, skip) /\ tok_none tok = false /\ ci start = Some true /\ start <= to')) ->
  (length (rangeN start to') + length (rem bev flt (rangeN start to') skip) < fuel)%nat ->
  pages W member fuel s' flt from to chunk limit tok = Some (rem bev flt (rangeN start to') skip).
Proof.
  induction fuel as [| fuel IH]; intros s' tok start skip Hv Htok Hfuel; [lia |].
  simpl. unfold do_query.
  destruct Hv as [Hch [Hrun Hlw]].
  rewrite Hch. destruct (chain s) as [| b0 chs] eqn:Echain; [contradiction |]. rewrite <- Echain in *.
  assert (Hstart : (if tok_none tok then from else fst tok) = start /\ snd tok = skip).
  { destruct Htok as [[-> [-> ->]] | [-> [Hn _]]]; simpl; auto. rewrite Hn. auto. }
  destruct Hstart as [Hs1 Hs2]. rewrite Hs1, Hs2.
  destruct (to' <? start) eqn:Elt.
  - apply N.ltb_lt in Elt.
    assert (rangeN start to' = []) as ->.
    { unfold rangeN. replace (N.to_nat (N.succ to' - start)) with 0%nat by lia. reflexivity. }
    simpl. reflexivity.
  - apply N.ltb_ge in Elt.
    rewrite (walk_blocks_eq W Wpos start to') by lia.
    destruct ready as [w [nx Hr]].
    assert (He : ensure W s' = s').
    { unfold ensure. rewrite Hrun, Hr. reflexivity. }
    rewrite He, Hrun, Hr.
    assert (Hci_eq : forall n, cand_item W member s' flt n = ci n).
    { intros n. apply same_view_cand. repeat split; auto. }
    rewrite Hch.
    rewrite (scanq_ext (cand_item W member s' flt) ci _ flt limit Hci_eq).
    destruct (scanq_spec ci bev flt limit (rangeN start to') 0 skip chunk to')
      as [evs [tok' [stop [Hq Hres]]]].
    + intros n Hn. apply rangeN_in in Hn. apply ci_good. lia.
    + destruct Htok as [[_ [_ ->]] | [_ [_ [Hc Hle]]]]; auto.
      right. unfold rangeN.
      destruct (N.to_nat (N.succ to' - start)) eqn:En; [lia |]. simpl. eauto.
    + split; [apply seqN_tl_nz | intros; lia].
    + auto.
    + auto.
    + rewrite Hq.
      destruct Hres as [[-> ->] | [n [p [pre [suf [-> [Hnone [Hbs [Hcn [Happ Hprog]]]]]]]]]].
      * simpl. reflexivity.
      * rewrite Hnone.
        destruct (rangeN_split _ _ _ _ _ Hbs) as [Hrange Hlen].
        assert (Hnle : n <= to').
        { assert (In n (rangeN start to')) by (rewrite Hbs; apply in_or_app; right; simpl; auto).
          apply rangeN_in in H. lia. }
        rewrite (IH (cache_after W s' start stop) (n, p) n p).
        -- rewrite Hrange, Happ. reflexivity.
        -- eapply same_view_trans. 2: apply cache_after_view. repeat split; auto.
        -- right. repeat split; auto.
        -- rewrite Hrange. rewrite <- Happ in Hfuel. rewrite app_length in Hfuel.
           assert (Hev : evs <> [] -> (0 < length evs)%nat)
             by (destruct evs; simpl; intros; [contradiction | lia]).
           assert (Hpre : pre <> [] -> (0 < length pre)%nat)
             by (destruct pre; simpl; intros; [contradiction | lia]).
           set (A := length (rem bev flt (n :: suf) p)) in *.
           set (B := length (n :: suf)) in *.
           set (C := length (rangeN start to')) in *.
           set (D := length evs) in *. set (E := length pre) in *.
           clearbody A B C D E.
           destruct Hprog as [Hp | [Hp | Hp]];
             [specialize (Hev Hp) | specialize (Hpre Hp) | contradiction]; lia.
Qed.

Theorem pages_exact : forall fuel,
  (length (chain s) + length (filter_spec (chain s) flt from to) < fuel)%nat ->
  pages W member fuel s flt from to chunk limit (0, 0) = Some (filter_spec (chain s) flt from to).
Proof.
  intros fuel Hfuel.
  assert (Hspec : filter_spec (chain s) flt from to = rem bev flt (rangeN from to') 0).
  { unfold filter_spec. destruct (chain s) eqn:E; [contradiction |]. rewrite <- E.
    rewrite rem_zero. reflexivity. }
  rewrite Hspec in *.
  apply (pages_rem fuel s (0, 0) from 0).
  - apply same_view_refl.
  - left. auto.
  - assert (length (rangeN from to') <= length (chain s))%nat.
    { unfold rangeN. rewrite seqN_length. unfold lenN.
      assert (0 < length (chain s))%nat by (destruct (chain s); [contradiction | simpl; lia]).
      lia. }
    lia.
Qed.

End Pages.

(* ---------- where the events of a page come from ---------- *)
Lemma take_in flt : forall l pos room t s, take flt l pos room = (t, s) -> forall e, In e t -> In e l.
Proof.
  induction l as [| x l IH]; intros pos room t s H e He; simpl in H.
  - inversion H. subst. contradiction.
  - destruct (fev_matches flt x).
    + destruct (room =? 0).
      * inversion H. subst. contradiction.
      * destruct (take flt l (N.succ pos) (room - 1)) as [t' s'] eqn:E. inversion H. subst.
        destruct He as [-> | He]; [left; auto | right; eapply IH; eauto].
    + right. eapply IH; eauto.
Qed.

Lemma in_skipn {A} (k : nat) (l : list A) e : In e (skipn k l) -> In e l.
Proof. intros H. rewrite <- (firstn_skipn k l). apply in_or_app. auto. Qed.

Lemma scanq_in ci bev flt limit : forall bs sc sk rm last evs tok stop,
  scanq ci bev flt limit bs sc sk rm last = (Some (evs, tok), stop) ->
  forall e, In e evs -> exists n, In n bs /\ In e (bev n).
Proof.
  induction bs as [| n rest IH]; intros sc sk rm last evs tok stop H e He; simpl in H.
  - inversion H. subst. contradiction.
  - destruct (ci n) as [[|] |]; [| | discriminate].
    + destruct (_ && _).
      * inversion H. subst. contradiction.
      * destruct (take flt (skipN sk (bev n)) sk rm) as [t [p |]] eqn:Et.
        -- assert (Ht : evs = t) by congruence. subst evs. exists n. split; [left; auto |].
           eapply in_skipn. eapply take_in; eauto.
        -- destruct (scanq ci bev flt limit rest (N.succ sc) 0 (rm - lenN t) last) as [[[t' tok'] |] stop'] eqn:Er;
             inversion H. subst.
           apply in_app_or in He. destruct He as [He | He].
           ++ exists n. split; [left; auto |]. eapply in_skipn. eapply take_in; eauto.
           ++ destruct (IH _ _ _ _ _ _ _ Er e He) as [m [Hm Hin]]. exists m. split; [right |]; auto.
    + destruct (IH _ _ _ _ _ _ _ H e He) as [m [Hm Hin]]. exists m. split; [right |]; auto.
Qed.

Lemma flat_block_number n b e : In e (flat_block n b) -> fe_block e = n.
Proof.
  unfold flat_block. intros H. apply in_concat in H. destruct H as [l [Hl Hx]].
  apply in_mapi_from in Hl. destruct Hl as [ti [t [Ht Hl]]]. subst l.
  apply in_mapi_from in Hx. destruct Hx as [ei [x [Hx' He]]]. subst e. reflexivity.
Qed.

(* a page of a canonical query only holds events of blocks start..min(to, head) *)
Lemma do_query_page_range W (Wpos : 0 < W) member s flt from to chunk limit tok s' evs t :
  do_query W member s flt from to chunk limit tok = (s', OPage evs t) ->
  forall e, In e evs ->
    (if tok_none tok then from else fst tok) <= fe_block e <= N.min to (lenN (chain s) - 1).
Proof.
  unfold do_query. intros H e He.
  destruct (chain s) as [| b0 ch] eqn:Ech; [discriminate |]. rewrite <- Ech in *.
  set (start := if tok_none tok then from else fst tok) in *.
  set (to' := N.min to (lenN (chain s) - 1)) in *.
  destruct (to' <? start) eqn:Elt.
  - inversion H. subst. contradiction.
  - apply N.ltb_ge in Elt.
    destruct (running (ensure W s)) eqn:Er; try discriminate.
    rewrite (walk_blocks_eq W Wpos start to') in H by lia.
    destruct (scanq _ _ _ _ _ _ _ _ _) as [[[evs' t'] |] stop] eqn:Es; inversion H. subst.
    destruct (scanq_in _ _ _ _ _ _ _ _ _ _ _ _ Es e He) as [n [Hn Hin]].
    apply rangeN_in in Hn. apply flat_block_number in Hin. lia.
Qed.
