(* C09 — property theorems only. Each is closed by [exact] of a lemma from Proofs*.v and followed by
   Print Assumptions; then the non-vacuity examples and the refutation witnesses (vm_compute).

   W is the window size (core.NumBlocksPerFilter in juno), [member] the bloom test, assumed only to
   say yes for inserted keys.  The headline theorems hold for EVERY history of Store / Revert / Restart
   (graceful or not) / Forget / Query operations - no hypothesis on the history is left:
   * [cache_fresh] (every cached window equals the currently persisted one) is an invariant since /repo
     commit 5bb6f6f (RevertHead resets the cache): C09_cache_fresh_invariant;
   * since /repo commit 5440575 (onReorg deletes the persisted window it re-enters) the rebuild branch of
     InitializeRunningEventFilter needs nothing from the disk;
   * [guarded] (every UNGRACEFUL restart that uses the running-filter snapshot finds a trustworthy one,
     disk_ok_b) is an invariant since InitializeRunningEventFilter CONSUMES the snapshot it reads (deletes
     it before using it): C09_guarded_invariant, C09_snapshot_consumed. Before that change it was a
     hypothesis that the real code did not guarantee (Example restart_snapshot_needed_before_fix). *)
From Coq Require Import List NArith Bool.
From V Require Import C09.Model C09.Proofs C09.Proofs_paging C09.Proofs_inv C09.Proofs_cache C09.Proofs_main
  C09.Proofs_border.
Import ListNotations.
Open Scope N_scope.

(* No false negative: in every state reached by ANY history, every block that holds a matching
   event is a candidate of the bloom index (so the exact matcher sees it) - whatever the cache holds,
   after reorgs of any depth and graceful or ungraceful restarts. *)
Theorem C09_no_false_negative :
  forall (W : N), 0 < W ->
  forall (member : list bkey -> bkey -> bool),
  (forall ks k, In k ks -> member ks k = true) ->            (* bloom_sound *)
  forall ops : list op,
  let s := ensure W (run W member init_state ops) in
  forall flt n, n < lenN (chain s) -> block_matches (chain s) flt n <> [] ->
    cand_item W member s flt n = Some true.
Proof. exact no_false_negative_all. Qed.
Print Assumptions C09_no_false_negative.

(* Paging: following the model's own continuation tokens, the concatenation of the pages is the
   unpaged list = filter_spec (all matching events of the range in chain order, each with block,
   transaction index and event index), for every chunk size > 0 and every scan limit (0 = none). *)
Theorem C09_paging_concat :
  forall (W : N), 0 < W ->
  forall (member : list bkey -> bkey -> bool),
  (forall ks k, In k ks -> member ks k = true) ->
  forall ops : list op,
  let s := ensure W (run W member init_state ops) in
  chain s <> [] ->
  forall flt from to chunk limit fuel, 0 < chunk ->
  (length (chain s) + length (filter_spec (chain s) flt from to) < fuel)%nat ->
  pages W member fuel s flt from to chunk limit (0, 0) = Some (filter_spec (chain s) flt from to).
Proof. exact paging_concat_all. Qed.
Print Assumptions C09_paging_concat.

(* the same, for any state satisfying the index invariant (not only reachable ones) *)
Theorem C09_paging_concat_state :
  forall (W : N), 0 < W ->
  forall (member : list bkey -> bkey -> bool),
  (forall ks k, In k ks -> member ks k = true) ->
  forall s, rinv W s -> cache_fresh s -> chain s <> [] ->
  forall flt from to chunk limit fuel, 0 < chunk ->
  (length (chain s) + length (filter_spec (chain s) flt from to) < fuel)%nat ->
  pages W member fuel s flt from to chunk limit (0, 0) = Some (filter_spec (chain s) flt from to).
Proof. exact paging_concat_state. Qed.
Print Assumptions C09_paging_concat_state.

(* Restart: a graceful restart always re-establishes the invariant; an ungraceful one does when the
   disk is ok - covers the three branches of InitializeRunningEventFilter (snapshot as it is, fill in
   place, rebuild from the last persisted window). *)
Theorem C09_restart_init_ok :
  forall (W : N), 0 < W ->
  forall (member : list bkey -> bkey -> bool) (s : state) (graceful : bool),
  rinv W s -> (graceful = false -> disk_ok_b W s = true) ->
  rinv W (ensure W (do_restart W s graceful)).
Proof. exact restart_init_ok_all. Qed.
Print Assumptions C09_restart_init_ok.

(* the cache never holds a stale window: every cached window equals the persisted one, in every
   reachable state (queries, LRU forgetting, reorgs across window boundaries, restarts) *)
Theorem C09_cache_fresh_invariant :
  forall (W : N), 0 < W ->
  forall (member : list bkey -> bkey -> bool) (ops : list op),
  cache_fresh (ensure W (run W member init_state ops)).
Proof. exact reachable_cache_fresh_all. Qed.
Print Assumptions C09_cache_fresh_invariant.

(* the index invariant holds in every reachable state *)
Theorem C09_reachable_invariant :
  forall (W : N), 0 < W ->
  forall (member : list bkey -> bkey -> bool) (ops : list op),
  rinv W (ensure W (run W member init_state ops)).
Proof. exact reachable_rinv_all. Qed.
Print Assumptions C09_reachable_invariant.

(* [guarded] is an invariant: EVERY history is guarded - whenever an ungraceful restart is about to use
   the running-filter snapshot (as it is, or filled in place), that snapshot describes the current chain.
   Reason: InitializeRunningEventFilter deletes the snapshot it reads, so a snapshot on disk was either
   written on an empty chain (next = 0: it records nothing) or by the graceful shutdown of the previous
   process, the filter not having been initialised (hence no block stored or reverted) since. *)
Theorem C09_guarded_invariant :
  forall (W : N), 0 < W ->
  forall (member : list bkey -> bkey -> bool) (ops : list op),
  guarded W member init_state ops = true.
Proof. exact guarded_always. Qed.
Print Assumptions C09_guarded_invariant.

(* after the lazy initialisation no snapshot is left on disk, except possibly the one written on an
   empty chain (InitializeRunningEventFilter returns before reading the snapshot when there is no head) *)
Theorem C09_snapshot_consumed :
  forall (W : N), 0 < W ->
  forall (member : list bkey -> bkey -> bool) (ops : list op),
  let s := ensure W (run W member init_state ops) in
  snapshot s = None \/ exists w, snapshot s = Some (w, 0) /\ w_from w = 0.
Proof. exact reachable_snapshot_consumed. Qed.
Print Assumptions C09_snapshot_consumed.

(* (kept from the time when only snapshot-free histories were known to be guarded) *)
Theorem C09_guarded_without_graceful_restart :
  forall (W : N), 0 < W ->
  forall (member : list bkey -> bkey -> bool) (ops : list op),
  (forall o, In o ops -> o <> Restart true) -> guarded W member init_state ops = true.
Proof. exact guarded_without_graceful. Qed.
Print Assumptions C09_guarded_without_graceful_restart.

(* persisted windows never lie at or above the window of the head (what the rebuild relies on) *)
Theorem C09_no_stale_persisted :
  forall (W : N), 0 < W ->
  forall (member : list bkey -> bkey -> bool) (ops : list op),
  let s := ensure W (run W member init_state ops) in
  forall k pw, lookup k (persisted s) = Some pw -> k mod W = 0 /\ k + W <= lenN (chain s).
Proof. exact reachable_keys. Qed.
Print Assumptions C09_no_stale_persisted.

(* the candidate iterator is a transcription of MatchedBlockIterator's window walk (first window from
   offset rangeStart mod W, following windows from 0, stop when windowStart > rangeEnd or at the first
   block beyond rangeEnd); for every W it visits exactly the blocks from..to, in order. do_query (hence
   C09_paging_concat) scans walk_blocks. *)
Theorem C09_iterator_walks_range :
  forall (W : N), 0 < W -> forall from to, from <= to + 1 -> walk_blocks W from to = rangeN from to.
Proof. exact walk_blocks_eq. Qed.
Print Assumptions C09_iterator_walks_range.

(* pre-confirmed blocks are pre-filtered by their own bloom (EventMatcher.TestBloom): a block holding a
   matching event is never rejected - for every filter shape, empty key positions included. (Paging across
   the canonical / pre-confirmed border: C09_paging_concat_preconfirmed below.) *)
Theorem C09_preconfirmed_no_false_negative :
  forall (member : list bkey -> bkey -> bool),
  (forall ks k, In k ks -> member ks k = true) ->
  forall (n : N) (b : block) (flt : efilter),
  filter (fev_matches flt) (flat_block n b) <> [] -> cand_test member (block_keys b) flt = true.
Proof. intros member Hs n b flt. apply (block_candidate member Hs n b (block_keys b) flt). auto. Qed.
Print Assumptions C09_preconfirmed_no_false_negative.

(* ---------- ranges that reach into the pre-confirmed blocks (EventFilter.Events with a PreConfirmedReader) ----------
   pre = the pre-confirmed blocks above the head, oldest first (numbers head+1, head+2, ...).
   filter_spec_pre = the canonical matches of the range in chain order, then the pre-confirmed matches;
   from_block = pre_confirmed (the sentinel 2^64-1) denotes the most recent pre-confirmed block only.
   The hypothesis on the lengths says that block numbers fit uint64. *)

(* the spec is nothing but filter_spec of the chain extended by the pre-confirmed blocks *)
Theorem C09_spec_preconfirmed_is_spec_of_extended_chain :
  forall ch flt from to pre, ch <> [] -> from <> sentinel ->
  filter_spec_pre ch flt from to pre = filter_spec (ch ++ pre) flt from to.
Proof. exact filter_spec_pre_app. Qed.
Print Assumptions C09_spec_preconfirmed_is_spec_of_extended_chain.

(* No false negative, restated for ranges that include pre-confirmed blocks: every block of the chain
   extended by the pre-confirmed tail that holds a matching event is a candidate - through the bloom
   index for canonical blocks, through the block's own bloom (TestBloom) for pre-confirmed ones. *)
Theorem C09_no_false_negative_with_preconfirmed :
  forall (W : N), 0 < W ->
  forall (member : list bkey -> bkey -> bool),
  (forall ks k, In k ks -> member ks k = true) ->
  forall ops : list op,
  let s := ensure W (run W member init_state ops) in
  forall pre flt n, n < lenN (chain s) + lenN pre ->
    block_matches (chain s ++ pre) flt n <> [] ->
    cand_ext W member s flt pre n = Some true.
Proof. exact no_false_negative_pre_all. Qed.
Print Assumptions C09_no_false_negative_with_preconfirmed.

(* Paging across the canonical / pre-confirmed border: for every stored chain (any history), every
   pre-confirmed tail, every filter, range, chunk size > 0 and scan limit, the concatenation of the pages
   obtained by following the continuation tokens - canonical tokens (n, p) with n <= head, then, from the
   page in which the canonical part ends, tokens (n, p) with n > head - is the unpaged list. The fuel
   (= number of pages allowed) only has to reach the progress bound max(1, blocks in range + matches). *)
Theorem C09_paging_concat_preconfirmed :
  forall (W : N), 0 < W ->
  forall (member : list bkey -> bkey -> bool),
  (forall ks k, In k ks -> member ks k = true) ->
  forall ops : list op,
  let s := ensure W (run W member init_state ops) in
  chain s <> [] ->
  forall pre flt from to chunk limit fuel, 0 < chunk ->
  lenN (chain s) + lenN pre <= sentinel + 1 ->
  (N.to_nat (page_bound (range_blocks (chain s) pre from to)
                        (lenN (filter_spec_pre (chain s) flt from to pre))) <= fuel)%nat ->
  pages_pre W member fuel s flt from to chunk limit pre = Some (filter_spec_pre (chain s) flt from to pre).
Proof. exact paging_concat_preconfirmed_all. Qed.
Print Assumptions C09_paging_concat_preconfirmed.

(* the same for any state satisfying the index invariant, together with the facts about the page sequence *)
Theorem C09_paging_concat_preconfirmed_state :
  forall (W : N), 0 < W ->
  forall (member : list bkey -> bkey -> bool),
  (forall ks k, In k ks -> member ks k = true) ->
  forall s, rinv W s -> cache_fresh s -> chain s <> [] ->
  forall pre flt from to chunk limit fuel, 0 < chunk ->
  lenN (chain s) + lenN pre <= sentinel + 1 ->
  (N.to_nat (page_bound (range_blocks (chain s) pre from to)
                        (lenN (filter_spec_pre (chain s) flt from to pre))) <= fuel)%nat ->
  exists ps, page_seq W member fuel s flt from to chunk limit (0, 0) pre = Some ps /\
    concat (map fst ps) = filter_spec_pre (chain s) flt from to pre /\
    lenN ps <= page_bound (range_blocks (chain s) pre from to)
                          (lenN (filter_spec_pre (chain s) flt from to pre)) /\
    pages_ok chunk limit (pre_start (chain s) pre from, 0) (page_sizes ps) = true.
Proof. exact page_seq_state. Qed.
Print Assumptions C09_paging_concat_preconfirmed_state.

(* Progress measure (any history): following the tokens terminates after at most max(1, blocks in range + matches)
   pages (page_count_ok), every page holds at most chunk events, an empty page carries a token only
   with a scan limit set and the token at the start of a block, and every token lies strictly after the
   position its page started from (pages_ok) - so "concatenating the pages" is total for every chunk
   size and scan limit. page_count_ok and pages_ok are the booleans the harness evaluates on the page
   sequences of the implementation. *)
Theorem C09_paging_terminates :
  forall (W : N), 0 < W ->
  forall (member : list bkey -> bkey -> bool),
  (forall ks k, In k ks -> member ks k = true) ->
  forall ops : list op,
  let s := ensure W (run W member init_state ops) in
  chain s <> [] ->
  forall pre flt from to chunk limit fuel, 0 < chunk ->
  lenN (chain s) + lenN pre <= sentinel + 1 ->
  let bound := page_bound (range_blocks (chain s) pre from to)
                          (lenN (filter_spec_pre (chain s) flt from to pre)) in
  (N.to_nat bound <= fuel)%nat ->
  exists ps, page_seq W member fuel s flt from to chunk limit (0, 0) pre = Some ps /\
    page_count_ok (range_blocks (chain s) pre from to)
                  (lenN (filter_spec_pre (chain s) flt from to pre)) (lenN ps) = true /\
    pages_ok chunk limit (pre_start (chain s) pre from, 0) (page_sizes ps) = true.
Proof. exact paging_progress_all. Qed.
Print Assumptions C09_paging_terminates.

(* a page never holds more than chunk events - for ANY state, ANY token (also tokens the model never
   produces), any pre-confirmed tail, any scan limit; no invariant needed *)
Theorem C09_page_within_chunk :
  forall (W : N), 0 < W ->
  forall (member : list bkey -> bkey -> bool) s flt from to chunk limit tok pre s' evs t,
  do_query_pre W member s flt from to chunk limit tok pre = (s', OPage evs t) -> lenN evs <= chunk.
Proof. exact page_within_chunk. Qed.
Print Assumptions C09_page_within_chunk.

(* an empty page with a continuation token only occurs when the scan limit was hit: a limit is set, the
   token is (n, 0) with n a canonical block strictly after the resume block, and exactly [limit] candidate
   blocks were scanned between the resume block and n - for ANY state and ANY token *)
Theorem C09_empty_page_only_at_scan_limit :
  forall (W : N), 0 < W ->
  forall (member : list bkey -> bkey -> bool) s flt from to chunk limit tok pre s' t,
  0 < chunk ->
  do_query_pre W member s flt from to chunk limit tok pre = (s', OPage [] t) -> tok_none t = false ->
  0 < limit /\ snd t = 0 /\ (if tok_none tok then from else fst tok) < fst t /\
  fst t <= lenN (chain s) - 1 /\
  lenN (cands_between W member (ensure W s) flt (if tok_none tok then from else fst tok) (fst t - 1)) = limit.
Proof. exact empty_page_only_at_limit. Qed.
Print Assumptions C09_empty_page_only_at_scan_limit.

(* starknet_getEvents (rpc/v8|v9|v10 events.go, setEventFilterRange): with the block ids resolved as the
   handlers do (numeric to_block bounded by the head, numeric from_block taken as it is), a page never
   contains an event of a block outside [from, to] /\ [0, head] - from being the resume block when a
   continuation token is given ... *)
Theorem C09_rpc_page_within_range :
  forall (W : N), 0 < W ->
  forall (member : list bkey -> bkey -> bool) s flt fb tb chunk limit tok s' evs t from to,
  resolve_bid false (lenN (chain s) - 1) 0 fb = Some from ->
  resolve_bid true (lenN (chain s) - 1) (lenN (chain s) - 1) tb = Some to ->
  do_rpc_events W member s flt fb tb chunk limit tok [] = (s', Some (OPage evs t)) ->
  forall e, In e evs ->
    (if tok_none tok then from else fst tok) <= fe_block e <= N.min to (lenN (chain s) - 1).
Proof. exact rpc_page_within_range. Qed.
Print Assumptions C09_rpc_page_within_range.

(* ... in particular a numeric from_block above the head gives one empty page without a token *)
Theorem C09_rpc_from_above_head_empty :
  forall (W : N) (member : list bkey -> bkey -> bool) s flt n tb chunk limit to,
  chain s <> [] -> lenN (chain s) - 1 < n ->
  resolve_bid true (lenN (chain s) - 1) (lenN (chain s) - 1) tb = Some to ->
  do_rpc_events W member s flt (BNumber n) tb chunk limit (0, 0) [] = (s, Some (OPage [] (0, 0))).
Proof. exact rpc_from_above_head_empty. Qed.
Print Assumptions C09_rpc_from_above_head_empty.

(* the boolean evaluated by the harness implies the hypothesis used above *)
Theorem C09_cache_fresh_decided : forall s, cache_fresh_b s = true -> cache_fresh s.
Proof. exact cache_fresh_b_sound. Qed.
Print Assumptions C09_cache_fresh_decided.

(* ---------- witnesses ---------- *)
Definition evA : event := Build_event 10 [1].
Definition evB : event := Build_event 20 [1].
Definition fA : efilter := Build_efilter [10] [].
Definition fB : efilter := Build_efilter [20] [].

(* the exact-membership bloom satisfies bloom_sound *)
Example member_exact_is_sound : forall ks k, In k ks -> member_exact ks k = true.
Proof. exact member_exact_sound. Qed.

(* the hypotheses are satisfiable by a non-trivial history: W = 2, reorg across the window boundary
   after a query warmed the cache, graceful and ungraceful restarts (which drop the cache); all pages
   for chunk size 1 concatenate to the spec *)
Definition h_good : list op :=
  [Store []; Store [[evA]]; Store [[evB; evA]]; Query fA 0 10 1 1 (0, 0); Restart true;
   Revert; Revert; Store [[evB]]; Store []; Store [[evA]; [evB]]; Restart false;
   Query fB 0 10 5 0 (0, 0)].

Example good_history :
  guarded 2 member_exact init_state h_good = true /\
  let s := ensure 2 (run 2 member_exact init_state h_good) in
  cache_fresh_b s = true /\ lenN (chain s) = 4 /\
  filter_spec (chain s) fB 0 10 = [Build_fev 1 0 0 evB; Build_fev 3 1 0 evB] /\
  pages 2 member_exact 20 s fB 0 10 1 1 (0, 0) = Some (filter_spec (chain s) fB 0 10).
Proof. vm_compute. repeat split; reflexivity. Qed.

(* 1. regression witness for /repo commit 5bb6f6f (W = 2): window 0 is cached by a query, then reverted
   into and refilled with different blocks. Before the fix the cache was never invalidated, block 1 (event
   from B) was not a candidate and the pages missed it; now the revert empties the cache. *)
Definition h_stale_cache : list op :=
  [Store []; Store [[evA]]; Store []; Query fA 0 10 5 0 (0, 0);
   Revert; Revert; Store [[evB]]; Store []].

Example stale_cache_fixed :
  guarded 2 member_exact init_state h_stale_cache = true /\
  let s := ensure 2 (run 2 member_exact init_state h_stale_cache) in
  cache_fresh_b s = true /\
  cand_item 2 member_exact s fB 1 = Some true /\
  pages 2 member_exact 20 s fB 0 10 5 0 (0, 0) = Some [Build_fev 1 0 0 evB].
Proof. vm_compute. repeat split; reflexivity. Qed.

(* 2. regression witness for the consumed snapshot (W = 4): the snapshot written at a graceful shutdown used to
   stay on disk for ever; after a reorg of the head block and a crash it was taken as it is (next = head+1)
   and block 1 (event from B) was no candidate. Now the first initialisation after the graceful restart
   deletes it, the crash finds none and rebuilds: the history is guarded, the block is a candidate, the
   pages are exact. *)
Definition h_stale_snapshot : list op :=
  [Store []; Store [[evA]]; Restart true; Revert; Store [[evB]]; Restart false].

Example stale_snapshot_fixed :
  guarded 4 member_exact init_state h_stale_snapshot = true /\
  let s := ensure 4 (run 4 member_exact init_state h_stale_snapshot) in
  snapshot s = None /\ cache_fresh_b s = true /\
  cand_item 4 member_exact s fB 1 = Some true /\
  pages 4 member_exact 20 s fB 0 10 1 1 (0, 0) = Some [Build_fev 1 0 0 evB].
Proof. vm_compute. repeat split; reflexivity. Qed.

(* ... and the behaviour of the code BEFORE that change, reconstructed by putting the snapshot back on disk
   (state s_unconsumed is NOT reachable any more): disk_ok_b fails, the ungraceful restart takes the stale
   snapshot as it is and the block holding the event from B is no candidate. So the hypothesis disk_ok_b of
   C09_restart_init_ok is not decorative, and [guarded] was a genuine hypothesis before the snapshot was
   consumed (this is the former theorem C09_restart_snapshot_needed). *)
Definition s_unconsumed : state :=
  let written := snapshot (run 4 member_exact init_state [Store []; Store [[evA]]; Restart true]) in
  let s := ensure 4 (run 4 member_exact init_state [Store []; Store [[evA]]; Restart true; Revert; Store [[evB]]]) in
  Build_state (chain s) (persisted s) written (running s) (cache s).

Example restart_snapshot_needed_before_fix :
  snapshot s_unconsumed <> None /\
  disk_ok_b 4 s_unconsumed = false /\ disk_bad_kind 4 s_unconsumed = 1 /\
  let s := ensure 4 (do_restart 4 s_unconsumed false) in
  cache_fresh_b s = true /\
  1 < lenN (chain s) /\ block_matches (chain s) fB 1 <> [] /\
  cand_item 4 member_exact s fB 1 = Some false.
Proof. vm_compute. repeat split; try reflexivity; discriminate. Qed.

(* 3. regression witness for /repo commit 5440575 (W = 3): revert across the window boundary, a new
   block below it, crash without snapshot. Before the fix the rebuild found the stale persisted window
   [0,2], continued above the head, block 1 was not a candidate and the next Store was refused; now
   the history is guarded, the block is a candidate, pages are exact and Store succeeds. *)
Definition h_stale_persisted : list op :=
  [Store []; Store [[evA]]; Store []; Store []; Revert; Revert; Revert; Store [[evB]]; Restart false].

Example restart_rebuild_fixed :
  guarded 3 member_exact init_state h_stale_persisted = true /\
  let s := ensure 3 (run 3 member_exact init_state h_stale_persisted) in
  cache_fresh_b s = true /\ persisted s = [] /\
  cand_item 3 member_exact s fB 1 = Some true /\
  pages 3 member_exact 20 s fB 0 10 1 1 (0, 0) = Some [Build_fev 1 0 0 evB] /\
  snd (step 3 member_exact s (Store [])) = OOk.
Proof. vm_compute. repeat split; reflexivity. Qed.

(* 4. non-vacuity of the border theorems (W = 2): head = 2, three pre-confirmed blocks 3, 4 (empty), 5; the
   page sequences show the three kinds of border tokens: (2, p) in the LAST CANONICAL block, (3, 0) at the
   start of the FIRST PRE-CONFIRMED block (the canonical part filled the chunk exactly), (3, 1) / (5, 2) in
   the MIDDLE of a pre-confirmed block; with a scan limit of 1 every page ends at a candidate block. *)
Definition h_border : list op :=
  [Store [[evA]]; Store [[evA; evA]]; Store [[evB; evA; evA]]; Query fA 0 10 5 0 (0, 0); Restart false].
Definition pre_border : list block := [[[evA]; [evA]]; []; [[evA; evB; evA]]].
Definition toks (o : option (list (list fev * (N * N)))) : list (N * (N * N)) :=
  match o with Some ps => page_sizes ps | None => [] end.

Example border_paging :
  guarded 2 member_exact init_state h_border = true /\
  let s := ensure 2 (run 2 member_exact init_state h_border) in
  lenN (chain s) = 3 /\
  range_blocks (chain s) pre_border 0 10 = 6 /\ lenN (filter_spec_pre (chain s) fA 0 10 pre_border) = 9 /\
  toks (page_seq 2 member_exact 15 s fA 0 10 2 0 (0, 0) pre_border) =
    [(2, (1, 1)); (2, (2, 2)); (2, (3, 1)); (2, (5, 2)); (1, (0, 0))] /\
  toks (page_seq 2 member_exact 15 s fA 0 10 5 0 (0, 0) pre_border) = [(5, (3, 0)); (4, (0, 0))] /\
  toks (page_seq 2 member_exact 15 s fA 0 10 4 1 (0, 0) pre_border) =
    [(1, (1, 0)); (2, (2, 0)); (4, (5, 0)); (2, (0, 0))] /\
  toks (page_seq 2 member_exact 15 s fA sentinel sentinel 1 2 (0, 0) pre_border) = [(1, (5, 2)); (1, (0, 0))] /\
  pages_pre 2 member_exact 15 s fA 0 10 2 0 pre_border = Some (filter_spec_pre (chain s) fA 0 10 pre_border) /\
  pages_pre 2 member_exact 15 s fA 0 10 4 1 pre_border = Some (filter_spec (chain s ++ pre_border) fA 0 10) /\
  pages_ok 2 0 (0, 0) (toks (page_seq 2 member_exact 15 s fA 0 10 2 0 (0, 0) pre_border)) = true /\
  page_count_ok 6 9 5 = true.
Proof. vm_compute. repeat split; reflexivity. Qed.

(* the predicates are not vacuous: an oversized page, an empty page with a token but no scan limit, a token
   that does not advance and an overlong page sequence are all rejected *)
Example paging_predicates_reject :
  pages_ok 2 0 (0, 0) [(3, (0, 0))] = false /\
  pages_ok 2 0 (0, 0) [(0, (4, 0)); (1, (0, 0))] = false /\
  pages_ok 2 1 (0, 0) [(0, (4, 1)); (1, (0, 0))] = false /\
  pages_ok 2 0 (3, 1) [(2, (3, 1)); (1, (0, 0))] = false /\
  page_count_ok 2 1 4 = false /\ page_count_ok 0 0 1 = true.
Proof. vm_compute. repeat split; reflexivity. Qed.
