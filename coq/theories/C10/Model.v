(* C10 — Merkle proofs of the two tries: transcription of core/trie2/proof.go (Prove, VerifyProof),
   core/trie/proof.go (Prove, VerifyProof) and of the proof-node hashing in trienode/node.go.
   Builds on the trie model of C01 (Trie2.v: node, hash, lookup, canonb). Executable; no proofs.
   Everything is generic in the felt type F and in the hash primitives (Section variables). *)
From Coq Require Import List Bool Arith ZArith.
From V Require Import C01.Trie2.
Import ListNotations.

Section ProofModel.
Variable F : Type.
Variable feq : F -> F -> bool.              (* felt.Equal *)
Variable ped : F -> F -> F.                 (* the trie's hash function *)
Variable of_path : list bool -> F.          (* Path.Felt() *)
Variable add_len : F -> nat -> F.           (* + path length *)
Variable f0 : F.                            (* felt.Zero *)

Notation tnode := (node F).
Notation thash := (hash F ped of_path add_len).

(* ---------- proof nodes ---------- *)
(* wire format: legacy trie.ProofNode (Binary{LeftHash,RightHash} / Edge{Child,Path}), also what the
   RPC serialises (BinaryNode / EdgeNode) *)
Inductive pnode :=
| PBin (lh rh : F)
| PEdge (path : list bool) (child : F).

Definition phash (n : pnode) : F :=
  match n with
  | PBin l r => ped l r
  | PEdge p c => add_len (ped c (of_path p)) (length p)
  end.

(* trie2: a collapsed trienode.Node; its children are *trienode.HashNode or *trienode.ValueNode
   (hashEdgeChild / hashBinaryChildren leave value nodes as they are). VerifyProof treats the two
   differently, so the tag is part of the model. *)
Inductive pchild := CH (x : F) | CV (x : F).
Inductive pnode2 :=
| QBin (l r : pchild)
| QEdge (path : list bool) (c : pchild).

Definition cval (c : pchild) : F := match c with CH x => x | CV x => x end.
Definition erase (n : pnode2) : pnode :=
  match n with QBin l r => PBin (cval l) (cval r) | QEdge p c => PEdge p (cval c) end.
(* BinaryNode.Hash / EdgeNode.Hash on a collapsed node: HashNode.Hash and ValueNode.Hash both return the felt *)
Definition qhash (n : pnode2) : F := phash (erase n).

Definition collapse (n : tnode) : pchild :=
  match n with Leaf v => CV v | _ => CH (thash n) end.

(* BitArray.EqualMSBs: equal on the first min(len) bits (either one is a prefix of the other) *)
Fixpoint pmatch (p k : list bool) : bool :=
  match p, k with
  | a :: p', b :: k' => Bool.eqb a b && pmatch p' k'
  | _, _ => true
  end.

(* ---------- trie2 Prove: the nodes collected by the walk, in walk order ---------- *)
Fixpoint prove2 (n : tnode) (k : list bool) : list pnode2 :=
  match k with
  | [] => []                                              (* loop guard: path.Len() > 0 *)
  | kb :: k' =>
      match n with
      | Leaf _ => []                                      (* Go panics here; unreachable: leaves sit at key length *)
      | Edge p c =>
          QEdge p (collapse c) ::
            (if pmatch p k then prove2 c (skipn (length p) k)   (* rootNode = n.Child; path.LSBs *)
             else [])                                            (* rootNode = nil; the edge is still appended *)
      | Bin l r => QBin (collapse l) (collapse r) :: prove2 (if kb then r else l) k'
      end
  end.

Definition prove2_tree (t : tree F) (k : list bool) : list pnode2 :=
  match t with None => [] | Some n => prove2 n k end.

(* ---------- legacy Prove: nodesFromRoot + storageNodeToProofNode ---------- *)
(* a storage node of the flat trie is "edge from the parent + binary"; the walk includes the first
   node whose key is not a prefix of the queried key, and for that node BOTH parts are put *)
Definition below (c : tnode) : list pnode :=
  match c with Bin l r => [PBin (thash l) (thash r)] | _ => [] end.

Fixpoint prove1 (n : tnode) (k : list bool) : list pnode :=
  match n with
  | Leaf _ => []
  | Edge p c => PEdge p (thash c) :: (if pmatch p k then prove1 c (skipn (length p) k) else below c)
  | Bin l r => PBin (thash l) (thash r) ::
                 match k with kb :: k' => prove1 (if kb then r else l) k' | [] => [] end
  end.

Definition prove1_tree (t : tree F) (k : list bool) : list pnode :=
  match t with None => [] | Some n => prove1 n k end.

(* ---------- the proof set: utils.OrderedSet keyed by node hash ---------- *)
Section PSet.
Variable A : Type.
Fixpoint pget (ps : list (F * A)) (h : F) : option A :=
  match ps with
  | [] => None
  | (h', n) :: r => if feq h' h then Some n else pget r h
  end.
(* Put: overwrite in place when the key exists, else append *)
Fixpoint pput (ps : list (F * A)) (h : F) (n : A) : list (F * A) :=
  match ps with
  | [] => [(h, n)]
  | (h', n') :: r => if feq h' h then (h', n) :: r else (h', n') :: pput r h n
  end.
End PSet.
Arguments pget {A}. Arguments pput {A}.

Definition pset2 := list (F * pnode2).
Definition pset1 := list (F * pnode).
Definition add2 (ps : pset2) (l : list pnode2) : pset2 := fold_left (fun s n => pput s (qhash n) n) l ps.
Definition add1 (ps : pset1) (l : list pnode) : pset1 := fold_left (fun s n => pput s (phash n) n) l ps.
Definition set_of2 (l : list pnode2) : pset2 := add2 [] l.
Definition set_of1 (l : list pnode) : pset1 := add1 [] l.

(* ---------- verification ---------- *)
(* VerifyProof returns (felt, error): value, or zero = "absent", or an error. *)
Inductive result := Ok (x : F) | Err | Fuel.

Definition vz (o : option F) : F := match o with Some v => v | None => f0 end.

Definition is_nil (k : list bool) : bool := match k with [] => true | _ => false end.

(* the switch on the child returned by get(): ValueNode => return it (no look at the remaining
   key!), HashNode => return it when the key is used up, else follow it.
   strict = true is the variant that refuses a value node above leaf depth (not what the code does;
   used to state soundness). *)
Definition step2 (strict : bool) (c : pchild) (k' : list bool) (follow : F -> result) : result :=
  match c with
  | CV v => if strict && negb (is_nil k') then Err else Ok v
  | CH x => if is_nil k' then Ok x else follow x
  end.

Fixpoint verify2 (strict : bool) (fuel : nat) (e : F) (k : list bool) (ps : pset2) : result :=
  match fuel with
  | O => Fuel
  | S fuel' =>
      match pget ps e with
      | None => Err                                        (* proof node not found *)
      | Some n =>
          if negb (feq (qhash n) e) then Err               (* proof node hash mismatch *)
          else match n with
               | QEdge p c =>
                   if pmatch p k
                   then let k' := skipn (length p) k in
                        step2 strict c k' (fun x => verify2 strict fuel' x k' ps)
                   else Ok f0                              (* get returns nil: (Zero, nil) *)
               | QBin l r =>
                   let kb := match k with b :: _ => b | [] => false end in   (* MSB(); 0 when empty *)
                   let k' := tl k in
                   step2 strict (if kb then r else l) k' (fun x => verify2 strict fuel' x k' ps)
               end
      end
  end.

(* enough fuel unless the proof set contains a hash cycle *)
Definition fuel_for {A} (k : list bool) (ps : list (F * A)) : nat := S (length k) * S (length ps).

(* trie2.VerifyProof(root, key, proof, hash) *)
Definition verify2_top (root : F) (k : list bool) (ps : pset2) : result :=
  verify2 false (fuel_for k ps) root k ps.
Definition verify2_strict (root : F) (k : list bool) (ps : pset2) : result :=
  verify2 true (fuel_for k ps) root k ps.

(* legacy trie.VerifyProof: full key + current position (uint8 arithmetic) *)
Definition u8 (n : nat) : nat := n mod 256.

Fixpoint verify1 (fuel : nat) (e : F) (key : list bool) (pos : nat) (ps : pset1) : result :=
  match fuel with
  | O => Fuel
  | S fuel' =>
      match pget ps e with
      | None => Err
      | Some n =>
          if negb (feq (phash n) e) then Err
          else match n with
               | PBin l r =>
                   if length key <=? pos then Err          (* key length less than current position *)
                   else let e' := if nth pos key false then r else l in
                        let pos' := u8 (pos + 1) in
                        if length key <=? pos' then Ok e' else verify1 fuel' e' key pos' ps
               | PEdge p c =>
                   if negb (pmatch (skipn pos key) p) then Ok f0      (* verifyEdgePath fails: (Zero, nil) *)
                   else let pos' := u8 (pos + length p) in
                        if length key <=? pos' then Ok c else verify1 fuel' c key pos' ps
               end
      end
  end.

Definition verify1_top (root : F) (k : list bool) (ps : pset1) : result :=
  verify1 (fuel_for k ps) root k 0 ps.

(* the verifier an independent client writes from the wire format: remaining-key form, a value is
   whatever the last consumed node points to when the key is used up *)
Fixpoint verifyW (fuel : nat) (e : F) (k : list bool) (ps : pset1) : result :=
  match fuel with
  | O => Fuel
  | S fuel' =>
      match pget ps e with
      | None => Err
      | Some n =>
          if negb (feq (phash n) e) then Err
          else match n with
               | PBin l r =>
                   match k with
                   | [] => Err
                   | kb :: k' => let e' := if kb then r else l in
                                 if is_nil k' then Ok e' else verifyW fuel' e' k' ps
                   end
               | PEdge p c =>
                   if pmatch p k
                   then let k' := skipn (length p) k in
                        if is_nil k' then Ok c else verifyW fuel' c k' ps
                   else Ok f0
               end
      end
  end.

Definition verifyW_top (root : F) (k : list bool) (ps : pset1) : result :=
  verifyW (fuel_for k ps) root k ps.

Definition erase_set (ps : pset2) : pset1 := map (fun hn => (fst hn, erase (snd hn))) ps.

(* decidable equality of results: the predicate the harness evaluates
   ("the proof establishes exactly the key's value / absence") *)
Definition result_is (r : result) (x : F) : bool :=
  match r with Ok y => feq y x | _ => false end.
(* "never establishes a different value": the result is an error or the true answer *)
Definition not_forged (r : result) (x : F) : bool :=
  match r with Ok y => feq y x | _ => true end.

End ProofModel.

Arguments PBin {F}. Arguments PEdge {F}. Arguments CH {F}. Arguments CV {F}.
Arguments QBin {F}. Arguments QEdge {F}. Arguments Ok {F}. Arguments Err {F}. Arguments Fuel {F}.
Arguments pget F feq {A}. Arguments pput F feq {A}. Arguments fuel_for F {A}.

(* ====================================================================================== *)
(* Instance 1 (proof generation): the free hash-term algebra. The oracle prints the proof nodes with
   their child hashes as terms; the harness evaluates them with juno's Pedersen / Poseidon. *)
Inductive hterm :=
| HC (z : Z)                         (* felt constant *)
| HP (a b : hterm)                   (* crypto.Pedersen *)
| HS (a b : hterm)                   (* crypto.Poseidon *)
| HA (a : hterm) (n : nat)           (* + edge length *)
| HB (p : list bool).                (* Path.Felt() *)

Fixpoint bits_eqb (p q : list bool) : bool :=
  match p, q with
  | [], [] => true
  | a :: p', b :: q' => Bool.eqb a b && bits_eqb p' q'
  | _, _ => false
  end.

Fixpoint heqb (a b : hterm) : bool :=
  match a, b with
  | HC x, HC y => Z.eqb x y
  | HP a1 a2, HP b1 b2 => heqb a1 b1 && heqb a2 b2
  | HS a1 a2, HS b1 b2 => heqb a1 b1 && heqb a2 b2
  | HA a1 n, HA b1 m => heqb a1 b1 && Nat.eqb n m
  | HB p, HB q => bits_eqb p q
  | _, _ => false
  end.

Definition hzero (t : hterm) : bool :=
  match t with HC z => Z.eqb z 0 | HB p => forallb negb p | _ => false end.

(* trieutils.FeltToPath: the low h bits, most significant first *)
Fixpoint bits_of_Z (h : nat) (z : Z) : list bool :=
  match h with
  | O => []
  | S h' => bits_of_Z h' (Z.div2 z) ++ [Z.odd z]
  end.

Definition htree := tree hterm.
Definition h_run (h : nat) (ops : list (Z * Z)) : htree :=
  fold_left (fun t kv => update hterm hzero t (bits_of_Z h (fst kv)) (HC (snd kv))) ops None.
Definition h_root (pos : bool) (t : htree) : hterm :=
  root hterm (if pos then HS else HP) HB HA (HC 0) t.
Definition h_canon (h : nat) (t : htree) : bool := canont hterm hzero h t.
Definition h_get (t : htree) (k : list bool) : option hterm := get hterm t k.
Definition h_prove2 (pos : bool) (t : htree) (k : list bool) : list (pnode2 hterm) :=
  prove2_tree hterm (if pos then HS else HP) HB HA t k.
Definition h_prove1 (pos : bool) (t : htree) (k : list bool) : list (pnode hterm) :=
  prove1_tree hterm (if pos then HS else HP) HB HA t k.
(* the model verifying the model's own proof (term level) *)
Definition h_verify2 (pos : bool) (t : htree) (k : list bool) : result hterm :=
  let hf := if pos then HS else HP in
  verify2_top hterm heqb hf HB HA (HC 0) (h_root pos t) k (set_of2 hterm heqb hf HB HA (h_prove2 pos t k)).
Definition h_verify1 (pos : bool) (t : htree) (k : list bool) : result hterm :=
  let hf := if pos then HS else HP in
  verify1_top hterm heqb hf HB HA (HC 0) (h_root pos t) k (set_of1 hterm heqb hf HB HA (h_prove1 pos t k)).

(* ====================================================================================== *)
(* Instance 2 (verification of arbitrary, possibly tampered, proof sets): concrete felts, the hash
   function given as a finite table computed by the harness with juno's primitive for exactly the
   pairs the verifier hashes. The theorems hold for every hash instance, hence for this one. *)
Definition felt_P : Z := (2 ^ 251 + 17 * 2 ^ 192 + 1)%Z.
Definition ztable := list (Z * Z * Z).
Fixpoint zlook (tb : ztable) (a b : Z) : Z :=
  match tb with
  | [] => (-1)%Z                                   (* never a felt: a missing entry matches nothing *)
  | (x, y, h) :: r => if Z.eqb x a && Z.eqb y b then h else zlook r a b
  end.
Definition z_of_path (p : list bool) : Z := fold_left (fun (acc : Z) (b : bool) => (2 * acc + (if b then 1 else 0))%Z) p 0%Z.
Definition z_add_len (x : Z) (n : nat) : Z := ((x + Z.of_nat n) mod felt_P)%Z.

Definition z_verify2 (strict : bool) (tb : ztable) (root : Z) (k : list bool) (ps : pset2 Z) : result Z :=
  verify2 Z Z.eqb (zlook tb) z_of_path z_add_len 0%Z strict (fuel_for Z k ps) root k ps.
Definition z_verify1 (tb : ztable) (root : Z) (k : list bool) (ps : pset1 Z) : result Z :=
  verify1_top Z Z.eqb (zlook tb) z_of_path z_add_len 0%Z root k ps.
Definition z_verifyW (tb : ztable) (root : Z) (k : list bool) (ps : pset1 Z) : result Z :=
  verifyW_top Z Z.eqb (zlook tb) z_of_path z_add_len 0%Z root k ps.
Definition z_erase_set (ps : pset2 Z) : pset1 Z := erase_set Z ps.

(* ====================================================================================== *)
(* Range proofs of core/trie2 (proof.go: VerifyRangeProof, proofToPath, unsetInternal, handleEdgeFork,
   handleBinaryFork, unset, hasRightElement) and the part of trie.go they run on (insert over a
   partially resolved trie, hashing with nil children).
   The Go code links the nodes OF THE PROOF SET to each other and then cuts children off them in
   place; a node fetched twice from the set is the same object. The model therefore keeps the set as
   a heap: objects are identified by the key they are stored under, children are references. *)
Section Range2.
Variable F : Type.
Variable feq : F -> F -> bool.
Variable fzero : F -> bool.
Variable ped : F -> F -> F.
Variable of_path : list bool -> F.
Variable add_len : F -> nat -> F.
Variable f0 : F.

Inductive href :=
| HNil                      (* nil *)
| HRef (h : F)              (* pointer to the set's object stored under key h *)
| HHash (x : F)             (* *trienode.HashNode *)
| HVal (v : F).             (* *trienode.ValueNode *)
Inductive hnode :=
| HBin (l r : href)
| HEdge (p : list bool) (c : href).
Definition heap := list (F * hnode).

Definition href_of (c : pchild F) : href := match c with CH x => HHash x | CV v => HVal v end.
Definition hnode_of (n : pnode2 F) : hnode :=
  match n with QBin l r => HBin (href_of l) (href_of r) | QEdge p c => HEdge p (href_of c) end.
Definition heap_of (ps : pset2 F) : heap := map (fun hn => (fst hn, hnode_of (snd hn))) ps.

(* partially resolved trie as trie.go sees it *)
Inductive rnode :=
| RVal (v : F)
| RHash (x : F)
| REdge (p : list bool) (c : rnode)
| RBin (l r : option rnode).

Fixpoint rhash (n : rnode) : F :=
  match n with
  | RVal v => v
  | RHash x => x
  | REdge p c => add_len (ped (rhash c) (of_path p)) (length p)
  | RBin l r => ped (match l with Some a => rhash a | None => f0 end)      (* nil child: NilValueNode *)
                    (match r with Some b => rhash b | None => f0 end)
  end.
Definition rroot (t : option rnode) : F := match t with Some n => rhash n | None => f0 end.

(* heap -> tree (a cycle in the heap exhausts the fuel) *)
Fixpoint unfold (fuel : nat) (hp : heap) (r : href) : option (option rnode) :=   (* None = fuel *)
  match r with
  | HNil => Some None
  | HHash x => Some (Some (RHash x))
  | HVal v => Some (Some (RVal v))
  | HRef h =>
      match fuel with
      | O => None
      | S fuel' =>
          match pget F feq hp h with
          | None => None
          | Some (HEdge p c) =>
              match unfold fuel' hp c with
              | Some (Some c') => Some (Some (REdge p c'))
              | Some None => Some (Some (REdge p (RVal f0)))   (* edge with nil child: not produced *)
              | None => None
              end
          | Some (HBin l r) =>
              match unfold fuel' hp l, unfold fuel' hp r with
              | Some l', Some r' => Some (Some (RBin l' r'))
              | _, _ => None
              end
          end
      end
  end.

(* ---------- trie.go insert on a partially resolved trie ---------- *)
Inductive ires := IOk (n : rnode) | IErr | IPanic.
Definition rwrap (p : list bool) (c : rnode) : rnode := match p with [] => c | _ => REdge p c end.
Definition set_child (b : bool) (c : rnode) (lr : option rnode * option rnode) : option rnode * option rnode :=
  if b then (fst lr, Some c) else (Some c, snd lr).

Definition rleaf_at (k : list bool) (v : F) : rnode := rwrap k (RVal v).   (* insert(nil, k, value) *)

Fixpoint rinsert_n (n : rnode) (k : list bool) (v : F) : ires :=
  match k with
  | [] => IOk (RVal v)                                    (* key.Len() == 0: the value, whatever n is *)
  | kb :: k' =>
      match n with
      | REdge p c =>
          let '(m, pr, kr) := split p k in
          match pr with
          | [] => match rinsert_n c kr v with IOk c' => IOk (REdge p c') | e => e end
          | ob :: pr' =>
              let a := rwrap pr' c in
              let '(nb, b) := match kr with nb :: kr' => (nb, rwrap kr' (RVal v)) | [] => (false, RVal v) end in
              let lr := set_child nb b (set_child ob a (None, None)) in
              IOk (rwrap m (RBin (fst lr) (snd lr)))
          end
      | RBin l r =>
          match (match (if kb then r else l) with
                 | Some ch => rinsert_n ch k' v
                 | None => IOk (rleaf_at k' v)
                 end) with
          | IOk c' => IOk (if kb then RBin l (Some c') else RBin (Some c') r)
          | e => e
          end
      | RHash _ => IErr                                   (* resolveNode on the empty node reader *)
      | RVal _ => IPanic                                  (* "unknown node type" *)
      end
  end.

Definition rinsert (n : option rnode) (k : list bool) (v : F) : ires :=
  match n with
  | Some n' => rinsert_n n' k v
  | None => IOk (rleaf_at k v)
  end.

Inductive tres := TOk (t : option rnode) | TErr | TPanic.
Fixpoint rinsert_all (t : option rnode) (kvs : list (list bool * F)) : tres :=
  match kvs with
  | [] => TOk t
  | (k, v) :: r =>
      match rinsert t k v with
      | IOk n => rinsert_all (Some n) r
      | IErr => TErr
      | IPanic => TPanic
      end
  end.

(* ---------- BitArray.Cmp: by length, then by value ---------- *)
Fixpoint bits_cmp_eqlen (p q : list bool) : comparison :=
  match p, q with
  | a :: p', b :: q' => if Bool.eqb a b then bits_cmp_eqlen p' q' else if b then Lt else Gt
  | _, _ => Eq
  end.
Definition bcmp (p q : list bool) : comparison :=
  match Nat.compare (length p) (length q) with
  | Eq => bits_cmp_eqlen p q
  | c => c
  end.
Definition is_lt c := match c with Lt => true | _ => false end.
Definition is_gt c := match c with Gt => true | _ => false end.
Definition is_eq c := match c with Eq => true | _ => false end.
Definition zeros (n : nat) : list bool := repeat false n.
Definition bit_at (k : list bool) (i : nat) : bool := nth i k false.   (* Bit(n): 0 when out of range *)
Definition subset (k : list bool) (a b : nat) : list bool := firstn (b - a) (skipn a k).

(* ---------- hasRightElement ---------- *)
Inductive hres := HasR (b : bool) | HPanic.
Fixpoint has_right_n (n : rnode) (k : list bool) : hres :=
  match n with
  | RVal _ => HasR false
  | RHash _ => HPanic
  | REdge p c =>
      if pmatch p k then has_right_n c (skipn (length p) k)
      else let ep := if length p <? length k then p ++ zeros (length k - length p) else p in
           HasR (is_gt (bcmp ep k))
  | RBin l r =>
      let b := bit_at k 0 in
      if negb b && (match r with Some _ => true | None => false end) then HasR true
      else match (if b then r else l) with
           | Some ch => has_right_n ch (tl k)
           | None => HasR false
           end
  end.
Definition has_right (n : option rnode) (k : list bool) : hres :=
  match n with Some n' => has_right_n n' k | None => HasR false end.

(* ---------- proofToPath: resolve the path of a key inside the heap, linking the objects ---------- *)
Definition hput (hp : heap) (h : F) (n : hnode) : heap := pput F feq hp h n.
Definition link (n : hnode) (msb : bool) (r : href) : hnode :=
  match n with
  | HEdge p _ => HEdge p r
  | HBin l r0 => if msb then HBin l r else HBin r r0
  end.

Inductive ptp_res := PtpOk (hp : heap) (val : option F) | PtpErr | PtpFuel.

Fixpoint ptp (fuel : nat) (hp : heap) (parent : F) (k : list bool) (allow_ne : bool) : ptp_res :=
  match fuel with
  | O => PtpFuel
  | S fuel' =>
      match pget F feq hp parent with
      | None => PtpErr
      | Some n =>
          let msb := bit_at k 0 in
          let '(child, k') :=
            match n with
            | HEdge p c => if pmatch p k then (c, skipn (length p) k) else (HNil, k)
            | HBin l r => ((if msb then r else l), tl k)
            end in
          match child with
          | HNil => if allow_ne then PtpOk hp None else PtpErr
          | HRef h => ptp fuel' hp h k' allow_ne
          | HHash x =>
              match pget F feq hp x with
              | None => PtpErr                                  (* proof node not found *)
              | Some _ => ptp fuel' (hput hp parent (link n msb (HRef x))) x k' allow_ne
              end
          | HVal v => PtpOk hp (Some v)
          end
      end
  end.

(* proofToPath(rootHash, root, key, proof, allow): the root object is the one stored under rootHash *)
Definition proof_to_path (hp : heap) (root : F) (k : list bool) (allow_ne : bool) : ptp_res :=
  match pget F feq hp root with
  | None => PtpErr
  | Some _ => ptp (S (length k) * S (length hp)) hp root k allow_ne
  end.

(* ---------- unset / unsetInternal ---------- *)
(* parent (type-asserted to BinaryNode).Children[bit] = nil ; None = the type assertion panics *)
Definition cut_child (hp : heap) (parent : F) (bit : bool) : option heap :=
  match pget F feq hp parent with
  | Some (HBin l r) => Some (hput hp parent (if bit then HBin l HNil else HBin HNil r))
  | _ => None
  end.
(* key.Bit(pos-1) with uint8 pos: position 255 is out of range for pos = 0 *)
Definition bit_before (k : list bool) (pos : nat) : bool :=
  match pos with O => false | S p => bit_at k p end.

Inductive ures := UOk (hp : heap) | UPanic | UFuel.

Fixpoint unset (fuel : nat) (hp : heap) (parent : F) (child : href) (key : list bool) (pos : nat)
               (remove_left : bool) : ures :=
  match fuel with
  | O => UFuel
  | S fuel' =>
      match child with
      | HRef c =>
          match pget F feq hp c with
          | None => UPanic
          | Some (HBin l r) =>
              let kb := bit_at key pos in
              let l' := if remove_left && kb then HNil else l in
              let r' := if negb remove_left && negb kb then HNil else r in
              unset fuel' (hput hp c (HBin l' r')) c (if kb then r' else l') key (S pos) remove_left
          | Some (HEdge p gc) =>
              let key_pos := skipn pos key in
              let key_bit := bit_before key pos in
              if negb (pmatch p key_pos) then
                let ep := p ++ zeros (length key_pos - length p) in
                let c := bcmp ep key_pos in
                if (if remove_left then is_lt c else is_gt c)
                then match cut_child hp parent key_bit with Some hp' => UOk hp' | None => UPanic end
                else UOk hp
              else match gc with
                   | HVal _ => match cut_child hp parent key_bit with Some hp' => UOk hp' | None => UPanic end
                   | _ => unset fuel' hp c gc key (pos + length p) remove_left
                   end
          end
      | _ => UOk hp                                          (* nil, HashNode, ValueNode *)
      end
  end.

Inductive uires := UIOk (empty : bool) (hp : heap) | UIErr | UIPanic | UIFuel.
Definition of_ures (u : ures) : uires :=
  match u with UOk hp => UIOk false hp | UPanic => UIPanic | UFuel => UIFuel end.
Definition cut_or_empty (hp : heap) (parent : option F) (bit : bool) : uires :=
  match parent with
  | None => UIOk true hp                                      (* the fork point is the root: unset the entire trie *)
  | Some pk => match cut_child hp pk bit with Some hp' => UIOk false hp' | None => UIPanic end
  end.

Definition handle_edge_fork (fuel : nat) (hp : heap) (nk : F) (p : list bool) (c : href) (parent : option F)
    (left right : list bool) (pos : nat) (efl efr : comparison) : uires :=
  if is_lt efl && is_lt efr then UIErr
  else if is_gt efl && is_gt efr then UIErr
  else if negb (is_eq efl) && negb (is_eq efr) then cut_or_empty hp parent (bit_before left pos)
  else if negb (is_eq efr) then
    match c with
    | HVal _ => cut_or_empty hp parent (bit_before left pos)
    | _ => of_ures (unset fuel hp nk c (skipn pos left) (length p) false)
    end
  else if negb (is_eq efl) then
    match c with
    | HVal _ => cut_or_empty hp parent (bit_before right pos)
    | _ => of_ures (unset fuel hp nk c (skipn pos right) (length p) true)
    end
  else UIOk false hp.

Definition bin_child (n : option hnode) (b : bool) : href :=
  match n with Some (HBin l r) => if b then r else l | _ => HNil end.

Definition handle_binary_fork (fuel : nat) (hp : heap) (nk : F) (l r : href) (left right : list bool) (pos : nat) : uires :=
  let lb := bit_at left pos in
  let rb := bit_at right pos in
  let r1 := if negb lb && negb rb then HNil else r in
  let l1 := if lb && rb then HNil else l in
  let hp1 := hput hp nk (HBin l1 r1) in
  match unset fuel hp1 nk (if lb then r1 else l1) (skipn pos left) 1 false with
  | UOk hp2 => of_ures (unset fuel hp2 nk (bin_child (pget F feq hp2 nk) rb) (skipn pos right) 1 true)
  | u => of_ures u
  end.

Definition is_hnil (r : href) : bool := match r with HNil => true | _ => false end.
(* leftnode != rightnode: interface values holding pointers *)
Definition same_ptr (lb rb : bool) (a b : href) : bool :=
  if Bool.eqb lb rb then true
  else match a, b with HRef x, HRef y => feq x y | _, _ => false end.

Fixpoint unset_internal (fuel : nat) (hp : heap) (n : href) (parent : option F) (left right : list bool)
                        (pos : nat) : uires :=
  match fuel with
  | O => UIFuel
  | S fuel' =>
      match n with
      | HRef nk =>
          match pget F feq hp nk with
          | None => UIPanic
          | Some (HEdge p c) =>
              let fork k :=
                if length k - pos <? length p then bcmp (skipn pos k) p
                else bcmp (subset k pos (pos + length p)) p in
              let efl := fork left in
              let efr := fork right in
              if is_eq efl && is_eq efr then unset_internal fuel' hp c (Some nk) left right (pos + length p)
              else handle_edge_fork (S (length left) * S (length hp)) hp nk p c parent left right pos efl efr
          | Some (HBin l r) =>
              let lb := bit_at left pos in
              let rb := bit_at right pos in
              let ln := if lb then r else l in
              let rn := if rb then r else l in
              if is_hnil ln || is_hnil rn || negb (same_ptr lb rb ln rn)
              then handle_binary_fork (S (length left) * S (length hp)) hp nk l r left right pos
              else unset_internal fuel' hp ln (Some nk) left right (S pos)
          end
      | _ => UIPanic                                         (* panic("%T: invalid node") *)
      end
  end.

(* ---------- VerifyRangeProof ---------- *)
Inductive rres := ROk (more : bool) | RErr | RPanic | RFuel.

Fixpoint proof_data_ok (kvs : list (list bool * F)) : bool :=
  match kvs with
  | [] => true
  | (k, v) :: r =>
      (match r with (k2, _) :: _ => negb (is_gt (bcmp k k2)) | [] => true end)
      && negb (fzero v) && proof_data_ok r
  end.

Definition of_hres (h : hres) : rres := match h with HasR b => ROk b | HPanic => RPanic end.

Definition rebuild_and_compare (root : F) (t : option rnode) (kvs : list (list bool * F)) (k : rres) : rres :=
  match rinsert_all t kvs with
  | TOk t' => if feq (rroot t') root then k else RErr       (* root hash mismatch *)
  | TErr => RErr
  | TPanic => RPanic
  end.

Definition verify_range2 (root : F) (first : list bool) (kvs : list (list bool * F))
                         (proof : option (pset2 F)) : rres :=
  if negb (proof_data_ok kvs) then RErr else
  match proof with
  | None => rebuild_and_compare root None kvs (ROk false)     (* no edge proof: the whole trie *)
  | Some ps =>
      let hp0 := heap_of ps in
      let ufuel := S (length hp0) in
      match kvs with
      | [] =>                                                 (* verifyEmptyRangeProof *)
          match proof_to_path hp0 root first true with
          | PtpOk hp1 val =>
              match unfold ufuel hp1 (HRef root) with
              | None => RFuel
              | Some t =>
                  match val with
                  | Some _ => RErr
                  | None => match has_right t first with
                            | HasR true => RErr               (* more entries available *)
                            | HasR false => ROk false
                            | HPanic => RPanic
                            end
                  end
              end
          | PtpErr => RErr
          | PtpFuel => RFuel
          end
      | (k0, v0) :: rest =>
          let last := fst (List.last kvs (k0, v0)) in
          if (match rest with [] => true | _ => false end) && is_eq (bcmp first last) then   (* verifySingleElementProof *)
            match proof_to_path hp0 root k0 false with
            | PtpOk hp1 val =>
                match val with
                | Some v => if feq v0 v
                            then match unfold ufuel hp1 (HRef root) with
                                 | None => RFuel
                                 | Some t => of_hres (has_right t k0)
                                 end
                            else RErr
                | None => RErr
                end
            | PtpErr => RErr
            | PtpFuel => RFuel
            end
          else if negb (is_gt (bcmp last first)) then RErr     (* last key is less than first key *)
          else                                                 (* verifyRangeWithProof *)
            match proof_to_path hp0 root first true with
            | PtpOk hp1 _ =>
                match proof_to_path hp1 root last true with
                | PtpOk hp2 _ =>
                    match unset_internal (S (length first) * S (length hp2)) hp2 (HRef root) None first last 0 with
                    | UIOk empty hp3 =>
                        match unfold ufuel hp3 (HRef root) with
                        | None => RFuel
                        | Some t => rebuild_and_compare root (if empty then None else t) kvs (of_hres (has_right t last))
                        end
                    | UIErr => RErr
                    | UIPanic => RPanic
                    | UIFuel => RFuel
                    end
                | PtpErr => RErr
                | PtpFuel => RFuel
                end
            | PtpErr => RErr
            | PtpFuel => RFuel
            end
      end
  end.

End Range2.
Arguments HNil {F}. Arguments HRef {F}. Arguments HHash {F}. Arguments HVal {F}.
Arguments HBin {F}. Arguments HEdge {F}. Arguments RVal {F}. Arguments RHash {F}. Arguments REdge {F}. Arguments RBin {F}.

(* term-level entry points for trie2 range proofs (VerifyRangeProof is fixed to Pedersen) *)
Definition h_range_proof2 (t : htree) (l r : list bool) : pset2 hterm :=
  let s := set_of2 hterm heqb HP HB HA (h_prove2 false t l) in
  if bits_eqb l r then s else add2 hterm heqb HP HB HA s (h_prove2 false t r).
Definition h_range2 (t : htree) (first : list bool) (kvs : list (list bool * hterm))
                    (proof : option (pset2 hterm)) : rres :=
  verify_range2 hterm heqb hzero HP HB HA (HC 0) (h_root false t) first kvs proof.

(* ====================================================================================== *)
(* Range proofs of the legacy core/trie (proof.go: VerifyRangeProof, proofToPath, buildPath,
   handleBinaryNode, handleEdgeNode, buildTrie, hasRightElement) and the part of the flat trie
   they run on (trie.go: PutInner, PutWithProof, nodesFromRoot, insertOrUpdateValue,
   updateValueIfDirty, Hash; node.go: Node.Hash, Node.Update; the serialisation round trip of
   storage.go). Nodes are stored under their full path. *)
Section Range1.
Variable F : Type.
Variable feq : F -> F -> bool.
Variable fzero : F -> bool.
Variable ped : F -> F -> F.
Variable of_path : list bool -> F.
Variable add_len : F -> nat -> F.
Variable f0 : F.

Inductive lres (A : Type) := LOk (a : A) | LErr | LPanic | LFuel.
Arguments LOk {A}. Arguments LErr {A}. Arguments LPanic {A}. Arguments LFuel {A}.
Definition lbind {A B} (x : lres A) (f : A -> lres B) : lres B :=
  match x with LOk a => f a | LErr => LErr | LPanic => LPanic | LFuel => LFuel end.
Notation "'do' x <- e ; k" := (lbind e (fun x => k)) (at level 200, x pattern, e at level 100, k at level 200).

(* trie.Node: Value, Left, Right (BitArray pointers: None = nil, Some [] = the empty bit array),
   LeftHash, RightHash *)
Record lnode := { lv : option F; ll : option (list bool); lr : option (list bool);
                  llh : option F; lrh : option F }.
Definition lstore := list (list bool * lnode).

Fixpoint sget (s : lstore) (k : list bool) : option lnode :=
  match s with
  | [] => None
  | (k', n) :: r => if bits_eqb k' k then Some n else sget r k
  end.
Fixpoint sput (s : lstore) (k : list bool) (n : lnode) : lstore :=
  match s with
  | [] => [(k, n)]
  | (k', n') :: r => if bits_eqb k' k then (k', n) :: r else (k', n') :: sput r k n
  end.

Definition is_empty_path (p : option (list bool)) : bool :=
  match p with Some [] => true | _ => false end.
Definition opt_feq (a b : option F) : bool :=       (* both non-nil and different => conflict *)
  match a, b with Some x, Some y => feq x y | _, _ => true end.
Definition opt_path_ok (a b : option (list bool)) : bool :=
  match a, b with
  | Some x, Some y => match x, y with [], _ => true | _, [] => true | _, _ => bits_eqb x y end
  | _, _ => true
  end.
Definition pick_f (o n : option F) : option F := match o with Some _ => o | None => n end.
Definition pick_p (o n : option (list bool)) : option (list bool) :=
  match o with Some (_ :: _) => o | _ => n end.

(* Node.Update: merge [o] into [n]; None = conflicting fields *)
Definition node_update (n o : lnode) : option lnode :=
  if opt_feq (lv n) (lv o) && opt_path_ok (ll n) (ll o) && opt_path_ok (lr n) (lr o)
     && opt_feq (llh n) (llh o) && opt_feq (lrh n) (lrh o)
  then Some {| lv := pick_f (lv o) (lv n); ll := pick_p (ll o) (ll n); lr := pick_p (lr o) (lr n);
               llh := pick_f (llh o) (llh n); lrh := pick_f (lrh o) (lrh n) |}
  else None.

(* StorageNodeSet.Put *)
Definition nset_put (s : lstore) (k : list bool) (n : lnode) : lres lstore :=
  match sget s k with
  | Some e => match node_update e n with Some m => LOk (sput s k m) | None => LErr end
  | None => LOk (s ++ [(k, n)])
  end.

Definition partial (v : F) : lnode :=     (* NewPartialStorageNode *)
  {| lv := Some v; ll := Some []; lr := Some []; llh := None; lrh := None |}.

Definition msbs (k : list bool) (n : nat) : list bool := firstn n k.

(* ---------- buildPath / handleBinaryNode / handleEdgeNode ---------- *)
(* returns (nodes, key of the node built here, leaf value found) *)
(* the 4th component: the state of the caller's node object when handleBinaryNode completed it *)
Definition bp_out := (lstore * list bool * option F * option lnode)%type.

Fixpoint build_path (fuel : nat) (ps : pset1 F) (nodes : lstore) (node_hash : F) (key : list bool)
                    (pos : nat) (cur : option (list bool * lnode)) : lres bp_out :=
  match fuel with
  | O => LFuel
  | S fuel' =>
      if Nat.eqb pos (length key) then                      (* we reached the leaf *)
        do nodes' <- nset_put nodes key (partial node_hash);
        LOk (nodes', key, Some node_hash, None)
      else
        match pget F feq ps node_hash with
        | None => LOk (nodes, [], None, None)               (* non-existent proof node: emptyBitArray, nil, nil *)
        | Some (PBin lh rh) =>
            let '(ck, cn) := match cur with Some c => c | None => (msbs key pos, partial node_hash) end in
            let cn1 := {| lv := lv cn; ll := ll cn; lr := lr cn; llh := Some lh; lrh := Some rh |} in
            let right := bit_at key pos in
            do (nodes1, child_key, val, _) <- build_path fuel' ps nodes (if right then rh else lh) key (u8 (pos + 1)) None;
            let cn2 := if right
                       then {| lv := lv cn1; ll := ll cn1; lr := Some child_key; llh := llh cn1; lrh := lrh cn1 |}
                       else {| lv := lv cn1; ll := Some child_key; lr := lr cn1; llh := llh cn1; lrh := lrh cn1 |} in
            do nodes2 <- nset_put nodes1 ck cn2;
            LOk (nodes2, ck, val, Some cn2)
        | Some (PEdge p c) =>
            if negb (pmatch (skipn pos key) p) then LOk (nodes, [], None, None)
            else
              let next := u8 (pos + length p) in
              let ck := msbs key next in
              let cn := partial c in
              if Nat.eqb next (length key) then             (* an edge leaf *)
                do nodes1 <- nset_put nodes ck cn;
                LOk (nodes1, ck, Some c, None)
              else
                do (nodes1, _, val, obj) <- build_path fuel' ps nodes c key next (Some (ck, cn));
                (* the object handed down is Put again (completed by handleBinaryNode when the
                   child was a binary node) *)
                let cn' := match obj with Some e => e | None => cn end in
                do nodes2 <- nset_put nodes1 ck cn';
                LOk (nodes2, ck, val, None)
        end
  end.

(* proofToPath *)
Definition proof_to_path1 (ps : pset1 F) (nodes : lstore) (root : F) (key : list bool)
  : lres (lstore * list bool * option F) :=
  do (nodes1, root_key, val, _) <- build_path (S (length key) * S (length ps)) ps nodes root key 0 None;
  match nodes1 with
  | [] =>                                                   (* non-existent key at the root *)
      match pget F feq ps root with
      | Some (PEdge p c) =>
          if Nat.eqb (length p) (length key) then
            do nodes2 <- nset_put nodes1 p (partial c); LOk (nodes2, p, Some c)
          else match pget F feq ps c with
               | Some (PBin lh rh) =>
                   let sn := {| lv := Some c; ll := Some []; lr := Some []; llh := Some lh; lrh := Some rh |} in
                   do nodes2 <- nset_put nodes1 p sn; LOk (nodes2, p, val)
               | _ => LErr
               end
      | _ => LErr
      end
  | _ => LOk (nodes1, root_key, val)
  end.

(* ---------- the flat trie the verifier rebuilds ---------- *)
Record ltrie := { ts : lstore; troot : option (list bool); tdirty : list (list bool) }.

(* Storage.Put = WriteTo, ReadStorage.Get = UnmarshalBinary: what comes back. A node written with
   Left/Right but without hashes is read back with zero (non-nil) hashes. *)
Definition ser (n : lnode) : lres lnode :=
  match lv n with
  | None => LErr                                            (* cannot marshal node with nil value *)
  | Some _ =>
      match ll n with
      | None => match llh n, lrh n with
                | None, None => LOk {| lv := lv n; ll := None; lr := None; llh := None; lrh := None |}
                | _, _ => LErr
                end
      | Some _ =>
          match lr n with
          | None => LPanic
          | Some _ =>
              match llh n, lrh n with
              | None, None => LOk {| lv := lv n; ll := ll n; lr := lr n; llh := Some f0; lrh := Some f0 |}
              | Some _, Some _ => LOk n
              | _, _ => LErr                                (* cannot store only one lefthash or righthash *)
              end
          end
      end
  end.
Definition tput (s : lstore) (k : list bool) (n : lnode) : lres lstore :=
  do n' <- ser n; LOk (sput s k n').

(* Node.Hash(path) *)
Definition nhash (n : lnode) (p : list bool) : lres F :=
  match lv n with
  | None => LPanic
  | Some v => LOk (match p with [] => v | _ => add_len (ped v (of_path p)) (length p) end)
  end.
(* path(key, parentKey) with a non-nil parent *)
Definition rel_path (key parent : list bool) : list bool := skipn (S (length parent)) key.

Fixpoint common_msbs (x y : list bool) : list bool :=
  match x, y with
  | a :: x', b :: y' => if Bool.eqb a b then a :: common_msbs x' y' else []
  | _, _ => []
  end.

Fixpoint nodes_from_root (fuel : nat) (s : lstore) (cur : option (list bool)) (key : list bool)
                         (acc : list (list bool * lnode)) : lres (list (list bool * lnode)) :=
  match fuel with
  | O => LFuel
  | S fuel' =>
      match cur with
      | None => LOk acc
      | Some c =>
          if negb (match acc with [] => true | _ => false end) && Nat.eqb (length c) 0 then LOk acc
          else match sget s c with
               | None => LErr
               | Some n =>
                   let acc' := acc ++ [(c, n)] in
                   if (length key <=? length c) || negb (pmatch key c) then LOk acc'
                   else nodes_from_root fuel' s (if bit_at key (length c) then lr n else ll n) key acc'
               end
      end
  end.

Definition path_is (p : option (list bool)) (k : list bool) : bool :=
  match p with Some q => bits_eqb q k | None => false end.

Definition insert_or_update (t : ltrie) (node_key : list bool) (node : lnode)
    (nodes : list (list bool * lnode)) (sib_key : list bool) (sib : lnode) (is_proof : bool) : lres ltrie :=
  let ck := common_msbs node_key sib_key in
  let right := bit_at node_key (length ck) in
  do t1 <-
    (if is_proof then
       match sget (ts t) ck with
       | None => LErr
       | Some np =>
           do h <- nhash node node_key;
           let np' := if right
                      then {| lv := lv np; ll := ll np; lr := Some node_key; llh := llh np; lrh := Some h |}
                      else {| lv := lv np; ll := Some node_key; lr := lr np; llh := Some h; lrh := lrh np |} in
           do s1 <- tput (ts t) ck np';
           LOk {| ts := s1; troot := troot t; tdirty := tdirty t ++ [ck] |}
       end
     else
       let '(lk, rk, lc, rc) := if right then (sib_key, node_key, sib, node) else (node_key, sib_key, node, sib) in
       do lh <- nhash lc (rel_path lk ck);
       do rh <- nhash rc (rel_path rk ck);
       let np := {| lv := Some (ped lh rh); ll := Some lk; lr := Some rk; llh := None; lrh := None |} in
       do s1 <- tput (ts t) ck np;
       match rev nodes with
       | _ :: (spk, spn) :: _ =>                              (* the sibling has a parent *)
           let spn' := if path_is (ll spn) sib_key
                       then {| lv := lv spn; ll := Some ck; lr := lr spn; llh := llh spn; lrh := lrh spn |}
                       else {| lv := lv spn; ll := ll spn; lr := Some ck; llh := llh spn; lrh := lrh spn |} in
           do s2 <- tput s1 spk spn';
           LOk {| ts := s2; troot := troot t; tdirty := tdirty t ++ [ck] |}
       | _ => LOk {| ts := s1; troot := Some ck; tdirty := tdirty t |}
       end);
  do s3 <- tput (ts t1) node_key node;
  LOk {| ts := s3; troot := troot t1; tdirty := tdirty t1 |}.

Fixpoint find_proof (proof : lstore) (k : list bool) : option lnode :=
  match proof with
  | [] => None
  | (k', n) :: r => if bits_eqb k' k then Some n else find_proof r k
  end.

(* PutWithProof (values are non-zero here) *)
Definition put_with_proof (t : ltrie) (key : list bool) (v : F) (proof : lstore) : lres ltrie :=
  let node := {| lv := Some v; ll := None; lr := None; llh := None; lrh := None |} in
  match sget (ts t) key with
  | Some _ =>                                               (* updateLeaf: an existing leaf *)
      do s1 <- tput (ts t) key node;
      LOk {| ts := s1; troot := troot t; tdirty := tdirty t ++ [key] |}
  | None =>
      do nodes <- nodes_from_root (S (S (length key))) (ts t) (troot t) key [];
      match rev nodes with
      | [] => do s1 <- tput (ts t) key node;                (* handleEmptyTrie *)
              LOk {| ts := s1; troot := Some key; tdirty := tdirty t |}
      | (sk, sn) :: _ =>
          if bits_eqb sk key then LErr                      (* deleteExistingKey: not reachable *)
          else match find_proof proof sk with
               | Some pn => insert_or_update t key node nodes sk pn true
               | None => insert_or_update t key node nodes sk sn false
               end
      end
  end.

Fixpoint update_value_if_dirty (fuel : nat) (height : nat) (dirty : list (list bool)) (s : lstore)
                               (key : list bool) : lres (lstore * lnode) :=
  match fuel with
  | O => LFuel
  | S fuel' =>
      match sget s key with
      | None => LErr
      | Some node =>
          if Nat.eqb (length key) height then LOk (s, node)
          else
            match ll node, lr node with
            | Some l, Some r =>
                let le := match l with [] => true | _ => false end in
                let re := match r with [] => true | _ => false end in
                let should :=
                  if le && re then false
                  else if le || re then true
                  else existsb (fun d => (length key <? length d) && pmatch key d) dirty in
                if negb should then LOk (s, node)
                else
                  do (s1, lh) <-
                    (if le then match llh node with Some h => LOk (s, h) | None => LPanic end
                     else do (s', c) <- update_value_if_dirty fuel' height dirty s l;
                          do h <- nhash c (rel_path l key); LOk (s', h));
                  do (s2, rh) <-
                    (if re then match lrh node with Some h => LOk (s1, h) | None => LPanic end
                     else do (s', c) <- update_value_if_dirty fuel' height dirty s1 r;
                          do h <- nhash c (rel_path r key); LOk (s', h));
                  let node' := {| lv := Some (ped lh rh); ll := ll node; lr := lr node; llh := llh node; lrh := lrh node |} in
                  do s3 <- tput s2 key node';
                  LOk (s3, node')
            | _, _ => LPanic                                (* nil Left/Right above leaf depth *)
            end
      end
  end.

(* Trie.Hash *)
Definition ltrie_hash (height : nat) (t : ltrie) : lres F :=
  match troot t with
  | None => LOk f0
  | Some rk =>
      do (s, root) <- update_value_if_dirty (S (S height)) height (tdirty t) (ts t) rk;
      nhash root rk
  end.

Fixpoint put_all (t : ltrie) (kvs : list (list bool * F)) (proof : lstore) : lres ltrie :=
  match kvs with
  | [] => LOk t
  | (k, v) :: r => do t' <- put_with_proof t k v proof; put_all t' r proof
  end.
Fixpoint put_inner_all (s : lstore) (nodes : lstore) : lres lstore :=
  match nodes with
  | [] => LOk s
  | (k, n) :: r => do s' <- tput s k n; put_inner_all s' r
  end.

(* buildTrie + Hash *)
Definition build_trie_root (height : nat) (root_key : option (list bool)) (nodes : lstore)
                           (kvs : list (list bool * F)) : lres F :=
  do s0 <- put_inner_all [] (rev nodes);
  do t <- put_all {| ts := s0; troot := root_key; tdirty := [] |} kvs nodes;
  ltrie_hash height t.

(* hasRightElement(rootKey, key, nodes) *)
Fixpoint has_right1 (fuel : nat) (nodes : lstore) (cur : option (list bool)) (key : list bool) : bool :=
  match fuel with
  | O => false
  | S fuel' =>
      match cur with
      | None => false
      | Some [] => false                                    (* cur.Equal(emptyBitArray) *)
      | Some c =>
          match sget nodes c with
          | None => false
          | Some sn =>
              if bits_eqb key c then false
              else let is_left := negb (bit_at key (length c)) in
                   if is_left && (match lrh sn with Some _ => true | None => false end) then true
                   else has_right1 fuel' nodes (if is_left then ll sn else lr sn) key
          end
      end
  end.

Definition of_lres (x : lres rres) : rres :=
  match x with LOk r => r | LErr => RErr | LPanic => RPanic | LFuel => RFuel end.

Definition verify_range1 (height : nat) (root : F) (first : list bool) (kvs : list (list bool * F))
                         (proof : option (pset1 F)) : rres :=
  if negb (proof_data_ok F fzero kvs) then RErr else
  of_lres
  match proof with
  | None =>
      do h <- build_trie_root height None [] kvs;
      LOk (if feq h root then ROk false else RErr)
  | Some ps =>
      match kvs with
      | [] =>
          do (nodes, rk, val) <- proof_to_path1 ps [] root first;
          LOk (match val with
               | Some _ => RErr
               | None => if has_right1 (S (S height)) nodes (Some rk) first then RErr else ROk false
               end)
      | (k0, v0) :: rest =>
          let last := fst (List.last kvs (k0, v0)) in
          if (match rest with [] => true | _ => false end) && bits_eqb first last then
            do (nodes, rk, val) <- proof_to_path1 ps [] root first;
            LOk (match val with
                 | Some v => if feq v0 v then ROk (has_right1 (S (S height)) nodes (Some rk) first) else RErr
                 | None => RErr
                 end)
          else if negb (is_gt (bcmp last first)) then LOk RErr
          else
            do (nodes1, rk, _) <- proof_to_path1 ps [] root first;
            do (nodes2, rk2, _) <- proof_to_path1 ps nodes1 root last;
            if negb (bits_eqb rk rk2) then LOk RErr
            else
              do h <- build_trie_root height (Some rk) nodes2 kvs;
              LOk (if feq h root then ROk (has_right1 (S (S height)) nodes2 (Some rk) last) else RErr)
      end
  end.

End Range1.

Definition h_range_proof1 (t : htree) (l r : list bool) : pset1 hterm :=
  let s := set_of1 hterm heqb HP HB HA (h_prove1 false t l) in
  if bits_eqb l r then s else add1 hterm heqb HP HB HA s (h_prove1 false t r).
Definition h_range1 (height : nat) (t : htree) (first : list bool) (kvs : list (list bool * hterm))
                    (proof : option (pset1 hterm)) : rres :=
  verify_range1 hterm heqb hzero HP HB HA (HC 0) height (h_root false t) first kvs proof.

(* ====================================================================================== *)
(* A certificate on the (partially resolved) trie a range verification ends with. It is what makes
   an accepted range trustworthy, and it is what the proofs of Proofs_F.v are about:
     - the trie hashes to the root (recomputed from the resolved nodes: nothing in the proof set's
       keys is believed);
     - it is height-typed (values only at key depth, edge lengths within the height);
     - every unresolved (hash) sub-trie lies entirely outside [lo, hi];
     - its resolved leaves inside [lo, hi] are exactly the claimed entries.
   [verify_range2_cert] = the code's verifier AND the certificate, with the "more" flag recomputed
   from the resolved trie. *)
Section RangeCert.
Variable F : Type.
Variable feq : F -> F -> bool.
Variable fzero : F -> bool.
Variable ped : F -> F -> F.
Variable of_path : list bool -> F.
Variable add_len : F -> nat -> F.
Variable f0 : F.

Fixpoint bval (k : list bool) : N :=
  match k with
  | [] => 0
  | b :: k' => (if b then 2 ^ N.of_nat (length k') else 0) + bval k'
  end%N.

Definition oshape (f : rnode F -> bool) (o : option (rnode F)) : bool :=
  match o with Some n => f n | None => true end.
Fixpoint rshape (h : nat) (n : rnode F) : bool :=
  match n with
  | RVal _ => Nat.eqb h 0
  | RHash _ => true
  | REdge p c => negb (Nat.eqb (length p) 0) && (length p <=? h) && rshape (h - length p) c
  | RBin l r =>
      match h with
      | O => false
      | S h' => (match l with Some a => rshape h' a | None => true end)
                && (match r with Some b => rshape h' b | None => true end)
      end
  end.

(* Some (Some v): the key is resolved to v; Some None: resolved absent; None: runs into a hash *)
Fixpoint rlookup (n : rnode F) (k : list bool) : option (option F) :=
  match n with
  | RVal v => match k with [] => Some (Some v) | _ => Some None end
  | RHash _ => None
  | REdge p c => match strip p k with Some k' => rlookup c k' | None => Some None end
  | RBin l r =>
      match k with
      | b :: k' => match (if b then r else l) with Some ch => rlookup ch k' | None => Some None end
      | [] => Some None
      end
  end.

Fixpoint rentries (n : rnode F) (pre : list bool) : list (list bool * F) :=
  match n with
  | RVal v => [(pre, v)]
  | RHash _ => []
  | REdge p c => rentries c (pre ++ p)
  | RBin l r => (match l with Some a => rentries a (pre ++ [false]) | None => [] end)
                ++ (match r with Some b => rentries b (pre ++ [true]) | None => [] end)
  end.

(* [pre] = numeric value of the path to n, [h] = remaining height *)
Fixpoint covers (h : nat) (n : rnode F) (pre lo hi : N) : bool :=
  match n with
  | RVal _ => true
  | RHash _ => ((pre * 2 ^ N.of_nat h + (2 ^ N.of_nat h - 1) <? lo) || (hi <? pre * 2 ^ N.of_nat h))%N
  | REdge p c => covers (h - length p) c (pre * 2 ^ N.of_nat (length p) + bval p)%N lo hi
  | RBin l r =>
      match h with
      | O => true
      | S h' => (match l with Some a => covers h' a (2 * pre)%N lo hi | None => true end)
                && (match r with Some b => covers h' b (2 * pre + 1)%N lo hi | None => true end)
      end
  end.

(* something (a resolved leaf, or an unresolved sub-trie) lies entirely above hi *)
Fixpoint follows (h : nat) (n : rnode F) (pre hi : N) : bool :=
  match n with
  | RVal _ => (hi <? pre)%N
  | RHash _ => (hi <? pre * 2 ^ N.of_nat h)%N
  | REdge p c => follows (h - length p) c (pre * 2 ^ N.of_nat (length p) + bval p)%N hi
  | RBin l r =>
      match h with
      | O => false
      | S h' => (match l with Some a => follows h' a (2 * pre)%N hi | None => false end)
                || (match r with Some b => follows h' b (2 * pre + 1)%N hi | None => false end)
      end
  end.

Definition in_rangeb (lo hi : N) (k : list bool) : bool := ((lo <=? bval k) && (bval k <=? hi))%N.

Fixpoint kvs_eqb (a b : list (list bool * F)) : bool :=
  match a, b with
  | [], [] => true
  | (k, v) :: a', (k', v') :: b' => bits_eqb k k' && feq v v' && kvs_eqb a' b'
  | _, _ => false
  end.

Definition cert (H : nat) (root : F) (t : option (rnode F)) (lo hi : N) (kvs : list (list bool * F)) : bool :=
  feq (rroot F ped of_path add_len f0 t) root &&
  match t with
  | None => match kvs with [] => true | _ => false end
  | Some n => rshape H n && covers H n 0 lo hi
              && kvs_eqb (filter (fun kv => in_rangeb lo hi (fst kv)) (rentries n [])) kvs
  end.
Definition cert_more (H : nat) (t : option (rnode F)) (hi : N) : bool :=
  match t with Some n => follows H n 0 hi | None => false end.

(* the trie each branch of VerifyRangeProof ends with, and the interval the claim is about *)
Definition range2_resolved (H : nat) (root : F) (first : list bool) (kvs : list (list bool * F))
    (proof : option (pset2 F)) : option (option (rnode F) * N * N) :=
  let maxk := (2 ^ N.of_nat H - 1)%N in
  match proof with
  | None =>
      match rinsert_all F None kvs with
      | TOk _ t => Some (t, 0%N, maxk)
      | _ => None
      end
  | Some ps =>
      let hp0 := heap_of F ps in
      let ufuel := S (length hp0) in
      match kvs with
      | [] =>
          match proof_to_path F feq hp0 root first true with
          | PtpOk _ hp1 _ => match unfold F feq f0 ufuel hp1 (HRef root) with
                             | Some t => Some (t, bval first, maxk) | None => None end
          | _ => None
          end
      | (k0, v0) :: rest =>
          let last := fst (List.last kvs (k0, v0)) in
          if (match rest with [] => true | _ => false end) && is_eq (bcmp first last) then
            match proof_to_path F feq hp0 root k0 false with
            | PtpOk _ hp1 _ => match unfold F feq f0 ufuel hp1 (HRef root) with
                               | Some t => Some (t, bval k0, bval k0) | None => None end
            | _ => None
            end
          else
            match proof_to_path F feq hp0 root first true with
            | PtpOk _ hp1 _ =>
                match proof_to_path F feq hp1 root last true with
                | PtpOk _ hp2 _ =>
                    match unset_internal F feq (S (length first) * S (length hp2)) hp2 (HRef root) None first last 0 with
                    | UIOk _ empty hp3 =>
                        match unfold F feq f0 ufuel hp3 (HRef root) with
                        | Some t =>
                            match rinsert_all F (if empty then None else t) kvs with
                            | TOk _ t' => Some (t', bval first, bval last)
                            | _ => None
                            end
                        | None => None
                        end
                    | _ => None
                    end
                | _ => None
                end
            | _ => None
            end
      end
  end.

Definition verify_range2_cert (H : nat) (root : F) (first : list bool) (kvs : list (list bool * F))
                              (proof : option (pset2 F)) : rres :=
  match verify_range2 F feq fzero ped of_path add_len f0 root first kvs proof with
  | ROk _ =>
      match range2_resolved H root first kvs proof with
      | Some (t, lo, hi) => if cert H root t lo hi kvs then ROk (cert_more H t hi) else RErr
      | None => RErr
      end
  | r => r
  end.

End RangeCert.

Definition h_range2_cert (height : nat) (t : htree) (first : list bool) (kvs : list (list bool * hterm))
                         (proof : option (pset2 hterm)) : rres :=
  verify_range2_cert hterm heqb hzero HP HB HA (HC 0) height (h_root false t) first kvs proof.

(* ====================================================================================== *)
(* The client side of starknet_getStorageProof: what an independent verifier does with a response
   (global_roots, contracts_proof{nodes, contract_leaves_data}, contracts_storage_proofs,
   classes_proof) and the block's state commitment. Wire nodes (pnode), remaining-key verifier
   (verifyW), a zero root = empty trie. [commitf] is the state-commitment formula of the block's
   protocol version applied to (contracts root, classes root); [pos] the classes trie's hash. *)
Section Rpc.
Variable F : Type.
Variable feq : F -> F -> bool.
Variable fzero : F -> bool.
Variable ped : F -> F -> F.
Variable pos : F -> F -> F.
Variable commitf : F -> F -> F.
Variable of_path : list bool -> F.
Variable add_len : F -> nat -> F.
Variable f0 : F.

Record leafdata := { ld_class : F; ld_nonce : F; ld_sroot : F }.
(* contract leaf: H(H(H(class_hash, storage_root), nonce), 0) *)
Definition cleaf (d : leafdata) : F := ped (ped (ped (ld_class d) (ld_sroot d)) (ld_nonce d)) f0.

Definition verify_root (hf : F -> F -> F) (root : F) (k : list bool) (ps : pset1 F) : result F :=
  if fzero root then Ok f0 else verifyW_top F feq hf of_path add_len f0 root k ps.

(* value of a storage slot *)
Definition rpc_verify_slot (state_root croot kroot : F) (cproof : pset1 F) (addr : list bool)
                           (d : leafdata) (sproof : pset1 F) (key : list bool) : result F :=
  if negb (feq (commitf croot kroot) state_root) then Err
  else match verify_root ped croot addr cproof with
       | Ok leaf => if feq leaf (cleaf d) then verify_root ped (ld_sroot d) key sproof else Err
       | r => r
       end.

(* leaf of the classes trie under a class hash (the client compares it with
   Poseidon("CONTRACT_CLASS_LEAF_V0", compiled_class_hash)) *)
Definition rpc_verify_class (state_root croot kroot : F) (kproof : pset1 F) (class_hash : list bool) : result F :=
  if negb (feq (commitf croot kroot) state_root) then Err
  else verify_root pos kroot class_hash kproof.

End Rpc.

(* concrete instance for the harness: Pedersen as a table, the commitment of the response's two roots
   as a given felt *)
Definition z_rpc_slot (tb : ztable) (commit_value state_root croot kroot : Z) (cproof : pset1 Z) (addr : list bool)
                      (cls nonce sroot : Z) (sproof : pset1 Z) (key : list bool) : result Z :=
  rpc_verify_slot Z Z.eqb (Z.eqb 0) (zlook tb) (fun _ _ => commit_value) z_of_path z_add_len 0%Z
    state_root croot kroot cproof addr {| ld_class := cls; ld_nonce := nonce; ld_sroot := sroot |} sproof key.
