(* C10 — basics: path matching, the hash-keyed proof set, the explicit notion of collision, and the
   inversion lemmas "a proof node hashing to the hash of a real node IS that node, or a collision". *)
From Coq Require Import List Bool Arith Lia.
From V Require Import C01.Trie2 C01.Trie2Proofs C10.Model.
Import ListNotations.

Section Basics.
Variable F : Type.
Variable feq : F -> F -> bool.
Hypothesis feq_spec : forall a b, feq a b = true <-> a = b.
Variable fzero : F -> bool.
Variable ped : F -> F -> F.
Variable of_path : list bool -> F.
Variable add_len : F -> nat -> F.
Variable f0 : F.

Notation tnode := (node F).
Notation thash := (hash F ped of_path add_len).
Notation phash := (phash F ped of_path add_len).
Notation qhash := (qhash F ped of_path add_len).
Notation canonb := (canonb F fzero).
Notation lookup := (lookup F).

Lemma feq_refl : forall a, feq a a = true.
Proof. intros a. apply feq_spec. reflexivity. Qed.

Lemma feq_false : forall a b, feq a b = false <-> a <> b.
Proof.
  intros a b. split.
  - intros H E. apply feq_spec in E. congruence.
  - intros H. destruct (feq a b) eqn:E; auto. apply feq_spec in E. contradiction.
Qed.

Lemma F_dec : forall a b : F, {a = b} + {a <> b}.
Proof.
  intros a b. destruct (feq a b) eqn:E.
  - left. apply feq_spec. exact E.
  - right. apply feq_false. exact E.
Qed.

(* ---------- pmatch (EqualMSBs) vs strip ---------- *)
Lemma pmatch_sym : forall p k, pmatch p k = pmatch k p.
Proof.
  induction p as [|a p IH]; intros [|b k]; simpl; auto.
  rewrite IH. f_equal. destruct a, b; reflexivity.
Qed.

Lemma pmatch_true_strip : forall p k, pmatch p k = true -> length p <= length k ->
  strip p k = Some (skipn (length p) k) /\ k = p ++ skipn (length p) k.
Proof.
  induction p as [|a p IH]; intros k H L; simpl.
  - auto.
  - destruct k as [|b k]; simpl in L; [lia|].
    simpl in H. apply andb_true_iff in H. destruct H as [E H].
    rewrite E. apply eqb_prop in E. subst b.
    destruct (IH k H ltac:(lia)) as [A B]. split; [exact A|]. simpl. f_equal. exact B.
Qed.

Lemma pmatch_false_strip : forall p k, pmatch p k = false -> strip p k = None.
Proof.
  induction p as [|a p IH]; intros k H; simpl in *.
  - discriminate.
  - destruct k as [|b k]; [discriminate|].
    destruct (eqb a b); simpl in H; auto.
Qed.

Lemma pmatch_app : forall p k, pmatch p (p ++ k) = true.
Proof. induction p as [|a p IH]; intros k; simpl; auto. rewrite eqb_reflx. apply IH. Qed.

Lemma skipn_app_len : forall (A : Type) (p k : list A), skipn (length p) (p ++ k) = k.
Proof. induction p; simpl; auto. Qed.

(* ---------- the ordered set ---------- *)
Section PSet.
Variable A : Type.
Variable kf : A -> F.                          (* the key under which a node is put: its hash *)

Lemma pget_pput_same : forall (ps : list (F * A)) h n, pget F feq (pput F feq ps h n) h = Some n.
Proof.
  induction ps as [|[h' n'] ps IH]; intros h n; simpl.
  - rewrite feq_refl. reflexivity.
  - destruct (feq h' h) eqn:E; simpl; rewrite E; auto.
Qed.

Lemma pget_pput_other : forall (ps : list (F * A)) h n h', h <> h' ->
  pget F feq (pput F feq ps h n) h' = pget F feq ps h'.
Proof.
  induction ps as [|[h1 n1] ps IH]; intros h n h' Hne; simpl.
  - apply feq_false in Hne. rewrite Hne. reflexivity.
  - destruct (feq h1 h) eqn:E; simpl.
    + apply feq_spec in E. subst h1. apply feq_false in Hne. rewrite Hne. reflexivity.
    + destruct (feq h1 h'); auto.
Qed.

Definition addg (ps : list (F * A)) (l : list A) : list (F * A) :=
  fold_left (fun s n => pput F feq s (kf n) n) l ps.

Lemma addg_other : forall l ps h, (forall n, In n l -> kf n <> h) ->
  pget F feq (addg ps l) h = pget F feq ps h.
Proof.
  induction l as [|a l IH]; intros ps h H; simpl; auto.
  unfold addg in *. simpl. rewrite IH.
  - apply pget_pput_other. apply H. left. reflexivity.
  - intros n Hn. apply H. right. exact Hn.
Qed.

(* after putting the nodes of l, the entry under a node's hash is a node of l with that hash
   (the last one put) *)
Lemma addg_in : forall l ps n, In n l ->
  exists n', In n' l /\ kf n' = kf n /\ pget F feq (addg ps l) (kf n) = Some n'.
Proof.
  induction l as [|a l IH]; intros ps n Hin; [destruct Hin|].
  destruct (existsb (fun m => feq (kf m) (kf n)) l) eqn:Ex.
  - apply existsb_exists in Ex. destruct Ex as (m & Hm & Em). apply feq_spec in Em.
    destruct (IH (pput F feq ps (kf a) a) m Hm) as (n' & Hn' & En' & G).
    exists n'. split; [right; exact Hn'|]. split; [congruence|].
    unfold addg in *. simpl. rewrite <- Em. exact G.
  - assert (Hno : forall m, In m l -> kf m <> kf n).
    { intros m Hm E. assert (existsb (fun m => feq (kf m) (kf n)) l = true).
      { apply existsb_exists. exists m. split; auto. apply feq_spec. exact E. }
      congruence. }
    destruct Hin as [->|Hin]; [|exfalso; apply (Hno n Hin); reflexivity].
    exists n. split; [left; reflexivity|]. split; [reflexivity|].
    unfold addg. simpl. fold (addg (pput F feq ps (kf n) n) l).
    rewrite addg_other; auto. apply pget_pput_same.
Qed.

(* every entry of a set built by puts is stored under its own hash *)
Definition keyed (ps : list (F * A)) : Prop := forall h n, In (h, n) ps -> kf n = h.

Lemma pput_keyed : forall ps n, keyed ps -> keyed (pput F feq ps (kf n) n).
Proof.
  induction ps as [|[h1 n1] ps IH]; intros n K h m Hin; simpl in Hin.
  - destruct Hin as [E|[]]. inversion E; subst. reflexivity.
  - destruct (feq h1 (kf n)) eqn:E.
    + apply feq_spec in E. destruct Hin as [E'|Hin].
      * inversion E'; subst. reflexivity.
      * apply K. right. exact Hin.
    + destruct Hin as [E'|Hin].
      * inversion E'; subst. apply K. left. reflexivity.
      * apply (IH n); auto. intros h' m' H'. apply K. right. exact H'.
Qed.

Lemma addg_keyed : forall l ps, keyed ps -> keyed (addg ps l).
Proof.
  induction l as [|a l IH]; intros ps K; simpl; auto.
  unfold addg. simpl. apply IH. apply pput_keyed. exact K.
Qed.
End PSet.

Lemma pget_map : forall (A B : Type) (g : A -> B) (ps : list (F * A)) h,
  pget F feq (map (fun hn => (fst hn, g (snd hn))) ps) h = option_map g (pget F feq ps h).
Proof.
  induction ps as [|[h1 n1] ps IH]; intros h; simpl; auto.
  destruct (feq h1 h); simpl; auto.
Qed.

(* ---------- collisions, explicitly ---------- *)
(* two different preimages of one node hash. Binary nodes hash to ped l r, edge nodes to
   ped c (of_path p) + length p. *)
Inductive Collision : Prop :=
| ColBinBin : forall a b c d, (a, b) <> (c, d) -> ped a b = ped c d -> Collision
| ColEdgeEdge : forall c p c' p', (c, p) <> (c', p') ->
    add_len (ped c (of_path p)) (length p) = add_len (ped c' (of_path p')) (length p') -> Collision
| ColBinEdge : forall a b c p, ped a b = add_len (ped c (of_path p)) (length p) -> Collision.

Lemma pair_dec : forall (a b c d : F), {(a, b) = (c, d)} + {(a, b) <> (c, d)}.
Proof.
  intros. destruct (F_dec a c) as [->|N]; [destruct (F_dec b d) as [->|N]|]; auto;
  right; intros E; inversion E; contradiction.
Qed.

Lemma edge_dec : forall (c c' : F) (p p' : list bool), {(c, p) = (c', p')} + {(c, p) <> (c', p')}.
Proof.
  intros. destruct (F_dec c c') as [->|N]; [destruct (list_eq_dec bool_dec p p') as [->|N]|]; auto;
  right; intros E; inversion E; contradiction.
Qed.

(* a wire node whose hash is the hash of a real edge / binary node is that node's image, or a collision *)
Lemma inv_edge : forall (n : pnode F) p (c : tnode), phash n = thash (Edge p c) ->
  n = PEdge p (thash c) \/ Collision.
Proof.
  intros [l r|p' c'] p c H; simpl in H.
  - right. eapply ColBinEdge. exact H.
  - destruct (edge_dec c' (thash c) p' p) as [E|N].
    + inversion E; subst. left. reflexivity.
    + right. eapply ColEdgeEdge; eauto.
Qed.

Lemma inv_bin : forall (n : pnode F) (l r : tnode), phash n = thash (Bin l r) ->
  n = PBin (thash l) (thash r) \/ Collision.
Proof.
  intros [l' r'|p' c'] l r H; simpl in H.
  - destruct (pair_dec l' r' (thash l) (thash r)) as [E|N].
    + inversion E; subst. left. reflexivity.
    + right. eapply ColBinBin; eauto.
  - right. eapply ColBinEdge. symmetry. exact H.
Qed.

(* canonical-form facts used by every walk *)
Lemma canon0_leaf : forall (n : tnode), canonb 0 n = true -> exists v, n = Leaf v.
Proof.
  intros [v|p c|l r] H.
  - eauto.
  - apply (canon_edge_inv F fzero) in H. destruct H as (A & B & _). destruct p; [congruence|simpl in B; lia].
  - simpl in H. discriminate.
Qed.

Lemma canonS_notleaf : forall h (n : tnode), canonb (S h) n = true -> forall v, n <> Leaf v.
Proof. intros h n H v ->. simpl in H. discriminate. Qed.

Lemma cval_collapse : forall (n : tnode), cval F (collapse F ped of_path add_len n) = thash n.
Proof. intros [v|p c|l r]; reflexivity. Qed.

End Basics.
