(* C10 — soundness of the three verifiers, by induction on the walk: every step either reads the
   image of the real node or exhibits two different preimages of one hash. *)
From Coq Require Import List Bool Arith Lia.
From V Require Import C01.Trie2 C01.Trie2Proofs C10.Model C10.Proofs_A.
Import ListNotations.

Section Sound.
Variable F : Type.
Variable feq : F -> F -> bool.
Hypothesis feq_spec : forall a b, feq a b = true <-> a = b.
Variable fzero : F -> bool.
Variable ped : F -> F -> F.
Variable of_path : list bool -> F.
Variable add_len : F -> nat -> F.
Variable f0 : F.

Notation tnode := (node F).
Notation thash := (hash F ped of_path add_len).
Notation phash := (phash F ped of_path add_len).
Notation qhash := (qhash F ped of_path add_len).
Notation canonb := (canonb F fzero).
Notation lookup := (lookup F).
Notation Collision := (Collision F ped of_path add_len).
Notation verifyW := (verifyW F feq ped of_path add_len f0).
Notation verify2 := (verify2 F feq ped of_path add_len f0).
Notation verify1 := (verify1 F feq ped of_path add_len f0).
Notation vz := (vz F f0).

Ltac inv_ok H := injection H as H; subst.

(* ---------- the independent (wire-format, remaining-key) verifier ---------- *)
Lemma verifyW_sound : forall fuel (t : tnode) h k ps x,
  canonb h t = true -> length k = h -> 0 < h ->
  verifyW fuel (thash t) k ps = Ok x ->
  x = vz (lookup t k) \/ Collision.
Proof.
  induction fuel as [|fuel IH]; intros t h k ps x Hc Hk Hh H; [discriminate|].
  cbn [Model.verifyW] in H.
  destruct (pget F feq ps (thash t)) as [n|]; [|discriminate].
  destruct (feq (phash n) (thash t)) eqn:E; [|discriminate]. cbn [negb] in H.
  apply feq_spec in E.
  destruct t as [v|p c|l r].
  - apply (canon_leaf_inv F fzero) in Hc. lia.
  - destruct (inv_edge F feq feq_spec ped of_path add_len n p c E) as [->|Col]; [|right; exact Col].
    destruct (canon_edge_inv F fzero _ _ _ Hc) as (Pne & Ple & Cne & Cc).
    destruct (pmatch p k) eqn:M.
    + destruct (pmatch_true_strip p k M ltac:(lia)) as [S1 S2].
      cbn [Trie2.lookup]. rewrite S1.
      assert (Lk' : length (skipn (length p) k) = h - length p).
      { rewrite S2 in Hk at 1. rewrite app_length in Hk. lia. }
      destruct (skipn (length p) k) as [|b k''] eqn:Sk.
      * cbn [is_nil] in H. inv_ok H. simpl in Lk'.
        rewrite <- Lk' in Cc. destruct (canon0_leaf F fzero c Cc) as [v ->]. left. reflexivity.
      * cbn [is_nil] in H. simpl in Lk'.
        apply (IH c (h - length p) (b :: k'') ps x); auto; simpl; lia.
    + inv_ok H. left. cbn [Trie2.lookup]. rewrite (pmatch_false_strip p k M). reflexivity.
  - destruct (inv_bin F feq feq_spec ped of_path add_len n l r E) as [->|Col]; [|right; exact Col].
    destruct (canon_bin_inv F fzero _ _ _ Hc) as (h' & -> & Cl & Cr).
    destruct k as [|kb k']; [simpl in Hk; lia|]. simpl in Hk.
    cbn [Trie2.lookup].
    destruct k' as [|b k''].
    + cbn [is_nil] in H. inv_ok H. simpl in Hk. assert (h' = 0) by lia. subst h'.
      destruct kb.
      * destruct (canon0_leaf F fzero r Cr) as [v ->]. left. reflexivity.
      * destruct (canon0_leaf F fzero l Cl) as [v ->]. left. reflexivity.
    + cbn [is_nil] in H. simpl in Hk.
      destruct kb.
      * apply (IH r h' (b :: k'') ps x); auto; simpl; lia.
      * apply (IH l h' (b :: k'') ps x); auto; simpl; lia.
Qed.

(* ---------- trie2, strict variant: it is the wire verifier on the erased set ---------- *)
Lemma step2_strict : forall (c : pchild F) k' follow x, step2 F true c k' follow = Ok x ->
  (k' = [] /\ x = cval F c) \/ (k' <> [] /\ exists y, c = CH y /\ follow y = Ok x).
Proof.
  intros [y|y] [|b k'] follow x H; cbn in H.
  - left. inv_ok H. auto.
  - right. split; [discriminate|]. eauto.
  - left. inv_ok H. auto.
  - discriminate.
Qed.

Lemma verify2_strict_W : forall fuel e k ps x, k <> [] ->
  verify2 true fuel e k ps = Ok x -> verifyW fuel e k (erase_set F ps) = Ok x.
Proof.
  induction fuel as [|fuel IH]; intros e k ps x Hk H; [discriminate|].
  cbn [Model.verify2] in H. cbn [Model.verifyW].
  unfold erase_set at 1. rewrite pget_map.
  destruct (pget F feq ps e) as [n|]; [|discriminate]. cbn [option_map].
  unfold Model.qhash in H.
  destruct (feq (phash (erase F n)) e); [|discriminate]. cbn [negb] in *.
  destruct n as [l r|p c]; cbn [erase].
  - destruct k as [|kb k']; [congruence|]. cbn [tl] in H.
    apply step2_strict in H. destruct H as [[-> ->]|[Hne (y & Ey & Hf)]].
    + cbn [is_nil]. destruct kb; reflexivity.
    + destruct k' as [|b k'']; [congruence|]. cbn [is_nil].
      apply IH in Hf; [|discriminate].
      destruct kb; rewrite Ey; cbn [cval]; exact Hf.
  - destruct (pmatch p k); [|exact H].
    apply step2_strict in H. destruct H as [[E ->]|[Hne (y & Ey & Hf)]].
    + rewrite E. reflexivity.
    + destruct (skipn (length p) k) as [|b k'']; [congruence|]. cbn [is_nil].
      apply IH in Hf; [|discriminate]. rewrite Ey. exact Hf.
Qed.

Lemma verify2_strict_sound : forall fuel (t : tnode) h k ps x,
  canonb h t = true -> length k = h -> 0 < h ->
  verify2 true fuel (thash t) k ps = Ok x ->
  x = vz (lookup t k) \/ Collision.
Proof.
  intros fuel t h k ps x Hc Hk Hh H.
  apply verify2_strict_W in H; [|intros ->; simpl in Hk; lia].
  eapply verifyW_sound; eauto.
Qed.

(* the code's verifier and the strict one agree whenever the strict one answers *)
Lemma verify2_strict_agree : forall fuel e k ps x,
  verify2 true fuel e k ps = Ok x -> verify2 false fuel e k ps = Ok x.
Proof.
  induction fuel as [|fuel IH]; intros e k ps x H; [discriminate|].
  cbn [Model.verify2] in *.
  destruct (pget F feq ps e) as [n|]; [|discriminate].
  destruct (negb (feq (qhash n) e)); [discriminate|].
  destruct n as [l r|p c].
  - destruct (match k with b :: _ => b | [] => false end);
    [destruct r as [y|y]|destruct l as [y|y]]; cbn in *;
    try (destruct (is_nil (tl k)); [exact H|apply IH; exact H]);
    destruct (is_nil (tl k)); cbn in H; congruence.
  - destruct (pmatch p k); [|exact H].
    destruct c as [y|y]; cbn in *.
    + destruct (is_nil (skipn (length p) k)); [exact H|apply IH; exact H].
    + destruct (is_nil (skipn (length p) k)); cbn in H; congruence.
Qed.

(* ---------- legacy verifier: full key + position, uint8 arithmetic ---------- *)
Lemma verify1_sound : forall fuel (t : tnode) pre rem ps x,
  canonb (length rem) t = true -> 0 < length rem -> length (pre ++ rem) <= 255 ->
  verify1 fuel (thash t) (pre ++ rem) (length pre) ps = Ok x ->
  x = vz (lookup t rem) \/ Collision.
Proof.
  induction fuel as [|fuel IH]; intros t pre rem ps x Hc Hr Hlen H; [discriminate|].
  cbn [Model.verify1] in H.
  destruct (pget F feq ps (thash t)) as [n|]; [|discriminate].
  destruct (feq (phash n) (thash t)) eqn:E; [|discriminate]. cbn [negb] in H.
  apply feq_spec in E.
  rewrite app_length in Hlen.
  destruct t as [v|p c|l r].
  - apply (canon_leaf_inv F fzero) in Hc. lia.
  - destruct (inv_edge F feq feq_spec ped of_path add_len n p c E) as [->|Col]; [|right; exact Col].
    destruct (canon_edge_inv F fzero _ _ _ Hc) as (Pne & Ple & Cne & Cc).
    rewrite skipn_app_len in H. rewrite pmatch_sym in H.
    destruct (pmatch p rem) eqn:M; cbn [negb] in H.
    + destruct (pmatch_true_strip p rem M ltac:(lia)) as [S1 S2].
      cbn [Trie2.lookup]. rewrite S1.
      set (k' := skipn (length p) rem) in *.
      assert (Lk' : length k' = length rem - length p).
      { assert (length rem = length p + length k') by (rewrite S2 at 1; apply app_length). lia. }
      unfold u8 in H. rewrite Nat.mod_small in H by lia.
      rewrite app_length in H.
      destruct (Nat.leb_spec (length pre + length rem) (length pre + length p)) as [L|L].
      * injection H as <-. assert (Z0 : length rem - length p = 0) by lia. rewrite Z0 in Cc.
        destruct (canon0_leaf F fzero c Cc) as [v ->].
        assert (K0 : k' = []) by (destruct k'; [reflexivity|simpl in Lk'; lia]).
        rewrite K0. left. reflexivity.
      * rewrite S2 in H. rewrite app_assoc in H. rewrite <- app_length in H.
        apply IH in H; auto.
        -- rewrite Lk'. exact Cc.
        -- lia.
        -- rewrite !app_length. lia.
    + inv_ok H. left. cbn [Trie2.lookup]. rewrite (pmatch_false_strip p rem M). reflexivity.
  - destruct (inv_bin F feq feq_spec ped of_path add_len n l r E) as [->|Col]; [|right; exact Col].
    destruct (canon_bin_inv F fzero _ _ _ Hc) as (h' & Hh' & Cl & Cr).
    destruct rem as [|kb k']; [simpl in Hr; lia|]. simpl in Hh'. injection Hh' as Hh'. subst h'.
    rewrite app_length in H. simpl length in *.
    destruct (Nat.leb_spec (length pre + S (length k')) (length pre)) as [L|L]; [lia|].
    rewrite nth_middle in H.
    unfold u8 in H. rewrite Nat.mod_small in H by lia.
    cbn [Trie2.lookup].
    destruct (Nat.leb_spec (length pre + S (length k')) (length pre + 1)) as [L2|L2].
    + inv_ok H. assert (k' = []) by (destruct k'; [reflexivity|simpl in L2; lia]). subst k'.
      simpl in Cl, Cr.
      destruct kb.
      * destruct (canon0_leaf F fzero r Cr) as [v ->]. left. reflexivity.
      * destruct (canon0_leaf F fzero l Cl) as [v ->]. left. reflexivity.
    + replace (pre ++ kb :: k') with ((pre ++ [kb]) ++ k') in H by (rewrite <- app_assoc; reflexivity).
      replace (length pre + 1) with (length (pre ++ [kb])) in H by (rewrite app_length; reflexivity).
      destruct kb.
      * apply IH in H; auto; [lia | rewrite !app_length; simpl; lia].
      * apply IH in H; auto; [lia | rewrite !app_length; simpl; lia].
Qed.

End Sound.
