(* C10 — completeness: the nodes collected by Prove, put into the hash-keyed set, make VerifyProof
   return the key's value / absence. Holds for every hash instance as soon as the set lookups resolve
   to the walk's own nodes: nodes of the set with equal hashes are equal ([distinct_or_equal]). *)
From Coq Require Import List Bool Arith Lia.
From V Require Import C01.Trie2 C01.Trie2Proofs C10.Model C10.Proofs_A C10.Proofs_B.
Import ListNotations.

Section Complete.
Variable F : Type.
Variable feq : F -> F -> bool.
Hypothesis feq_spec : forall a b, feq a b = true <-> a = b.
Variable fzero : F -> bool.
Variable ped : F -> F -> F.
Variable of_path : list bool -> F.
Variable add_len : F -> nat -> F.
Variable f0 : F.

Notation tnode := (node F).
Notation thash := (hash F ped of_path add_len).
Notation phash := (phash F ped of_path add_len).
Notation qhash := (qhash F ped of_path add_len).
Notation collapse := (collapse F ped of_path add_len).
Notation canonb := (canonb F fzero).
Notation lookup := (lookup F).
Notation verifyW := (verifyW F feq ped of_path add_len f0).
Notation verify2 := (verify2 F feq ped of_path add_len f0).
Notation verify1 := (verify1 F feq ped of_path add_len f0).
Notation prove2 := (prove2 F ped of_path add_len).
Notation prove1 := (prove1 F ped of_path add_len).
Notation vz := (vz F f0).

Lemma collapse_inner : forall h (n : tnode), canonb (S h) n = true -> collapse n = CH (thash n).
Proof. intros h [v|p c|l r] H; [simpl in H; discriminate|reflexivity|reflexivity]. Qed.

Lemma qhash_edge : forall p (c : tnode), qhash (QEdge p (collapse c)) = thash (Edge p c).
Proof. intros. unfold Model.qhash. cbn. rewrite cval_collapse. reflexivity. Qed.

Lemma qhash_bin : forall (l r : tnode), qhash (QBin (collapse l) (collapse r)) = thash (Bin l r).
Proof. intros. unfold Model.qhash. cbn. rewrite !cval_collapse. reflexivity. Qed.

(* ---------- trie2: Prove + VerifyProof (both the code's verifier and the strict one) ---------- *)
Lemma verify2_complete_walk : forall (t : tnode) h k ps strict fuel,
  canonb h t = true -> length k = h -> 0 < h -> length k <= fuel ->
  (forall n, In n (prove2 t k) -> pget F feq ps (qhash n) = Some n) ->
  verify2 strict fuel (thash t) k ps = Ok (vz (lookup t k)).
Proof.
  induction t as [v|p c IHc|l IHl r IHr]; intros h k ps strict fuel Hc Hk Hh Hf Hps.
  - apply (canon_leaf_inv F fzero) in Hc. lia.
  - destruct (canon_edge_inv F fzero _ _ _ Hc) as (Pne & Ple & Cne & Cc).
    assert (Plen : 0 < length p) by (destruct p; [congruence|simpl; lia]).
    destruct k as [|kb k0]; [simpl in Hk; lia|].
    destruct fuel as [|fuel]; [simpl in Hf; lia|].
    cbn [Model.prove2] in Hps.
    assert (G := Hps _ (or_introl eq_refl)). rewrite qhash_edge in G.
    cbn [Model.verify2]. rewrite G. rewrite qhash_edge. rewrite (feq_refl F feq feq_spec). cbn [negb].
    cbn [Trie2.lookup].
    destruct (pmatch p (kb :: k0)) eqn:M.
    + destruct (pmatch_true_strip p (kb :: k0) M ltac:(lia)) as [S1 S2]. rewrite S1.
      set (k' := skipn (length p) (kb :: k0)) in *.
      assert (Lk' : length k' = h - length p).
      { assert (length (kb :: k0) = length p + length k') by (rewrite S2 at 1; apply app_length). lia. }
      destruct (canon_nonedge F fzero _ _ Cc Cne) as [[Hz [v ->]]|(h' & l & r & Hs & ->)].
      * assert (K0 : k' = []) by (destruct k'; [reflexivity|simpl in Lk'; lia]).
        rewrite K0. cbn. rewrite andb_false_r. reflexivity.
      * destruct k' as [|b k''] eqn:Ek'; [simpl in Lk'; lia|].
        cbn [Model.collapse step2 is_nil].
        apply (IHc (h - length p)); auto; try (simpl in Hf, Lk', Hk |- *; lia).
        intros n Hn. apply Hps. right. exact Hn.
    + rewrite (pmatch_false_strip _ _ M). reflexivity.
  - destruct (canon_bin_inv F fzero _ _ _ Hc) as (h' & -> & Cl & Cr).
    destruct k as [|kb k']; [simpl in Hk; lia|]. simpl in Hk.
    destruct fuel as [|fuel]; [simpl in Hf; lia|]. simpl in Hf.
    cbn [Model.prove2] in Hps.
    assert (G := Hps _ (or_introl eq_refl)). rewrite qhash_bin in G.
    cbn [Model.verify2]. rewrite G. rewrite qhash_bin. rewrite (feq_refl F feq feq_spec). cbn [negb tl].
    cbn [Trie2.lookup].
    assert (Hsub : forall n, In n (prove2 (if kb then r else l) k') -> pget F feq ps (qhash n) = Some n).
    { intros n Hn. apply Hps. right. exact Hn. }
    destruct h' as [|h''].
    + assert (K0 : k' = []) by (destruct k'; [reflexivity|simpl in Hk; lia]). subst k'.
      destruct kb.
      * destruct (canon0_leaf F fzero r Cr) as [v ->]. cbn. rewrite andb_false_r. reflexivity.
      * destruct (canon0_leaf F fzero l Cl) as [v ->]. cbn. rewrite andb_false_r. reflexivity.
    + destruct k' as [|b k'']; [simpl in Hk; lia|].
      destruct kb.
      * rewrite (collapse_inner _ _ Cr). cbn [step2 is_nil].
        apply (IHr (S h'')); auto; simpl in *; lia.
      * rewrite (collapse_inner _ _ Cl). cbn [step2 is_nil].
        apply (IHl (S h'')); auto; simpl in *; lia.
Qed.

(* ---------- legacy: Prove + the independent wire verifier ---------- *)
Lemma verifyW_complete_walk : forall (t : tnode) h k ps fuel,
  canonb h t = true -> length k = h -> 0 < h -> length k <= fuel ->
  (forall n, In n (prove1 t k) -> pget F feq ps (phash n) = Some n) ->
  verifyW fuel (thash t) k ps = Ok (vz (lookup t k)).
Proof.
  induction t as [v|p c IHc|l IHl r IHr]; intros h k ps fuel Hc Hk Hh Hf Hps.
  - apply (canon_leaf_inv F fzero) in Hc. lia.
  - destruct (canon_edge_inv F fzero _ _ _ Hc) as (Pne & Ple & Cne & Cc).
    assert (Plen : 0 < length p) by (destruct p; [congruence|simpl; lia]).
    destruct k as [|kb k0]; [simpl in Hk; lia|].
    destruct fuel as [|fuel]; [simpl in Hf; lia|].
    cbn [Model.prove1] in Hps.
    assert (G := Hps _ (or_introl eq_refl)). cbn [Model.phash] in G.
    cbn [Model.verifyW Trie2.hash]. rewrite G. cbn [Model.phash]. rewrite (feq_refl F feq feq_spec). cbn [negb].
    cbn [Trie2.lookup].
    destruct (pmatch p (kb :: k0)) eqn:M.
    + destruct (pmatch_true_strip p (kb :: k0) M ltac:(lia)) as [S1 S2]. rewrite S1.
      set (k' := skipn (length p) (kb :: k0)) in *.
      assert (Lk' : length k' = h - length p).
      { assert (length (kb :: k0) = length p + length k') by (rewrite S2 at 1; apply app_length). lia. }
      destruct k' as [|b k''] eqn:Ek'.
      * simpl in Lk'. rewrite <- Lk' in Cc. destruct (canon0_leaf F fzero c Cc) as [v ->]. reflexivity.
      * cbn [is_nil].
        apply (IHc (h - length p)); auto; try (simpl in Hf, Lk', Hk |- *; lia).
        intros n Hn. apply Hps. right. exact Hn.
    + rewrite (pmatch_false_strip _ _ M). reflexivity.
  - destruct (canon_bin_inv F fzero _ _ _ Hc) as (h' & -> & Cl & Cr).
    destruct k as [|kb k']; [simpl in Hk; lia|]. simpl in Hk.
    destruct fuel as [|fuel]; [simpl in Hf; lia|]. simpl in Hf.
    cbn [Model.prove1] in Hps.
    assert (G := Hps _ (or_introl eq_refl)). cbn [Model.phash] in G.
    cbn [Model.verifyW Trie2.hash]. rewrite G. cbn [Model.phash]. rewrite (feq_refl F feq feq_spec). cbn [negb].
    cbn [Trie2.lookup].
    assert (Hsub : forall n, In n (prove1 (if kb then r else l) k') -> pget F feq ps (phash n) = Some n).
    { intros n Hn. apply Hps. right. exact Hn. }
    destruct k' as [|b k''].
    + cbn [is_nil]. simpl in Hk. assert (h' = 0) by lia. subst h'.
      destruct kb.
      * destruct (canon0_leaf F fzero r Cr) as [v ->]. reflexivity.
      * destruct (canon0_leaf F fzero l Cl) as [v ->]. reflexivity.
    + cbn [is_nil].
      destruct kb.
      * apply (IHr h'); auto; simpl in *; lia.
      * apply (IHl h'); auto; simpl in *; lia.
Qed.

End Complete.
