(* C10 — legacy positional completeness, the top-level statements over the hash-keyed set, root
   injectivity and the all-elements range proof. *)
From Coq Require Import List Bool Arith Lia.
From V Require Import C01.Trie2 C01.Trie2Proofs C10.Model C10.Proofs_A C10.Proofs_B C10.Proofs_C.
Import ListNotations.

Section Top.
Variable F : Type.
Variable feq : F -> F -> bool.
Hypothesis feq_spec : forall a b, feq a b = true <-> a = b.
Variable fzero : F -> bool.
Variable ped : F -> F -> F.
Variable of_path : list bool -> F.
Variable add_len : F -> nat -> F.
Variable f0 : F.

Notation tnode := (node F).
Notation thash := (hash F ped of_path add_len).
Notation phash := (phash F ped of_path add_len).
Notation qhash := (qhash F ped of_path add_len).
Notation canonb := (canonb F fzero).
Notation canont := (canont F fzero).
Notation lookup := (lookup F).
Notation Collision := (Collision F ped of_path add_len).
Notation verifyW := (verifyW F feq ped of_path add_len f0).
Notation verify2 := (verify2 F feq ped of_path add_len f0).
Notation verify1 := (verify1 F feq ped of_path add_len f0).
Notation verify2_top := (verify2_top F feq ped of_path add_len f0).
Notation verify2_strict := (verify2_strict F feq ped of_path add_len f0).
Notation verify1_top := (verify1_top F feq ped of_path add_len f0).
Notation verifyW_top := (verifyW_top F feq ped of_path add_len f0).
Notation prove2 := (prove2 F ped of_path add_len).
Notation prove1 := (prove1 F ped of_path add_len).
Notation set_of2 := (set_of2 F feq ped of_path add_len).
Notation set_of1 := (set_of1 F feq ped of_path add_len).
Notation vz := (vz F f0).

(* ---------- legacy: Prove + VerifyProof (position form) ---------- *)
Lemma verify1_complete_walk : forall (t : tnode) pre rem ps fuel,
  canonb (length rem) t = true -> 0 < length rem -> length (pre ++ rem) <= 255 -> length rem <= fuel ->
  (forall n, In n (prove1 t rem) -> pget F feq ps (phash n) = Some n) ->
  verify1 fuel (thash t) (pre ++ rem) (length pre) ps = Ok (vz (lookup t rem)).
Proof.
  induction t as [v|p c IHc|l IHl r IHr]; intros pre rem ps fuel Hc Hr Hlen Hf Hps.
  - apply (canon_leaf_inv F fzero) in Hc. lia.
  - destruct (canon_edge_inv F fzero _ _ _ Hc) as (Pne & Ple & Cne & Cc).
    assert (Plen : 0 < length p) by (destruct p; [congruence|simpl; lia]).
    destruct fuel as [|fuel]; [lia|].
    rewrite app_length in Hlen.
    cbn [Model.prove1] in Hps.
    assert (G := Hps _ (or_introl eq_refl)). cbn [Model.phash] in G.
    cbn [Model.verify1 Trie2.hash]. rewrite G. cbn [Model.phash]. rewrite (feq_refl F feq feq_spec). cbn [negb].
    rewrite skipn_app_len. rewrite pmatch_sym.
    cbn [Trie2.lookup].
    destruct (pmatch p rem) eqn:M; cbn [negb].
    + destruct (pmatch_true_strip p rem M ltac:(lia)) as [S1 S2]. rewrite S1.
      set (k' := skipn (length p) rem) in *.
      assert (Lk' : length k' = length rem - length p).
      { assert (length rem = length p + length k') by (rewrite S2 at 1; apply app_length). lia. }
      unfold u8. rewrite Nat.mod_small by lia.
      rewrite app_length.
      destruct (Nat.leb_spec (length pre + length rem) (length pre + length p)) as [L|L].
      * assert (Z0 : length rem - length p = 0) by lia. rewrite Z0 in Cc.
        destruct (canon0_leaf F fzero c Cc) as [v ->].
        assert (K0 : k' = []) by (destruct k'; [reflexivity|simpl in Lk'; lia]).
        rewrite K0. reflexivity.
      * replace (pre ++ rem) with ((pre ++ p) ++ k') by (rewrite <- app_assoc; rewrite <- S2; reflexivity).
        replace (length pre + length p) with (length (pre ++ p)) by (rewrite app_length; reflexivity).
        apply IHc; auto; try lia.
        -- rewrite Lk'. exact Cc.
        -- rewrite !app_length. lia.
        -- intros n Hn. apply Hps. right. exact Hn.
    + rewrite (pmatch_false_strip _ _ M). reflexivity.
  - destruct (canon_bin_inv F fzero _ _ _ Hc) as (h' & Hh' & Cl & Cr).
    destruct rem as [|kb k']; [simpl in Hr; lia|]. simpl in Hh'. injection Hh' as Hh'. subst h'.
    destruct fuel as [|fuel]; [simpl in Hf; lia|]. simpl in Hf.
    rewrite app_length in Hlen. simpl length in Hlen.
    cbn [Model.prove1] in Hps.
    assert (G := Hps _ (or_introl eq_refl)). cbn [Model.phash] in G.
    cbn [Model.verify1 Trie2.hash]. rewrite G. cbn [Model.phash]. rewrite (feq_refl F feq feq_spec). cbn [negb].
    rewrite app_length. simpl length.
    destruct (Nat.leb_spec (length pre + S (length k')) (length pre)) as [L|L]; [lia|].
    rewrite nth_middle.
    unfold u8. rewrite Nat.mod_small by lia.
    cbn [Trie2.lookup].
    assert (Hsub : forall n, In n (prove1 (if kb then r else l) k') -> pget F feq ps (phash n) = Some n).
    { intros n Hn. apply Hps. right. exact Hn. }
    destruct (Nat.leb_spec (length pre + S (length k')) (length pre + 1)) as [L2|L2].
    + assert (K0 : k' = []) by (destruct k'; [reflexivity|simpl in L2; lia]). subst k'.
      simpl in Cl, Cr.
      destruct kb.
      * destruct (canon0_leaf F fzero r Cr) as [v ->]. reflexivity.
      * destruct (canon0_leaf F fzero l Cl) as [v ->]. reflexivity.
    + replace (pre ++ kb :: k') with ((pre ++ [kb]) ++ k') by (rewrite <- app_assoc; reflexivity).
      replace (length pre + 1) with (length (pre ++ [kb])) by (rewrite app_length; reflexivity).
      destruct kb.
      * apply IHr; auto; try lia. rewrite !app_length; simpl; lia.
      * apply IHl; auto; try lia. rewrite !app_length; simpl; lia.
Qed.

(* ---------- the set resolves to the walk's nodes ---------- *)
(* nodes of the list with equal hashes are equal nodes: no collision freedom of the hash function is
   assumed, only that THIS list does not contain two different nodes under one hash *)
Definition distinct_or_equal {A : Type} (kf : A -> F) (l : list A) : Prop :=
  forall n n', In n l -> In n' l -> kf n = kf n' -> n = n'.

Lemma set_resolves : forall (A : Type) (kf : A -> F) l, distinct_or_equal kf l ->
  forall n, In n l -> pget F feq (addg F feq A kf [] l) (kf n) = Some n.
Proof.
  intros A kf l Hd n Hn.
  destruct (addg_in F feq feq_spec A kf l [] n Hn) as (n' & Hn' & E & G).
  rewrite G. f_equal. apply Hd; auto.
Qed.

Lemma fuel_enough : forall (A : Type) (k : list bool) (ps : list (F * A)), length k <= fuel_for F k ps.
Proof. intros. unfold fuel_for. nia. Qed.

(* trie2: Prove (possibly of several keys, into one set) then VerifyProof *)
Theorem prove2_complete : forall (t : tnode) h k l strict,
  canonb h t = true -> length k = h -> 0 < h ->
  incl (prove2 t k) l -> distinct_or_equal qhash l ->
  verify2 strict (fuel_for F k (set_of2 l)) (thash t) k (set_of2 l) = Ok (vz (lookup t k)).
Proof.
  intros t h k l strict Hc Hk Hh Hi Hd.
  apply (verify2_complete_walk F feq feq_spec fzero ped of_path add_len f0 t h); auto.
  - apply fuel_enough.
  - intros n Hn. apply (set_resolves _ qhash l Hd). apply Hi. exact Hn.
Qed.

Theorem prove1_complete : forall (t : tnode) h k l,
  canonb h t = true -> length k = h -> 0 < h -> h <= 255 ->
  incl (prove1 t k) l -> distinct_or_equal phash l ->
  verify1_top (thash t) k (set_of1 l) = Ok (vz (lookup t k)).
Proof.
  intros t h k l Hc Hk Hh H255 Hi Hd. unfold Model.verify1_top.
  apply (verify1_complete_walk t [] k); simpl; auto; try lia.
  - rewrite Hk. exact Hc.
  - apply fuel_enough.
  - intros n Hn. apply (set_resolves _ phash l Hd). apply Hi. exact Hn.
Qed.

(* the independent verifier accepts what the legacy Prove / the trie2 Prove (serialised) produce *)
Theorem wire_complete_legacy : forall (t : tnode) h k l,
  canonb h t = true -> length k = h -> 0 < h ->
  incl (prove1 t k) l -> distinct_or_equal phash l ->
  verifyW_top (thash t) k (set_of1 l) = Ok (vz (lookup t k)).
Proof.
  intros t h k l Hc Hk Hh Hi Hd. unfold Model.verifyW_top.
  apply (verifyW_complete_walk F feq feq_spec fzero ped of_path add_len f0 t h); auto.
  - apply fuel_enough.
  - intros n Hn. apply (set_resolves _ phash l Hd). apply Hi. exact Hn.
Qed.

Theorem wire_complete_trie2 : forall (t : tnode) h k l,
  canonb h t = true -> length k = h -> 0 < h ->
  incl (prove2 t k) l -> distinct_or_equal qhash l ->
  verifyW_top (thash t) k (erase_set F (set_of2 l)) = Ok (vz (lookup t k)).
Proof.
  intros t h k l Hc Hk Hh Hi Hd. unfold Model.verifyW_top.
  assert (E : fuel_for F k (erase_set F (set_of2 l)) = fuel_for F k (set_of2 l)).
  { unfold fuel_for, erase_set. rewrite map_length. reflexivity. }
  rewrite E.
  apply (verify2_strict_W F feq ped of_path add_len f0).
  - intros ->. simpl in Hk. lia.
  - apply (prove2_complete t h); auto.
Qed.

(* the empty trie: Prove collects nothing and VerifyProof against the zero root reports
   "proof node not found" — an error, not "absent" *)
Theorem empty_trie : forall k,
  prove2_tree F ped of_path add_len None k = [] /\ prove1_tree F ped of_path add_len None k = [] /\
  verify2_top f0 k (set_of2 []) = Err /\ verify1_top f0 k (set_of1 []) = Err /\
  verifyW_top f0 k (set_of1 []) = Err.
Proof. intros k. repeat split; reflexivity. Qed.

(* ---------- soundness, top level ---------- *)
Theorem verify2_sound : forall (t : tnode) h k ps x,
  canonb h t = true -> length k = h -> 0 < h ->
  verify2_strict (thash t) k ps = Ok x -> x = vz (lookup t k) \/ Collision.
Proof. intros t h k ps x Hc Hk Hh H. eapply verify2_strict_sound; eauto. Qed.

Theorem verify1_sound_top : forall (t : tnode) h k ps x,
  canonb h t = true -> length k = h -> 0 < h -> h <= 255 ->
  verify1_top (thash t) k ps = Ok x -> x = vz (lookup t k) \/ Collision.
Proof.
  intros t h k ps x Hc Hk Hh H255 H. unfold Model.verify1_top in H.
  apply (verify1_sound F feq feq_spec fzero ped of_path add_len f0 (fuel_for F k ps) t [] k ps x); simpl; auto; try lia.
  rewrite Hk. exact Hc.
Qed.

Theorem verifyW_sound_top : forall (t : tnode) h k ps x,
  canonb h t = true -> length k = h -> 0 < h ->
  verifyW_top (thash t) k ps = Ok x -> x = vz (lookup t k) \/ Collision.
Proof. intros t h k ps x Hc Hk Hh H. eapply verifyW_sound; eauto. Qed.

(* whatever was done to the proof set and to the key: the verifier never establishes a value
   different from the trie's *)
Lemma not_forged_intro : forall (r : result F) x,
  (forall y, r = Ok y -> y = x \/ Collision) -> not_forged F feq r x = true \/ Collision.
Proof.
  intros [y| |] x H; cbn [not_forged]; auto.
  destruct (H y eq_refl) as [->|C]; [left; apply (feq_refl F feq feq_spec)|right; exact C].
Qed.

Theorem tamper_rejected2 : forall (t : tnode) h k' ps',
  canonb h t = true -> length k' = h -> 0 < h ->
  not_forged F feq (verify2_strict (thash t) k' ps') (vz (lookup t k')) = true \/ Collision.
Proof. intros. apply not_forged_intro. intros y E. eapply verify2_sound; eauto. Qed.

Theorem tamper_rejected1 : forall (t : tnode) h k' ps',
  canonb h t = true -> length k' = h -> 0 < h -> h <= 255 ->
  not_forged F feq (verify1_top (thash t) k' ps') (vz (lookup t k')) = true \/ Collision.
Proof. intros. apply not_forged_intro. intros y E. eapply verify1_sound_top; eauto. Qed.

Theorem tamper_rejectedW : forall (t : tnode) h k' ps',
  canonb h t = true -> length k' = h -> 0 < h ->
  not_forged F feq (verifyW_top (thash t) k' ps') (vz (lookup t k')) = true \/ Collision.
Proof. intros. apply not_forged_intro. intros y E. eapply verifyW_sound_top; eauto. Qed.

End Top.
