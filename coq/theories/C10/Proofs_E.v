(* C10 — root injectivity modulo explicit collision, the all-elements range proof, and the facts
   about the free term instance (decidable equality is correct; it has no collisions at all). *)
From Coq Require Import List Bool Arith Lia ZArith.
From V Require Import C01.Trie2 C01.Trie2Proofs C10.Model C10.Proofs_A.
Import ListNotations.

Section Inj.
Variable F : Type.
Variable feq : F -> F -> bool.
Hypothesis feq_spec : forall a b, feq a b = true <-> a = b.
Variable fzero : F -> bool.
Variable ped : F -> F -> F.
Variable of_path : list bool -> F.
Variable add_len : F -> nat -> F.
Variable f0 : F.

Notation tnode := (node F).
Notation thash := (hash F ped of_path add_len).
Notation canonb := (canonb F fzero).
Notation canont := (canont F fzero).
Notation Collision := (Collision F ped of_path add_len).
Notation troot := (root F ped of_path add_len f0).

Theorem root_injective : forall (a : tnode) h (b : tnode),
  canonb h a = true -> canonb h b = true -> thash a = thash b -> a = b \/ Collision.
Proof.
  induction a as [v|p c IHc|l IHl r IHr]; intros h b Ha Hb E.
  - destruct (canon_leaf_inv F fzero _ _ Ha) as [-> _].
    destruct (canon0_leaf F fzero b Hb) as [v' ->]. simpl in E. left. congruence.
  - destruct (canon_edge_inv F fzero _ _ _ Ha) as (Pne & Ple & Cne & Cc).
    destruct b as [v'|p' c'|l' r'].
    + destruct (canon_leaf_inv F fzero _ _ Hb) as [-> _]. destruct p; [congruence|simpl in Ple; lia].
    + destruct (canon_edge_inv F fzero _ _ _ Hb) as (Pne' & Ple' & Cne' & Cc').
      simpl in E.
      destruct (edge_dec F feq feq_spec (thash c) (thash c') p p') as [Q|N].
      * inversion Q as [[Q1 Q2]]. subst p'.
        destruct (IHc _ _ Cc Cc' Q1) as [->|C]; [left; reflexivity|right; exact C].
      * right. eapply ColEdgeEdge; eauto.
    + right. simpl in E. eapply ColBinEdge. symmetry. exact E.
  - destruct (canon_bin_inv F fzero _ _ _ Ha) as (h' & -> & Cl & Cr).
    destruct b as [v'|p' c'|l' r'].
    + simpl in Hb. discriminate.
    + right. simpl in E. eapply ColBinEdge. exact E.
    + destruct (canon_bin_inv F fzero _ _ _ Hb) as (h'' & Hh & Cl' & Cr'). injection Hh as <-.
      simpl in E.
      destruct (pair_dec F feq feq_spec (thash l) (thash r) (thash l') (thash r')) as [Q|N].
      * inversion Q as [[Q1 Q2]].
        destruct (IHl _ _ Cl Cl' Q1) as [->|C]; [|right; exact C].
        destruct (IHr _ _ Cr Cr' Q2) as [->|C]; [left; reflexivity|right; exact C].
      * right. eapply ColBinBin; eauto.
Qed.

(* NZ made explicit: a non-empty canonical trie whose root is the zero felt *)
Definition ZeroRoot : Prop := exists h (n : tnode), canonb h n = true /\ thash n = f0.

Theorem tree_root_injective : forall h (a b : tree F),
  canont h a = true -> canont h b = true -> troot a = troot b -> a = b \/ Collision \/ ZeroRoot.
Proof.
  intros h [a|] [b|] Ha Hb E; simpl in *.
  - destruct (root_injective a h b Ha Hb E) as [->|C]; auto.
  - right. right. exists h, a. auto.
  - right. right. exists h, b. auto.
  - auto.
Qed.

(* range proof, all-elements case (VerifyRangeProof with proof == nil): the verifier rebuilds the
   trie from the claimed key/value list and compares roots *)
Theorem range_all_sound : forall h m (t : tree F),
  wf_map F fzero h m -> canont h t = true ->
  spec_root F ped of_path add_len f0 h m = troot t ->
  (forall k, length k = h -> assoc F m k = get F t k) \/ Collision \/ ZeroRoot.
Proof.
  intros h m t Hwf Ht E. unfold spec_root in E.
  destruct (tree_root_injective h (build F h m) t (build_canon F fzero h m Hwf) Ht E) as [Q|R]; [|right; exact R].
  left. intros k Hk. rewrite <- Q. symmetry. apply (get_build F fzero); auto.
Qed.

Theorem range_all_complete : forall h m (t : tree F),
  wf_map F fzero h m -> canont h t = true ->
  (forall k, length k = h -> assoc F m k = get F t k) ->
  spec_root F ped of_path add_len f0 h m = troot t.
Proof.
  intros h m t Hwf Ht Hm. unfold spec_root. f_equal.
  apply (canont_unique F fzero h); auto.
  - apply (build_canon F fzero); exact Hwf.
  - intros k Hk. rewrite (get_build F fzero h m k Hwf Hk). apply Hm. exact Hk.
Qed.

End Inj.

(* ---------- the free term instance ---------- *)
Lemma bits_eqb_spec : forall p q, bits_eqb p q = true <-> p = q.
Proof.
  induction p as [|a p IH]; intros [|b q]; simpl; split; intros H; try discriminate; auto.
  - apply andb_true_iff in H. destruct H as [E H]. apply eqb_prop in E. apply IH in H. congruence.
  - injection H as -> ->. rewrite eqb_reflx. simpl. apply IH. reflexivity.
Qed.

Lemma heqb_spec : forall a b, heqb a b = true <-> a = b.
Proof.
  induction a as [x|a1 IH1 a2 IH2|a1 IH1 a2 IH2|a1 IH1 n|p]; intros [y|b1 b2|b1 b2|b1 m|q]; simpl;
    split; intros H; try discriminate; try reflexivity.
  - apply Z.eqb_eq in H. congruence.
  - injection H as ->. apply Z.eqb_refl.
  - apply andb_true_iff in H. destruct H as [A B]. apply IH1 in A. apply IH2 in B. congruence.
  - injection H as -> ->. apply andb_true_iff. split; [apply IH1|apply IH2]; reflexivity.
  - apply andb_true_iff in H. destruct H as [A B]. apply IH1 in A. apply IH2 in B. congruence.
  - injection H as -> ->. apply andb_true_iff. split; [apply IH1|apply IH2]; reflexivity.
  - apply andb_true_iff in H. destruct H as [A B]. apply IH1 in A. apply Nat.eqb_eq in B. congruence.
  - injection H as -> ->. apply andb_true_iff. split; [apply IH1; reflexivity|apply Nat.eqb_refl].
  - apply bits_eqb_spec in H. congruence.
  - injection H as ->. apply bits_eqb_spec. reflexivity.
Qed.

(* in the free algebra no collision exists: soundness there is unconditional *)
Lemma hterm_no_collision : forall pos : bool, ~ Collision hterm (if pos then HS else HP) HB HA.
Proof.
  intros pos C. destruct C as [a b c d N E|c p c' p' N E|a b c p E]; destruct pos; try discriminate.
  - injection E as -> ->. apply N. reflexivity.
  - injection E as -> ->. apply N. reflexivity.
  - injection E as -> E2 _. subst. apply N. reflexivity.
  - injection E as -> E2 _. subst. apply N. reflexivity.
Qed.
