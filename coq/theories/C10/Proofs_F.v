(* C10 — range proofs: a partially resolved trie that hashes to the root of a canonical trie is that
   trie with some sub-tries replaced by their hashes (or a collision / a zero hash is exhibited);
   hence the certificate of Model.v (hash = root, height-typed, unresolved parts outside [lo,hi],
   resolved leaves in [lo,hi] = the claimed entries) pins the content of the trie in [lo,hi]. *)
From Coq Require Import List Bool Arith Lia NArith.
From V Require Import C01.Trie2 C01.Trie2Proofs C10.Model C10.Proofs_A C10.Proofs_E.
Import ListNotations.

Section RangeSound.
Variable F : Type.
Variable feq : F -> F -> bool.
Hypothesis feq_spec : forall a b, feq a b = true <-> a = b.
Variable fzero : F -> bool.
Variable ped : F -> F -> F.
Variable of_path : list bool -> F.
Variable add_len : F -> nat -> F.
Variable f0 : F.

Notation tnode := (node F).
Notation thash := (hash F ped of_path add_len).
Notation rhash := (rhash F ped of_path add_len f0).
Notation canonb := (canonb F fzero).
Notation lookup := (lookup F).
Notation Collision := (Collision F ped of_path add_len).
Notation rnode := (rnode F).

(* ---------- numeric value of a bit string ---------- *)
Lemma bval_lt : forall k, (bval k < 2 ^ N.of_nat (length k))%N.
Proof.
  induction k as [|b k IH]; cbn [bval length].
  - cbn. lia.
  - rewrite Nat2N.inj_succ, N.pow_succ_r'. destruct b; lia.
Qed.

Lemma bval_app : forall p k, (bval (p ++ k) = bval p * 2 ^ N.of_nat (length k) + bval k)%N.
Proof.
  induction p as [|b p IH]; intros k; cbn [bval app length].
  - lia.
  - rewrite IH, app_length, Nat2N.inj_add, N.pow_add_r. destruct b; lia.
Qed.

Lemma bval_cons : forall b k, (bval (b :: k) = (if b then 1 else 0) * 2 ^ N.of_nat (length k) + bval k)%N.
Proof. intros [|] k; cbn [bval]; lia. Qed.

(* ---------- refinement ---------- *)
(* [refines h n t]: the partially resolved n is the canonical t (of height h) with some sub-tries
   replaced by their hashes *)
Inductive refines : nat -> rnode -> tnode -> Prop :=
| RfHash : forall h x t, x = thash t -> refines h (RHash x) t
| RfVal : forall v, refines 0 (RVal v) (Leaf v)
| RfEdge : forall h p c c', refines (h - length p) c c' -> refines h (REdge p c) (Edge p c')
| RfBin : forall h l r l' r', refines h l l' -> refines h r r' ->
    refines (S h) (RBin (Some l) (Some r)) (Bin l' r').

(* a canonical sub-trie hashing to the zero felt: the explicit failure of NZ *)
Definition ZeroHash : Prop := exists h (t : tnode), canonb h t = true /\ thash t = f0.

Theorem refine_of_hash : forall (n : rnode) h (t : tnode),
  rshape F h n = true -> canonb h t = true -> rhash n = thash t ->
  refines h n t \/ Collision \/ ZeroHash.
Proof.
  fix IH 1. intros n h t Hs Hc E.
  destruct n as [v|x|p c|l r].
  - (* value *) cbn in Hs. apply Nat.eqb_eq in Hs. subst h.
    destruct (canon0_leaf F fzero t Hc) as [v' ->]. cbn in E. subst v'. left. constructor.
  - left. constructor. exact E.
  - (* edge *)
    cbn [rshape] in Hs. apply andb_true_iff in Hs. destruct Hs as [Hs Hsc].
    apply andb_true_iff in Hs. destruct Hs as [Hne Hle].
    apply negb_true_iff in Hne. apply Nat.eqb_neq in Hne. apply Nat.leb_le in Hle.
    destruct t as [v'|p' c'|l' r'].
    + destruct (canon_leaf_inv F fzero _ _ Hc) as [-> _]. lia.
    + destruct (canon_edge_inv F fzero _ _ _ Hc) as (Pne & Ple & Cne & Cc).
      cbn in E.
      destruct (edge_dec F feq feq_spec (rhash c) (thash c') p p') as [Q|N].
      * inversion Q as [[Q1 Q2]]. subst p'.
        destruct (IH c _ c' Hsc Cc Q1) as [R|R]; [left; constructor; exact R|right; exact R].
      * right. left. eapply ColEdgeEdge; eauto.
    + right. left. cbn in E. eapply ColBinEdge. symmetry. exact E.
  - (* binary *)
    destruct h as [|h']; [cbn in Hs; discriminate|].
    cbn [rshape] in Hs. apply andb_true_iff in Hs. destruct Hs as [Hsl Hsr].
    destruct t as [v'|p' c'|l' r'].
    + cbn in Hc. discriminate.
    + right. left. cbn in E. eapply ColBinEdge. exact E.
    + destruct (canon_bin_inv F fzero _ _ _ Hc) as (h'' & Hh & Cl & Cr). injection Hh as <-.
      cbn [Model.rhash Trie2.hash] in E.
      match type of E with ped ?a ?b = _ =>
        destruct (pair_dec F feq feq_spec a b (thash l') (thash r')) as [Q|N] end.
      * inversion Q as [[Q1 Q2]].
        destruct l as [a|]; [|right; right; exists h', l'; split; [exact Cl|symmetry; exact Q1]].
        destruct r as [b|]; [|right; right; exists h', r'; split; [exact Cr|symmetry; exact Q2]].
        destruct (IH a _ l' Hsl Cl Q1) as [Ra|Ra]; [|right; exact Ra].
        destruct (IH b _ r' Hsr Cr Q2) as [Rb|Rb]; [|right; exact Rb].
        left. constructor; assumption.
      * right. left. eapply ColBinBin; eauto.
Qed.

(* ---------- what a refinement says about keys ---------- *)
Lemma refines_lookup : forall h n t, refines h n t ->
  forall k o, rlookup F n k = Some o -> lookup t k = o.
Proof.
  induction 1 as [h x t E|v|h p c c' R IH|h l r l' r' Rl IHl Rr IHr]; intros k o L; cbn in L |- *.
  - discriminate.
  - destruct k; congruence.
  - destruct (strip p k); [apply IH; exact L|congruence].
  - destruct k as [|b k']; [congruence|]. destruct b; [apply IHr|apply IHl]; exact L.
Qed.

Lemma pow2_pos : forall n, (0 < 2 ^ N.of_nat n)%N.
Proof. intros. apply N.neq_0_lt_0. apply N.pow_nonzero. lia. Qed.

Lemma covers_resolved : forall (n : rnode) h pre lo hi k,
  rshape F h n = true -> covers F h n pre lo hi = true -> length k = h ->
  (lo <= pre * 2 ^ N.of_nat h + bval k)%N -> (pre * 2 ^ N.of_nat h + bval k <= hi)%N ->
  rlookup F n k <> None.
Proof.
  fix IH 1. intros n h pre lo hi k Hs Hcv Hk Hlo Hhi.
  destruct n as [v|x|p c|l r]; cbn [rlookup].
  - destruct k; discriminate.
  - exfalso. cbn in Hcv. assert (B := bval_lt k). rewrite Hk in B.
    assert (P := pow2_pos h). set (X := (2 ^ N.of_nat h)%N) in *.
    apply orb_true_iff in Hcv. destruct Hcv as [A|A]; apply N.ltb_lt in A; lia.
  - cbn [rshape] in Hs. apply andb_true_iff in Hs. destruct Hs as [Hs Hsc].
    apply andb_true_iff in Hs. destruct Hs as [_ Hle]. apply Nat.leb_le in Hle.
    cbn [covers] in Hcv.
    destruct (strip p k) as [k'|] eqn:S; [|discriminate].
    apply strip_some in S. subst k. rewrite app_length in Hk.
    apply (IH c (h - length p) _ lo hi k' Hsc Hcv); [lia| |].
    + rewrite bval_app in Hlo. replace (N.of_nat h) with (N.of_nat (length p) + N.of_nat (h - length p))%N in Hlo by lia.
      rewrite N.pow_add_r in Hlo. replace (length k') with (h - length p) in Hlo by lia. lia.
    + rewrite bval_app in Hhi. replace (N.of_nat h) with (N.of_nat (length p) + N.of_nat (h - length p))%N in Hhi by lia.
      rewrite N.pow_add_r in Hhi. replace (length k') with (h - length p) in Hhi by lia. lia.
  - destruct h as [|h']; [cbn in Hs; discriminate|].
    cbn [rshape] in Hs. apply andb_true_iff in Hs. destruct Hs as [Hsl Hsr].
    cbn [covers] in Hcv. apply andb_true_iff in Hcv. destruct Hcv as [Cl Cr].
    destruct k as [|b k']; [discriminate|]. cbn [length] in Hk. injection Hk as Hk.
    rewrite bval_cons, Hk in Hlo, Hhi. rewrite Nat2N.inj_succ, N.pow_succ_r' in Hlo, Hhi.
    destruct b.
    + destruct r as [ch|]; [|discriminate].
      apply (IH ch h' (2 * pre + 1)%N lo hi k' Hsr Cr Hk); lia.
    + destruct l as [ch|]; [|discriminate].
      apply (IH ch h' (2 * pre)%N lo hi k' Hsl Cl Hk); lia.
Qed.

Lemma rlookup_entries : forall (n : rnode) k v pre,
  rlookup F n k = Some (Some v) -> In (pre ++ k, v) (rentries F n pre).
Proof.
  fix IH 1. intros n k v pre L. destruct n as [w|x|p c|l r]; cbn in L |- *.
  - destruct k; [|discriminate]. injection L as ->. rewrite app_nil_r. left. reflexivity.
  - discriminate.
  - destruct (strip p k) as [k'|] eqn:S; [|discriminate].
    apply strip_some in S. subst k. rewrite app_assoc. apply IH. exact L.
  - destruct k as [|b k']; [discriminate|]. apply in_or_app.
    replace (pre ++ b :: k') with ((pre ++ [b]) ++ k') by (rewrite <- app_assoc; reflexivity).
    destruct b.
    + right. destruct r as [ch|]; [apply IH; exact L|discriminate].
    + left. destruct l as [ch|]; [apply IH; exact L|discriminate].
Qed.

Lemma entries_rlookup : forall (n : rnode) h pre key v,
  rshape F h n = true -> In (key, v) (rentries F n pre) ->
  exists k, key = pre ++ k /\ length k = h /\ rlookup F n k = Some (Some v).
Proof.
  fix IH 1. intros n h pre key v Hs Hin. destruct n as [w|x|p c|l r]; cbn [rentries] in Hin.
  - destruct Hin as [E|[]]. injection E as <- <-. cbn in Hs. apply Nat.eqb_eq in Hs.
    exists []. rewrite app_nil_r. cbn. auto.
  - destruct Hin.
  - cbn [rshape] in Hs. apply andb_true_iff in Hs. destruct Hs as [Hs Hsc].
    apply andb_true_iff in Hs. destruct Hs as [_ Hle]. apply Nat.leb_le in Hle.
    destruct (IH c _ _ _ _ Hsc Hin) as (k' & -> & Lk & R).
    exists (p ++ k'). rewrite app_assoc, app_length. repeat split; [lia|].
    cbn [rlookup]. rewrite strip_app. exact R.
  - destruct h as [|h']; [cbn in Hs; discriminate|].
    cbn [rshape] in Hs. apply andb_true_iff in Hs. destruct Hs as [Hsl Hsr].
    apply in_app_or in Hin. destruct Hin as [Hin|Hin].
    + destruct l as [ch|]; [|destruct Hin].
      destruct (IH ch _ _ _ _ Hsl Hin) as (k' & -> & Lk & R).
      exists (false :: k'). rewrite <- app_assoc. cbn. repeat split; auto.
    + destruct r as [ch|]; [|destruct Hin].
      destruct (IH ch _ _ _ _ Hsr Hin) as (k' & -> & Lk & R).
      exists (true :: k'). rewrite <- app_assoc. cbn. repeat split; auto.
Qed.

Lemma kvs_eqb_eq : forall a b, kvs_eqb F feq a b = true -> a = b.
Proof.
  induction a as [|[k v] a IH]; intros [|[k' v'] b] H; cbn in H; try discriminate; auto.
  apply andb_true_iff in H. destruct H as [H Hr]. apply andb_true_iff in H. destruct H as [Hk Hv].
  apply bits_eqb_spec in Hk. apply feq_spec in Hv. subst. f_equal. apply IH. exact Hr.
Qed.

(* ---------- the certificate pins the content of the trie in [lo, hi] ---------- *)
Theorem cert_sound : forall H root (n : rnode) lo hi kvs (t : tnode),
  cert F feq ped of_path add_len f0 H root (Some n) lo hi kvs = true ->
  root = thash t -> canonb H t = true ->
  (forall k v, length k = H -> in_rangeb lo hi k = true -> (lookup t k = Some v <-> In (k, v) kvs))
  \/ Collision \/ ZeroHash.
Proof.
  intros H root n lo hi kvs t C -> Hc.
  unfold cert in C. apply andb_true_iff in C. destruct C as [Eh C].
  apply andb_true_iff in C. destruct C as [C Ekv]. apply andb_true_iff in C. destruct C as [Hs Hcv].
  apply feq_spec in Eh. cbn [rroot] in Eh. apply kvs_eqb_eq in Ekv.
  destruct (refine_of_hash n H t Hs Hc Eh) as [R|D]; [|right; exact D].
  left. intros k v Hk Hr. unfold in_rangeb in Hr. apply andb_true_iff in Hr. destruct Hr as [Rlo Rhi].
  apply N.leb_le in Rlo, Rhi.
  assert (NN : rlookup F n k <> None).
  { apply (covers_resolved n H 0%N lo hi k Hs Hcv Hk); lia. }
  destruct (rlookup F n k) as [o|] eqn:L; [|congruence].
  assert (T := refines_lookup _ _ _ R k o L).
  split.
  - intros Lt. rewrite Lt in T. subst o. rewrite <- Ekv. apply filter_In. split.
    + apply (rlookup_entries n k v [] L).
    + cbn. unfold in_rangeb. apply andb_true_iff. split; apply N.leb_le; assumption.
  - intros Hin. rewrite <- Ekv in Hin. apply filter_In in Hin. destruct Hin as [Hin _].
    destruct (entries_rlookup n H [] k v Hs Hin) as (k2 & E2 & _ & L2). cbn in E2. subst k2.
    rewrite L in L2. injection L2 as ->. exact T.
Qed.

(* ---------- the "more" flag recomputed from the resolved trie ---------- *)
Lemma pow_split : forall a b, a <= b -> (2 ^ N.of_nat b = 2 ^ N.of_nat a * 2 ^ N.of_nat (b - a))%N.
Proof. intros. rewrite <- N.pow_add_r. f_equal. lia. Qed.

Lemma follows_sound : forall h n t, refines h n t -> forall pre hi,
  canonb h t = true -> rshape F h n = true -> follows F h n pre hi = true ->
  exists k v, length k = h /\ lookup t k = Some v /\ (hi < pre * 2 ^ N.of_nat h + bval k)%N.
Proof.
  induction 1 as [h x t E|v|h p c c' R IH|h l r l' r' Rl IHl Rr IHr]; intros pre hi Hc Hs Hf.
  - destruct (canon_has_key F fzero t h Hc) as (k & v & Lk & Lv). exists k, v.
    cbn in Hf. apply N.ltb_lt in Hf. repeat split; auto. lia.
  - exists [], v. cbn in Hf |- *. apply N.ltb_lt in Hf. repeat split; auto. lia.
  - destruct (canon_edge_inv F fzero _ _ _ Hc) as (Pne & Ple & Cne & Cc).
    cbn [rshape] in Hs. apply andb_true_iff in Hs. destruct Hs as [_ Hsc].
    cbn [follows] in Hf.
    destruct (IH _ _ Cc Hsc Hf) as (k' & v & Lk & Lv & Hgt).
    exists (p ++ k'), v. rewrite app_length, (lookup_edge_key F). repeat split; [lia|exact Lv|].
    rewrite bval_app, Lk, (pow_split (length p) h Ple). lia.
  - destruct (canon_bin_inv F fzero _ _ _ Hc) as (h' & Hh & Cl & Cr). injection Hh as <-.
    cbn [rshape] in Hs. apply andb_true_iff in Hs. destruct Hs as [Hsl Hsr].
    cbn [follows] in Hf. apply orb_true_iff in Hf. destruct Hf as [Hf|Hf].
    + destruct (IHl _ _ Cl Hsl Hf) as (k' & v & Lk & Lv & Hgt).
      exists (false :: k'), v. cbn [length lookup]. repeat split; [lia|exact Lv|].
      rewrite bval_cons, Lk, Nat2N.inj_succ, N.pow_succ_r'. lia.
    + destruct (IHr _ _ Cr Hsr Hf) as (k' & v & Lk & Lv & Hgt).
      exists (true :: k'), v. cbn [length lookup]. repeat split; [lia|exact Lv|].
      rewrite bval_cons, Lk, Nat2N.inj_succ, N.pow_succ_r'. lia.
Qed.

Lemma follows_complete : forall h n t, refines h n t -> forall pre lo hi,
  canonb h t = true -> rshape F h n = true -> covers F h n pre lo hi = true -> (lo <= hi)%N ->
  follows F h n pre hi = false ->
  forall k v, length k = h -> lookup t k = Some v -> (pre * 2 ^ N.of_nat h + bval k <= hi)%N.
Proof.
  induction 1 as [h x t E|v|h p c c' R IH|h l r l' r' Rl IHl Rr IHr]; intros pre lo hi Hc Hs Hcv Hle Hf k w Lk Lw.
  - cbn in Hcv, Hf. apply N.ltb_ge in Hf. assert (B := bval_lt k). rewrite Lk in B.
    apply orb_true_iff in Hcv. destruct Hcv as [A|A]; apply N.ltb_lt in A; lia.
  - cbn in Hf. apply N.ltb_ge in Hf. destruct k; [|discriminate]. cbn. lia.
  - destruct (canon_edge_inv F fzero _ _ _ Hc) as (Pne & Ple & Cne & Cc).
    cbn [rshape] in Hs. apply andb_true_iff in Hs. destruct Hs as [_ Hsc].
    cbn [covers] in Hcv. cbn [follows] in Hf.
    destruct (lookup_edge_some F _ _ _ _ Lw) as (k' & -> & Lw').
    rewrite app_length in Lk.
    assert (G := IH _ _ _ Cc Hsc Hcv Hle Hf k' w ltac:(lia) Lw').
    rewrite bval_app, (pow_split (length p) h Ple). replace (length k') with (h - length p) by lia. lia.
  - destruct (canon_bin_inv F fzero _ _ _ Hc) as (h' & Hh & Cl & Cr). injection Hh as <-.
    cbn [rshape] in Hs. apply andb_true_iff in Hs. destruct Hs as [Hsl Hsr].
    cbn [covers] in Hcv. apply andb_true_iff in Hcv. destruct Hcv as [Cvl Cvr].
    cbn [follows] in Hf. apply orb_false_iff in Hf. destruct Hf as [Fl Fr].
    destruct k as [|b k']; [discriminate|]. cbn [length] in Lk. injection Lk as Lk.
    cbn [Trie2.lookup] in Lw.
    rewrite bval_cons, Lk, Nat2N.inj_succ, N.pow_succ_r'.
    destruct b.
    + assert (G := IHr _ _ _ Cr Hsr Cvr Hle Fr k' w Lk Lw). lia.
    + assert (G := IHl _ _ _ Cl Hsl Cvl Hle Fl k' w Lk Lw). lia.
Qed.

(* ---------- the certified verifier ---------- *)
Definition range_bounds (H : nat) (first : list bool) (kvs : list (list bool * F)) (proof : option (pset2 F)) : N * N :=
  let maxk := (2 ^ N.of_nat H - 1)%N in
  match proof with
  | None => (0%N, maxk)
  | Some _ =>
      match kvs with
      | [] => (bval first, maxk)
      | (k0, v0) :: rest =>
          let last := fst (List.last kvs (k0, v0)) in
          if (match rest with [] => true | _ => false end) && is_eq (bcmp first last)
          then (bval k0, bval k0) else (bval first, bval last)
      end
  end.

Lemma resolved_bounds : forall H root first kvs proof tr lo hi,
  range2_resolved F feq f0 H root first kvs proof = Some (tr, lo, hi) ->
  (lo, hi) = range_bounds H first kvs proof.
Proof.
  intros H root first kvs proof tr lo hi R. unfold range2_resolved, range_bounds in *.
  destruct proof as [ps|].
  - destruct kvs as [|[k0 v0] rest].
    + repeat match type of R with match ?x with _ => _ end = _ => destruct x; try discriminate end.
      injection R as _ <- <-. reflexivity.
    + destruct ((match rest with [] => true | _ => false end) && is_eq (bcmp first (fst (last ((k0, v0) :: rest) (k0, v0))))).
      * repeat match type of R with match ?x with _ => _ end = _ => destruct x; try discriminate end.
        injection R as _ <- <-. reflexivity.
      * repeat match type of R with match ?x with _ => _ end = _ => destruct x; try discriminate end.
        injection R as _ <- <-. reflexivity.
  - destruct (rinsert_all F None kvs); try discriminate. injection R as _ <- <-. reflexivity.
Qed.

Theorem range2_cert_sound : forall H first kvs proof more (t : tnode),
  verify_range2_cert F feq fzero ped of_path add_len f0 H (thash t) first kvs proof = ROk more ->
  canonb H t = true ->
  let '(lo, hi) := range_bounds H first kvs proof in
  ((forall k v, length k = H -> in_rangeb lo hi k = true -> (lookup t k = Some v <-> In (k, v) kvs)) /\
   ((lo <= hi)%N -> (more = true <-> exists k v, length k = H /\ lookup t k = Some v /\ (hi < bval k)%N)))
  \/ Collision \/ ZeroHash.
Proof.
  intros H first kvs proof more t V Hc. unfold verify_range2_cert in V.
  destruct (verify_range2 F feq fzero ped of_path add_len f0 (thash t) first kvs proof); try discriminate.
  destruct (range2_resolved F feq f0 H (thash t) first kvs proof) as [[[tr lo] hi]|] eqn:R; [|discriminate].
  rewrite <- (resolved_bounds _ _ _ _ _ _ _ _ R).
  destruct (cert F feq ped of_path add_len f0 H (thash t) tr lo hi kvs) eqn:C; [|discriminate].
  injection V as <-.
  destruct tr as [n|].
  - destruct (cert_sound H (thash t) n lo hi kvs t C eq_refl Hc) as [S|D]; [|right; exact D].
    unfold cert in C. apply andb_true_iff in C. destruct C as [Eh C].
    apply andb_true_iff in C. destruct C as [C _]. apply andb_true_iff in C. destruct C as [Hs Hcv].
    apply feq_spec in Eh. cbn [rroot] in Eh.
    destruct (refine_of_hash n H t Hs Hc Eh) as [Rf|D]; [|right; exact D].
    left. split; [exact S|]. intros Hle. cbn [cert_more]. split.
    + intros Hf. destruct (follows_sound _ _ _ Rf 0%N hi Hc Hs Hf) as (k & v & Lk & Lv & G).
      exists k, v. repeat split; auto.
    + intros (k & v & Lk & Lv & G). destruct (follows F H n 0 hi) eqn:Ff; [reflexivity|].
      assert (B := follows_complete _ _ _ Rf 0%N lo hi Hc Hs Hcv Hle Ff k v Lk Lv). lia.
  - right. right. unfold cert in C. apply andb_true_iff in C. destruct C as [Eh _].
    apply feq_spec in Eh. cbn in Eh. exists H, t. auto.
Qed.

End RangeSound.
