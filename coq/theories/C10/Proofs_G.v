(* C10 — the RPC storage-proof response: a response that verifies (global roots hash to the block's
   state commitment, the contract proof yields the leaf of contract_leaves_data, the storage proof
   verifies under that leaf's storage root) pins the slot's value in the state behind the commitment,
   or exhibits a collision of the trie hash / two preimages of the state commitment / a zero hash. *)
From Coq Require Import List Bool Arith Lia.
From V Require Import C01.Trie2 C01.Trie2Proofs C10.Model C10.Proofs_A C10.Proofs_B C10.Proofs_D C10.Proofs_F.
Import ListNotations.

Section RpcSound.
Variable F : Type.
Variable feq : F -> F -> bool.
Hypothesis feq_spec : forall a b, feq a b = true <-> a = b.
Variable fzero : F -> bool.
Variable f0 : F.
Hypothesis fzero_spec : forall x, fzero x = true <-> x = f0.
Variable ped : F -> F -> F.
Variable pos : F -> F -> F.
Variable commitf : F -> F -> F.
Variable of_path : list bool -> F.
Variable add_len : F -> nat -> F.

Notation tnode := (node F).
Notation canonb := (canonb F fzero).
Notation canont := (canont F fzero).
Notation lookup := (lookup F).
Notation vz := (vz F f0).
Notation cleaf := (cleaf F ped f0).

(* two different (contracts root, classes root) pairs with one state commitment *)
Definition CommitCollision : Prop :=
  exists c k c' k', (c, k) <> (c', k') /\ commitf c k = commitf c' k'.

Lemma verify_root_sound : forall hf root k ps x h (t : tree F),
  verify_root F feq fzero of_path add_len f0 hf root k ps = Ok x ->
  root = Trie2.root F hf of_path add_len f0 t -> canont h t = true -> length k = h -> 0 < h ->
  x = vz (get F t k) \/ Collision F hf of_path add_len \/ ZeroHash F fzero hf of_path add_len f0.
Proof.
  intros hf root k ps x h t V -> Hc Hk Hh. unfold verify_root in V.
  destruct t as [n|]; cbn [Trie2.root get] in *.
  - destruct (fzero (hash F hf of_path add_len n)) eqn:Z.
    + right. right. apply fzero_spec in Z. exists h, n. auto.
    + destruct (verifyW_sound_top F feq feq_spec fzero hf of_path add_len f0 n h k ps x Hc Hk Hh V) as [E|C]; auto.
  - assert (Z : fzero f0 = true) by (apply fzero_spec; reflexivity). rewrite Z in V.
    injection V as <-. left. reflexivity.
Qed.

Lemma cleaf_inj : forall d d' : leafdata F, cleaf d = cleaf d' ->
  ld_sroot F d = ld_sroot F d' /\ ld_class F d = ld_class F d' /\ ld_nonce F d = ld_nonce F d'
  \/ Collision F ped of_path add_len.
Proof.
  intros [c n s] [c' n' s'] E. unfold Model.cleaf in E. cbn in E |- *.
  destruct (pair_dec F feq feq_spec (ped (ped c s) n) f0 (ped (ped c' s') n') f0) as [Q|N];
    [|right; eapply ColBinBin; eauto].
  inversion Q as [Q1].
  destruct (pair_dec F feq feq_spec (ped c s) n (ped c' s') n') as [Q'|N];
    [|right; eapply ColBinBin; eauto].
  inversion Q' as [[Q2 Q3]].
  destruct (pair_dec F feq feq_spec c s c' s') as [Q''|N];
    [|right; eapply ColBinBin; eauto].
  inversion Q''. left. auto.
Qed.

(* the real state: contracts trie tc, classes root kr, the contract's leaf data d', its storage trie ts *)
Theorem rpc_slot_pins : forall H state_root croot kroot cproof addr d sproof key v
    (tc : tree F) (kr : F) (d' : leafdata F) (ts : tree F),
  rpc_verify_slot F feq fzero ped commitf of_path add_len f0 state_root croot kroot cproof addr d sproof key = Ok v ->
  state_root = commitf (root F ped of_path add_len f0 tc) kr ->
  canont H tc = true -> get F tc addr = Some (cleaf d') ->
  canont H ts = true -> ld_sroot F d' = root F ped of_path add_len f0 ts ->
  length addr = H -> length key = H -> 0 < H ->
  v = vz (get F ts key)
  \/ Collision F ped of_path add_len \/ CommitCollision \/ ZeroHash F fzero ped of_path add_len f0.
Proof.
  intros H sr croot kroot cproof addr d sproof key v tc kr d' ts V -> Hc Hleaf Hs Hsr La Lk Hh.
  unfold rpc_verify_slot in V.
  destruct (feq (commitf croot kroot) (commitf (root F ped of_path add_len f0 tc) kr)) eqn:E; [|discriminate].
  cbn [negb] in V. apply feq_spec in E.
  destruct (pair_dec F feq feq_spec croot kroot (root F ped of_path add_len f0 tc) kr) as [Q|N];
    [|right; right; left; exists croot, kroot, (root F ped of_path add_len f0 tc), kr; auto].
  inversion Q as [[Q1 Q2]]. subst croot kroot.
  destruct (verify_root F feq fzero of_path add_len f0 ped (root F ped of_path add_len f0 tc) addr cproof) as [leaf| |] eqn:V1;
    try discriminate.
  destruct (verify_root_sound ped _ addr cproof leaf H tc V1 eq_refl Hc La Hh) as [L|[C|Z]];
    [|right; left; exact C|right; right; right; exact Z].
  rewrite Hleaf in L. cbn in L. subst leaf.
  destruct (feq (cleaf d') (cleaf d)) eqn:E2; [|discriminate]. apply feq_spec in E2.
  destruct (cleaf_inj d' d E2) as [(S1 & _ & _)|C]; [|right; left; exact C].
  rewrite <- S1, Hsr in V.
  destruct (verify_root_sound ped _ key sproof v H ts V eq_refl Hs Lk Hh) as [L|[C|Z]]; auto.
Qed.

(* classes trie (hash [pos]): the proven leaf is the leaf of the real classes trie tk *)
Theorem rpc_class_pins : forall H state_root croot kroot kproof ch v (cr : F) (tk : tree F),
  rpc_verify_class F feq fzero pos commitf of_path add_len f0 state_root croot kroot kproof ch = Ok v ->
  state_root = commitf cr (root F pos of_path add_len f0 tk) ->
  canont H tk = true -> length ch = H -> 0 < H ->
  v = vz (get F tk ch)
  \/ Collision F pos of_path add_len \/ CommitCollision \/ ZeroHash F fzero pos of_path add_len f0.
Proof.
  intros H sr croot kroot kproof ch v cr tk V -> Hc Lc Hh.
  unfold rpc_verify_class in V.
  destruct (feq (commitf croot kroot) (commitf cr (root F pos of_path add_len f0 tk))) eqn:E; [|discriminate].
  cbn [negb] in V. apply feq_spec in E.
  destruct (pair_dec F feq feq_spec croot kroot cr (root F pos of_path add_len f0 tk)) as [Q|N];
    [|right; right; left; exists croot, kroot, cr, (root F pos of_path add_len f0 tk); auto].
  inversion Q as [[Q1 Q2]]. subst croot kroot.
  destruct (verify_root_sound pos _ ch kproof v H tk V eq_refl Hc Lc Hh) as [L|[C|Z]]; auto.
Qed.

End RpcSound.
