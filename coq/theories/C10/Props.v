(* C10 — property theorems only (proofs in Proofs_A..E). Everything is quantified over the felt type F,
   its decidable equality and ALL hash parameters: no property of Pedersen / Poseidon is used.
   Collision resistance is never assumed: it is the explicit disjunct [Collision]. *)
From Coq Require Import List Bool Arith ZArith.
From Coq Require Import NArith.
From V Require Import C01.Trie2 C01.Trie2Proofs C10.Model C10.Proofs_A C10.Proofs_B C10.Proofs_C C10.Proofs_D C10.Proofs_E C10.Proofs_F C10.Proofs_G.
Import ListNotations.

(* ---------------- completeness ---------------- *)
(* trie2: for every canonical trie of height h >= 1, every key (present; absent with the divergence
   inside an edge or below a binary node), every node list l that contains the nodes Prove collects
   for k (l may hold the proofs of other keys too: the RPC and range proofs put several proofs into
   one set): VerifyProof on the hash-keyed set returns the key's value, zero for an absent key.
   [distinct_or_equal]: nodes of l under one hash are the same node (no assumption on the hash
   function itself). [strict] = false is the code's verifier, true the strict variant. *)
Theorem C10_prove_complete : forall F feq, (forall a b : F, feq a b = true <-> a = b) ->
  forall fzero ped of_path add_len f0 (t : node F) h k l strict,
  canonb F fzero h t = true -> length k = h -> 0 < h ->
  incl (prove2 F ped of_path add_len t k) l ->
  distinct_or_equal F (qhash F ped of_path add_len) l ->
  verify2 F feq ped of_path add_len f0 strict
    (fuel_for F k (set_of2 F feq ped of_path add_len l))
    (hash F ped of_path add_len t) k (set_of2 F feq ped of_path add_len l)
  = Ok (vz F f0 (lookup F t k)).
Proof. exact prove2_complete. Qed.
Print Assumptions C10_prove_complete.

(* legacy trie: Prove + VerifyProof (uint8 position arithmetic: heights up to 255) *)
Theorem C10_prove_complete_legacy : forall F feq, (forall a b : F, feq a b = true <-> a = b) ->
  forall fzero ped of_path add_len f0 (t : node F) h k l,
  canonb F fzero h t = true -> length k = h -> 0 < h -> h <= 255 ->
  incl (prove1 F ped of_path add_len t k) l ->
  distinct_or_equal F (phash F ped of_path add_len) l ->
  verify1_top F feq ped of_path add_len f0 (hash F ped of_path add_len t) k
    (set_of1 F feq ped of_path add_len l)
  = Ok (vz F f0 (lookup F t k)).
Proof. exact prove1_complete. Qed.
Print Assumptions C10_prove_complete_legacy.

(* what goes over RPC (wire nodes: binary {left,right} / edge {path,length,child}) verifies with the
   independent remaining-key verifier, for both backends *)
Theorem C10_rpc_proof_verifies_legacy : forall F feq, (forall a b : F, feq a b = true <-> a = b) ->
  forall fzero ped of_path add_len f0 (t : node F) h k l,
  canonb F fzero h t = true -> length k = h -> 0 < h ->
  incl (prove1 F ped of_path add_len t k) l ->
  distinct_or_equal F (phash F ped of_path add_len) l ->
  verifyW_top F feq ped of_path add_len f0 (hash F ped of_path add_len t) k
    (set_of1 F feq ped of_path add_len l)
  = Ok (vz F f0 (lookup F t k)).
Proof. exact wire_complete_legacy. Qed.
Print Assumptions C10_rpc_proof_verifies_legacy.

Theorem C10_rpc_proof_verifies_trie2 : forall F feq, (forall a b : F, feq a b = true <-> a = b) ->
  forall fzero ped of_path add_len f0 (t : node F) h k l,
  canonb F fzero h t = true -> length k = h -> 0 < h ->
  incl (prove2 F ped of_path add_len t k) l ->
  distinct_or_equal F (qhash F ped of_path add_len) l ->
  verifyW_top F feq ped of_path add_len f0 (hash F ped of_path add_len t) k
    (erase_set F (set_of2 F feq ped of_path add_len l))
  = Ok (vz F f0 (lookup F t k)).
Proof. exact wire_complete_trie2. Qed.
Print Assumptions C10_rpc_proof_verifies_trie2.

(* the empty trie: Prove collects nothing; every verifier answers Err ("proof node not found") for
   the zero root — the code does NOT report "absent" there *)
Theorem C10_empty_trie : forall F feq ped of_path add_len f0 k,
  prove2_tree F ped of_path add_len None k = [] /\ prove1_tree F ped of_path add_len None k = [] /\
  verify2_top F feq ped of_path add_len f0 f0 k (set_of2 F feq ped of_path add_len []) = Err /\
  verify1_top F feq ped of_path add_len f0 f0 k (set_of1 F feq ped of_path add_len []) = Err /\
  verifyW_top F feq ped of_path add_len f0 f0 k (set_of1 F feq ped of_path add_len []) = Err.
Proof. exact empty_trie. Qed.
Print Assumptions C10_empty_trie.

(* ---------------- soundness ---------------- *)
(* ANY proof set and ANY key: whatever the verifier establishes for the root of a canonical trie is
   the trie's value for that key (zero = absent) — or two different preimages of one node hash are
   exhibited. Induction on the walk. Legacy verifier and independent verifier: as is. trie2: for the
   strict variant (a value node is accepted only when the key is used up). *)
Theorem C10_verify_sound : forall F feq, (forall a b : F, feq a b = true <-> a = b) ->
  forall fzero ped of_path add_len f0 (t : node F) h k ps x,
  canonb F fzero h t = true -> length k = h -> 0 < h ->
  verify2_strict F feq ped of_path add_len f0 (hash F ped of_path add_len t) k ps = Ok x ->
  x = vz F f0 (lookup F t k) \/ Collision F ped of_path add_len.
Proof. exact verify2_sound. Qed.
Print Assumptions C10_verify_sound.

Theorem C10_verify_sound_legacy : forall F feq, (forall a b : F, feq a b = true <-> a = b) ->
  forall fzero ped of_path add_len f0 (t : node F) h k ps x,
  canonb F fzero h t = true -> length k = h -> 0 < h -> h <= 255 ->
  verify1_top F feq ped of_path add_len f0 (hash F ped of_path add_len t) k ps = Ok x ->
  x = vz F f0 (lookup F t k) \/ Collision F ped of_path add_len.
Proof. exact verify1_sound_top. Qed.
Print Assumptions C10_verify_sound_legacy.

Theorem C10_verify_sound_wire : forall F feq, (forall a b : F, feq a b = true <-> a = b) ->
  forall fzero ped of_path add_len f0 (t : node F) h k ps x,
  canonb F fzero h t = true -> length k = h -> 0 < h ->
  verifyW_top F feq ped of_path add_len f0 (hash F ped of_path add_len t) k ps = Ok x ->
  x = vz F f0 (lookup F t k) \/ Collision F ped of_path add_len.
Proof. exact verifyW_sound_top. Qed.
Print Assumptions C10_verify_sound_wire.

(* the code's trie2 verifier agrees with the strict one whenever the strict one answers ... *)
Theorem C10_verify2_agrees_with_strict : forall F feq ped of_path add_len f0 fuel e k ps x,
  verify2 F feq ped of_path add_len f0 true fuel e k ps = Ok x ->
  verify2 F feq ped of_path add_len f0 false fuel e k ps = Ok x.
Proof. exact verify2_strict_agree. Qed.
Print Assumptions C10_verify2_agrees_with_strict.

(* ---------------- tampering ---------------- *)
(* a proof altered in any number of nodes / the value / the key (ps' and k' are arbitrary) verifies to
   the true value of k', or to an error, or exhibits a collision: never a different value *)
Theorem C10_tamper_rejected : forall F feq, (forall a b : F, feq a b = true <-> a = b) ->
  forall fzero ped of_path add_len f0 (t : node F) h k' ps',
  canonb F fzero h t = true -> length k' = h -> 0 < h ->
  not_forged F feq (verify2_strict F feq ped of_path add_len f0 (hash F ped of_path add_len t) k' ps')
    (vz F f0 (lookup F t k')) = true \/ Collision F ped of_path add_len.
Proof. exact tamper_rejected2. Qed.
Print Assumptions C10_tamper_rejected.

Theorem C10_tamper_rejected_legacy : forall F feq, (forall a b : F, feq a b = true <-> a = b) ->
  forall fzero ped of_path add_len f0 (t : node F) h k' ps',
  canonb F fzero h t = true -> length k' = h -> 0 < h -> h <= 255 ->
  not_forged F feq (verify1_top F feq ped of_path add_len f0 (hash F ped of_path add_len t) k' ps')
    (vz F f0 (lookup F t k')) = true \/ Collision F ped of_path add_len.
Proof. exact tamper_rejected1. Qed.
Print Assumptions C10_tamper_rejected_legacy.

Theorem C10_tamper_rejected_wire : forall F feq, (forall a b : F, feq a b = true <-> a = b) ->
  forall fzero ped of_path add_len f0 (t : node F) h k' ps',
  canonb F fzero h t = true -> length k' = h -> 0 < h ->
  not_forged F feq (verifyW_top F feq ped of_path add_len f0 (hash F ped of_path add_len t) k' ps')
    (vz F f0 (lookup F t k')) = true \/ Collision F ped of_path add_len.
Proof. exact tamper_rejectedW. Qed.
Print Assumptions C10_tamper_rejected_wire.

(* ---------------- roots and range proofs ---------------- *)
(* canonical tries with the same root are the same trie, or a collision is exhibited *)
Theorem C10_root_injective : forall F feq, (forall a b : F, feq a b = true <-> a = b) ->
  forall fzero ped of_path add_len (a : node F) h (b : node F),
  canonb F fzero h a = true -> canonb F fzero h b = true ->
  hash F ped of_path add_len a = hash F ped of_path add_len b -> a = b \/ Collision F ped of_path add_len.
Proof. exact root_injective. Qed.
Print Assumptions C10_root_injective.

(* range proof, all-elements case (VerifyRangeProof with a nil proof: rebuild the trie from the
   claimed key/value list, compare roots): accepted lists are exactly the trie's content.
   [ZeroRoot] is the explicit failure of NZ (a non-empty trie hashing to the zero felt). *)
Theorem C10_range_complete : forall F fzero ped of_path add_len f0 h m (t : tree F),
  wf_map F fzero h m -> canont F fzero h t = true ->
  (forall k, length k = h -> assoc F m k = get F t k) ->
  spec_root F ped of_path add_len f0 h m = root F ped of_path add_len f0 t.
Proof. exact range_all_complete. Qed.
Print Assumptions C10_range_complete.

Theorem C10_range_sound_partial : forall F feq, (forall a b : F, feq a b = true <-> a = b) ->
  forall fzero ped of_path add_len f0 h m (t : tree F),
  wf_map F fzero h m -> canont F fzero h t = true ->
  spec_root F ped of_path add_len f0 h m = root F ped of_path add_len f0 t ->
  (forall k, length k = h -> assoc F m k = get F t k)
  \/ Collision F ped of_path add_len \/ ZeroRoot F fzero ped of_path add_len f0.
Proof. exact range_all_sound. Qed.
Print Assumptions C10_range_sound_partial.
(* TARGET (not proved; the reconstruction proofToPath / unsetInternal / hasRightElement of the two
   VerifyRangeProof implementations is not modelled):
   range_sound : VerifyRangeProof root first keys values proof = (more, nil) -> root = hash t ->
     canon t -> (keys,values) = the entries of t in [first, last] /\ more = (t has an entry > last)
     \/ Collision.
   The ranged case is exercised by the harness only. *)

(* ---------------- the free term instance: hypotheses are satisfiable, soundness unconditional ---- *)
Theorem C10_term_equality_correct : forall a b, heqb a b = true <-> a = b.
Proof. exact heqb_spec. Qed.
Print Assumptions C10_term_equality_correct.

Theorem C10_term_no_collision : forall pos : bool, ~ Collision hterm (if pos then HS else HP) HB HA.
Proof. exact hterm_no_collision. Qed.
Print Assumptions C10_term_no_collision.

Definition ex_t : htree := h_run 3 [(0, 5); (1, 6); (6, 7); (7, 0); (2, 9)]%Z.
Definition ex_n : node hterm := match ex_t with Some n => n | None => Leaf (HC 0) end.

Example ex_canon : canonb hterm hzero 3 ex_n = true.
Proof. vm_compute. reflexivity. Qed.

(* present key (000), absent below a binary node (011), absent inside an edge (100) *)
Example ex_complete :
  h_verify2 false ex_t (bits_of_Z 3 0) = Ok (HC 5) /\ h_verify1 false ex_t (bits_of_Z 3 0) = Ok (HC 5) /\
  h_verify2 false ex_t (bits_of_Z 3 3) = Ok (HC 0) /\ h_verify1 false ex_t (bits_of_Z 3 3) = Ok (HC 0) /\
  h_verify2 false ex_t (bits_of_Z 3 4) = Ok (HC 0) /\ h_verify1 false ex_t (bits_of_Z 3 4) = Ok (HC 0) /\
  h_get ex_t (bits_of_Z 3 3) = None /\ h_get ex_t (bits_of_Z 3 4) = None /\
  length (h_prove2 false ex_t (bits_of_Z 3 0)) = 3.
Proof. vm_compute. repeat split; reflexivity. Qed.

Example ex_distinct : distinct_or_equal hterm (qhash hterm HP HB HA) (h_prove2 false ex_t (bits_of_Z 3 0)).
Proof.
  intros n n' Hn Hn' E. vm_compute in Hn, Hn'.
  repeat (destruct Hn as [<-|Hn]); try contradiction;
  repeat (destruct Hn' as [<-|Hn']); try contradiction; try reflexivity; vm_compute in E; discriminate.
Qed.

(* ---------------- trie2.VerifyProof as written: the value-node tag ---------------- *)
(* The code returns a child typed *ValueNode without looking at the remaining key. Re-tagging the
   hash child of the root node of an honest proof as a value node leaves every node hash unchanged
   (same wire content) and makes VerifyProof "establish" an inner node hash as the value of the key.
   No collision is involved (there is none in the free algebra). Hence [strict] in C10_verify_sound. *)
Definition retag (c : pchild hterm) : pchild hterm := match c with CH x => CV x | CV x => CH x end.
Definition ex_honest : list (pnode2 hterm) := h_prove2 false ex_t (bits_of_Z 3 0).
Definition ex_bad : list (pnode2 hterm) :=
  match ex_honest with QBin l r :: rest => QBin (retag l) r :: rest | other => other end.

Theorem C10_verify2_value_tag_refuted :
  exists (t : node hterm) k ps x,
    canonb hterm hzero 3 t = true /\ length k = 3 /\
    erase_set hterm ps = erase_set hterm (set_of2 hterm heqb HP HB HA (prove2 hterm HP HB HA t k)) /\
    verify2_top hterm heqb HP HB HA (HC 0) (hash hterm HP HB HA t) k ps = Ok x /\
    x <> vz hterm (HC 0) (lookup hterm t k) /\
    verify2_strict hterm heqb HP HB HA (HC 0) (hash hterm HP HB HA t) k ps = Err.
Proof.
  exists ex_n, (bits_of_Z 3 0), (set_of2 hterm heqb HP HB HA ex_bad).
  eexists. vm_compute. repeat split; try reflexivity. discriminate.
Qed.
Print Assumptions C10_verify2_value_tag_refuted.

(* ====================== ranged proofs (VerifyRangeProof of both tries) ====================== *)
(* Model.v transcribes trie2.VerifyRangeProof (proofToPath / unsetInternal / unset / hasRightElement
   over the proof set as a heap of linked objects, insert + hashing over the partially resolved trie)
   and the legacy trie.VerifyRangeProof (buildPath / buildTrie / PutWithProof / updateValueIfDirty /
   hasRightElement over the flat store); both are run against the code on every check. *)

(* a partially resolved, height-typed trie hashing to the root of a canonical trie IS that trie with
   sub-tries replaced by their hashes — or a collision / a zero hash is exhibited *)
Theorem C10_refine_of_hash : forall F feq, (forall a b : F, feq a b = true <-> a = b) ->
  forall fzero ped of_path add_len f0 (n : rnode F) h (t : node F),
  rshape F h n = true -> canonb F fzero h t = true ->
  rhash F ped of_path add_len f0 n = hash F ped of_path add_len t ->
  refines F ped of_path add_len h n t \/ Collision F ped of_path add_len \/ ZeroHash F fzero ped of_path add_len f0.
Proof. exact refine_of_hash. Qed.
Print Assumptions C10_refine_of_hash.

(* soundness of ranged proofs, by that reduction: whenever the certified verifier (the code's verifier
   AND the certificate: the resolved trie hashes to the root, is height-typed, every unresolved
   sub-trie lies outside [lo,hi], its leaves in [lo,hi] are the claimed entries) accepts against the
   root of a canonical trie, the claimed entries are exactly the trie's entries in [lo,hi] and the
   returned flag says whether an entry above hi exists. [lo,hi] = [first, last claimed key]
   (general), [key,key] (single element), [first, max] (empty claim), [0,max] (no proof). *)
Theorem C10_range_sound : forall F feq, (forall a b : F, feq a b = true <-> a = b) ->
  forall fzero ped of_path add_len f0 H first kvs proof more (t : node F),
  verify_range2_cert F feq fzero ped of_path add_len f0 H (hash F ped of_path add_len t) first kvs proof = ROk more ->
  canonb F fzero H t = true ->
  let '(lo, hi) := range_bounds F H first kvs proof in
  ((forall k v, length k = H -> in_rangeb lo hi k = true -> (lookup F t k = Some v <-> In (k, v) kvs)) /\
   ((lo <= hi)%N -> (more = true <-> exists k v, length k = H /\ lookup F t k = Some v /\ (hi < bval k)%N)))
  \/ Collision F ped of_path add_len \/ ZeroHash F fzero ped of_path add_len f0.
Proof. exact range2_cert_sound. Qed.
Print Assumptions C10_range_sound.
(* NOT proved (TARGET): "trie2.VerifyRangeProof accepts => the certificate holds" for every input.
   It is FALSE as the code stands (witnesses below: the single-element and the empty-range branch never
   recompute a hash); for the general branch it is checked on every accepted generated case by running
   the extracted certificate. Completeness of the ranged case (honest range => accepted) is likewise
   only run, not proved: TARGET range_complete_ranged; it fails for shared sub-nodes (witness below). *)

(* ---------- witnesses: the faithful models reproduce the defects found in the code ---------- *)
Definition bk (h : nat) (z : Z) : list bool := bits_of_Z h z.
Fixpoint upd_nth {A : Type} (l : list A) (i : nat) (f : A -> A) : list A :=
  match l, i with
  | [], _ => []
  | x :: r, O => f x :: r
  | x :: r, S j => x :: upd_nth r j f
  end.

(* trie {1->5, 5->5}, height 3: the two leaf edges are the same node (same hash), the honest full
   range makes trie2's unsetInternal walk into a value node: panic. Legacy accepts. *)
Definition w_shared : htree := h_run 3 [(1, 5); (5, 5)]%Z.
Theorem C10_range2_shared_subnodes_refuted :
  let kvs := [(bk 3 1, HC 5); (bk 3 5, HC 5)] in
  h_get w_shared (bk 3 1) = Some (HC 5) /\ h_get w_shared (bk 3 5) = Some (HC 5) /\
  h_range2 w_shared (bk 3 1) kvs (Some (h_range_proof2 w_shared (bk 3 1) (bk 3 5))) = RPanic /\
  h_range1 3 w_shared (bk 3 1) kvs (Some (h_range_proof1 w_shared (bk 3 1) (bk 3 5))) = ROk false.
Proof. vm_compute. repeat split; reflexivity. Qed.

(* trie {1->10, 5->11, 9->12}, height 4 *)
Definition w_t : htree := h_run 4 [(1, 10); (5, 11); (9, 12)]%Z.

(* legacy: the range [1,9] claimed WITHOUT the entry 5 is accepted (trie2 and the certified verifier refuse) *)
Theorem C10_range1_inner_element_omitted_refuted :
  let kvs := [(bk 4 1, HC 10); (bk 4 9, HC 12)] in
  h_get w_t (bk 4 5) = Some (HC 11) /\
  h_range1 4 w_t (bk 4 1) kvs (Some (h_range_proof1 w_t (bk 4 1) (bk 4 9))) = ROk false /\
  h_range2 w_t (bk 4 1) kvs (Some (h_range_proof2 w_t (bk 4 1) (bk 4 9))) = RErr.
Proof. vm_compute. repeat split; reflexivity. Qed.

(* trie2: a boundary leaf that hangs directly under a binary node is not cut by unset. Trie
   {2->10, 3->11, 9->12}, height 4 (2 and 3 are siblings): first = 2, proof of [2,9], the claim [3,9]
   WITHOUT entry 2 is accepted; the certified verifier refuses *)
Definition w_s : htree := h_run 4 [(2, 10); (3, 11); (9, 12)]%Z.
Theorem C10_range2_first_element_omitted_refuted :
  let kvs := [(bk 4 3, HC 11); (bk 4 9, HC 12)] in
  h_get w_s (bk 4 2) = Some (HC 10) /\
  h_range2 w_s (bk 4 2) kvs (Some (h_range_proof2 w_s (bk 4 2) (bk 4 9))) = ROk false /\
  h_range2_cert 4 w_s (bk 4 2) kvs (Some (h_range_proof2 w_s (bk 4 2) (bk 4 9))) = RErr.
Proof. vm_compute. repeat split; reflexivity. Qed.

(* legacy: root = binary node: hasRightElement never runs; the honest range [1,8] of {1,8,9} comes
   back with more = false although 9 follows (trie2: true) *)
Definition w_m : htree := h_run 4 [(1, 10); (8, 11); (9, 12)]%Z.
Theorem C10_range1_more_flag_refuted :
  let kvs := [(bk 4 1, HC 10); (bk 4 8, HC 11)] in
  h_get w_m (bk 4 9) = Some (HC 12) /\
  h_range1 4 w_m (bk 4 1) kvs (Some (h_range_proof1 w_m (bk 4 1) (bk 4 8))) = ROk false /\
  h_range2 w_m (bk 4 1) kvs (Some (h_range_proof2 w_m (bk 4 1) (bk 4 8))) = ROk true /\
  h_range2_cert 4 w_m (bk 4 1) kvs (Some (h_range_proof2 w_m (bk 4 1) (bk 4 8))) = ROk true.
Proof. vm_compute. repeat split; reflexivity. Qed.

(* both: the single-element branch never recomputes a hash. Entry 5->11; the claim 5->255 with the
   leaf edge of the proof altered to 255 (still stored under its honest hash) is accepted; the
   certified verifier refuses *)
Definition forged_single2 : pset2 hterm :=
  upd_nth (h_range_proof2 w_t (bk 4 5) (bk 4 5)) 2
    (fun e => (fst e, match snd e with QEdge p _ => QEdge p (CV (HC 255)) | n => n end)).
Definition forged_single1 : pset1 hterm :=
  upd_nth (h_range_proof1 w_t (bk 4 5) (bk 4 5)) 2
    (fun e => (fst e, match snd e with PEdge p _ => PEdge p (HC 255) | n => n end)).
Theorem C10_range_single_element_unchecked_refuted :
  let kvs := [(bk 4 5, HC 255)] in
  h_get w_t (bk 4 5) = Some (HC 11) /\
  h_range2 w_t (bk 4 5) kvs (Some forged_single2) = ROk true /\
  h_range1 4 w_t (bk 4 5) kvs (Some forged_single1) = ROk false /\
  h_range2_cert 4 w_t (bk 4 5) kvs (Some forged_single2) = RErr.
Proof. vm_compute. repeat split; reflexivity. Qed.

(* trie2: the empty-range branch never recomputes a hash either. The root object replaced by an
   edge that diverges below the key hides every entry: "no entry at or above 3" is accepted *)
Definition forged_empty2 : pset2 hterm :=
  upd_nth (h_range_proof2 w_t (bk 4 3) (bk 4 3)) 0
    (fun e => (fst e, QEdge [false; false; false; false] (CH (HC 1)))).
Theorem C10_range2_empty_range_unchecked_refuted :
  h_get w_t (bk 4 5) = Some (HC 11) /\
  h_range2 w_t (bk 4 3) [] (Some forged_empty2) = ROk false /\
  h_range2_cert 4 w_t (bk 4 3) [] (Some forged_empty2) = RErr.
Proof. vm_compute. repeat split; reflexivity. Qed.

(* trie2: a proof set in which a node is (also) stored under the hash of one of its descendants is
   cyclic once linked: the model runs out of fuel (the code does not terminate / overflows its stack) *)
Definition cyclic2 : pset2 hterm :=
  let ps := h_range_proof2 w_t (bk 4 1) (bk 4 9) in
  upd_nth ps 1 (fun e => (fst e, match ps with (_, n0) :: _ => n0 | [] => snd e end)).
Theorem C10_range2_cyclic_set_diverges :
  h_range2 w_t (bk 4 1) [(bk 4 1, HC 10); (bk 4 5, HC 11); (bk 4 9, HC 12)] (Some cyclic2) = RFuel.
Proof. vm_compute. reflexivity. Qed.

(* honest ranges of w_t: accepted by all three verifiers with the right flag (non-vacuity of C10_range_sound) *)
Example ex_range_honest :
  let all := [(bk 4 1, HC 10); (bk 4 5, HC 11); (bk 4 9, HC 12)] in
  h_range2_cert 4 w_t (bk 4 1) all (Some (h_range_proof2 w_t (bk 4 1) (bk 4 9))) = ROk false /\
  h_range2_cert 4 w_t (bk 4 1) [(bk 4 1, HC 10); (bk 4 5, HC 11)] (Some (h_range_proof2 w_t (bk 4 1) (bk 4 5))) = ROk true /\
  h_range2_cert 4 w_t (bk 4 5) [(bk 4 5, HC 11)] (Some (h_range_proof2 w_t (bk 4 5) (bk 4 5))) = ROk true /\
  h_range2_cert 4 w_t (bk 4 10) [] (Some (h_range_proof2 w_t (bk 4 10) (bk 4 10))) = ROk false /\
  h_range2_cert 4 w_t (bk 4 0) all None = ROk false /\
  h_range1 4 w_t (bk 4 1) all (Some (h_range_proof1 w_t (bk 4 1) (bk 4 9))) = ROk false.
Proof. vm_compute. repeat split; reflexivity. Qed.

(* ====================== the RPC storage-proof response ====================== *)
(* A client that checks (1) the two global roots against the block's state commitment [commitf],
   (2) the contract proof against the contracts root, obtaining the leaf H(H(H(class, storage_root),
   nonce), 0) of contract_leaves_data, (3) the storage proof against that storage_root — obtains the
   slot's value in the state behind the commitment (zero = unset), whatever the response contains;
   otherwise a trie-hash collision, two root pairs with one commitment, or a zero hash is exhibited.
   tc = the real contracts trie, kr the real classes root, d' the contract's real leaf data, ts its
   real storage trie. *)
Theorem C10_rpc_slot_pinned : forall F feq, (forall a b : F, feq a b = true <-> a = b) ->
  forall fzero f0, (forall x : F, fzero x = true <-> x = f0) ->
  forall ped commitf of_path add_len H state_root croot kroot cproof addr d sproof key v
    (tc : tree F) (kr : F) (d' : leafdata F) (ts : tree F),
  rpc_verify_slot F feq fzero ped commitf of_path add_len f0 state_root croot kroot cproof addr d sproof key = Ok v ->
  state_root = commitf (root F ped of_path add_len f0 tc) kr ->
  canont F fzero H tc = true -> get F tc addr = Some (cleaf F ped f0 d') ->
  canont F fzero H ts = true -> ld_sroot F d' = root F ped of_path add_len f0 ts ->
  length addr = H -> length key = H -> 0 < H ->
  v = vz F f0 (get F ts key)
  \/ Collision F ped of_path add_len \/ CommitCollision F commitf \/ ZeroHash F fzero ped of_path add_len f0.
Proof. exact rpc_slot_pins. Qed.
Print Assumptions C10_rpc_slot_pinned.

Theorem C10_rpc_class_pinned : forall F feq, (forall a b : F, feq a b = true <-> a = b) ->
  forall fzero f0, (forall x : F, fzero x = true <-> x = f0) ->
  forall pos commitf of_path add_len H state_root croot kroot kproof ch v (cr : F) (tk : tree F),
  rpc_verify_class F feq fzero pos commitf of_path add_len f0 state_root croot kroot kproof ch = Ok v ->
  state_root = commitf cr (root F pos of_path add_len f0 tk) ->
  canont F fzero H tk = true -> length ch = H -> 0 < H ->
  v = vz F f0 (get F tk ch)
  \/ Collision F pos of_path add_len \/ CommitCollision F commitf \/ ZeroHash F fzero pos of_path add_len f0.
Proof. exact rpc_class_pins. Qed.
Print Assumptions C10_rpc_class_pinned.
