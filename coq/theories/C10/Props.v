(* C10 — property theorems only (proofs in Proofs_A..E). Everything is quantified over the felt type F,
   its decidable equality and ALL hash parameters: no property of Pedersen / Poseidon is used.
   Collision resistance is never assumed: it is the explicit disjunct [Collision]. *)
From Coq Require Import List Bool Arith ZArith.
From V Require Import C01.Trie2 C01.Trie2Proofs C10.Model C10.Proofs_A C10.Proofs_B C10.Proofs_C C10.Proofs_D C10.Proofs_E.
Import ListNotations.

(* ---------------- completeness ---------------- *)
(* trie2: for every canonical trie of height h >= 1, every key (present; absent with the divergence
   inside an edge or below a binary node), every node list l that contains the nodes Prove collects
   for k (l may hold the proofs of other keys too: the RPC and range proofs put several proofs into
   one set): VerifyProof on the hash-keyed set returns the key's value, zero for an absent key.
   [distinct_or_equal]: nodes of l under one hash are the same node (no assumption on the hash
   function itself). [strict] = false is the code's verifier, true the strict variant. *)
Theorem C10_prove_complete : forall F feq, (forall a b : F, feq a b = true <-> a = b) ->
  forall fzero ped of_path add_len f0 (t : node F) h k l strict,
  canonb F fzero h t = true -> length k = h -> 0 < h ->
  incl (prove2 F ped of_path add_len t k) l ->
  distinct_or_equal F (qhash F ped of_path add_len) l ->
  verify2 F feq ped of_path add_len f0 strict
    (fuel_for F k (set_of2 F feq ped of_path add_len l))
    (hash F ped of_path add_len t) k (set_of2 F feq ped of_path add_len l)
  = Ok (vz F f0 (lookup F t k)).
Proof. exact prove2_complete. Qed.
Print Assumptions C10_prove_complete.

(* legacy trie: Prove + VerifyProof (uint8 position arithmetic: heights up to 255) *)
Theorem C10_prove_complete_legacy : forall F feq, (forall a b : F, feq a b = true <-> a = b) ->
  forall fzero ped of_path add_len f0 (t : node F) h k l,
  canonb F fzero h t = true -> length k = h -> 0 < h -> h <= 255 ->
  incl (prove1 F ped of_path add_len t k) l ->
  distinct_or_equal F (phash F ped of_path add_len) l ->
  verify1_top F feq ped of_path add_len f0 (hash F ped of_path add_len t) k
    (set_of1 F feq ped of_path add_len l)
  = Ok (vz F f0 (lookup F t k)).
Proof. exact prove1_complete. Qed.
Print Assumptions C10_prove_complete_legacy.

(* what goes over RPC (wire nodes: binary {left,right} / edge {path,length,child}) verifies with the
   independent remaining-key verifier, for both backends *)
Theorem C10_rpc_proof_verifies_legacy : forall F feq, (forall a b : F, feq a b = true <-> a = b) ->
  forall fzero ped of_path add_len f0 (t : node F) h k l,
  canonb F fzero h t = true -> length k = h -> 0 < h ->
  incl (prove1 F ped of_path add_len t k) l ->
  distinct_or_equal F (phash F ped of_path add_len) l ->
  verifyW_top F feq ped of_path add_len f0 (hash F ped of_path add_len t) k
    (set_of1 F feq ped of_path add_len l)
  = Ok (vz F f0 (lookup F t k)).
Proof. exact wire_complete_legacy. Qed.
Print Assumptions C10_rpc_proof_verifies_legacy.

Theorem C10_rpc_proof_verifies_trie2 : forall F feq, (forall a b : F, feq a b = true <-> a = b) ->
  forall fzero ped of_path add_len f0 (t : node F) h k l,
  canonb F fzero h t = true -> length k = h -> 0 < h ->
  incl (prove2 F ped of_path add_len t k) l ->
  distinct_or_equal F (qhash F ped of_path add_len) l ->
  verifyW_top F feq ped of_path add_len f0 (hash F ped of_path add_len t) k
    (erase_set F (set_of2 F feq ped of_path add_len l))
  = Ok (vz F f0 (lookup F t k)).
Proof. exact wire_complete_trie2. Qed.
Print Assumptions C10_rpc_proof_verifies_trie2.

(* the empty trie: Prove collects nothing; every verifier answers Err ("proof node not found") for
   the zero root — the code does NOT report "absent" there *)
Theorem C10_empty_trie : forall F feq ped of_path add_len f0 k,
  prove2_tree F ped of_path add_len None k = [] /\ prove1_tree F ped of_path add_len None k = [] /\
  verify2_top F feq ped of_path add_len f0 f0 k (set_of2 F feq ped of_path add_len []) = Err /\
  verify1_top F feq ped of_path add_len f0 f0 k (set_of1 F feq ped of_path add_len []) = Err /\
  verifyW_top F feq ped of_path add_len f0 f0 k (set_of1 F feq ped of_path add_len []) = Err.
Proof. exact empty_trie. Qed.
Print Assumptions C10_empty_trie.

(* ---------------- soundness ---------------- *)
(* ANY proof set and ANY key: whatever the verifier establishes for the root of a canonical trie is
   the trie's value for that key (zero = absent) — or two different preimages of one node hash are
   exhibited. Induction on the walk. Legacy verifier and independent verifier: as is. trie2: for the
   strict variant (a value node is accepted only when the key is used up). *)
Theorem C10_verify_sound : forall F feq, (forall a b : F, feq a b = true <-> a = b) ->
  forall fzero ped of_path add_len f0 (t : node F) h k ps x,
  canonb F fzero h t = true -> length k = h -> 0 < h ->
  verify2_strict F feq ped of_path add_len f0 (hash F ped of_path add_len t) k ps = Ok x ->
  x = vz F f0 (lookup F t k) \/ Collision F ped of_path add_len.
Proof. exact verify2_sound. Qed.
Print Assumptions C10_verify_sound.

Theorem C10_verify_sound_legacy : forall F feq, (forall a b : F, feq a b = true <-> a = b) ->
  forall fzero ped of_path add_len f0 (t : node F) h k ps x,
  canonb F fzero h t = true -> length k = h -> 0 < h -> h <= 255 ->
  verify1_top F feq ped of_path add_len f0 (hash F ped of_path add_len t) k ps = Ok x ->
  x = vz F f0 (lookup F t k) \/ Collision F ped of_path add_len.
Proof. exact verify1_sound_top. Qed.
Print Assumptions C10_verify_sound_legacy.

Theorem C10_verify_sound_wire : forall F feq, (forall a b : F, feq a b = true <-> a = b) ->
  forall fzero ped of_path add_len f0 (t : node F) h k ps x,
  canonb F fzero h t = true -> length k = h -> 0 < h ->
  verifyW_top F feq ped of_path add_len f0 (hash F ped of_path add_len t) k ps = Ok x ->
  x = vz F f0 (lookup F t k) \/ Collision F ped of_path add_len.
Proof. exact verifyW_sound_top. Qed.
Print Assumptions C10_verify_sound_wire.

(* the code's trie2 verifier agrees with the strict one whenever the strict one answers ... *)
Theorem C10_verify2_agrees_with_strict : forall F feq ped of_path add_len f0 fuel e k ps x,
  verify2 F feq ped of_path add_len f0 true fuel e k ps = Ok x ->
  verify2 F feq ped of_path add_len f0 false fuel e k ps = Ok x.
Proof. exact verify2_strict_agree. Qed.
Print Assumptions C10_verify2_agrees_with_strict.

(* ---------------- tampering ---------------- *)
(* a proof altered in any number of nodes / the value / the key (ps' and k' are arbitrary) verifies to
   the true value of k', or to an error, or exhibits a collision: never a different value *)
Theorem C10_tamper_rejected : forall F feq, (forall a b : F, feq a b = true <-> a = b) ->
  forall fzero ped of_path add_len f0 (t : node F) h k' ps',
  canonb F fzero h t = true -> length k' = h -> 0 < h ->
  not_forged F feq (verify2_strict F feq ped of_path add_len f0 (hash F ped of_path add_len t) k' ps')
    (vz F f0 (lookup F t k')) = true \/ Collision F ped of_path add_len.
Proof. exact tamper_rejected2. Qed.
Print Assumptions C10_tamper_rejected.

Theorem C10_tamper_rejected_legacy : forall F feq, (forall a b : F, feq a b = true <-> a = b) ->
  forall fzero ped of_path add_len f0 (t : node F) h k' ps',
  canonb F fzero h t = true -> length k' = h -> 0 < h -> h <= 255 ->
  not_forged F feq (verify1_top F feq ped of_path add_len f0 (hash F ped of_path add_len t) k' ps')
    (vz F f0 (lookup F t k')) = true \/ Collision F ped of_path add_len.
Proof. exact tamper_rejected1. Qed.
Print Assumptions C10_tamper_rejected_legacy.

Theorem C10_tamper_rejected_wire : forall F feq, (forall a b : F, feq a b = true <-> a = b) ->
  forall fzero ped of_path add_len f0 (t : node F) h k' ps',
  canonb F fzero h t = true -> length k' = h -> 0 < h ->
  not_forged F feq (verifyW_top F feq ped of_path add_len f0 (hash F ped of_path add_len t) k' ps')
    (vz F f0 (lookup F t k')) = true \/ Collision F ped of_path add_len.
Proof. exact tamper_rejectedW. Qed.
Print Assumptions C10_tamper_rejected_wire.

(* ---------------- roots and range proofs ---------------- *)
(* canonical tries with the same root are the same trie, or a collision is exhibited *)
Theorem C10_root_injective : forall F feq, (forall a b : F, feq a b = true <-> a = b) ->
  forall fzero ped of_path add_len (a : node F) h (b : node F),
  canonb F fzero h a = true -> canonb F fzero h b = true ->
  hash F ped of_path add_len a = hash F ped of_path add_len b -> a = b \/ Collision F ped of_path add_len.
Proof. exact root_injective. Qed.
Print Assumptions C10_root_injective.

(* range proof, all-elements case (VerifyRangeProof with a nil proof: rebuild the trie from the
   claimed key/value list, compare roots): accepted lists are exactly the trie's content.
   [ZeroRoot] is the explicit failure of NZ (a non-empty trie hashing to the zero felt). *)
Theorem C10_range_complete : forall F fzero ped of_path add_len f0 h m (t : tree F),
  wf_map F fzero h m -> canont F fzero h t = true ->
  (forall k, length k = h -> assoc F m k = get F t k) ->
  spec_root F ped of_path add_len f0 h m = root F ped of_path add_len f0 t.
Proof. exact range_all_complete. Qed.
Print Assumptions C10_range_complete.

Theorem C10_range_sound_partial : forall F feq, (forall a b : F, feq a b = true <-> a = b) ->
  forall fzero ped of_path add_len f0 h m (t : tree F),
  wf_map F fzero h m -> canont F fzero h t = true ->
  spec_root F ped of_path add_len f0 h m = root F ped of_path add_len f0 t ->
  (forall k, length k = h -> assoc F m k = get F t k)
  \/ Collision F ped of_path add_len \/ ZeroRoot F fzero ped of_path add_len f0.
Proof. exact range_all_sound. Qed.
Print Assumptions C10_range_sound_partial.
(* TARGET (not proved; the reconstruction proofToPath / unsetInternal / hasRightElement of the two
   VerifyRangeProof implementations is not modelled):
   range_sound : VerifyRangeProof root first keys values proof = (more, nil) -> root = hash t ->
     canon t -> (keys,values) = the entries of t in [first, last] /\ more = (t has an entry > last)
     \/ Collision.
   The ranged case is exercised by the harness only. *)

(* ---------------- the free term instance: hypotheses are satisfiable, soundness unconditional ---- *)
Theorem C10_term_equality_correct : forall a b, heqb a b = true <-> a = b.
Proof. exact heqb_spec. Qed.
Print Assumptions C10_term_equality_correct.

Theorem C10_term_no_collision : forall pos : bool, ~ Collision hterm (if pos then HS else HP) HB HA.
Proof. exact hterm_no_collision. Qed.
Print Assumptions C10_term_no_collision.

Definition ex_t : htree := h_run 3 [(0, 5); (1, 6); (6, 7); (7, 0); (2, 9)]%Z.
Definition ex_n : node hterm := match ex_t with Some n => n | None => Leaf (HC 0) end.

Example ex_canon : canonb hterm hzero 3 ex_n = true.
Proof. vm_compute. reflexivity. Qed.

(* present key (000), absent below a binary node (011), absent inside an edge (100) *)
Example ex_complete :
  h_verify2 false ex_t (bits_of_Z 3 0) = Ok (HC 5) /\ h_verify1 false ex_t (bits_of_Z 3 0) = Ok (HC 5) /\
  h_verify2 false ex_t (bits_of_Z 3 3) = Ok (HC 0) /\ h_verify1 false ex_t (bits_of_Z 3 3) = Ok (HC 0) /\
  h_verify2 false ex_t (bits_of_Z 3 4) = Ok (HC 0) /\ h_verify1 false ex_t (bits_of_Z 3 4) = Ok (HC 0) /\
  h_get ex_t (bits_of_Z 3 3) = None /\ h_get ex_t (bits_of_Z 3 4) = None /\
  length (h_prove2 false ex_t (bits_of_Z 3 0)) = 3.
Proof. vm_compute. repeat split; reflexivity. Qed.

Example ex_distinct : distinct_or_equal hterm (qhash hterm HP HB HA) (h_prove2 false ex_t (bits_of_Z 3 0)).
Proof.
  intros n n' Hn Hn' E. vm_compute in Hn, Hn'.
  repeat (destruct Hn as [<-|Hn]); try contradiction;
  repeat (destruct Hn' as [<-|Hn']); try contradiction; try reflexivity; vm_compute in E; discriminate.
Qed.

(* ---------------- trie2.VerifyProof as written: the value-node tag ---------------- *)
(* The code returns a child typed *ValueNode without looking at the remaining key. Re-tagging the
   hash child of the root node of an honest proof as a value node leaves every node hash unchanged
   (same wire content) and makes VerifyProof "establish" an inner node hash as the value of the key.
   No collision is involved (there is none in the free algebra). Hence [strict] in C10_verify_sound. *)
Definition retag (c : pchild hterm) : pchild hterm := match c with CH x => CV x | CV x => CH x end.
Definition ex_honest : list (pnode2 hterm) := h_prove2 false ex_t (bits_of_Z 3 0).
Definition ex_bad : list (pnode2 hterm) :=
  match ex_honest with QBin l r :: rest => QBin (retag l) r :: rest | other => other end.

Theorem C10_verify2_value_tag_refuted :
  exists (t : node hterm) k ps x,
    canonb hterm hzero 3 t = true /\ length k = 3 /\
    erase_set hterm ps = erase_set hterm (set_of2 hterm heqb HP HB HA (prove2 hterm HP HB HA t k)) /\
    verify2_top hterm heqb HP HB HA (HC 0) (hash hterm HP HB HA t) k ps = Ok x /\
    x <> vz hterm (HC 0) (lookup hterm t k) /\
    verify2_strict hterm heqb HP HB HA (HC 0) (hash hterm HP HB HA t) k ps = Err.
Proof.
  exists ex_n, (bits_of_Z 3 0), (set_of2 hterm heqb HP HB HA ex_bad).
  eexists. vm_compute. repeat split; try reflexivity. discriminate.
Qed.
Print Assumptions C10_verify2_value_tag_refuted.
