(* C11 — byte level: byte strings, JSON values, and an executable JSON lexer / parser over bytes that
   transcribes what Go's encoding/json does for juno's JSON-RPC server (jsonrpc/server.go HandleReader:
   bufio window of 128 bytes + isBatch peek, json.Decoder with UseNumber, Decode of the FIRST value of the
   stream, everything after it ignored).

   Transcribed from encoding/json (go1.26, scanner.go / decode.go / stream.go):
   * white space = { ' ', '\t', '\r', '\n' } (isSpace);
   * numbers: -? (0 | [1-9][0-9]* ) (. [0-9]+)? ([eE] [+-]? [0-9]+)? with the scanner's commit behaviour
     (after '.', 'e', 'E', a sign: a digit MUST follow, there is no back-tracking: `1.x` is an error, while
     `01` is the value 0 followed by trailing data);  the literal is kept verbatim (json.Number);
   * strings: stateInString / stateInStringEsc / stateInStringEscU..U123 recognise the literal
     ([scan_string]); unquoteBytes decodes it ([unquote]): simple escapes, \uXXXX, surrogate pairs, a lone
     or ill-paired surrogate escape = U+FFFD, raw bytes >= 0x80 are decoded as UTF-8 exactly as
     utf8.DecodeRune does (table `first` / `acceptRanges`) and every byte that does not start a
     well-formed sequence becomes U+FFFD (EF BF BD);
   * arrays / objects: stateBeginValueOrEmpty / stateBeginStringOrEmpty / stateEndValue (no trailing comma,
     keys must be strings); members are kept in document order with duplicates (what the server's struct /
     map decoding makes of them is [decode_obj] / [remarshal] in Model.v);
   * nesting depth: pushParseState fails when more than 10000 containers are open ([max_depth]);
   * the Decoder returns the first value; a top-level scalar is ended by ANY following byte (stateEndTop
     complains "on the next call", which never happens): `nullx`, `1]`, `{}{}` are accepted;
   * isBatch: Peek(n) for n = 1, 2, .. through a 128-byte bufio.Reader: the first non-space byte decides, a
     Peek beyond the available bytes or beyond 128 fails and means "not a batch" ([is_batch]).

   No proofs in this file (Proofs_json*.v); everything here is extracted and run against the real decoder
   on every generated input.  Recursion is structural (on the bytes, or on an explicit fuel list for the
   value parser); accumulators keep the extracted OCaml tail-recursive on long literals. *)
From Coq Require Import String.
From Coq Require Import List Ascii Bool NArith Arith.
Import ListNotations.

(* ---------- byte strings ----------
   [str] is [list ascii] (not Coq's [string]: the extracted OCaml must not define a type called
   "string", oracle/common.ml is appended to it).  Literals are written L"..." and are computed to an
   explicit list of [Ascii] constructors at definition time. *)
Definition str := list ascii.
Notation "'L' s" := (ltac:(let v := eval compute in (String.list_ascii_of_string s%string) in exact v))
  (at level 0, s at level 0, only parsing).

Fixpoint list_eqb {A : Type} (eqb : A -> A -> bool) (l1 l2 : list A) : bool :=
  match l1, l2 with
  | [], [] => true
  | x :: r, y :: s => eqb x y && list_eqb eqb r s
  | _, _ => false
  end.

Definition str_eqb (a b : str) : bool := list_eqb Ascii.eqb a b.
Declare Scope str_scope.
Infix "=?" := str_eqb (at level 70) : str_scope.
Delimit Scope str_scope with str.
Open Scope str_scope.

Fixpoint str_compare (a b : str) : comparison :=
  match a, b with
  | [], [] => Eq
  | [], _ :: _ => Lt
  | _ :: _, [] => Gt
  | x :: a', y :: b' =>
      match N.compare (N_of_ascii x) (N_of_ascii y) with
      | Eq => str_compare a' b'
      | c => c
      end
  end.

(* ---------- JSON values as encoding/json (UseNumber) hands them over ---------- *)
Inductive json : Type :=
| JNull
| JBool (b : bool)
| JNum (s : str)                       (* the number literal, verbatim (json.Number) *)
| JStr (s : str)                       (* bytes after unquoting *)
| JArr (l : list json)
| JObj (kv : list (str * json)).       (* members in document order, duplicates kept *)

Fixpoint json_eqb (a b : json) {struct a} : bool :=
  match a, b with
  | JNull, JNull => true
  | JBool x, JBool y => Bool.eqb x y
  | JNum x, JNum y => x =? y
  | JStr x, JStr y => x =? y
  | JArr x, JArr y =>
      (fix go (x y : list json) {struct x} : bool :=
         match x, y with
         | [], [] => true
         | a' :: x', b' :: y' => json_eqb a' b' && go x' y'
         | _, _ => false
         end) x y
  | JObj x, JObj y =>
      (fix go (x y : list (str * json)) {struct x} : bool :=
         match x, y with
         | [], [] => true
         | (k, a') :: x', (k', b') :: y' => (k =? k') && json_eqb a' b' && go x' y'
         | _, _ => false
         end) x y
  | _, _ => false
  end.

Definition is_byte (c : ascii) (n : N) : bool := (N_of_ascii c =? n)%N.

(* ================= byte classes ================= *)
Definition in_range (c : ascii) (lo hi : N) : bool :=
  let n := N_of_ascii c in ((lo <=? n) && (n <=? hi))%N.

(* scanner.go isSpace *)
Definition is_ws (c : ascii) : bool :=
  is_byte c 32 || is_byte c 9 || is_byte c 13 || is_byte c 10.
Definition is_digit (c : ascii) : bool := in_range c 48 57.
Definition is_digit19 (c : ascii) : bool := in_range c 49 57.
Definition is_hex (c : ascii) : bool := in_range c 48 57 || in_range c 97 102 || in_range c 65 70.
Definition is_e (c : ascii) : bool := is_byte c 101 || is_byte c 69.
Definition is_sign (c : ascii) : bool := is_byte c 43 || is_byte c 45.

Fixpoint skip_ws (bs : str) : str :=
  match bs with
  | c :: r => if is_ws c then skip_ws r else bs
  | [] => []
  end.

(* reverse of an accumulator (tail recursive) *)
Definition rev' {A : Type} (l : list A) : list A := rev_append l [].

(* ================= numbers =================
   Every function takes the bytes consumed so far (reversed) and returns (consumed reversed, rest). *)
Fixpoint scan_digits (acc bs : str) : str * str :=
  match bs with
  | c :: r => if is_digit c then scan_digits (c :: acc) r else (acc, bs)
  | [] => (acc, [])
  end.

(* stateDot / stateESign: at least one digit must follow *)
Definition scan_digits1 (acc bs : str) : option (str * str) :=
  match bs with
  | c :: r => if is_digit c then Some (scan_digits (c :: acc) r) else None
  | [] => None
  end.

(* state0 / stateDot0 on 'e' / 'E'; stateE; stateESign; stateE0 *)
Definition scan_exp (acc bs : str) : option (str * str) :=
  match bs with
  | c :: r =>
      if is_e c then
        match r with
        | s :: r' => if is_sign s then scan_digits1 (s :: c :: acc) r' else scan_digits1 (c :: acc) r
        | [] => None
        end
      else Some (acc, bs)
  | [] => Some (acc, [])
  end.

(* state0 on '.'; stateDot; stateDot0 *)
Definition scan_frac (acc bs : str) : option (str * str) :=
  match bs with
  | c :: r =>
      if is_byte c 46 then
        match scan_digits1 (c :: acc) r with
        | Some (acc', r') => scan_exp acc' r'
        | None => None
        end
      else scan_exp acc bs
  | [] => Some (acc, [])
  end.

(* stateBeginValue on '0' / '1'..'9' (also stateNeg); state1 *)
Definition scan_int (acc bs : str) : option (str * str) :=
  match bs with
  | c :: r =>
      if is_byte c 48 then scan_frac (c :: acc) r
      else if is_digit19 c then let (acc', r') := scan_digits (c :: acc) r in scan_frac acc' r'
      else None
  | [] => None
  end.

Definition fin_num (x : option (str * str)) : option (str * str) :=
  match x with
  | Some (acc, r) => Some (rev' acc, r)
  | None => None
  end.

(* the number literal at the head of [bs] and what follows it; None = the scanner reports an error *)
Definition lex_number (bs : str) : option (str * str) :=
  match bs with
  | c :: r => if is_byte c 45 then fin_num (scan_int [c] r) else fin_num (scan_int [] bs)
  | [] => None
  end.

(* a complete byte string is a JSON number literal *)
Definition number_ok (s : str) : bool :=
  match lex_number s with
  | Some (_, []) => true
  | _ => false
  end.

(* what may follow a number literal without being absorbed into it / changing the verdict *)
Definition number_delim (rest : str) : bool :=
  match rest with
  | [] => true
  | c :: _ => negb (is_digit c || is_byte c 46 || is_e c)
  end.

(* ================= UTF-8 (unicode/utf8 DecodeRune: tables first / acceptRanges) =================
   length of the well-formed sequence at the head of [bs]; 0 = the head byte does not start one *)
Definition utf8_len (bs : str) : nat :=
  match bs with
  | [] => 0
  | a :: r =>
      let x := N_of_ascii a in
      if (x <? 128)%N then 1
      else if (x <? 194)%N then 0                                   (* 80..C1: continuation / overlong lead *)
      else if (x <? 224)%N then                                     (* C2..DF *)
        match r with
        | b :: _ => if in_range b 128 191 then 2 else 0
        | _ => 0
        end
      else if (x <? 240)%N then                                     (* E0..EF; E0: A0..BF, ED: 80..9F *)
        match r with
        | b :: c :: _ =>
            if in_range b (if (x =? 224)%N then 160 else 128) (if (x =? 237)%N then 159 else 191)
               && in_range c 128 191 then 3 else 0
        | _ => 0
        end
      else if (x <? 245)%N then                                     (* F0..F4; F0: 90..BF, F4: 80..8F *)
        match r with
        | b :: c :: d :: _ =>
            if in_range b (if (x =? 240)%N then 144 else 128) (if (x =? 244)%N then 143 else 191)
               && in_range c 128 191 && in_range d 128 191 then 4 else 0
        | _ => 0
        end
      else 0                                                        (* F5..FF *)
  end.

(* the whole byte string is well-formed UTF-8 ([skip] bytes of the current sequence still to be passed) *)
Fixpoint utf8_ok_from (skip : nat) (bs : str) : bool :=
  match bs with
  | [] => true
  | _ :: r =>
      match skip with
      | S k => utf8_ok_from k r
      | O => match utf8_len bs with
             | O => false
             | S k => utf8_ok_from k r
             end
      end
  end.
Definition utf8_ok (s : str) : bool := utf8_ok_from 0 s.

Definition byte_of (n : N) : ascii := ascii_of_N n.

(* utf8.EncodeRune for a scalar value *)
Definition utf8_encode (cp : N) : str :=
  (if cp <? 128 then [byte_of cp]
   else if cp <? 2048 then [byte_of (192 + cp / 64); byte_of (128 + cp mod 64)]
   else if cp <? 65536 then [byte_of (224 + cp / 4096); byte_of (128 + (cp / 64) mod 64); byte_of (128 + cp mod 64)]
   else [byte_of (240 + cp / 262144); byte_of (128 + (cp / 4096) mod 64); byte_of (128 + (cp / 64) mod 64);
         byte_of (128 + cp mod 64)])%N.

Definition repl : str := [byte_of 239; byte_of 191; byte_of 189].     (* U+FFFD *)

(* ================= strings ================= *)
Definition hexval (c : ascii) : N :=
  let n := N_of_ascii c in
  (if n <=? 57 then n - 48 else if 97 <=? n then n - 87 else n - 55)%N.

Definition hex4 (h1 h2 h3 h4 : ascii) : N :=
  (((hexval h1 * 16 + hexval h2) * 16 + hexval h3) * 16 + hexval h4)%N.

(* stateInStringEsc: b f n r t backslash slash quote (u is handled apart); the byte the escape stands for *)
Definition simple_escape (e : ascii) : option ascii :=
  let n := N_of_ascii e in
  (if n =? 34 then Some e
   else if n =? 92 then Some e
   else if n =? 47 then Some e
   else if n =? 98 then Some (byte_of 8)
   else if n =? 102 then Some (byte_of 12)
   else if n =? 110 then Some (byte_of 10)
   else if n =? 114 then Some (byte_of 13)
   else if n =? 116 then Some (byte_of 9)
   else None)%N.

(* the scanner over a string literal, called after the opening quote: (raw body, rest after the closing
   quote); None = error (control character, bad escape, end of input) *)
Fixpoint scan_string (acc bs : str) : option (str * str) :=
  match bs with
  | [] => None
  | c :: r =>
      if is_byte c 34 then Some (rev' acc, r)
      else if is_byte c 92 then
        match r with
        | e :: r1 =>
            if is_byte e 117 then
              match r1 with
              | h1 :: h2 :: h3 :: h4 :: r2 =>
                  if is_hex h1 && is_hex h2 && is_hex h3 && is_hex h4
                  then scan_string (h4 :: h3 :: h2 :: h1 :: e :: c :: acc) r2
                  else None
              | _ => None
              end
            else match simple_escape e with
                 | Some _ => scan_string (e :: c :: acc) r1
                 | None => None
                 end
        | [] => None
        end
      else if (N_of_ascii c <? 32)%N then None
      else scan_string (c :: acc) r
  end.

(* unquoteBytes, after a \uXXXX escape with a surrogate value [cp]: utf16.DecodeRune(cp, getu4(rest)) *)
Definition pair_after (cp : N) (r : str) : option N :=
  if (cp <? 56320)%N then                                           (* high surrogate D800..DBFF *)
    match r with
    | b :: u :: g1 :: g2 :: g3 :: g4 :: _ =>
        if is_byte b 92 && is_byte u 117 && is_hex g1 && is_hex g2 && is_hex g3 && is_hex g4 then
          let lo := hex4 g1 g2 g3 g4 in
          if (56320 <=? lo)%N && (lo <? 57344)%N
          then Some (65536 + (cp - 55296) * 1024 + (lo - 56320))%N
          else None
        else None
    | _ => None
    end
  else None.

(* one item of a literal's body: (decoded bytes, number of raw bytes it occupies (>= 1)).  The cases marked
   "unreachable" cannot occur in a body accepted by [scan_string]. *)
Definition unq_step (bs : str) : str * nat :=
  match bs with
  | [] => ([], 1)
  | c :: r =>
      if is_byte c 92 then
        match r with
        | e :: r1 =>
            if is_byte e 117 then
              match r1 with
              | h1 :: h2 :: h3 :: h4 :: r2 =>
                  if is_hex h1 && is_hex h2 && is_hex h3 && is_hex h4 then    (* getu4 *)
                    let cp := hex4 h1 h2 h3 h4 in
                    if (55296 <=? cp)%N && (cp <? 57344)%N then        (* utf16.IsSurrogate *)
                      match pair_after cp r2 with
                      | Some cp' => (utf8_encode cp', 12)               (* a valid pair: consume both *)
                      | None => (repl, 6)                               (* lone / ill-paired: U+FFFD *)
                      end
                    else (utf8_encode cp, 6)
                  else ([], 1)                                          (* unreachable *)
              | _ => ([], 1)                                            (* unreachable *)
              end
            else match simple_escape e with
                 | Some x => ([x], 2)
                 | None => ([], 1)                                      (* unreachable *)
                 end
        | [] => ([], 1)                                                 (* unreachable *)
        end
      else if (N_of_ascii c <? 128)%N then ([c], 1)
      else match utf8_len bs with
           | O => (repl, 1)                                             (* coerce to well-formed UTF-8 *)
           | k => (firstn k bs, k)                                      (* DecodeRune + EncodeRune = copy *)
           end
  end.

Fixpoint unq (skip : nat) (acc bs : str) : str :=
  match bs with
  | [] => rev' acc
  | _ :: r =>
      match skip with
      | S k => unq k acc r
      | O => let (d, k) := unq_step bs in unq (pred k) (rev_append d acc) r
      end
  end.

Definition unquote (body : str) : str := unq 0 [] body.

(* after the opening quote: (decoded string, rest after the closing quote) *)
Definition lex_string (bs : str) : option (str * str) :=
  match scan_string [] bs with
  | Some (body, r) => Some (unquote body, r)
  | None => None
  end.

(* ================= values ================= *)
Definition max_depth : nat := N.to_nat 10000.          (* scanner.go maxNestingDepth *)

Inductive pres : Type :=
| POk (v : json) (rest : str)
| PBad                                                  (* the scanner reports an error / end of input *)
| PFuel.                                                (* never returned when fuel >= 2 * length + 2 *)

Fixpoint lit_rest (lit bs : str) : option str :=
  match lit with
  | [] => Some bs
  | x :: lit' => match bs with
                 | c :: r => if Ascii.eqb x c then lit_rest lit' r else None
                 | [] => None
                 end
  end.

Definition fuel := list unit.

(* [d] = how many more containers may be opened *)
Fixpoint p_value (f : fuel) (d : nat) (bs : str) {struct f} : pres :=
  match f with
  | [] => PFuel
  | _ :: f' =>
      match skip_ws bs with
      | [] => PBad
      | c :: r =>
          if is_byte c 34 then
            match lex_string r with
            | Some (s, r') => POk (JStr s) r'
            | None => PBad
            end
          else if is_byte c 91 then                                 (* '[' *)
            match d with
            | O => PBad                                             (* exceeded max depth *)
            | S d' =>
                match skip_ws r with
                | c2 :: r2 => if is_byte c2 93 then POk (JArr []) r2 else p_elems f' d' [] r
                | [] => PBad
                end
            end
          else if is_byte c 123 then                                (* '{' *)
            match d with
            | O => PBad
            | S d' =>
                match skip_ws r with
                | c2 :: r2 => if is_byte c2 125 then POk (JObj []) r2 else p_members f' d' [] r
                | [] => PBad
                end
            end
          else if is_byte c 110 then
            match lit_rest L"ull" r with Some r' => POk JNull r' | None => PBad end
          else if is_byte c 116 then
            match lit_rest L"rue" r with Some r' => POk (JBool true) r' | None => PBad end
          else if is_byte c 102 then
            match lit_rest L"alse" r with Some r' => POk (JBool false) r' | None => PBad end
          else
            match lex_number (c :: r) with
            | Some (s, r') => POk (JNum s) r'
            | None => PBad
            end
      end
  end
(* after '[' or ',': a value, then ',' or ']' *)
with p_elems (f : fuel) (d : nat) (acc : list json) (bs : str) {struct f} : pres :=
  match f with
  | [] => PFuel
  | _ :: f' =>
      match p_value f' d bs with
      | POk v r =>
          match skip_ws r with
          | c :: r' =>
              if is_byte c 44 then p_elems f' d (v :: acc) r'
              else if is_byte c 93 then POk (JArr (rev' (v :: acc))) r'
              else PBad
          | [] => PBad
          end
      | PBad => PBad
      | PFuel => PFuel
      end
  end
(* after '{' or ',': a string, ':', a value, then ',' or '}' *)
with p_members (f : fuel) (d : nat) (acc : list (str * json)) (bs : str) {struct f} : pres :=
  match f with
  | [] => PFuel
  | _ :: f' =>
      match skip_ws bs with
      | q :: r =>
          if is_byte q 34 then
            match lex_string r with
            | Some (k, r1) =>
                match skip_ws r1 with
                | c :: r2 =>
                    if is_byte c 58 then
                      match p_value f' d r2 with
                      | POk v r3 =>
                          match skip_ws r3 with
                          | c' :: r4 =>
                              if is_byte c' 44 then p_members f' d ((k, v) :: acc) r4
                              else if is_byte c' 125 then POk (JObj (rev' ((k, v) :: acc))) r4
                              else PBad
                          | [] => PBad
                          end
                      | PBad => PBad
                      | PFuel => PFuel
                      end
                    else PBad
                | [] => PBad
                end
            | None => PBad
            end
          else PBad
      | [] => PBad
      end
  end.

(* 2 * length + 2 units, tail recursive *)
Fixpoint fuel_for_acc (acc : fuel) (bs : str) : fuel :=
  match bs with
  | [] => tt :: tt :: acc
  | _ :: r => fuel_for_acc (tt :: tt :: acc) r
  end.
Definition fuel_for (bs : str) : fuel := fuel_for_acc [] bs.

(* dec.Decode: the first value of the stream and the bytes after it; None = Decode returns a syntax error
   (invalid bytes, unexpected end, nesting deeper than 10000) *)
Definition parse_first (bs : str) : option (json * str) :=
  match p_value (fuel_for bs) max_depth bs with
  | POk v r => Some (v, r)
  | _ => None
  end.

Definition parse (bs : str) : option json := option_map fst (parse_first bs).

(* ================= isBatch =================
   [n] = how many more bytes the 128-byte bufio window lets Peek reach *)
Fixpoint is_batch_w (n : nat) (bs : str) : bool :=
  match n, bs with
  | S n', c :: r => if is_ws c then is_batch_w n' r else is_byte c 91
  | _, _ => false
  end.

Definition batch_window : nat := 128.                     (* jsonrpc/server.go bufferSize *)
Definition is_batch (bs : str) : bool := is_batch_w batch_window bs.

(* ================= printing =================
   JSON texts as trees: a value of the RFC 8259 grammar together with the insignificant white space at
   every place the grammar allows it, numbers and string bodies as written.  [print_wsj] is the text,
   [erase] the value it denotes. *)
Inductive wsj : Type :=
| WNull | WTrue | WFalse
| WNum (s : str)
| WStr (body : str)
| WArr (w : str) (elems : list (str * wsj * str))                               (* [ w  a v b , a v b ... ] *)
| WObj (w : str) (mems : list ((str * str * str) * (str * wsj * str))).          (* { w  a "k" b : c v d , ... } *)

Fixpoint join_with (sep : ascii) (l : list str) : str :=
  match l with
  | [] => []
  | [x] => x
  | x :: r => x ++ sep :: join_with sep r
  end.

Definition q34 : ascii := byte_of 34.

Fixpoint print_wsj (t : wsj) : str :=
  match t with
  | WNull => L"null"
  | WTrue => L"true"
  | WFalse => L"false"
  | WNum s => s
  | WStr body => q34 :: body ++ [q34]
  | WArr w es =>
      byte_of 91 :: w ++
      join_with (byte_of 44) (map (fun e : str * wsj * str => fst (fst e) ++ print_wsj (snd (fst e)) ++ snd e) es)
      ++ [byte_of 93]
  | WObj w ms =>
      byte_of 123 :: w ++
      join_with (byte_of 44)
        (map (fun m : (str * str * str) * (str * wsj * str) =>
                fst (fst (fst m)) ++ q34 :: snd (fst (fst m)) ++ q34 :: snd (fst m) ++ byte_of 58 ::
                fst (fst (snd m)) ++ print_wsj (snd (fst (snd m))) ++ snd (snd m)) ms)
      ++ [byte_of 125]
  end.

Fixpoint erase (t : wsj) : json :=
  match t with
  | WNull => JNull
  | WTrue => JBool true
  | WFalse => JBool false
  | WNum s => JNum s
  | WStr body => JStr (unquote body)
  | WArr _ es => JArr (map (fun e : str * wsj * str => erase (snd (fst e))) es)
  | WObj _ ms =>
      JObj (map (fun m : (str * str * str) * (str * wsj * str) =>
                   (unquote (snd (fst (fst m))), erase (snd (fst (snd m))))) ms)
  end.

Definition all_ws (w : str) : bool := forallb is_ws w.

(* the body of a string literal as the scanner accepts it *)
Definition body_ok (body : str) : bool :=
  match scan_string [] (body ++ [q34]) with
  | Some (b, []) => list_eqb Ascii.eqb b body
  | _ => false
  end.

(* a text of the grammar nested at most [d] deep *)
Fixpoint wsj_ok (d : nat) (t : wsj) {struct t} : bool :=
  match t with
  | WNull | WTrue | WFalse => true
  | WNum s => number_ok s
  | WStr body => body_ok body
  | WArr w es =>
      match d with
      | O => false
      | S d' => all_ws w &&
                forallb (fun e : str * wsj * str => all_ws (fst (fst e)) && wsj_ok d' (snd (fst e)) && all_ws (snd e)) es
      end
  | WObj w ms =>
      match d with
      | O => false
      | S d' => all_ws w &&
                forallb (fun m : (str * str * str) * (str * wsj * str) =>
                           all_ws (fst (fst (fst m))) && body_ok (snd (fst (fst m))) && all_ws (snd (fst m))
                           && all_ws (fst (fst (snd m))) && wsj_ok d' (snd (fst (snd m))) && all_ws (snd (snd m))) ms
      end
  end.

(* the canonical printer: no white space, strings with the minimal escaping *)
Definition hexdig (n : N) : ascii := byte_of (if n <? 10 then 48 + n else 87 + n)%N.

Definition quote_byte (c : ascii) : str :=
  let n := N_of_ascii c in
  if (n =? 34)%N || (n =? 92)%N then [byte_of 92; c]
  else if (n <? 32)%N then [byte_of 92; byte_of 117; byte_of 48; byte_of 48; hexdig (n / 16); hexdig (n mod 16)]
  else [c].

Definition quote_body (s : str) : str := flat_map quote_byte s.

Fixpoint bare (v : json) : wsj :=
  match v with
  | JNull => WNull
  | JBool true => WTrue
  | JBool false => WFalse
  | JNum s => WNum s
  | JStr s => WStr (quote_body s)
  | JArr l => WArr [] (map (fun x => ([], bare x, [])) l)
  | JObj kvs => WObj [] (map (fun kv : str * json => (([], quote_body (fst kv), []), ([], bare (snd kv), []))) kvs)
  end.

Definition print (v : json) : str := print_wsj (bare v).

(* the values the parser can produce: number literals of the grammar, well-formed UTF-8 strings and member
   names, at most [d] levels of containers *)
Fixpoint json_wf (d : nat) (v : json) {struct v} : bool :=
  match v with
  | JNull | JBool _ => true
  | JNum s => number_ok s
  | JStr s => utf8_ok s
  | JArr l => match d with O => false | S d' => forallb (json_wf d') l end
  | JObj kvs => match d with O => false | S d' => forallb (fun kv : str * json => utf8_ok (fst kv) && json_wf d' (snd kv)) kvs end
  end.

(* ================= the grammars, declaratively (specification only; Proofs_json*.v relate the functions
   above to them) ================= *)
Definition digits (s : str) : Prop := forallb is_digit s = true.

(* RFC 8259 section 6:  number = [ minus ] int [ frac ] [ exp ] *)
Inductive IntPart : str -> Prop :=
| ip_zero c : is_byte c 48 = true -> IntPart [c]                                      (* zero *)
| ip_nz c ds : is_digit19 c = true -> digits ds -> IntPart (c :: ds).                 (* digit1-9 *DIGIT *)
Inductive FracPart : str -> Prop :=
| fp_none : FracPart []
| fp_some p d ds : is_byte p 46 = true -> is_digit d = true -> digits ds -> FracPart (p :: d :: ds).
Inductive ExpPart : str -> Prop :=
| ep_none : ExpPart []
| ep_unsigned e d ds : is_e e = true -> is_digit d = true -> digits ds -> ExpPart (e :: d :: ds)
| ep_signed e s d ds : is_e e = true -> is_sign s = true -> is_digit d = true -> digits ds ->
                       ExpPart (e :: s :: d :: ds).
Inductive Number : str -> Prop :=
| num_pos i f e : IntPart i -> FracPart f -> ExpPart e -> Number (i ++ f ++ e)
| num_neg m i f e : is_byte m 45 = true -> IntPart i -> FracPart f -> ExpPart e -> Number (m :: i ++ f ++ e).

(* RFC 8259 section 7 as encoding/json's scanner implements it: the body of a string literal is a sequence of
   bytes other than the quote, the backslash and the control characters below 0x20 (bytes >= 0x80 are not
   looked at by the scanner), two-character escapes, and \u followed by four hexadecimal digits *)
Inductive StrBody : str -> Prop :=
| sb_nil : StrBody []
| sb_plain c r : is_byte c 34 = false -> is_byte c 92 = false -> (32 <= N_of_ascii c)%N -> StrBody r -> StrBody (c :: r)
| sb_esc b e x r : is_byte b 92 = true -> simple_escape e = Some x -> StrBody r -> StrBody (b :: e :: r)
| sb_u b u h1 h2 h3 h4 r : is_byte b 92 = true -> is_byte u 117 = true ->
    is_hex h1 = true -> is_hex h2 = true -> is_hex h3 = true -> is_hex h4 = true ->
    StrBody r -> StrBody (b :: u :: h1 :: h2 :: h3 :: h4 :: r).

(* well-formed UTF-8: Unicode 15 table 3-7 *)
Inductive Utf8Seq : str -> Prop :=
| us1 a : (N_of_ascii a < 128)%N -> Utf8Seq [a]
| us2 a b : (194 <= N_of_ascii a <= 223)%N -> (128 <= N_of_ascii b <= 191)%N -> Utf8Seq [a; b]
| us3 a b c :
    ((N_of_ascii a = 224 /\ 160 <= N_of_ascii b <= 191) \/
     (225 <= N_of_ascii a <= 236 /\ 128 <= N_of_ascii b <= 191) \/
     (N_of_ascii a = 237 /\ 128 <= N_of_ascii b <= 159) \/
     (238 <= N_of_ascii a <= 239 /\ 128 <= N_of_ascii b <= 191))%N ->
    (128 <= N_of_ascii c <= 191)%N -> Utf8Seq [a; b; c]
| us4 a b c d :
    ((N_of_ascii a = 240 /\ 144 <= N_of_ascii b <= 191) \/
     (241 <= N_of_ascii a <= 243 /\ 128 <= N_of_ascii b <= 191) \/
     (N_of_ascii a = 244 /\ 128 <= N_of_ascii b <= 143))%N ->
    (128 <= N_of_ascii c <= 191)%N -> (128 <= N_of_ascii d <= 191)%N -> Utf8Seq [a; b; c; d].

Inductive Utf8 : str -> Prop :=
| u_nil : Utf8 []
| u_cons q s : Utf8Seq q -> Utf8 s -> Utf8 (q ++ s).

Definition is_surrogate (cp : N) : bool := ((55296 <=? cp) && (cp <? 57344))%N.


(* utf8.DecodeRune on a well-formed sequence: the scalar value it encodes.  [unq_step] copies such a sequence
   instead of decoding and re-encoding it; Proofs_json_utf8.utf8_reencode shows the two are the same. *)
Definition utf8_decode_seq (q : str) : N :=
  match q with
  | [a] => N_of_ascii a
  | [a; b] => (N_of_ascii a - 192) * 64 + (N_of_ascii b - 128)
  | [a; b; c] => ((N_of_ascii a - 224) * 64 + (N_of_ascii b - 128)) * 64 + (N_of_ascii c - 128)
  | [a; b; c; d] =>
      (((N_of_ascii a - 240) * 64 + (N_of_ascii b - 128)) * 64 + (N_of_ascii c - 128)) * 64 + (N_of_ascii d - 128)
  | _ => 0
  end%N.
