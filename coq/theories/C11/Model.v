(* C11 — executable model of juno's JSON-RPC server (jsonrpc/server.go) on the parsed-JSON level, and the
   JSON-RPC 2.0 reading of the property text ([spec_handle] + the predicates [resp_wellformed],
   [resp_correlated], [codes], [calls_once]).
   [handle]       : literal transcription of HandleReader / handleBatchRequest / handleRequest / isSane /
                    buildArguments (+ the part of encoding/json's struct decoding that decides which members of a
                    request object the server sees: case-folded member names, duplicate members, `null` into a
                    string field is a no-op, ill-typed jsonrpc/method = decode error).
   [spec_handle]  : what JSON-RPC 2.0 prescribes for the same parsed input.
   Abstract (arguments after the section closes): coercion of a JSON value into a handler parameter type
   [coerce], the zero value of a type [zero], the handlers' outcome [run].  Concrete instances used by the
   oracle and by the vm_compute witnesses: [coerce_go], [zero_go], [run_echo].
   No proofs in this file; it is extracted to OCaml and run against the Go code. *)
From Coq Require Import String.
From Coq Require Import List Ascii Bool NArith ZArith Decimal.
From V Require Export C11.Json.      (* byte strings, the JSON AST, the byte-level lexer / parser *)
Import ListNotations.
Open Scope str_scope.

(* ---------- json.Marshal of a value decoded into `any` ----------
   objects become map[string]any: the last duplicate of a key wins, keys are written sorted bytewise *)
Fixpoint lookup_last (k : str) (kvs : list (str * json)) : option json :=
  match kvs with
  | [] => None
  | (k', v) :: r =>
      match lookup_last k r with
      | Some x => Some x
      | None => if k =? k' then Some v else None
      end
  end.

Fixpoint dedup_last (kvs : list (str * json)) : list (str * json) :=
  match kvs with
  | [] => []
  | (k, v) :: r => match lookup_last k r with
                   | Some _ => dedup_last r
                   | None => (k, v) :: dedup_last r
                   end
  end.

Fixpoint insert_sorted (kv : str * json) (l : list (str * json)) : list (str * json) :=
  match l with
  | [] => [kv]
  | kv' :: r => match str_compare (fst kv) (fst kv') with
                | Gt => kv' :: insert_sorted kv r
                | _ => kv :: l
                end
  end.

Definition sort_keys (kvs : list (str * json)) : list (str * json) :=
  fold_right insert_sorted [] kvs.

Fixpoint remarshal (j : json) : json :=
  match j with
  | JArr l => JArr (map remarshal l)
  | JObj kvs => JObj (sort_keys (dedup_last (map (fun kv : str * json => let (k, v) := kv in (k, remarshal v)) kvs)))
  | _ => j
  end.

(* ---------- multisets as lists ---------- *)
Fixpoint remove_first {A : Type} (eqb : A -> A -> bool) (x : A) (l : list A) : option (list A) :=
  match l with
  | [] => None
  | y :: r => if eqb x y then Some r else option_map (cons y) (remove_first eqb x r)
  end.

Fixpoint multiset_eqb {A : Type} (eqb : A -> A -> bool) (l1 l2 : list A) : bool :=
  match l1 with
  | [] => match l2 with [] => true | _ => false end
  | x :: r => match remove_first eqb x l2 with
              | Some l2' => multiset_eqb eqb r l2'
              | None => false
              end
  end.

(* ---------- encoding/json member-name matching (fold.go: foldName) ----------
   ASCII letters are upper-cased; the only non-ASCII runes whose fold set contains an ASCII letter are
   U+017F (long s, bytes C5 BF) -> S and U+212A (Kelvin sign, bytes E2 84 AA) -> K.  Other runes fold
   among non-ASCII runes and can never match the (ASCII) member names of Request. *)
Definition upper (c : ascii) : ascii :=
  let n := N_of_ascii c in
  if (97 <=? n)%N && (n <=? 122)%N then ascii_of_N (n - 32) else c.

Fixpoint fold_key (s : str) : str :=
  match s with
  | [] => []
  | c :: r =>
      match r with
      | d :: r' =>
          if is_byte c 197 && is_byte d 191 then "S"%char :: fold_key r'
          else match r' with
               | e :: r'' =>
                   if is_byte c 226 && is_byte d 132 && is_byte e 170 then "K"%char :: fold_key r''
                   else upper c :: fold_key r
               | [] => upper c :: fold_key r
               end
      | [] => [upper c]
      end
  end.

(* ---------- Request as decoded by dec.Decode(req) ---------- *)
Record dreq := mk_dreq {
  d_version : str;       (* Request.Version *)
  d_method : str;        (* Request.Method *)
  d_params : json;          (* Request.Params; JNull = Go nil (absent or null) *)
  d_id : json;              (* Request.ID; JNull = Go nil (absent or null) *)
  d_idpresent : bool;       (* not visible to the code: an id member occurred (the spec needs it) *)
  d_typeerr : bool          (* an UnmarshalTypeError was saved: Decode returns an error *)
}.

Definition dreq0 : dreq := mk_dreq L"" L"" JNull JNull false false.

Inductive field := FVersion | FMethod | FParams | FId.

Definition field_of_key (k : str) : option field :=
  let f := fold_key k in
  if f =? L"JSONRPC" then Some FVersion
  else if f =? L"METHOD" then Some FMethod
  else if f =? L"PARAMS" then Some FParams
  else if f =? L"ID" then Some FId
  else None.

(* decoding a JSON value into a Go string field: a string sets, null is a no-op, anything else is a
   saved UnmarshalTypeError (decoding continues, Decode finally returns the error) *)
Definition store_string (old : str) (v : json) : str * bool :=
  match v with
  | JStr s => (s, false)
  | JNull => (old, false)
  | _ => (old, true)
  end.

Definition decode_step (d : dreq) (kv : str * json) : dreq :=
  let (k, v) := kv in
  match field_of_key k with
  | Some FVersion =>
      let (s, e) := store_string (d_version d) v in
      mk_dreq s (d_method d) (d_params d) (d_id d) (d_idpresent d) (d_typeerr d || e)
  | Some FMethod =>
      let (s, e) := store_string (d_method d) v in
      mk_dreq (d_version d) s (d_params d) (d_id d) (d_idpresent d) (d_typeerr d || e)
  | Some FParams => mk_dreq (d_version d) (d_method d) v (d_id d) (d_idpresent d) (d_typeerr d)
  | Some FId => mk_dreq (d_version d) (d_method d) (d_params d) v true (d_typeerr d)
  | None => d
  end.

Definition decode_obj (kvs : list (str * json)) : dreq := fold_left decode_step kvs dreq0.

(* None = Decode returned an error *)
Definition decode_request (j : json) : option dreq :=
  match j with
  | JNull => Some dreq0                    (* null into a struct: no-op, no error *)
  | JObj kvs => let d := decode_obj kvs in if d_typeerr d then None else Some d
  | _ => None                              (* UnmarshalTypeError *)
  end.

(* ---------- isSane ---------- *)
Inductive sanity := SaneOk | SaneErr | SaneErrId.

Fixpoint contains_dot (s : str) : bool :=
  match s with
  | [] => false
  | c :: r => is_byte c 46 || contains_dot r
  end.

Definition is_sane (d : dreq) : sanity :=
  if negb (d_version d =? L"2.0") then SaneErr
  else if d_method d =? L"" then SaneErr
  else match d_params d with
       | JNull | JArr _ | JObj _ =>
           match d_id d with
           | JNull | JStr _ => SaneOk
           | JNum s => if contains_dot s then SaneErrId else SaneOk
           | _ => SaneErrId
           end
       | _ => SaneErr
       end.

(* ---------- method table ---------- *)
Inductive ty := TInt | TStr | TBool | TStruct | TOptInt.

Record param := mk_param { p_name : str; p_optional : bool; p_ty : ty }.
Record method := mk_method { m_name : str; m_params : list param }.
Definition methods := list method.

Definition find_method (ms : methods) (name : str) : option method :=
  find (fun m => m_name m =? name) ms.

Definition call := (str * list json)%type.       (* handler name, bound arguments *)
Definition call_eqb (a b : call) : bool := (fst a =? fst b) && list_eqb json_eqb (snd a) (snd b).

Inductive hout := HOk (v : json) | HErr (code msg : str).

(* ---------- responses ---------- *)
Definition mk_result (id res : json) : json :=
  JObj [(L"jsonrpc", JStr L"2.0"); (L"result", res); (L"id", id)].
Definition mk_error (id : json) (code msg : str) : json :=
  JObj [(L"jsonrpc", JStr L"2.0"); (L"error", JObj [(L"code", JNum code); (L"message", JStr msg)]); (L"id", id)].

Definition parse_error : json := mk_error JNull L"-32700" L"Parse error".
Definition invalid_request (id : json) : json := mk_error id L"-32600" L"Invalid Request".
Definition method_not_found (id : json) : json := mk_error id L"-32601" L"Method Not Found".
Definition invalid_params (id : json) : json := mk_error id L"-32602" L"Invalid Params".

Definition resp_of (id : json) (o : hout) : json :=
  match o with
  | HOk v => mk_result id v
  | HErr c m => mk_error id c m
  end.

Definition remove_key (k : str) (kvs : list (str * json)) : list (str * json) :=
  filter (fun kv => negb (fst kv =? k)) kvs.

Definition required_count (ps : list param) : nat :=
  List.length (filter (fun p => negb (p_optional p)) ps).

(* optional parameters form a tail of the parameter list (every method of juno's RPC tables does) *)
Fixpoint optional_tail (ps : list param) : bool :=
  match ps with
  | [] => true
  | p :: r => if p_optional p then forallb p_optional r else optional_tail r
  end.

Definition nil_or_empty (j : json) : bool :=
  match j with
  | JNull | JArr [] | JObj [] => true
  | _ => false
  end.

Definition opt_cons {A : Type} (x : A) (o : option (list A)) : option (list A) := option_map (cons x) o.

Definition is_null (j : json) : bool := match j with JNull => true | _ => false end.
Definition is_arr (j : json) : bool := match j with JArr _ => true | _ => false end.

Record input := mk_input {
  i_bracket : bool;            (* isBatch: the first non-space byte is '[' *)
  i_parsed : option json       (* None = encoding/json rejects the bytes *)
}.

(* JSON grammar (trusted with encoding/json): if the first non-space byte is '[' and the bytes parse, the
   value is an array *)
Definition grammar_ok (inp : input) : bool :=
  match i_parsed inp with
  | Some j => implb (i_bracket inp) (is_arr j)
  | None => true
  end.

(* isBatch looks for the first non-space byte through a 128-byte bufio window (Peek fails beyond it):
   an array preceded by 128 or more white-space bytes is not recognised as a batch *)
Definition dev_batch_window (inp : input) : bool :=
  match i_parsed inp with
  | Some (JArr _) => negb (i_bracket inp)
  | _ => false
  end.

Definition consistent (inp : input) : bool := grammar_ok inp && negb (dev_batch_window inp).

(* HandleReader's view of the bytes of a request (Json.v): isBatch's verdict on them and the first JSON
   value of the stream as the decoder reads it *)
Definition input_of_bytes (bs : str) : input := mk_input (is_batch bs) (parse bs).

Definition somes {A : Type} (l : list (option A)) : list A :=
  flat_map (fun o => match o with Some x => [x] | None => [] end) l.

Definition batch_out (rs : list (list call * option json)) : list call * option json :=
  (flat_map fst rs,
   match somes (map snd rs) with
   | [] => None
   | l => Some (JArr l)
   end).

Section Server.
  Variable coerce : ty -> json -> option json.     (* parseParam: marshal, unmarshal into the type, validate *)
  Variable zero : ty -> json.                      (* reflect.New(t).Elem() *)
  Variable run : str -> list json -> hout.      (* the registered handler *)

  (* ---------- buildArguments ---------- *)
  Fixpoint bind_pos (ps : list param) (vs : list json) : option (list json) :=
    match ps, vs with
    | [], [] => Some []
    | [], _ :: _ => None
    | p :: ps', [] => opt_cons (zero (p_ty p)) (bind_pos ps' [])
    | p :: ps', v :: vs' =>
        match coerce (p_ty p) v with
        | Some a => opt_cons a (bind_pos ps' vs')
        | None => None
        end
    end.

  Fixpoint bind_named (ps : list param) (kvs : list (str * json)) : option (list json) :=
    match ps with
    | [] => match kvs with [] => Some [] | _ :: _ => None end       (* L"unexpected params" *)
    | p :: ps' =>
        match lookup_last (p_name p) kvs with
        | Some v =>
            match coerce (p_ty p) v with
            | Some a => opt_cons a (bind_named ps' (remove_key (p_name p) kvs))
            | None => None
            end
        | None =>
            if p_optional p then opt_cons (zero (p_ty p)) (bind_named ps' kvs)
            else None                                                (* L"missing non-optional param" *)
        end
    end.

  Definition build_args (m : method) (params : json) : option (list json) :=
    let ps := m_params m in
    if nil_or_empty params then
      (if (required_count ps =? 0)%nat then Some (map (fun p => zero (p_ty p)) ps) else None)
    else match params with
         | JArr vs =>
             if (List.length vs <? required_count ps)%nat || (List.length ps <? List.length vs)%nat then None
             else bind_pos ps vs
         | JObj kvs => bind_named ps kvs
         | _ => None
         end.

  (* ---------- handleRequest + the caller's wrapping of its error ---------- *)
  Definition handle_request (ms : methods) (d : dreq) : list call * option json :=
    match is_sane d with
    | SaneErrId => ([], Some (invalid_request JNull))
    | SaneErr => ([], Some (invalid_request (remarshal (d_id d))))
    | SaneOk =>
        match find_method ms (d_method d) with
        | None => ([], Some (method_not_found (d_id d)))
        | Some m =>
            match build_args m (d_params d) with
            | None => ([], Some (invalid_params (d_id d)))
            | Some args =>
                ([(m_name m, args)],
                 if is_null (d_id d) then None                        (* L"notification" *)
                 else Some (resp_of (d_id d) (run (m_name m) args)))
            end
        end
    end.

  Definition handle_single (ms : methods) (j : json) : list call * option json :=
    match decode_request j with
    | None => ([], Some parse_error)
    | Some d => handle_request ms d
    end.

  Definition handle_entry (ms : methods) (e : json) : list call * option json :=
    match decode_request e with
    | None => ([], Some (invalid_request JNull))
    | Some d => handle_request ms d
    end.

  (* HandleReader (batch requests enabled) *)
  Definition handle (ms : methods) (inp : input) : list call * option json :=
    if i_bracket inp then
      match i_parsed inp with
      | Some (JArr []) => ([], Some (invalid_request JNull))
      | Some (JArr es) => batch_out (map (handle_entry ms) es)
      | _ => ([], Some parse_error)
      end
    else
      match i_parsed inp with
      | None => ([], Some parse_error)
      | Some j => handle_single ms j
      end.

  (* HandleReader on the raw bytes *)
  Definition handle_bytes (ms : methods) (bs : str) : list call * option json :=
    handle ms (input_of_bytes bs).

  (* ================= the property text (JSON-RPC 2.0) ================= *)
  (* One entry (a single request or a batch member).  Where JSON-RPC 2.0 leaves the choice to the server
     the reading adopts juno's choice: which members an object has is decided as encoding/json decides it
     (folded names, duplicates); `"params": null` = absent; method L"" and ids with a fractional part are
     invalid; an invalid request's response echoes the id unless the id itself is what is invalid.
     Everything else follows the specification: invalid JSON values/ill-typed members are Invalid Request
     (-32600), a request is a notification iff it has NO id member, a notification never gets a response. *)
  Definition spec_entry (ms : methods) (e : json) : list call * option json :=
    match e with
    | JObj kvs =>
        let d := decode_obj kvs in
        if d_typeerr d then ([], Some (invalid_request JNull))
        else
          match is_sane d with
          | SaneErrId => ([], Some (invalid_request JNull))
          | SaneErr => ([], Some (invalid_request (remarshal (d_id d))))
          | SaneOk =>
              let notif := negb (d_idpresent d) in
              match find_method ms (d_method d) with
              | None => ([], if notif then None else Some (method_not_found (d_id d)))
              | Some m =>
                  match build_args m (d_params d) with
                  | None => ([], if notif then None else Some (invalid_params (d_id d)))
                  | Some args =>
                      ([(m_name m, args)],
                       if notif then None else Some (resp_of (d_id d) (run (m_name m) args)))
                  end
              end
          end
    | _ => ([], Some (invalid_request JNull))
    end.

  Definition spec_handle (ms : methods) (inp : input) : list call * option json :=
    match i_parsed inp with
    | None => ([], Some parse_error)
    | Some (JArr []) => ([], Some (invalid_request JNull))
    | Some (JArr es) => batch_out (map (spec_entry ms) es)
    | Some j => spec_entry ms j
    end.

  Definition spec_bytes (ms : methods) (bs : str) : list call * option json :=
    spec_handle ms (input_of_bytes bs).

  (* ---------- the situations in which the code leaves the specification ---------- *)
  (* a single request that is not an object (and not null) *)
  Definition dev_non_object (inp : input) : bool :=
    match i_parsed inp with
    | Some (JObj _) | Some JNull | Some (JArr _) | None => false
    | Some _ => true
    end.

  (* a single request object whose jsonrpc / method member is not a string *)
  Definition dev_ill_typed (inp : input) : bool :=
    match i_parsed inp with
    | Some (JObj kvs) => d_typeerr (decode_obj kvs)
    | _ => false
    end.

  Definition binds (ms : methods) (d : dreq) : bool :=
    match find_method ms (d_method d) with
    | None => false
    | Some m => match build_args m (d_params d) with Some _ => true | None => false end
    end.

  Definition sane_ok (d : dreq) : bool := match is_sane d with SaneOk => true | _ => false end.

  (* a valid request with L"id": null whose handler is invoked: treated as a notification *)
  Definition dev_null_id_entry (ms : methods) (e : json) : bool :=
    match e with
    | JObj kvs =>
        let d := decode_obj kvs in
        negb (d_typeerr d) && sane_ok d && d_idpresent d && is_null (d_id d) && binds ms d
    | _ => false
    end.

  (* a notification (no id member) with an unknown method or unbindable params: an error response is sent *)
  Definition dev_notif_error_entry (ms : methods) (e : json) : bool :=
    match e with
    | JObj kvs =>
        let d := decode_obj kvs in
        negb (d_typeerr d) && sane_ok d && negb (d_idpresent d) && negb (binds ms d)
    | _ => false
    end.

  Definition entries (inp : input) : list json :=
    match i_parsed inp with
    | None => []
    | Some (JArr es) => es
    | Some j => [j]
    end.

  Definition dev_null_id (ms : methods) (inp : input) : bool := existsb (dev_null_id_entry ms) (entries inp).
  Definition dev_notif_error (ms : methods) (inp : input) : bool := existsb (dev_notif_error_entry ms) (entries inp).

  Definition no_deviation (ms : methods) (inp : input) : bool :=
    negb (dev_batch_window inp) && negb (dev_non_object inp) && negb (dev_ill_typed inp)
    && negb (dev_null_id ms inp) && negb (dev_notif_error ms inp).
End Server.

(* ================= predicates on an observed behaviour (calls, output) ================= *)
Definition count_key (k : str) (kvs : list (str * json)) : nat :=
  List.length (filter (fun kv => fst kv =? k) kvs).

Fixpoint lookup_first (k : str) (kvs : list (str * json)) : option json :=
  match kvs with
  | [] => None
  | (k', v) :: r => if k =? k' then Some v else lookup_first k r
  end.

Definition error_object_wf (e : json) : bool :=
  match e with
  | JObj kvs =>
      forallb (fun kv => (fst kv =? L"code") || (fst kv =? L"message") || (fst kv =? L"data")) kvs
      && (count_key L"code" kvs =? 1)%nat && (count_key L"message" kvs =? 1)%nat && (count_key L"data" kvs <=? 1)%nat
      && match lookup_first L"code" kvs with Some (JNum _) => true | _ => false end
      && match lookup_first L"message" kvs with Some (JStr _) => true | _ => false end
  | _ => false
  end.

(* a JSON-RPC 2.0 response object: jsonrpc L"2.0", an id, exactly one of result / error, nothing else *)
Definition resp_object_wf (r : json) : bool :=
  match r with
  | JObj kvs =>
      forallb (fun kv => (fst kv =? L"jsonrpc") || (fst kv =? L"result") || (fst kv =? L"error") || (fst kv =? L"id")) kvs
      && (count_key L"jsonrpc" kvs =? 1)%nat && (count_key L"id" kvs =? 1)%nat
      && (count_key L"result" kvs + count_key L"error" kvs =? 1)%nat
      && match lookup_first L"jsonrpc" kvs with Some (JStr v) => v =? L"2.0" | _ => false end
      && match lookup_first L"error" kvs with Some e => error_object_wf e | None => true end
  | _ => false
  end.

Definition resp_wellformed (out : option json) : bool :=
  match out with
  | None => true
  | Some (JArr l) => negb (match l with [] => true | _ => false end) && forallb resp_object_wf l
  | Some r => resp_object_wf r
  end.

(* canonical form of a response object: members in the order jsonrpc, result, error, id; error.data dropped *)
Definition norm_error (e : json) : json :=
  match e with
  | JObj kvs =>
      JObj ((match lookup_first L"code" kvs with Some v => [(L"code", v)] | None => [] end)
            ++ (match lookup_first L"message" kvs with Some v => [(L"message", v)] | None => [] end))
  | _ => e
  end.

Definition norm_resp (r : json) : json :=
  match r with
  | JObj kvs =>
      JObj ((match lookup_first L"jsonrpc" kvs with Some v => [(L"jsonrpc", v)] | None => [] end)
            ++ (match lookup_first L"result" kvs with Some v => [(L"result", v)] | None => [] end)
            ++ (match lookup_first L"error" kvs with Some v => [(L"error", norm_error v)] | None => [] end)
            ++ (match lookup_first L"id" kvs with Some v => [(L"id", v)] | None => [] end))
  | _ => r
  end.

Inductive shape := ShNone | ShSingle | ShBatch.
Definition shape_eqb (a b : shape) : bool :=
  match a, b with ShNone, ShNone | ShSingle, ShSingle | ShBatch, ShBatch => true | _, _ => false end.
Definition shape_of (out : option json) : shape :=
  match out with None => ShNone | Some (JArr _) => ShBatch | Some _ => ShSingle end.
Definition resps_of (out : option json) : list json :=
  match out with None => [] | Some (JArr l) => l | Some r => [r] end.
Definition id_of (r : json) : json :=
  match r with
  | JObj kvs => match lookup_first L"id" kvs with Some v => v | None => JBool false end
  | _ => JBool false
  end.

(* same behaviour up to the order of batch responses / concurrent calls and up to error.data *)
Definition obs_eqb (a b : list call * option json) : bool :=
  multiset_eqb call_eqb (fst a) (fst b)
  && shape_eqb (shape_of (snd a)) (shape_of (snd b))
  && multiset_eqb json_eqb (map norm_resp (resps_of (snd a))) (map norm_resp (resps_of (snd b))).

Section Predicates.
  Variable coerce : ty -> json -> option json.
  Variable zero : ty -> json.
  Variable run : str -> list json -> hout.
  Variable ms : methods.
  Variable inp : input.

  Let expected := spec_handle coerce zero run ms inp.

  (* no output iff nothing to answer, an array iff a (non-empty, parsable) batch, and the responses carry
     exactly the ids of the requests that must be answered *)
  Definition resp_correlated (out : option json) : bool :=
    shape_eqb (shape_of out) (shape_of (snd expected))
    && multiset_eqb json_eqb (map id_of (resps_of out)) (map id_of (resps_of (snd expected))).

  (* each answered request got, under its id, the result of its handler or the standard error code of its
     situation (-32700 / -32600 / -32601 / -32602) *)
  Definition codes (out : option json) : bool :=
    shape_eqb (shape_of out) (shape_of (snd expected))
    && multiset_eqb json_eqb (map norm_resp (resps_of out)) (map norm_resp (resps_of (snd expected))).

  (* each valid request with a registered method and bindable params invoked its handler exactly once with
     the supplied arguments; nothing else was invoked *)
  Definition calls_once (calls : list call) : bool :=
    multiset_eqb call_eqb calls (fst expected).

  Definition spec_ok (obs : list call * option json) : bool :=
    resp_wellformed (snd obs) && resp_correlated (snd obs) && codes (snd obs) && calls_once (fst obs).
End Predicates.

(* ================= concrete instances (oracle, witnesses) ================= *)
(* The parameter types of the harness's handlers: int, string, bool, *int and
     type Point struct { X int `json:"x" validate:"required"`; Tag string `json:"tag"` }
   Values are represented by the JSON encoding/json produces for them. *)
Definition digit_of (c : ascii) : option Z :=
  let n := N_of_ascii c in
  if (48 <=? n)%N && (n <=? 57)%N then Some (Z.of_N (n - 48)) else None.

Fixpoint digits_to_Z (acc : Z) (s : str) : option Z :=
  match s with
  | [] => Some acc
  | c :: r => match digit_of c with
              | Some d => digits_to_Z (acc * 10 + d)%Z r
              | None => None
              end
  end.

(* strconv.ParseInt(lit, 10, 64) on a JSON number literal: only -?digits within int64 *)
Definition int64_of_literal (s : str) : option Z :=
  let r := if (20 <? List.length s)%nat then None else   (* more than 20 characters cannot be an int64 *)
           match s with
           | c :: t => if is_byte c 45 then (match t with [] => None | _ => option_map Z.opp (digits_to_Z 0 t) end)
                       else digits_to_Z 0 s
           | [] => None
           end in
  match r with
  | Some z => if (-9223372036854775808 <=? z)%Z && (z <=? 9223372036854775807)%Z then Some z else None
  | None => None
  end.

Fixpoint str_of_uint (u : uint) : str :=
  match u with
  | Nil => []
  | D0 r => "0"%char :: str_of_uint r | D1 r => "1"%char :: str_of_uint r
  | D2 r => "2"%char :: str_of_uint r | D3 r => "3"%char :: str_of_uint r
  | D4 r => "4"%char :: str_of_uint r | D5 r => "5"%char :: str_of_uint r
  | D6 r => "6"%char :: str_of_uint r | D7 r => "7"%char :: str_of_uint r
  | D8 r => "8"%char :: str_of_uint r | D9 r => "9"%char :: str_of_uint r
  end.

Definition lit_of_Z (z : Z) : str :=
  match Z.to_int z with
  | Pos u => str_of_uint u
  | Neg u => "-"%char :: str_of_uint u
  end.

(* state: x, tag, error *)
Definition point_step (st : Z * str * bool) (kv : str * json) : Z * str * bool :=
  let '(x, tag, err) := st in
  let (k, v) := kv in
  let f := fold_key k in
  if f =? L"X" then
    match v with
    | JNull => st
    | JNum s => match int64_of_literal s with Some z => (z, tag, err) | None => (x, tag, true) end
    | _ => (x, tag, true)
    end
  else if f =? L"TAG" then
    match v with
    | JNull => st
    | JStr s => (x, s, err)
    | _ => (x, tag, true)
    end
  else st.

Definition point_value (x : Z) (tag : str) : json := JObj [(L"x", JNum (lit_of_Z x)); (L"tag", JStr tag)].

Definition coerce_go (t : ty) (v : json) : option json :=
  match t, v with
  | TInt, JNull => Some (JNum L"0")
  | TInt, JNum s => option_map (fun z => JNum (lit_of_Z z)) (int64_of_literal s)
  | TStr, JNull => Some (JStr L"")
  | TStr, JStr s => Some (JStr s)
  | TBool, JNull => Some (JBool false)
  | TBool, JBool b => Some (JBool b)
  | TOptInt, JNull => Some JNull
  | TOptInt, JNum s => option_map (fun z => JNum (lit_of_Z z)) (int64_of_literal s)
  | TStruct, JNull => None                                  (* zero Point fails `required` *)
  | TStruct, JObj kvs =>
      let '(x, tag, err) := fold_left point_step (sort_keys (dedup_last kvs)) (0%Z, L"", false) in
      if err then None else if (x =? 0)%Z then None else Some (point_value x tag)
  | _, _ => None
  end.

Definition zero_go (t : ty) : json :=
  match t with
  | TInt => JNum L"0"
  | TStr => JStr L""
  | TBool => JBool false
  | TStruct => point_value 0 L""
  | TOptInt => JNull
  end.

(* every handler of the rig returns its arguments as an array, except L"fail" *)
Definition run_echo (name : str) (args : list json) : hout :=
  if name =? L"fail" then HErr L"42" L"boom" else HOk (JArr args).
